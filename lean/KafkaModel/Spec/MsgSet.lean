import KafkaModel.Spec.Proto
import KafkaModel.Algo.Snappy
import KafkaModel.Algo.Inflate
/-!
  Specification side of fetch decoding: what a message set *means*.
  A set is a sequence of entries; an entry is a plain message or a wrapper (attribute codec bits 1 = gzip,
  2 = snappy/xerial) whose value decompresses to an inner set.  A fetch may cut the last entry.
-/
namespace Kafka.Spec

/-- the complete entries at the front of (possibly truncated) set bytes -/
def completeEntries : Nat → Bytes → List Msg
  | 0, _ => []
  | fuel+1, bs =>
    match pMsg bs with
    | some (m, rest) => m :: completeEntries fuel rest
    | none => []

/-- decompressors as the specification sees them (independent of flate2 / snap) -/
structure Dec where
  gunzip : Bytes → Option Bytes
  unxerial : Bytes → Option Bytes

def leanDec : Dec where
  gunzip := fun b => match Inflate.gunzip b with | .ok o => some o | .error _ => none
  unxerial := Snappy.xerialDecode

/-- the plain messages an entry stands for (wrappers opened, `depth` levels at most) -/
def flattenMsg (dec : Dec) : Nat → Msg → List Msg
  | 0, m => [m]
  | depth+1, m =>
    let c := (toU 1 m.attr) % 8
    if c = 0 then [m]
    else
      let inner := match m.value with
        | some v => if c = 1 then dec.gunzip v else if c = 2 then dec.unxerial v else none
        | none => none
      match inner with
      | some bs => (completeEntries (bs.length + 1) bs).flatMap (flattenMsg dec depth)
      | none => []

/-- **what a fetch of `data` at offset `req` must expose**: the plain messages of the complete entries, in order,
    at or above the requested offset; null key / value read as empty -/
def exposed (dec : Dec) (depth : Nat) (data : Bytes) (req : Int) : List (Int × Bytes × Bytes) :=
  ((completeEntries (data.length + 1) data).flatMap (flattenMsg dec depth)).filterMap fun m =>
    if m.offset ≥ req then some (m.offset, m.key.getD [], m.value.getD []) else none

end Kafka.Spec
