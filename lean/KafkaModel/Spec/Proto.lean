import KafkaModel.Wire
import KafkaModel.Algo.Crc32
/-!
  Specification side: an independent reading of the Kafka v0 wire protocol
  (written from the protocol guide, not from the Rust code).

  * request grammar: parsers (what a broker accepts), strict about trailing bytes;
  * response grammar: encoders (what a broker sends);
  * message-set grammar (magic 0, CRC-32 over magic..value, attribute codec bits).
-/
namespace Kafka.Spec

/-! ## parser monad -/

def P (α : Type) := Bytes → Option (α × Bytes)

instance : Monad P where
  pure a := fun bs => some (a, bs)
  bind p f := fun bs => match p bs with
    | some (a, r) => f a r
    | none => none

def P.fail {α} : P α := fun _ => none

def pI (k : Nat) : P Int := readI k
abbrev pI8 := pI 1
abbrev pI16 := pI 2
abbrev pI32 := pI 4
abbrev pI64 := pI 8

/-- exactly `n` bytes -/
def pTake (n : Nat) : P Bytes := readN n

/-- nullable string: length −1 is null; any other negative length is malformed -/
def pNStr : P (Option Bytes) := fun bs =>
  match readI 2 bs with
  | none => none
  | some (n, r) =>
    if n = -1 then some (none, r)
    else if n < 0 then none
    else match readN n.toNat r with
      | some (s, r') => some (some s, r')
      | none => none

/-- non-null string -/
def pStr : P Bytes := fun bs =>
  match pNStr bs with
  | some (some s, r) => some (s, r)
  | _ => none

/-- nullable bytes (int32 length, −1 null) -/
def pNBytes : P (Option Bytes) := fun bs =>
  match readI 4 bs with
  | none => none
  | some (n, r) =>
    if n = -1 then some (none, r)
    else if n < 0 then none
    else match readN n.toNat r with
      | some (s, r') => some (some s, r')
      | none => none

def pRep {α} (p : P α) : Nat → P (List α)
  | 0 => pure []
  | n+1 => do
    let a ← p
    let r ← pRep p n
    pure (a :: r)

/-- protocol array: int32 count then the elements; −1 is the null array (read as empty) -/
def pArr {α} (p : P α) : P (List α) := fun bs =>
  match readI 4 bs with
  | none => none
  | some (n, r) =>
    if n = -1 then some ([], r)
    else if n < 0 then none
    else pRep p n.toNat r

/-! ## encoders for primitive protocol types -/

def eI8 (x : Int) := encI 1 x
def eI16 (x : Int) := encI 2 x
def eI32 (x : Int) := encI 4 x
def eI64 (x : Int) := encI 8 x
def eStr (s : Bytes) : Bytes := eI16 s.length ++ s
def eNStr : Option Bytes → Bytes
  | none => eI16 (-1)
  | some s => eStr s
def eBytes (s : Bytes) : Bytes := eI32 s.length ++ s
def eNBytes : Option Bytes → Bytes
  | none => eI32 (-1)
  | some s => eBytes s
def eArr {α} (e : α → Bytes) (xs : List α) : Bytes := eI32 xs.length ++ xs.flatMap e

/-! ## requests -/

structure ReqHeader where
  apiKey : Int
  apiVersion : Int
  corr : Int
  clientId : Option Bytes
deriving Repr, DecidableEq

structure FetchPart where
  partition : Int
  offset : Int
  maxBytes : Int
deriving Repr, DecidableEq

structure OffsetPart where
  partition : Int
  time : Int
  maxOffsets : Int   -- v0 only (0 for v1)
deriving Repr, DecidableEq

structure CommitPart where
  partition : Int
  offset : Int
  timestamp : Int    -- v1 only (0 otherwise)
  metadata : Option Bytes
deriving Repr, DecidableEq

inductive ReqBody
  | produce (acks timeout : Int) (topics : List (Bytes × List (Int × Bytes)))
  | fetch (replica maxWait minBytes : Int) (topics : List (Bytes × List FetchPart))
  | offsets (replica : Int) (topics : List (Bytes × List OffsetPart))
  | metadata (topics : List Bytes)
  | offsetCommit (group : Bytes) (generation : Int) (member : Bytes) (retention : Int)
      (topics : List (Bytes × List CommitPart))
  | offsetFetch (group : Bytes) (topics : List (Bytes × List Int))
  | groupCoordinator (group : Bytes)
deriving Repr, DecidableEq

structure Request where
  header : ReqHeader
  body : ReqBody
deriving Repr, DecidableEq

def pHeader : P ReqHeader := do
  let k ← pI16
  let v ← pI16
  let c ← pI32
  let cid ← pNStr
  pure ⟨k, v, c, cid⟩

def pProduce : P ReqBody := do
  let acks ← pI16
  let to ← pI32
  let ts ← pArr (do
    let t ← pStr
    let ps ← pArr (do
      let p ← pI32
      let sz ← pI32
      if sz < 0 then P.fail else
      let ms ← pTake sz.toNat
      pure (p, ms))
    pure (t, ps))
  pure (.produce acks to ts)

def pFetch : P ReqBody := do
  let rep ← pI32
  let mw ← pI32
  let mb ← pI32
  let ts ← pArr (do
    let t ← pStr
    let ps ← pArr (do
      let p ← pI32
      let o ← pI64
      let m ← pI32
      pure (⟨p, o, m⟩ : FetchPart))
    pure (t, ps))
  pure (.fetch rep mw mb ts)

def pOffsets (version : Int) : P ReqBody := do
  let rep ← pI32
  let ts ← pArr (do
    let t ← pStr
    let ps ← pArr (do
      let p ← pI32
      let time ← pI64
      if version = 0 then
        let n ← pI32
        pure (⟨p, time, n⟩ : OffsetPart)
      else pure (⟨p, time, 0⟩ : OffsetPart))
    pure (t, ps))
  pure (.offsets rep ts)

def pMetadata : P ReqBody := do
  let ts ← pArr pStr
  pure (.metadata ts)

def pOffsetCommit (version : Int) : P ReqBody := do
  let g ← pStr
  let (gen, mem) ← (if version ≥ 1 then do
      let gen ← pI32
      let mem ← pStr
      pure (gen, mem)
    else pure (-1, []) : P (Int × Bytes))
  let ret ← (if version ≥ 2 then pI64 else pure (-1) : P Int)
  let ts ← pArr (do
    let t ← pStr
    let ps ← pArr (do
      let p ← pI32
      let o ← pI64
      let ts ← (if version = 1 then pI64 else pure 0 : P Int)
      let md ← pNStr
      pure (⟨p, o, ts, md⟩ : CommitPart))
    pure (t, ps))
  pure (.offsetCommit g gen mem ret ts)

def pOffsetFetch : P ReqBody := do
  let g ← pStr
  let ts ← pArr (do
    let t ← pStr
    let ps ← pArr pI32
    pure (t, ps))
  pure (.offsetFetch g ts)

def pGroupCoordinator : P ReqBody := do
  let g ← pStr
  pure (.groupCoordinator g)

/-- body grammar by API key and version; unsupported pairs are rejected -/
def pBody (key version : Int) : P ReqBody :=
  if key = 0 ∧ version = 0 then pProduce
  else if key = 1 ∧ version = 0 then pFetch
  else if key = 2 ∧ (version = 0 ∨ version = 1) then pOffsets version
  else if key = 3 ∧ version = 0 then pMetadata
  else if key = 8 ∧ (version = 0 ∨ version = 1 ∨ version = 2) then pOffsetCommit version
  else if key = 9 ∧ (version = 0 ∨ version = 1) then pOffsetFetch
  else if key = 10 ∧ version = 0 then pGroupCoordinator
  else P.fail

def pRequest : P Request := do
  let h ← pHeader
  let b ← pBody h.apiKey h.apiVersion
  pure ⟨h, b⟩

/-- a request payload (the bytes after the frame length) parses completely -/
def parseRequest (payload : Bytes) : Option Request :=
  match pRequest payload with
  | some (r, []) => some r
  | _ => none

/-- a complete frame: 4-byte length prefix equal to the payload length -/
def parseFrame (frame : Bytes) : Option Request :=
  match readI 4 frame with
  | some (n, payload) => if n = payload.length then parseRequest payload else none
  | none => none

/-! ## message sets (magic 0) -/

structure Msg where
  offset : Int
  attr : Int
  key : Option Bytes
  value : Option Bytes
deriving Repr, DecidableEq, Inhabited

/-- the CRC-covered part: magic, attributes, key, value -/
def msgBody (attr : Int) (key value : Option Bytes) : Bytes :=
  eI8 0 ++ eI8 attr ++ eNBytes key ++ eNBytes value

def crcField (body : Bytes) : Bytes := be 4 (crc32 body).toNat

def encMsg (m : Msg) : Bytes :=
  let body := msgBody m.attr m.key m.value
  eI64 m.offset ++ eI32 (4 + body.length) ++ crcField body ++ body

def encMsgs (ms : List Msg) : Bytes := ms.flatMap encMsg

/-- one entry: offset, size, then exactly `size` bytes holding crc, magic 0, attr, key, value -/
def pMsg : P Msg := fun bs =>
  match readI 8 bs with
  | none => none
  | some (off, r1) =>
  match readI 4 r1 with
  | none => none
  | some (sz, r2) =>
  if sz < 0 then none else
  match readN sz.toNat r2 with
  | none => none
  | some (m, rest) =>
  match readN 4 m with
  | none => none
  | some (crc, body) =>
  if unbe crc ≠ (crc32 body).toNat then none else
  match (do
      let magic ← pI8
      let attr ← pI8
      let k ← pNBytes
      let v ← pNBytes
      pure (magic, attr, k, v) : P _) body with
  | some ((magic, attr, k, v), []) =>
    if magic = 0 then some (⟨off, attr, k, v⟩, rest) else none
  | _ => none

def pMsgsFuel : Nat → Bytes → Option (List Msg)
  | 0, bs => if bs.isEmpty then some [] else none
  | n+1, bs =>
    if bs.isEmpty then some [] else
    match pMsg bs with
    | some (m, r) =>
      match pMsgsFuel n r with
      | some ms => some (m :: ms)
      | none => none
    | none => none

/-- strict parse of a complete message set: every size exact, every CRC right, nothing left -/
def parseMessageSet (bs : Bytes) : Option (List Msg) := pMsgsFuel bs.length bs

/-! ## responses (what a broker sends) -/

structure BrokerMeta where
  nodeId : Int
  host : Bytes
  port : Int
deriving Repr, DecidableEq

structure PartMeta where
  err : Int
  id : Int
  leader : Int
  replicas : List Int
  isr : List Int
deriving Repr, DecidableEq

structure TopicMeta where
  err : Int
  name : Bytes
  parts : List PartMeta
deriving Repr, DecidableEq

structure FetchPartResp where
  partition : Int
  err : Int
  hw : Int
  set : Bytes
deriving Repr, DecidableEq

inductive RespBody
  | metadata (brokers : List BrokerMeta) (topics : List TopicMeta)
  | produce (topics : List (Bytes × List (Int × Int × Int)))              -- partition, error, offset
  | fetch (topics : List (Bytes × List FetchPartResp))
  | offsets (topics : List (Bytes × List (Int × Int × List Int)))        -- partition, error, offsets (v0)
  | listOffsets (topics : List (Bytes × List (Int × Int × Int × Int)))   -- partition, error, timestamp, offset (v1)
  | groupCoordinator (err nodeId : Int) (host : Bytes) (port : Int)
  | offsetCommit (topics : List (Bytes × List (Int × Int)))              -- partition, error
  | offsetFetch (topics : List (Bytes × List (Int × Int × Option Bytes × Int)))  -- partition, offset, metadata, error
deriving Repr

def encBrokerMeta (b : BrokerMeta) : Bytes := eI32 b.nodeId ++ eStr b.host ++ eI32 b.port
def encPartMeta (p : PartMeta) : Bytes :=
  eI16 p.err ++ eI32 p.id ++ eI32 p.leader ++ eArr eI32 p.replicas ++ eArr eI32 p.isr
def encTopicMeta (t : TopicMeta) : Bytes := eI16 t.err ++ eStr t.name ++ eArr encPartMeta t.parts
def encFetchPartResp (p : FetchPartResp) : Bytes := eI32 p.partition ++ eI16 p.err ++ eI64 p.hw ++ eBytes p.set

/-- topic name followed by the array of its per-partition entries -/
def encRespTopic {α} (e : α → Bytes) (t : Bytes × List α) : Bytes := eStr t.1 ++ eArr e t.2

def encProducePartResp (x : Int × Int × Int) : Bytes := eI32 x.1 ++ eI16 x.2.1 ++ eI64 x.2.2
def encOffsetPartResp (x : Int × Int × List Int) : Bytes := eI32 x.1 ++ eI16 x.2.1 ++ eArr eI64 x.2.2
def encListOffsetPartResp (x : Int × Int × Int × Int) : Bytes := eI32 x.1 ++ eI16 x.2.1 ++ eI64 x.2.2.1 ++ eI64 x.2.2.2
def encCommitPartResp (x : Int × Int) : Bytes := eI32 x.1 ++ eI16 x.2
def encOffsetFetchPartResp (x : Int × Int × Option Bytes × Int) : Bytes :=
  eI32 x.1 ++ eI64 x.2.1 ++ eNStr x.2.2.1 ++ eI16 x.2.2.2

def encRespBody : RespBody → Bytes
  | .metadata bs ts => eArr encBrokerMeta bs ++ eArr encTopicMeta ts
  | .produce ts => eArr (encRespTopic encProducePartResp) ts
  | .fetch ts => eArr (encRespTopic encFetchPartResp) ts
  | .offsets ts => eArr (encRespTopic encOffsetPartResp) ts
  | .listOffsets ts => eArr (encRespTopic encListOffsetPartResp) ts
  | .groupCoordinator e n h p => eI16 e ++ eI32 n ++ eStr h ++ eI32 p
  | .offsetCommit ts => eArr (encRespTopic encCommitPartResp) ts
  | .offsetFetch ts => eArr (encRespTopic encOffsetFetchPartResp) ts

/-- response payload: correlation id then the body -/
def encResponse (corr : Int) (b : RespBody) : Bytes := eI32 corr ++ encRespBody b

/-- a complete response frame -/
def frame (payload : Bytes) : Bytes := eI32 payload.length ++ payload

end Kafka.Spec
