import KafkaModel.Spec.Proto
import KafkaModel.Algo.Snappy
import KafkaModel.Algo.Inflate
/-!
  Specification side: an abstract Kafka cluster and the behaviour of a conforming broker.
  The real client is run against *this* (lock-step over a pipe), and the theorems quantify over it.
-/
namespace Kafka.Spec

structure LogEntry where
  first : Int
  last : Int
  bytes : Bytes
deriving Repr, DecidableEq

structure PartState where
  leader : Int := -1
  entries : List LogEntry := []
  earliest : Int := 0
  hw : Int := 0
  produced : Int := 0
deriving Repr

structure TopicState where
  name : Bytes
  parts : List PartState
deriving Repr

structure Fault where
  api : Int
  topic : Option Bytes      -- none = any
  partition : Option Int    -- none = any
  code : Int
  count : Nat
deriving Repr

inductive Order | req | rev | rot (k : Nat)
deriving Repr

structure Cluster where
  brokers : List BrokerMeta := []
  topics : List TopicState := []
  groups : List ((Bytes × Bytes × Int) × Int) := []
  coordinator : Int := -1
  faults : List Fault := []
  scripts : List (Int × List Int) := []      -- api key ↦ per-request codes, consumed front first
  order : Order := .req
  /-- when set, a partition answered with an injected error still carries its data (hostile but well-formed) -/
  dataWithError : Bool := true
  /-- brokers that answer a fetch with a well-formed reply of an unusual shape: 1 = no topics at all,
      2 = every asked topic listed without partitions, 3 = what was asked plus every other partition of the asked topics
      that this broker leads, with an empty set and its high watermark (nothing in the protocol forbids any of these) -/
  fetchShape : List (Int × Nat) := []
deriving Repr

/-! ### message-set construction for logs -/

def codecAttr (c : Nat) : Int := c

/-- compress per codec id: 1 = gzip (stored blocks), 2 = snappy (xerial framing, literal blocks) -/
def compress (codec : Nat) (chunk : Nat) (bs : Bytes) : Bytes :=
  if codec = 1 then Inflate.gzipStored bs else Snappy.xerialEncode chunk bs

/-- a wrapper message around an inner (already encoded) message set; its offset is the last inner offset -/
def wrapSet (codec : Nat) (chunk : Nat) (lastOffset : Int) (inner : Bytes) : Bytes :=
  encMsg ⟨lastOffset, codecAttr codec, none, some (compress codec chunk inner)⟩

def lastOffsetOf (ms : List Msg) : Int := match ms.getLast? with | some m => m.offset | none => 0
def firstOffsetOf (ms : List Msg) : Int := match ms.head? with | some m => m.offset | none => 0

/-- top-level log entries for a run of plain messages (one entry each) -/
def plainEntries (ms : List Msg) : List LogEntry := ms.map fun m => ⟨m.offset, m.offset, encMsg m⟩

def compEntry (codec chunk : Nat) (ms : List Msg) : LogEntry :=
  ⟨firstOffsetOf ms, lastOffsetOf ms, wrapSet codec chunk (lastOffsetOf ms) (encMsgs ms)⟩

def nestedEntry (c1 c2 chunk : Nat) (ms : List Msg) : LogEntry :=
  ⟨firstOffsetOf ms, lastOffsetOf ms,
    wrapSet c1 chunk (lastOffsetOf ms) (wrapSet c2 chunk (lastOffsetOf ms) (encMsgs ms))⟩

/-! ### helpers -/

def modifyAt {α} (f : α → α) : Nat → List α → List α
  | _, [] => []
  | 0, a :: r => f a :: r
  | n+1, a :: r => a :: modifyAt f n r

def Cluster.topic? (c : Cluster) (t : Bytes) : Option TopicState := c.topics.find? (·.name == t)

def Cluster.part? (c : Cluster) (t : Bytes) (p : Int) : Option PartState :=
  match c.topic? t with
  | some ts => if p < 0 then none else ts.parts[p.toNat]?
  | none => none

def Cluster.modPart (c : Cluster) (t : Bytes) (p : Nat) (f : PartState → PartState) : Cluster :=
  { c with topics := c.topics.map fun ts => if ts.name == t then { ts with parts := modifyAt f p ts.parts } else ts }

def Cluster.nodeOfHost (c : Cluster) (host : Bytes) : Option Int :=
  (c.brokers.find? fun b => b.host ++ strBytes ":" ++ strBytes (toString b.port) == host).map (·.nodeId)

def reorder {α} (o : Order) (xs : List α) : List α :=
  match o with
  | .req => xs
  | .rev => xs.reverse
  | .rot k => if xs.isEmpty then xs else xs.drop (k % xs.length) ++ xs.take (k % xs.length)

/-- take the injected error code for (api, topic, partition), if any fault matches -/
def takeFault (fs : List Fault) (api : Int) (t : Bytes) (p : Int) : Option Int × List Fault :=
  match fs with
  | [] => (none, [])
  | f :: r =>
    if f.count > 0 ∧ f.api = api ∧ (f.topic = none ∨ f.topic = some t) ∧ (f.partition = none ∨ f.partition = some p) then
      (some f.code, { f with count := f.count - 1 } :: r)
    else
      let (c, r') := takeFault r api t p
      (c, f :: r')

def takeScript (ss : List (Int × List Int)) (api : Int) : Option Int × List (Int × List Int) :=
  match ss with
  | [] => (none, [])
  | (k, cs) :: r =>
    if k = api then
      match cs with
      | c :: cs' => (some c, (k, cs') :: r)
      | [] => let (x, r') := takeScript r api; (x, (k, cs) :: r')
    else let (x, r') := takeScript r api; (x, (k, cs) :: r')

/-- map over partitions of a topic threading the cluster (faults are consumed) -/
def mapParts {α β} (c : Cluster) (xs : List α) (f : Cluster → α → Cluster × β) : Cluster × List β :=
  xs.foldl (fun (acc : Cluster × List β) x => let (c', b) := f acc.1 x; (c', acc.2 ++ [b])) (c, [])

/-! ### per-API semantics -/

/-- the bytes a conforming broker returns for a fetch at `offset` with `maxBytes`:
    the encoded log from the first entry whose last offset is ≥ offset, cut at `maxBytes` -/
def fetchBytes (ps : PartState) (offset maxBytes : Int) : Bytes :=
  let es := ps.entries.dropWhile (fun e => e.last < offset)
  (es.flatMap (·.bytes)).take maxBytes.toNat

def offsetForTime (ps : PartState) (time : Int) : Int :=
  if time = -1 then ps.hw
  else if time = -2 then ps.earliest
  else ps.earliest + time % (ps.hw - ps.earliest + 1)

def handleMetadata (c : Cluster) (names : List Bytes) : RespBody :=
  let ts := if names.isEmpty then c.topics.map (·.name) else names
  -- (the broker list is reordered like every other list: a client must go by the node ids, not by positions)
  .metadata (reorder c.order c.brokers) (reorder c.order (ts.map fun n =>
    match c.topic? n with
    | some t => ⟨0, n, reorder c.order ((List.range t.parts.length).zip t.parts |>.map fun (i, p) =>
        ⟨if p.leader < 0 then 5 else 0, i, p.leader, [], []⟩)⟩
    | none => ⟨3, n, []⟩))

def handleFetch (c : Cluster) (node : Int) (topics : List (Bytes × List FetchPart)) : Cluster × RespBody :=
  match (c.fetchShape.find? (·.1 == node)).map (·.2) with
  | some 1 => (c, .fetch [])
  | some 2 => (c, .fetch ((reorder c.order topics).map fun (t, _) => (t, [])))
  | _ =>
  let (c, ts) := mapParts c (reorder c.order topics) fun c (t, ps) =>
    let (c, rs) := mapParts c (reorder c.order ps) fun c fp =>
      let (fault, fs) := takeFault c.faults 1 t fp.partition
      let c := { c with faults := fs }
      match c.part? t fp.partition with
      | none => (c, (⟨fp.partition, fault.getD 3, -1, []⟩ : FetchPartResp))
      | some ps =>
        if ps.leader ≠ node then (c, ⟨fp.partition, fault.getD 6, -1, []⟩)
        else if fp.offset < ps.earliest ∨ fp.offset > ps.hw then (c, ⟨fp.partition, fault.getD 1, ps.hw, []⟩)
        else
          let data := fetchBytes ps fp.offset fp.maxBytes
          match fault with
          | some code => (c, ⟨fp.partition, code, ps.hw, if c.dataWithError then data else []⟩)
          | none => (c, ⟨fp.partition, 0, ps.hw, data⟩)
    -- shape 3: the broker volunteers the other partitions it leads of the asked topics
    let extra : List FetchPartResp :=
      if (c.fetchShape.find? (·.1 == node)).map (·.2) == some 3 then
        match c.topic? t with
        | some tstate => ((List.range tstate.parts.length).zip tstate.parts).filterMap fun (i, pst) =>
            if pst.leader == node && !(ps.any fun fp => fp.partition == (i : Int)) then some ⟨(i : Int), 0, pst.hw, []⟩ else none
        | none => []
      else []
    (c, (t, rs ++ extra))
  (c, .fetch ts)

def handleOffsets (c : Cluster) (node : Int) (v1 : Bool) (topics : List (Bytes × List OffsetPart)) : Cluster × RespBody :=
  let (c, ts) := mapParts c (reorder c.order topics) fun c (t, ps) =>
    let (c, rs) := mapParts c (reorder c.order ps) fun c op =>
      let (fault, fs) := takeFault c.faults 2 t op.partition
      let c := { c with faults := fs }
      let (code, off) : Int × Int :=
        match c.part? t op.partition with
        | none => (fault.getD 3, -1)
        | some ps => if ps.leader ≠ node then (fault.getD 6, -1) else (fault.getD 0, offsetForTime ps op.time)
      (c, (op.partition, code, off, op.time))
    (c, (t, rs))
  if v1 then (c, .listOffsets (ts.map fun (t, rs) => (t, rs.map fun (p, e, o, tm) => (p, e, (if e = 0 then tm else -1), o))))
  else (c, .offsets (ts.map fun (t, rs) => (t, rs.map fun (p, e, o, _) => (p, e, if e = 0 then [o] else []))))

def countMsgs (set : Bytes) : Option Nat := (parseMessageSet set).map (·.length)

def handleProduce (c : Cluster) (node : Int) (topics : List (Bytes × List (Int × Bytes))) : Cluster × RespBody :=
  let (c, ts) := mapParts c (reorder c.order topics) fun c (t, ps) =>
    let (c, rs) := mapParts c (reorder c.order ps) fun c (p, set) =>
      let (fault, fs) := takeFault c.faults 0 t p
      let c := { c with faults := fs }
      match c.part? t p with
      | none => (c, (p, fault.getD 3, (-1 : Int)))
      | some ps =>
        if ps.leader ≠ node then (c, (p, fault.getD 6, -1))
        else match fault with
          | some code => (c, (p, code, -1))
          | none =>
            match countMsgs set with
            | none => (c, (p, 2, -1))
            | some n =>
              -- a log cannot grow past the largest offset a reply can state: such an append is refused
              if ps.hw + ps.produced + n > 9223372036854775807 then (c, (p, 2, -1)) else
              (c.modPart t p.toNat (fun ps => { ps with produced := ps.produced + n }), (p, 0, ps.hw + ps.produced))
    (c, (t, rs))
  (c, .produce ts)

def handleCoordinator (c : Cluster) : Cluster × RespBody :=
  let (code, ss) := takeScript c.scripts 10
  let c := { c with scripts := ss }
  match code with
  | some e => if e ≠ 0 then (c, .groupCoordinator e (-1) [] (-1)) else
      match c.brokers.find? (·.nodeId == c.coordinator) with
      | some b => (c, .groupCoordinator 0 b.nodeId b.host b.port)
      | none => (c, .groupCoordinator 15 (-1) [] (-1))
  | none =>
    match c.brokers.find? (·.nodeId == c.coordinator) with
    | some b => (c, .groupCoordinator 0 b.nodeId b.host b.port)
    | none => (c, .groupCoordinator 15 (-1) [] (-1))

def setGroup (gs : List ((Bytes × Bytes × Int) × Int)) (k : Bytes × Bytes × Int) (v : Int) :=
  (k, v) :: gs.filter (fun e => e.1 != k)

/-- a group's offsets live in two independent stores: ZooKeeper's (what version 0 of OffsetCommit and OffsetFetch writes
    and reads) and Kafka's own (version 1).  One association list holds both: the Kafka store's entries carry the group
    name behind a byte (255) that no UTF-8 name contains. -/
def storeGroup (version : Int) (g : Bytes) : Bytes := if version = 0 then g else 255 :: g

def handleCommit (c : Cluster) (node : Int) (version : Int) (group : Bytes) (topics : List (Bytes × List CommitPart)) : Cluster × RespBody :=
  let (script, ss) := takeScript c.scripts 8
  let c := { c with scripts := ss }
  let base : Int := match script with
    | some e => e
    | none => if node ≠ c.coordinator then 16 else 0
  let (c, ts) := mapParts c (reorder c.order topics) fun c (t, ps) =>
    let (c, rs) := mapParts c (reorder c.order ps) fun c cp =>
      let (fault, fs) := takeFault c.faults 8 t cp.partition
      let c := { c with faults := fs }
      let code := fault.getD (if base ≠ 0 then base else if (c.part? t cp.partition).isNone then 3 else 0)
      let c := if code = 0 then { c with groups := setGroup c.groups (storeGroup version group, t, cp.partition) cp.offset } else c
      (c, (cp.partition, code))
    (c, (t, rs))
  (c, .offsetCommit ts)

def handleOffsetFetch (c : Cluster) (node : Int) (version : Int) (group : Bytes) (topics : List (Bytes × List Int)) : Cluster × RespBody :=
  let (script, ss) := takeScript c.scripts 9
  let c := { c with scripts := ss }
  let base : Int := match script with
    | some e => e
    | none => if node ≠ c.coordinator then 16 else 0
  let (c, ts) := mapParts c (reorder c.order topics) fun c (t, ps) =>
    let (c, rs) := mapParts c (reorder c.order ps) fun c p =>
      let (fault, fs) := takeFault c.faults 9 t p
      let c := { c with faults := fs }
      let stored := (c.groups.find? (fun e => e.1 == (storeGroup version group, t, p))).map (·.2)
      let code := fault.getD base
      if code ≠ 0 then (c, (p, (-1 : Int), some ([] : Bytes), code)) else
      match stored with
      | some o => (c, (p, o, some [], 0))
      | none => (c, (p, -1, some [], if version = 0 then 3 else 0))
    (c, (t, rs))
  (c, .offsetFetch ts)

/-- what the broker at `host` answers to one request, as structured content; `none` = no reply (produce with acks 0) -/
def handleBody (c : Cluster) (host : Bytes) (req : Request) : Cluster × Option RespBody :=
  let node := (c.nodeOfHost host).getD (-1)
  match req.body with
  | .metadata names => (c, some (handleMetadata c names))
  | .fetch _ _ _ ts => let (c, b) := handleFetch c node ts; (c, some b)
  | .offsets _ ts => let (c, b) := handleOffsets c node (req.header.apiVersion = 1) ts; (c, some b)
  | .produce acks _ ts =>
    let (c, b) := handleProduce c node ts
    if acks = 0 then (c, none) else (c, some b)
  | .groupCoordinator _ => let (c, b) := handleCoordinator c; (c, some b)
  | .offsetCommit g _ _ _ ts => let (c, b) := handleCommit c node req.header.apiVersion g ts; (c, some b)
  | .offsetFetch g ts => let (c, b) := handleOffsetFetch c node req.header.apiVersion g ts; (c, some b)

/-- the reply payload on the wire -/
def handle (c : Cluster) (host : Bytes) (req : Request) : Cluster × Option Bytes :=
  let (c', b) := handleBody c host req
  (c', b.map (encResponse req.header.corr))

end Kafka.Spec
