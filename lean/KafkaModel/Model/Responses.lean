import KafkaModel.Model.Basic
/-!
  Model of the Rust crate, part 3: `FromByte` impls of the responses
  (src/protocol/{metadata,offset,list_offset,produce,consumer}.rs) and their accessors.
  Decoding ignores trailing bytes, exactly as `T::decode_new(&mut Cursor::new(resp))` does.
-/
namespace Kafka.Model

structure BrokerMd where
  nodeId : Int
  host : Bytes
  port : Int
deriving Repr, DecidableEq

structure PartitionMd where
  err : Int
  id : Int
  leader : Int
  replicas : List Int
  isr : List Int
deriving Repr, DecidableEq

structure TopicMd where
  err : Int
  topic : Bytes
  partitions : List PartitionMd
deriving Repr, DecidableEq

structure MetadataResponse where
  corr : Int
  brokers : List BrokerMd
  topics : List TopicMd
deriving Repr, DecidableEq

def rBrokerMd : Dec BrokerMd := fun bs => do
  let (n, r) ← rI 4 bs
  let (h, r) ← rString r
  let (p, r) ← rI 4 r
  pure (⟨n, h, p⟩, r)

def rPartitionMd : Dec PartitionMd := fun bs => do
  let (e, r) ← rI 2 bs
  let (id, r) ← rI 4 r
  let (l, r) ← rI 4 r
  let (rep, r) ← rVec (rI 4) r
  let (isr, r) ← rVec (rI 4) r
  pure (⟨e, id, l, rep, isr⟩, r)

def rTopicMd : Dec TopicMd := fun bs => do
  let (e, r) ← rI 2 bs
  let (t, r) ← rString r
  let (ps, r) ← rVec rPartitionMd r
  pure (⟨e, t, ps⟩, r)

def rMetadataResponse : Dec MetadataResponse := fun bs => do
  let (c, r) ← rI 4 bs
  let (b, r) ← rVec rBrokerMd r
  let (t, r) ← rVec rTopicMd r
  pure (⟨c, b, t⟩, r)

/-! offsets v0 -/
structure PartOffsetResp where
  partition : Int
  err : Int
  offsets : List Int
deriving Repr, DecidableEq

structure OffsetResponse where
  corr : Int
  topics : List (Bytes × List PartOffsetResp)
deriving Repr, DecidableEq

def rPartOffsetResp : Dec PartOffsetResp := fun bs => do
  let (p, r) ← rI 4 bs
  let (e, r) ← rI 2 r
  let (os, r) ← rVec (rI 8) r
  pure (⟨p, e, os⟩, r)

def rTopicOf {α} (p : Dec α) : Dec (Bytes × List α) := fun bs => do
  let (t, r) ← rString bs
  let (ps, r) ← rVec p r
  pure ((t, ps), r)

def rOffsetResponse : Dec OffsetResponse := fun bs => do
  let (c, r) ← rI 4 bs
  let (ts, r) ← rVec (rTopicOf rPartOffsetResp) r
  pure (⟨c, ts⟩, r)

/-- `PartitionOffsetResponse::to_offset`: (partition, offset) or the error code -/
def PartOffsetResp.toOffset (p : PartOffsetResp) : Except Int (Int × Int) :=
  match kafkaCode p.err with
  | some c => .error c
  | none => .ok (p.partition, p.offsets.head?.getD (-1))

/-! list offsets v1 -/
structure PartListOffsetResp where
  partition : Int
  err : Int
  timestamp : Int
  offset : Int
deriving Repr, DecidableEq

structure ListOffsetsResponse where
  corr : Int
  topics : List (Bytes × List PartListOffsetResp)
deriving Repr, DecidableEq

def rPartListOffsetResp : Dec PartListOffsetResp := fun bs => do
  let (p, r) ← rI 4 bs
  let (e, r) ← rI 2 r
  let (ts, r) ← rI 8 r
  let (o, r) ← rI 8 r
  pure (⟨p, e, ts, o⟩, r)

def rListOffsetsResponse : Dec ListOffsetsResponse := fun bs => do
  let (c, r) ← rI 4 bs
  let (ts, r) ← rVec (rTopicOf rPartListOffsetResp) r
  pure (⟨c, ts⟩, r)

/-- (partition, offset, time) or the error code -/
def PartListOffsetResp.toOffset (p : PartListOffsetResp) : Except Int (Int × Int × Int) :=
  match kafkaCode p.err with
  | some c => .error c
  | none => .ok (p.partition, p.offset, p.timestamp)

/-! produce -/
structure PartProduceResp where
  partition : Int
  err : Int
  offset : Int
deriving Repr, DecidableEq

structure ProduceResponse where
  corr : Int
  topics : List (Bytes × List PartProduceResp)
deriving Repr, DecidableEq

def rPartProduceResp : Dec PartProduceResp := fun bs => do
  let (p, r) ← rI 4 bs
  let (e, r) ← rI 2 r
  let (o, r) ← rI 8 r
  pure (⟨p, e, o⟩, r)

def rProduceResponse : Dec ProduceResponse := fun bs => do
  let (c, r) ← rI 4 bs
  let (ts, r) ← rVec (rTopicOf rPartProduceResp) r
  pure (⟨c, ts⟩, r)

/-- `ProducePartitionConfirm`: partition and `Ok(offset)` / `Err(code)` -/
structure PartConfirm where
  partition : Int
  offset : Except Int Int
deriving Repr

structure ProduceConfirm where
  topic : Bytes
  confirms : List PartConfirm
deriving Repr

def PartProduceResp.confirm (p : PartProduceResp) : PartConfirm :=
  ⟨p.partition, match kafkaCode p.err with | none => .ok p.offset | some c => .error c⟩

def ProduceResponse.getResponse (r : ProduceResponse) : List ProduceConfirm :=
  r.topics.map fun (t, ps) => ⟨t, ps.map (·.confirm)⟩

/-! group coordinator -/
structure GroupCoordinatorResponse where
  corr : Int
  err : Int
  brokerId : Int
  host : Bytes
  port : Int
deriving Repr, DecidableEq

def rGroupCoordinatorResponse : Dec GroupCoordinatorResponse := fun bs => do
  let (c, r) ← rI 4 bs
  let (e, r) ← rI 2 r
  let (b, r) ← rI 4 r
  let (h, r) ← rString r
  let (p, r) ← rI 4 r
  pure (⟨c, e, b, h, p⟩, r)

/-! offset fetch -/
structure PartOffsetFetchResp where
  partition : Int
  offset : Int
  metadata : Bytes
  err : Int
deriving Repr, DecidableEq

structure OffsetFetchResponse where
  corr : Int
  topics : List (Bytes × List PartOffsetFetchResp)
deriving Repr, DecidableEq

def rPartOffsetFetchResp : Dec PartOffsetFetchResp := fun bs => do
  let (p, r) ← rI 4 bs
  let (o, r) ← rI 8 r
  let (m, r) ← rString r
  let (e, r) ← rI 2 r
  pure (⟨p, o, m, e⟩, r)

def rOffsetFetchResponse : Dec OffsetFetchResponse := fun bs => do
  let (c, r) ← rI 4 bs
  let (ts, r) ← rVec (rTopicOf rPartOffsetFetchResp) r
  pure (⟨c, ts⟩, r)

/-- `PartitionOffsetFetchResponse::get_offsets`: code 3 reads as "nothing committed" (offset −1) -/
def PartOffsetFetchResp.getOffsets (p : PartOffsetFetchResp) : Except Err (Int × Int) :=
  match kafkaCode p.err with
  | some 3 => .ok (p.partition, -1)
  | some c => .error (.kafka c)
  | none => .ok (p.partition, p.offset)

/-! offset commit -/
structure OffsetCommitResponse where
  corr : Int
  topics : List (Bytes × List (Int × Int))   -- partition, error
deriving Repr, DecidableEq

def rPartCommitResp : Dec (Int × Int) := fun bs => do
  let (p, r) ← rI 4 bs
  let (e, r) ← rI 2 r
  pure ((p, e), r)

def rOffsetCommitResponse : Dec OffsetCommitResponse := fun bs => do
  let (c, r) ← rI 4 bs
  let (ts, r) ← rVec (rTopicOf rPartCommitResp) r
  pure (⟨c, ts⟩, r)

end Kafka.Model
