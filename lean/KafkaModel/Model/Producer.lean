import KafkaModel.Model.Client
import KafkaModel.Algo.Xxh32
/-!
  Model of the Rust crate, part 7: `Producer`, its builder and `DefaultPartitioner` (src/producer.rs).
-/
namespace Kafka.Model

structure Partitions where
  available : List Int
  numAll : Nat
deriving Repr, DecidableEq

structure Record where
  topic : Bytes
  partition : Int
  key : Bytes        -- `AsBytes`: empty = absent
  value : Bytes
deriving Repr, DecidableEq

/-- `to_option` -/
def toOption (b : Bytes) : Option Bytes := if b.isEmpty then none else some b

/-- `DefaultPartitioner::partition` (producer.rs:647-692): returns the partition and the new counter -/
def partition (cntr : Nat) (topics : List (Bytes × Partitions)) (t : Bytes) (p : Int) (key : Option Bytes) : Int × Nat :=
  if p ≥ 0 then (p, cntr)
  else match assocGet topics t with
    | none => (p, cntr)
    | some ps =>
      match key with
      | some k =>
        if ps.numAll = 0 then (p, cntr)
        else (wrapI 4 ((Xxh.xxh32 0 k).toNat % ps.numAll), cntr)
      | none =>
        if ps.available.isEmpty then (p, cntr)
        else (ps.available[cntr % ps.available.length]!, (cntr + 1) % 4294967296)

structure Producer where
  client : Client
  partitions : List (Bytes × Partitions)
  cntr : Nat := 0
  ackTimeout : Int
  acks : Int
deriving Repr

/-- `State::new`: availability and partition count captured at creation -/
def producerPartitions (st : ClientState) : List (Bytes × Partitions) :=
  st.topics.map fun (t, ps) =>
    (t, ⟨(List.range ps.length).zip ps |>.filterMap (fun (i, b) => (st.brokers[b]?).map fun _ => ((i : Nat) : Int)), ps.length % 4294967296⟩)

/-- builder calls in the order made -/
inductive PBOp
  | compression (c : Nat)
  | ackTimeout (secs nanos : Nat)
  | idleTimeout (ms : Nat)
  | acks (a : Int)
  | clientId (id : Bytes)
  | partitioner (cntr : Nat)      -- `with_partitioner(DefaultPartitioner …)`
deriving Repr

structure ProducerBuilder where
  client : Option Client := none
  hosts : List Bytes := []
  compression : Nat := 0
  ackTimeout : Nat × Nat := (30, 0)
  idleTimeoutMs : Nat := 540000
  acks : Int := 1
  cntr : Nat := 0
  clientId : Option Bytes := none
deriving Repr

def ProducerBuilder.new (client : Option Client) (hosts : List Bytes) : ProducerBuilder :=
  match client with
  | some c => { client := some c, hosts := hosts, compression := c.cfg.compression, idleTimeoutMs := c.cfg.idleTimeoutMs }
  | none => { hosts := hosts }

def ProducerBuilder.apply (b : ProducerBuilder) : PBOp → ProducerBuilder
  | .compression c => { b with compression := c }
  | .ackTimeout s n => { b with ackTimeout := (s, n) }
  | .idleTimeout ms => { b with idleTimeoutMs := ms }
  | .acks a => { b with acks := a }
  | .clientId id => { b with clientId := some id }
  | .partitioner cntr => { b with cntr := cntr }     -- every other field is carried over

variable {σ : Type}

/-- `Builder::create` (producer.rs:475-506) -/
def ProducerBuilder.create (env : Env σ) (b : ProducerBuilder) : M σ Producer := fun world =>
  let (client0, needMd) := match b.client with
    | some c => (c, false)
    | none => (({ cfg := { hosts := b.hosts } } : Client), true)
  let cfg0 := client0.cfg
  let cfg : Config := { cfg0 with
    compression := b.compression
    idleTimeoutMs := b.idleTimeoutMs
    clientId := b.clientId.getD cfg0.clientId }
  let client : Client := { client0 with cfg := cfg }
  match toMillisI32 b.ackTimeout.1 b.ackTimeout.2 with
  | .error e => (world, .err e)
  | .ok to =>
    let m : CM σ Unit := if needMd then loadMetadataAll env else pure ()
    match m ⟨world, client⟩ with
    | (w, .ok ()) =>
      (w.world, .ok { client := w.client, partitions := producerPartitions w.client.st, cntr := b.cntr,
                      ackTimeout := to, acks := b.acks })
    | (w, .err e) => (w.world, .err e)
    | (w, .panic s) => (w.world, .panic s)
    | (w, .diverge) => (w.world, .diverge)

structure WP (σ : Type) where
  world : σ
  prod : Producer

/-- the partitioner pass of `send_all`: records ↦ produce messages, counter threaded, input order kept -/
def partitionAll (topics : List (Bytes × Partitions)) : Nat → List Record → List ProduceArg × Nat
  | cntr, [] => ([], cntr)
  | cntr, r :: rs =>
    let key := toOption r.key
    let (p, cntr') := partition cntr topics r.topic r.partition key
    let (rest, c'') := partitionAll topics cntr' rs
    (⟨r.topic, p, key, toOption r.value⟩ :: rest, c'')

/-- the same pass as consumed by `internal_produce_messages`: the record iterator is lazy, so the
    partitioner stops being called after the first record whose destination is unknown -/
def partitionLazy (st : ClientState) (topics : List (Bytes × Partitions)) : Nat → List Record → List ProduceArg × Nat
  | cntr, [] => ([], cntr)
  | cntr, r :: rs =>
    let key := toOption r.key
    let (p, cntr') := partition cntr topics r.topic r.partition key
    let m : ProduceArg := ⟨r.topic, p, key, toOption r.value⟩
    if (st.findBroker r.topic p).isNone then ([m], cntr')
    else
      let (rest, c'') := partitionLazy st topics cntr' rs
      (m :: rest, c'')

/-- `Producer::send_all` -/
def sendAll (env : Env σ) (recs : List Record) : M (WP σ) (List ProduceConfirm) := fun w =>
  let (msgs, cntr) := partitionLazy w.prod.client.st w.prod.partitions w.prod.cntr recs
  let (w', o) := internalProduce env w.prod.acks w.prod.ackTimeout msgs ⟨w.world, w.prod.client⟩
  (⟨w'.world, { w.prod with client := w'.client, cntr := cntr }⟩, o)

/-- `Producer::send` -/
def send (env : Env σ) (r : Record) : M (WP σ) Unit := do
  let rs ← sendAll env [r]
  let w ← M.get
  if w.prod.acks = 0 then pure ()
  else match rs with
    | [pc] =>
      match pc.confirms with
      | [c] => match c.offset with
        | .ok _ => pure ()
        | .error code => M.fail (.kafka code)
      | _ => M.fail .codec     -- not exactly one partition confirmed (an assertion before the repair)
    | _ => M.fail .codec       -- not exactly one topic confirmed

end Kafka.Model
