import KafkaModel.Wire
import KafkaModel.Algo.Crc32
/-!
  Model of the Rust crate, part 1: error type, `KafkaCode::from_protocol`, the `ToByte` primitives
  (src/codecs.rs:25-116) and the `FromByte` primitives over a `Cursor` (src/codecs.rs:120-248).
  Mirrors the code as it is; `Bytes` stands for `&str`/`String` contents (UTF-8 checked where Rust checks).
-/
namespace Kafka.Model

/-- `kafka::Error`, reduced to what callers can observe -/
inductive Err
  | io                         -- Error::Io (any io::Error, incl. UnexpectedEof from read_exact)
  | eof                        -- Error::UnexpectedEOF
  | codec                      -- Error::CodecError
  | strDecode                  -- Error::StringDecodeError
  | kafka (code : Int)         -- Error::Kafka(KafkaCode as i16)
  | tpe (topic : Bytes) (partition : Int) (code : Int)   -- Error::TopicPartitionError
  | unsupportedProtocol
  | unsupportedCompression
  | invalidSnappy
  | noHost
  | noTopics
  | invalidDuration
  | unsetStorage
  | unsetGroup
deriving Repr, DecidableEq, Inhabited

/-- `KafkaCode::from_protocol` (src/protocol/mod.rs:63-73): 0 ↦ none, 1..35 ↦ that code, everything else ↦ Unknown (−1) -/
def kafkaCode (n : Int) : Option Int :=
  if n = 0 then none
  else if 1 ≤ n ∧ n ≤ 35 then some n
  else some (-1)

/-! ### ToByte -/

/-- `try_usize_to_int!` -/
def lenTo (k : Nat) (n : Nat) : Except Err Int :=
  if n ≤ 2 ^ (8 * k - 1) - 1 then .ok n else .error .codec

def wI8 (x : Int) : Bytes := encI 1 x
def wI16 (x : Int) : Bytes := encI 2 x
def wI32 (x : Int) : Bytes := encI 4 x
def wI64 (x : Int) : Bytes := encI 8 x

/-- `impl ToByte for str` -/
def wStr (s : Bytes) : Except Err Bytes := do
  let l ← lenTo 2 s.length
  pure (wI16 l ++ s)

/-- `impl ToByte for [u8]` -/
def wBytes (s : Bytes) : Except Err Bytes := do
  let l ← lenTo 4 s.length
  pure (wI32 l ++ s)

/-- `impl ToByte for Option<&[u8]>` (src/protocol/produce.rs:235-242) -/
def wOptBytes : Option Bytes → Except Err Bytes
  | some s => wBytes s
  | none => .ok (wI32 (-1))

def wAll {α} (f : α → Except Err Bytes) : List α → Except Err Bytes
  | [] => .ok []
  | x :: xs => do
    let a ← f x
    let r ← wAll f xs
    pure (a ++ r)

/-- `encode_as_array` -/
def wArr {α} (f : α → Except Err Bytes) (xs : List α) : Except Err Bytes := do
  let l ← lenTo 4 xs.length
  let body ← wAll f xs
  pure (wI32 l ++ body)

/-! ### FromByte over a Cursor: short input is an `io::Error` -/

abbrev Dec (α : Type) := Bytes → Except Err (α × Bytes)

def rI (k : Nat) : Dec Int := fun bs =>
  match readI k bs with
  | some r => .ok r
  | none => .error .io

/-- `impl FromByte for String` (src/codecs.rs:184-201) -/
def rString : Dec Bytes := fun bs =>
  match readI 2 bs with
  | none => .error .io
  | some (len, r) =>
    if len ≤ 0 then .ok ([], r)
    else
      let n := len.toNat
      -- `take(len).read_to_string`: invalid UTF-8 leaves the string empty; a short read leaves it short
      if n ≤ r.length ∧ validUtf8 (r.take n) then .ok (r.take n, r.drop n) else .error .eof

def rRep {α} (p : Dec α) : Nat → Dec (List α)
  | 0 => fun bs => .ok ([], bs)
  | n+1 => fun bs =>
    match p bs with
    | .error e => .error e
    | .ok (a, r) =>
      match rRep p n r with
      | .error e => .error e
      | .ok (as, r') => .ok (a :: as, r')

/-- `impl FromByte for Vec<V>` (src/codecs.rs:203-222) -/
def rVec {α} (p : Dec α) : Dec (List α) := fun bs =>
  match readI 4 bs with
  | none => .error .io
  | some (len, r) => if len ≤ 0 then .ok ([], r) else rRep p len.toNat r

end Kafka.Model
