import KafkaModel.Model.Requests
/-!
  Model of the Rust crate, part 4: fetch-response decoding over `ZReader`
  (src/protocol/zreader.rs, src/protocol/fetch.rs:138-495) and the xerial snappy framing
  (src/compression/snappy.rs:44-173).  `flate2` and `snap` are parameters (`Codecs`).
-/
namespace Kafka.Model

/-- external decompressors: gzip member ↦ bytes (`flate2`), raw snappy block ↦ bytes (`snap`) -/
structure Codecs where
  gunzip : Bytes → Option Bytes
  unsnap : Bytes → Option Bytes
  /-- `snap::raw::decompress_len`: the output length a raw snappy block announces (`none`: not readable) -/
  snapLen : Bytes → Option Nat

abbrev Z (α : Type) := Bytes → Except Err (α × Bytes)

def zRead (n : Nat) : Z Bytes := fun bs =>
  match readN n bs with
  | some r => .ok r
  | none => .error .eof

def zI (k : Nat) : Z Int := fun bs =>
  match readI k bs with
  | some r => .ok r
  | none => .error .eof

/-- `ZReader::read_str` -/
def zStr : Z Bytes := fun bs => do
  let (len, r) ← zI 2 bs
  if len ≤ 0 then pure ([], r)
  else
    let (s, r) ← zRead len.toNat r
    if validUtf8 s then pure (s, r) else .error .strDecode

/-- `ZReader::read_bytes` -/
def zBytes : Z Bytes := fun bs => do
  let (len, r) ← zI 4 bs
  if len ≤ 0 then pure ([], r) else zRead len.toNat r

/-- `ZReader::read_array_len` -/
def zArrayLen : Z Nat := fun bs => do
  let (len, r) ← zI 4 bs
  pure (if len < 0 then 0 else len.toNat, r)

def zRep {α} (p : Z α) : Nat → Z (List α)
  | 0 => fun bs => .ok ([], bs)
  | n+1 => fun bs =>
    match p bs with
    | .error e => .error e
    | .ok (a, r) =>
      match zRep p n r with
      | .error e => .error e
      | .ok (as, r') => .ok (a :: as, r')

structure Message where
  offset : Int
  key : Bytes
  value : Bytes
deriving Repr, DecidableEq

structure ProtoMsg where
  attr : Int
  key : Bytes
  value : Bytes
  /-- bytes left inside the message after the value (`debug_assert!(r.is_empty())`, fetch.rs:481) -/
  trailing : Nat
deriving Repr

/-- `ProtocolMessage::from_slice` (fetch.rs:460-489): CRC first, then magic, attr, key, value -/
def protoMsg (validate : Bool) (raw : Bytes) : Except Err ProtoMsg := do
  let (crc, r) ← zI 4 raw
  if validate ∧ wrapI 4 (crc32 r).toNat ≠ crc then .error (.kafka 2)
  else
    let (magic, r) ← zI 1 r
    if magic ≠ 0 then .error .unsupportedProtocol
    else
      let (attr, r) ← zI 1 r
      let (k, r) ← zBytes r
      let (v, r) ← zBytes r
      pure ⟨attr, k, v, r.length⟩

/-- `MessageSet::next_message` -/
def nextMessage (validate : Bool) : Z (Int × ProtoMsg) := fun bs => do
  let (off, r) ← zI 8 bs
  let (data, r) ← zBytes r
  let m ← protoMsg validate data
  pure ((off, m), r)

/-! xerial framing (snappy.rs) -/

def snappyMagic : Bytes := [0x82, 0x53, 0x4e, 0x41, 0x50, 0x50, 0x59, 0x00]

/-- `validate_stream` -/
def validateStream (s : Bytes) : Except Err Bytes :=
  if s.length < 8 then .error .eof
  else if s.take 8 ≠ snappyMagic then .error .invalidSnappy
  else
    let s := s.drop 8
    match readI 4 s with
    | none => .error .eof
    | some (ver, s) =>
      if ver ≠ 1 then .error .invalidSnappy else
      match readI 4 s with
      | none => .error .eof
      | some (compat, s) => if compat ≠ 1 then .error .invalidSnappy else .ok s

/-- outcome of the chunk loop `_read_to_end`: bytes, an error (surfacing as `Error::Io` through `io::Read`),
    or the slice panic of `split_at` when a chunk length exceeds the remaining input (snappy.rs:167) -/
inductive ChunkRes
  | ok (out : Bytes)
  | err
  | panic
deriving Repr, DecidableEq

def snappyChunks (unsnap : Bytes → Option Bytes) : Nat → Bytes → Bytes → ChunkRes
  | 0, _, acc => .ok acc
  | fuel+1, s, acc =>
    if s.isEmpty then .ok acc else
    match readI 4 s with
    | none => .err                      -- next_i32!: UnexpectedEOF
    | some (n, r) =>
      if n ≤ 0 then .err
      else if n.toNat > r.length then .err   -- chunk length beyond the input: UnexpectedEOF (a slice panic before the repair)
      else match unsnap (r.take n.toNat) with
        | some d => snappyChunks unsnap fuel (r.drop n.toNat) (acc ++ d)
        | none => .err

/-- `uncompress_to` (compression/snappy.rs) around the block decoder: the announced length is read first; one that the
    input cannot possibly produce (more than 32 times its size) is refused before anything is reserved; a block that
    announces nothing contributes nothing - whatever else it holds is not looked at; otherwise the block decoder decides -/
def uncompressTo (cx : Codecs) (blk : Bytes) : Option Bytes :=
  match cx.snapLen blk with
  | none => none
  | some n => if n > 32 * blk.length then none else if n = 0 then some [] else cx.unsnap blk

/-- result of decoding one message set -/
inductive SetRes
  | ok (msgs : List Message)
  | err (e : Err)
  | panic (site : String)
deriving Repr

/-- `MessageSet::from_slice` (fetch.rs:390-441): plain entries at or above the requested offset are collected; a
    compressed entry is decompressed, decoded as an inner set (same offset filter, same CRC flag) and its messages
    are appended; a short last entry ends the set silently.  `depth` bounds nesting (each level recurses through
    `from_vec`), `fuel` bounds the entry loop (each entry consumes ≥ 12 bytes). -/
def fromSlice (cx : Codecs) (debug : Bool) : Nat → Nat → Bytes → Int → Bool → List Message → SetRes
  | _, 0, _, _, _, acc => .ok acc
  | depth, fuel+1, raw, req, validate, acc =>
    if raw.isEmpty then .ok acc else
    match nextMessage validate raw with
    | .error .eof => .ok acc
    | .error e => .err e
    | .ok ((off, pm), rest) =>
      -- (bytes after the value are ignored in every build: the `debug_assert!` on them is gone)
      let c := (toU 1 pm.attr) % 8      -- `attr & 0x07` on an i8 (two's complement)
      if c = 0 then
        fromSlice cx debug depth fuel rest req validate (if off ≥ req then acc ++ [⟨off, pm.key, pm.value⟩] else acc)
      else
        match depth with
        -- MAX_NESTING_DEPTH levels of wrappers are open already (or the codec is unknown): refused before decompressing
        | 0 => .err .unsupportedCompression
        | d+1 =>
          let inner : Except SetRes Bytes :=
            if c = 1 then
              match cx.gunzip pm.value with
              | none => .error (.err .io)
              | some v => .ok v
            else if c = 2 then
              match validateStream pm.value with
              | .error e => .error (.err e)
              | .ok s =>
                match snappyChunks (uncompressTo cx) (s.length + 1) s [] with
                | .err => .error (.err .io)
                | .panic => .error (.panic "snappy.rs:167 split_at")
                | .ok v => .ok v
            else .error (.err .unsupportedCompression)
          match inner with
          | .error r => r
          | .ok v =>
            match fromSlice cx debug d (v.length + 1) v req validate [] with
            | .ok ms => fromSlice cx debug (d+1) fuel rest req validate (acc ++ ms)
            | r => r

structure FetchPartition where
  partition : Int
  /-- `Err(code)` when the partition carried an error code, else (high watermark, messages) -/
  data : Except Int (Int × List Message)
deriving Repr

structure FetchTopic where
  topic : Bytes
  partitions : List FetchPartition
deriving Repr

structure FetchResponse where
  corr : Int
  topics : List FetchTopic
deriving Repr

inductive RespRes
  | ok (r : FetchResponse)
  | err (e : Err)
  | panic (site : String)
deriving Repr

/-- the offset a partition was asked for (`preqs.get(partition).map_or(0, |p| p.offset)`) -/
def requestedOffset (req : Option FetchRequest) (topic : Bytes) (p : Int) : Int :=
  match req with
  | some rq => match rq.get topic p with | some (off, _) => off | none => 0
  | none => 0

/-- `Partition::read` -/
def readPartition (cx : Codecs) (debug : Bool) (depth : Nat) (req : Option FetchRequest) (topic : Bytes) (validate : Bool)
    (bs : Bytes) : Except (Sum Err String) (FetchPartition × Bytes) :=
  match (do
      let (p, r) ← zI 4 bs
      let (e, r) ← zI 2 r
      let (hw, r) ← zI 8 r
      let (set, r) ← zBytes r
      pure (p, e, hw, set, r) : Except Err _) with
  | .error e => .error (.inl e)
  | .ok (p, e, hw, set, r) =>
    let proffs := requestedOffset req topic p
    match fromSlice cx debug depth (set.length + 1) set proffs validate [] with
    | .err e => .error (.inl e)
    | .panic s => .error (.inr s)
    | .ok msgs =>
      .ok (⟨p, match kafkaCode e with | some c => .error c | none => .ok (hw, msgs)⟩, r)

def repE {ε α} (p : Bytes → Except ε (α × Bytes)) : Nat → Bytes → Except ε (List α × Bytes)
  | 0, bs => .ok ([], bs)
  | n+1, bs =>
    match p bs with
    | .error e => .error e
    | .ok (a, r) =>
      match repE p n r with
      | .error e => .error e
      | .ok (as, r') => .ok (a :: as, r')

def liftZ {α} (z : Z α) : Bytes → Except (Sum Err String) (α × Bytes) := fun bs =>
  match z bs with
  | .ok r => .ok r
  | .error e => .error (.inl e)

def readTopic (cx : Codecs) (debug : Bool) (depth : Nat) (req : Option FetchRequest) (validate : Bool) (bs : Bytes) :
    Except (Sum Err String) (FetchTopic × Bytes) := do
  let (name, r) ← liftZ zStr bs
  let (n, r) ← liftZ zArrayLen r
  let (ps, r) ← repE (readPartition cx debug depth req name validate) n r
  pure (⟨name, ps⟩, r)

/-- `Response::from_vec` (fetch.rs:186-200) -/
def parseFetchResponse (cx : Codecs) (debug : Bool) (depth : Nat) (req : Option FetchRequest) (validate : Bool)
    (bs : Bytes) : RespRes :=
  match (do
      let (corr, r) ← liftZ (zI 4) bs
      let (n, r) ← liftZ zArrayLen r
      let (ts, _) ← repE (readTopic cx debug depth req validate) n r
      pure (⟨corr, ts⟩ : FetchResponse) : Except (Sum Err String) FetchResponse) with
  | .ok r => .ok r
  | .error (.inl e) => .err e
  | .error (.inr s) => .panic s

end Kafka.Model
