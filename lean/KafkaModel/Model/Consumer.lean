import KafkaModel.Model.Client
/-!
  Model of the Rust crate, part 6: `Consumer` (src/consumer/{mod,state,builder,assignment}.rs).
-/
namespace Kafka.Model

inductive Fallback
  | earliest
  | latest
  | byTime (t : Int)
deriving Repr, DecidableEq

def Fallback.toKafka : Fallback → Int
  | .earliest => -2
  | .latest => -1
  | .byTime t => t

structure TP where
  topicRef : Nat
  partition : Int
deriving Repr, DecidableEq

structure FetchState where
  offset : Int
  maxBytes : Int
deriving Repr, DecidableEq

structure Consumed where
  offset : Int
  dirty : Bool
deriving Repr, DecidableEq

structure Consumer where
  client : Client
  group : Bytes
  fallback : Fallback
  retryLimit : Int
  /-- sorted by topic, partitions sorted and deduplicated (assignment.rs:56-68) -/
  assignments : List (Bytes × List Int)
  fetchOffsets : List (TP × FetchState)
  retry : List TP
  consumed : List (TP × Consumed)
deriving Repr

/-! ### assignments -/

def insertSorted (x : Int) : List Int → List Int
  | [] => [x]
  | y :: r => if x ≤ y then x :: y :: r else y :: insertSorted x r

def sortInts (xs : List Int) : List Int := xs.foldr insertSorted []

def dedupAdj : List Int → List Int
  | [] => []
  | [x] => [x]
  | x :: y :: r => if x = y then dedupAdj (y :: r) else x :: dedupAdj (y :: r)

def insertByTopic (x : Bytes × List Int) : List (Bytes × List Int) → List (Bytes × List Int)
  | [] => [x]
  | y :: r => if bytesLe x.1 y.1 then x :: y :: r else y :: insertByTopic x r

/-- `assignment::from_map` on a map given as an association list with distinct keys -/
def assignmentsFromMap (m : List (Bytes × List Int)) : List (Bytes × List Int) :=
  (m.map fun (t, ps) => (t, dedupAdj (sortInts ps))).foldr insertByTopic []

/-- `Assignments::topic_ref`: binary search by topic over the sorted table (`slice::binary_search_by`) -/
def bsearch (xs : Array (Bytes × List Int)) (t : Bytes) : Nat → Nat → Nat → Option Nat
  | 0, _, _ => none
  | fuel+1, lo, hi =>
    if lo ≥ hi then none else
    let mid := lo + (hi - lo) / 2
    let k := (xs[mid]!).1
    if k = t then some mid
    else if bytesLt k t then bsearch xs t fuel (mid + 1) hi
    else bsearch xs t fuel lo mid

def topicRef (as : List (Bytes × List Int)) (t : Bytes) : Option Nat :=
  bsearch as.toArray t (as.length + 1) 0 as.length

def Consumer.topicName (c : Consumer) (r : Nat) : Bytes := (c.assignments[r]?.map (·.1)).getD []

/-- the builder's assignment map: `HashMap::insert` per call, later call wins -/
inductive AssignOp
  | topic (t : Bytes)
  | topicPartitions (t : Bytes) (ps : List Int)
deriving Repr

def assignMap (ops : List AssignOp) : List (Bytes × List Int) :=
  ops.foldl (fun m op => match op with
    | .topic t => assocSet m t []
    | .topicPartitions t ps => assocSet m t ps) []

/-! ### builder -/

structure ConsumerBuilder where
  client : Option Client := none
  hosts : List Bytes := []
  group : Bytes := []
  assignOps : List AssignOp := []
  fallback : Fallback := .latest
  fetchMaxWait : Nat × Nat := (0, 100000000)     -- (secs, nanos)
  fetchMinBytes : Int := 4096
  fetchMaxBytes : Int := 32768
  retryLimit : Int := 0
  crc : Bool := true
  storage : Option Storage := none
  idleTimeoutMs : Nat := 540000
  clientId : Option Bytes := none
deriving Repr

/-- `builder::new` -/
def ConsumerBuilder.new (client : Option Client) (hosts : List Bytes) : ConsumerBuilder :=
  match client with
  | some c => { client := some c, hosts := hosts,
                fetchMaxWait := ((toU 4 c.cfg.fetchMaxWait) / 1000, ((toU 4 c.cfg.fetchMaxWait) % 1000) * 1000000),
                fetchMinBytes := c.cfg.fetchMinBytes, fetchMaxBytes := c.cfg.fetchMaxBytes,
                crc := c.cfg.crcValidation, storage := c.cfg.storage, idleTimeoutMs := c.cfg.idleTimeoutMs }
  | none => { hosts := hosts }

/-- builder calls, in the order made (consumer/builder.rs:69-160) -/
inductive CBOp
  | group (g : Bytes)
  | topic (t : Bytes)
  | topicPartitions (t : Bytes) (ps : List Int)
  | fallback (f : Fallback)
  | fetchMaxWait (secs nanos : Nat)
  | fetchMinBytes (n : Int)
  | fetchMaxBytes (n : Int)
  | retryLimit (n : Int)
  | crc (b : Bool)
  | storage (s : Option Storage)
  | idleTimeout (ms : Nat)
  | clientId (id : Bytes)
deriving Repr

def ConsumerBuilder.apply (b : ConsumerBuilder) : CBOp → ConsumerBuilder
  | .group g => { b with group := g }
  | .topic t => { b with assignOps := b.assignOps ++ [.topic t] }
  | .topicPartitions t ps => { b with assignOps := b.assignOps ++ [.topicPartitions t ps] }
  | .fallback f => { b with fallback := f }
  | .fetchMaxWait s n => { b with fetchMaxWait := (s, n) }
  | .fetchMinBytes n => { b with fetchMinBytes := n }
  | .fetchMaxBytes n => { b with fetchMaxBytes := n }
  | .retryLimit n => { b with retryLimit := n }
  | .crc v => { b with crc := v }
  | .storage v => { b with storage := v }
  | .idleTimeout ms => { b with idleTimeoutMs := ms }
  | .clientId id => { b with clientId := some id }

/-- the client configuration `Builder::create` puts in force (consumer/builder.rs:248-258), or InvalidDuration -/
def ConsumerBuilder.configure (b : ConsumerBuilder) (cfg0 : Config) : Except Err Config :=
  match toMillisI32 b.fetchMaxWait.1 b.fetchMaxWait.2 with
  | .error e => .error e
  | .ok mw => .ok { cfg0 with
      fetchMaxWait := mw
      fetchMinBytes := b.fetchMinBytes
      fetchMaxBytes := b.fetchMaxBytes
      crcValidation := b.crc
      storage := b.storage
      idleTimeoutMs := b.idleTimeoutMs
      clientId := b.clientId.getD cfg0.clientId }

structure WC (σ : Type) where
  world : σ
  cons : Consumer

abbrev CoM (σ α : Type) := M (WC σ) α

variable {σ : Type}

/-- run a client operation inside the consumer -/
def liftClient {α} (m : CM σ α) : CoM σ α := fun w =>
  let (w', o) := m ⟨w.world, w.cons.client⟩
  (⟨w'.world, { w.cons with client := w'.client }⟩, o)

/-- `determine_partitions` (consumer/state.rs:143-187) -/
def determinePartitions (st : ClientState) (t : Bytes) (req : List Int) : Except Err (List Int) :=
  match assocGet st.topics t with
  | none => .error (.kafka 3)
  | some ps =>
    if req.isEmpty then .ok ((List.range ps.length).map fun (i : Nat) => (i : Int))
    else if req.all fun p => (partIdx ps p).isSome then .ok req else .error (.kafka 3)

/-- the per-partition decision of `load_fetch_states` when the group has committed offsets (consumer/state.rs:318-352):
    `consumed` is the loaded *consumed* offset (= committed − 1), `e`/`l` the earliest/latest offsets -/
def startOffset (consumed : Option Int) (e l : Int) (fallback : Fallback) : Except Err Int :=
  match consumed with
  | some co =>
    if co + 1 ≥ e ∧ co < l then .ok (co + 1)
    else match fallback with
      | .latest => .ok l | .earliest => .ok e | .byTime _ => .error (.kafka (-1))
  | none => match fallback with
      | .latest => .ok l | .earliest => .ok e | .byTime _ => .error (.kafka (-1))

/-- `load_consumed_offsets`: a committed offset `o` is kept as consumed offset `o − 1`; −1 means nothing committed -/
def consumedOf (committed : Int) : Option Int := if committed ≠ -1 then some (committed - 1) else none

def pidx (offs : List (Bytes × List (Int × Int))) : List (Bytes × List (Int × Int)) :=
  offs.map fun (t, ps) => (t, ps.foldl (fun m (p, o) => assocSet m p o) [])

/-- `State::new` after the subscriptions are resolved -/
def loadState (env : Env σ) (group : Bytes) (fallback : Fallback)
    (as : List (Bytes × List Int)) (subs : List (Bytes × List Int)) :
    CM σ (List (TP × Consumed) × List (TP × FetchState)) := do
  -- load_consumed_offsets
  let consumed : List (TP × Consumed) ←
    (if group.isEmpty then pure [] else do
      let tpos ← fetchGroupOffsets env group (subs.flatMap fun (t, ps) => ps.map fun p => (t, p))
      let rec ins : List (Bytes × List (Int × Int)) → List (TP × Consumed) → CM σ (List (TP × Consumed))
        | [], acc => pure acc
        | (t, pos) :: r, acc =>
          match topicRef as t with
          | none => ins r acc      -- offsets for a topic that is not assigned are ignored
          | some tr => ins r (pos.foldl (fun acc (p, o) =>
              match consumedOf o with
              | some co => assocSet acc ⟨tr, p⟩ ⟨co, false⟩
              | none => acc) acc)
      ins tpos [])
  -- load_fetch_states
  let c ← getClient
  let maxBytes := c.cfg.fetchMaxBytes
  let topics := subs.map (·.1)
  if consumed.isEmpty then do
    let offsets := pidx (← fetchOffsets env topics fallback.toKafka)
    let rec go : List (Bytes × List Int) → List (TP × FetchState) → CM σ (List (TP × FetchState))
      | [], acc => pure acc
      | (t, ps) :: r, acc =>
        match assocGet offsets t with
        | none => M.fail (.kafka 3)
        | some offs =>
          let tr := (topicRef as t).getD 0
          go r (ps.foldl (fun acc p => assocSet acc ⟨tr, p⟩ ⟨(assocGet offs p).getD (-1), maxBytes⟩) acc)
    let fo ← go subs []
    pure (consumed, fo)
  else do
    let latest := pidx (← fetchOffsets env topics (-1))
    let earliest := pidx (← fetchOffsets env topics (-2))
    let rec go2 : List (Bytes × Int) → List (TP × FetchState) → CM σ (List (TP × FetchState))
      | [], acc => pure acc
      | (t, p) :: r, acc =>
        let tr := (topicRef as t).getD 0
        let l := ((assocGet latest t).bind (assocGet · p)).getD (-1)
        let e := ((assocGet earliest t).bind (assocGet · p)).getD (-1)
        let off : Except Err Int := startOffset ((assocGet consumed ⟨tr, p⟩).map (·.offset)) e l fallback
        match off with
        | .ok o => go2 r (assocSet acc ⟨tr, p⟩ ⟨o, maxBytes⟩)
        | .error e => M.fail e
    let fo ← go2 (subs.flatMap fun (t, ps) => ps.map fun p => (t, p)) []
    pure (consumed, fo)

/-- the subscriptions of an assignment list against the loaded metadata -/
def resolveSubs (st : ClientState) : List (Bytes × List Int) → Except Err (List (Bytes × List Int))
  | [] => .ok []
  | (t, req) :: r => do
    let ps ← determinePartitions st t req
    let rest ← resolveSubs st r
    pure ((t, ps) :: rest)

/-- the part of `Builder::create` that talks to the cluster: metadata (unless a client was handed in), subscriptions, state -/
def createState (env : Env σ) (group : Bytes) (fallback : Fallback) (needMd : Bool) (as : List (Bytes × List Int)) :
    CM σ (List (TP × Consumed) × List (TP × FetchState)) := do
  (if needMd then loadMetadataAll env else pure ())
  let c ← getClient
  let ss ← M.ofExcept (resolveSubs c.st as)
  loadState env group fallback as ss

/-- `Builder::create` (consumer/builder.rs:237-279) -/
def ConsumerBuilder.create (env : Env σ) (b : ConsumerBuilder) : M σ Consumer := fun world =>
  let amap := assignMap b.assignOps
  if amap.isEmpty then (world, .err .noTopics) else
  let (client0, needMd) := match b.client with
    | some c => (c, false)
    | none => (({ cfg := { hosts := b.hosts } } : Client), true)
  match b.configure client0.cfg with
  | .error e => (world, .err e)
  | .ok cfg =>
    let client : Client := { client0 with cfg := cfg }
    let as := assignmentsFromMap amap
    let m : CM σ (List (TP × Consumed) × List (TP × FetchState)) := createState env b.group b.fallback needMd as
    match m ⟨world, client⟩ with
    | (w, .ok (consumed, fo)) =>
      (w.world, .ok { client := w.client, group := b.group, fallback := b.fallback, retryLimit := b.retryLimit,
                      assignments := as, fetchOffsets := fo, retry := [], consumed := consumed })
    | (w, .err e) => (w.world, .err e)
    | (w, .panic s) => (w.world, .panic s)
    | (w, .diverge) => (w.world, .diverge)

/-! ### polling -/

/-- what iterating a `MessageSets` yields: the non-empty, error-free partitions in response order -/
def iterate (resps : List FetchResponse) : List (Bytes × Int × List Message) :=
  resps.flatMap fun r => r.topics.flatMap fun t => t.partitions.filterMap fun p =>
    match p.data with
    | .ok (_, msgs) => if msgs.isEmpty then none else some (t.topic, p.partition, msgs)
    | .error _ => none

structure PollResult where
  responses : List FetchResponse
  empty : Bool
deriving Repr

def modCons (f : Consumer → Consumer) : CoM σ Unit := M.modify fun w => { w with cons := f w.cons }
def getCons : CoM σ Consumer := fun w => (w, .ok w.cons)

/-- first partition error in response order, if any (`p.data()?`) -/
def partErr (p : FetchPartition) : Option Int :=
  match p.data with | .error c => some c | .ok _ => none

def firstError (resps : List FetchResponse) : Option Int :=
  (resps.flatMap fun r => r.topics.flatMap fun t => t.partitions).findSome? partErr

/-- what fails one topic of a response before any fetch state is touched: a topic that is not assigned, then per partition
    its error code or its not being among the fetched partitions (consumer/mod.rs, the loop in front of the book-keeping) -/
def preScanTopic (c : Consumer) (t : FetchTopic) : Option Err :=
  match topicRef c.assignments t.topic with
  | none => some (.kafka 3)
  | some tr => t.partitions.findSome? fun p =>
    match p.data with
    | .error code => some (.kafka code)
    | .ok _ => if (assocGet c.fetchOffsets (⟨tr, p.partition⟩ : TP)).isSome then none else some (.kafka 3)

/-- first failure in response order, if any -/
def preScan (c : Consumer) (resps : List FetchResponse) : Option Err :=
  (resps.flatMap fun r => r.topics).findSome? (preScanTopic c)

/-- book-keeping for one partition of a response (consumer/mod.rs:316-392) -/
def processPartition (normalMax : Int) (nQueried : Nat) (single : Bool) (c : Consumer) (tr : Nat) (p : FetchPartition) :
    Outcome Consumer × Bool :=
  let tp : TP := ⟨tr, p.partition⟩
  match p.data with
  | .error code => (.err (.kafka code), false)
  | .ok (hw, msgs) =>
    match assocGet c.fetchOffsets tp with
    | none => (.panic "consumer/mod.rs:320 expect non-requested partition", false)
    | some fs =>
      match msgs.getLast? with
      | some last =>
        (.ok { c with fetchOffsets := assocSet c.fetchOffsets tp ⟨last.offset + 1, normalMax⟩ }, true)
      | none =>
        if fs.offset < hw then
          if fs.maxBytes < c.retryLimit then
            let incr := fs.maxBytes + fs.maxBytes
            let nb := if incr > c.retryLimit then c.retryLimit else incr
            let c := { c with fetchOffsets := assocSet c.fetchOffsets tp ⟨fs.offset, nb⟩ }
            (.ok (if single then c else { c with retry := c.retry ++ [tp] }), false)
          else if nQueried = 1 then (.err (.kafka 10), false)
          else (.ok (if single then c else { c with retry := c.retry ++ [tp] }), false)
        else (.ok c, false)

/-- the book-keeping loop of `process_fetch_responses` over all partitions of all responses, in response order;
    the flag says whether any partition delivered messages -/
def processAll (normalMax : Int) (nQueried : Nat) (single : Bool) :
    List (Bytes × FetchPartition) → Consumer → Bool → Outcome Consumer × Bool
  | [], c, ne => (.ok c, ne)
  | (t, p) :: r, c, ne =>
    match topicRef c.assignments t with
    | none => (.panic "consumer/mod.rs:298 expect unknown topic in response", ne)
    | some tr =>
      match processPartition normalMax nQueried single c tr p with
      | (.ok c', got) => processAll normalMax nQueried single r c' (ne || got)
      | (o, _) => (o, ne)

/-- the consumer state the book-keeping loop has reached when it stops: it works on the consumer's state in place, so what
    it did for the partitions in front of the one that ends it (the `MessageSizeTooLarge` return in the middle of the loop)
    stays done.  With replies that answer what was asked this is the state before the loop (a fetch of one partition has one
    partition in its reply); a broker that answers more makes the difference visible. -/
def processAllReached (normalMax : Int) (nQueried : Nat) (single : Bool) :
    List (Bytes × FetchPartition) → Consumer → Consumer
  | [], c => c
  | (t, p) :: r, c =>
    match topicRef c.assignments t with
    | none => c
    | some tr =>
      match processPartition normalMax nQueried single c tr p with
      | (.ok c', _) => processAllReached normalMax nQueried single r c'
      | _ => c

/-- `process_fetch_responses` -/
def processResponses (nQueried : Nat) (resps : List FetchResponse) : CoM σ PollResult := fun w =>
  let c := w.cons
  let single := c.fetchOffsets.length = 1
  let normalMax := c.client.cfg.fetchMaxBytes
  match preScan c resps with
  | some e => (w, .err e)
  | none =>
    let parts := resps.flatMap fun r => r.topics.flatMap fun t => t.partitions.map fun p => (t.topic, p)
    match processAll normalMax nQueried single parts c false with
    | (.ok c', ne) => ({ w with cons := c' }, .ok ⟨resps, !ne⟩)
    | (.err e, _) => ({ w with cons := processAllReached normalMax nQueried single parts c }, .err e)
    | (.panic s, _) => (w, .panic s)
    | (.diverge, _) => (w, .diverge)

/-- `Consumer::fetch_messages` + `process_fetch_responses` = `poll` -/
def poll (env : Env σ) : CoM σ PollResult := do
  let c ← getCons
  match c.retry with
  | tp :: rest => do
    modCons fun c => { c with retry := rest }
    match assocGet c.fetchOffsets tp with
    | none => M.fail (.kafka 3)
    | some s => do
      let resps ← liftClient (fetchMessages env [⟨c.topicName tp.topicRef, tp.partition, s.offset, s.maxBytes⟩])
      processResponses 1 resps
  | [] => do
    let args := c.fetchOffsets.map fun (tp, s) => (⟨c.topicName tp.topicRef, tp.partition, s.offset, s.maxBytes⟩ : FetchArg)
    let resps ← liftClient (fetchMessages env args)
    processResponses c.fetchOffsets.length resps

/-! ### seek / consume / commit -/

def seek (t : Bytes) (p : Int) (off : Int) : CoM σ Unit := do
  let c ← getCons
  match topicRef c.assignments t with
  | none => M.fail (.kafka 3)
  | some tr =>
    match assocGet c.fetchOffsets ⟨tr, p⟩ with
    | some fs => modCons fun c => { c with fetchOffsets := assocSet c.fetchOffsets ⟨tr, p⟩ { fs with offset := off } }
    | none => M.fail (.tpe t p 3)

def lastConsumed (c : Consumer) (t : Bytes) (p : Int) : Option Int :=
  match topicRef c.assignments t with
  | none => none
  | some tr => (assocGet c.consumed ⟨tr, p⟩).map (·.offset)

def consumeMessage (t : Bytes) (p : Int) (off : Int) : CoM σ Unit := do
  let c ← getCons
  match topicRef c.assignments t with
  | none => M.fail (.kafka 3)
  | some tr =>
    let tp : TP := ⟨tr, p⟩
    if (assocGet c.fetchOffsets tp).isNone then M.fail (.kafka 3) else
    match assocGet c.consumed tp with
    | none => modCons fun c => { c with consumed := assocSet c.consumed tp ⟨off, true⟩ }
    | some o =>
      if off > o.offset then modCons fun c => { c with consumed := assocSet c.consumed tp ⟨off, true⟩ }
      else pure ()

def commitConsumed (env : Env σ) : CoM σ Unit := do
  let c ← getCons
  if c.group.isEmpty then M.fail .unsetGroup else
  let offs := (c.consumed.filter (·.2.dirty)).map fun (tp, o) => (c.topicName tp.topicRef, tp.partition, o.offset + 1)
  liftClient (commitOffsets env c.group offs)
  modCons fun c => { c with consumed := c.consumed.map fun (tp, o) => (tp, { o with dirty := false }) }

def subscriptions (c : Consumer) : List (Bytes × List Int) :=
  c.fetchOffsets.foldl (fun m (tp, _) => upsert m (c.topicName tp.topicRef) [] (· ++ [tp.partition])) []

end Kafka.Model
