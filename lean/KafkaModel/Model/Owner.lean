import KafkaModel.Model.Fetch
/-!
  Model of the Rust crate, part 9: who owns the bytes a decoded message set points into
  (src/protocol/fetch.rs: `MessageSet { raw_data, owned_data, messages }`, `from_vec`, `append_to`).

  Buffers are abstract identities.  Decoding a slice with identity `raw` yields messages, each tagged with the
  buffer it points into, and the list of buffers the resulting `MessageSet` *owns* (keeps alive until it is
  dropped).  A decompressed buffer gets a fresh identity.  Anything created during decoding and not in the
  returned `owned` list is freed when the Rust scope ends.
-/
namespace Kafka.Model

structure OSet where
  /-- messages with the identity of the buffer their key/value slices point into -/
  msgs : List (Message × Nat)
  /-- buffers this set keeps alive (`owned_data`, plus `raw_data` when it is `Cow::Owned`) -/
  owned : List Nat
  /-- next unused buffer identity -/
  next : Nat
deriving Repr

inductive ORes
  | ok (s : OSet)
  | err (e : Err)
  | panic (site : String)
deriving Repr

/-- the decompressed payload of a wrapper with codec `c ≠ 0` (or the failure decoding stops with) -/
def innerOf (cx : Codecs) (c : Nat) (value : Bytes) : Except ORes Bytes :=
  if c = 1 then
    match cx.gunzip value with
    | none => .error (.err .io)
    | some v => .ok v
  else if c = 2 then
    match validateStream value with
    | .error e => .error (.err e)
    | .ok s =>
      match snappyChunks (uncompressTo cx) (s.length + 1) s [] with
      | .err => .error (.err .io)
      | .panic => .error (.panic "snappy.rs:167 split_at")
      | .ok v => .ok v
  else .error (.err .unsupportedCompression)

/-- `MessageSet::from_slice` with ownership: `raw` is the identity of the slice being decoded (owned by the caller),
    `next` the first unused identity -/
def fromSliceO (cx : Codecs) (debug : Bool) : Nat → Nat → Bytes → Nat → Nat → Int → Bool → List (Message × Nat) → List Nat → ORes
  | _, 0, _, _, next, _, _, acc, owned => .ok ⟨acc, owned, next⟩
  | depth, fuel+1, data, raw, next, req, validate, acc, owned =>
    if data.isEmpty then .ok ⟨acc, owned, next⟩ else
    match nextMessage validate data with
    | .error .eof => .ok ⟨acc, owned, next⟩
    | .error e => .err e
    | .ok ((off, pm), rest) =>
      if (toU 1 pm.attr) % 8 = 0 then
        fromSliceO cx debug depth fuel rest raw next req validate
          (if off ≥ req then acc ++ [(⟨off, pm.key, pm.value⟩, raw)] else acc) owned
      else
        match depth with
        | 0 => .err .unsupportedCompression
        | d+1 =>
          match innerOf cx ((toU 1 pm.attr) % 8) pm.value with
          | .error r => r
          | .ok v =>
            -- `from_vec(v, ..)`: the decompressed vector gets identity `next`; the inner set owns it (Cow::Owned) …
            match fromSliceO cx debug d (v.length + 1) v next (next + 1) req validate [] [] with
            | .ok inner =>
              -- … and `append_to` moves its messages, that buffer and everything the inner set owned into this set
              fromSliceO cx debug (d+1) fuel rest raw inner.next req validate (acc ++ inner.msgs) (owned ++ [next] ++ inner.owned)
            | r => r

end Kafka.Model
