import KafkaModel.Model.Client
/-!
  Model of the Rust crate, part 8: one connection at the byte level (src/client/network.rs:346-363,
  src/client/mod.rs:1736-1818) over a stream that may accept only part of a write, return any positive
  number of bytes on a read, hit end-of-stream, time out or fail, at any call.
-/
namespace Kafka.Model

/-- what the stream does with one `write` call -/
inductive WAct
  | accept (k : Nat)      -- accepts min(max k 1, len) bytes
  | fail
deriving Repr

/-- what the stream does with one `read` call -/
inductive RAct
  | give (k : Nat)        -- returns min(max k 1, available, asked) bytes
  | eof
  | fail                  -- time-out or error
deriving Repr

structure Stream where
  wscript : List WAct := []
  rscript : List RAct := []
  /-- bytes the stream has accepted so far -/
  accepted : Bytes := []
  /-- bytes the peer has sent and that were not read yet -/
  incoming : Bytes := []
deriving Repr

/-- one `write` call; with an exhausted script the stream accepts everything -/
def Stream.write (s : Stream) (buf : Bytes) : Stream × Except Err Nat :=
  match s.wscript with
  | [] => ({ s with accepted := s.accepted ++ buf }, .ok buf.length)
  | .fail :: r => ({ s with wscript := r }, .error .io)
  | .accept k :: r =>
    let n := min (max k 1) buf.length
    ({ s with wscript := r, accepted := s.accepted ++ buf.take n }, .ok n)

/-- `Write::write_all` (used by `KafkaConnection::send`): write until everything is accepted; a write accepting
    nothing is an error -/
def writeAll : Nat → Stream → Bytes → Stream × Except Err Unit
  | 0, s, buf => if buf.isEmpty then (s, .ok ()) else (s, .error .io)
  | fuel+1, s, buf =>
    if buf.isEmpty then (s, .ok ()) else
    match s.write buf with
    | (s', .error e) => (s', .error e)
    | (s', .ok n) => if n = 0 then (s', .error .io) else writeAll fuel s' (buf.drop n)

/-- one `read` call for at most `want` bytes; with an exhausted script the stream gives what it has (end-of-stream if nothing) -/
def Stream.read (s : Stream) (want : Nat) : Stream × Except Err Bytes :=
  match s.rscript with
  | [] => if s.incoming.isEmpty then (s, .ok []) else
      ({ s with incoming := s.incoming.drop want }, .ok (s.incoming.take want))
  | .fail :: r => ({ s with rscript := r }, .error .io)
  | .eof :: r => ({ s with rscript := r }, .ok [])
  | .give k :: r =>
    let n := min (max k 1) want
    ({ s with rscript := r, incoming := s.incoming.drop n }, .ok (s.incoming.take n))

/-- `Read::read_exact`: read until `n` bytes are there; end-of-stream before that is an error -/
def readExact : Nat → Stream → Nat → Bytes → Stream × Except Err Bytes
  | 0, s, n, acc => if acc.length = n then (s, .ok acc) else (s, .error .io)
  | fuel+1, s, n, acc =>
    if acc.length ≥ n then (s, .ok acc) else
    match s.read (n - acc.length) with
    | (s', .error e) => (s', .error e)
    | (s', .ok got) => if got.isEmpty then (s', .error .io) else readExact fuel s' n (acc ++ got)

/-- `__get_response_size` + `read_exact_alloc` (client/mod.rs, client/network.rs): the four size bytes, then exactly that
    many payload bytes; a negative size is a decoding error (nothing more is read); the payload buffer grows with the bytes
    that actually arrive, so the announced size alone never causes an allocation -/
def getResponse (s : Stream) : Stream × Except Err Bytes :=
  match readExact 5 s 4 [] with
  | (s2, .error e) => (s2, .error e)
  | (s2, .ok szb) =>
    let size := decI szb
    if size < 0 then (s2, .error .codec) else
    match readExact (size.toNat + 1) s2 size.toNat [] with
    | (s3, .error e) => (s3, .error e)
    | (s3, .ok payload) => (s3, .ok payload)

/-- `__send_request` + `__get_response` on one connection: the reply payload, or the failure -/
def exchange (s : Stream) (frame : Bytes) (expectReply : Bool) : Stream × Except Err (Option Bytes) :=
  match writeAll (frame.length + 1) s frame with
  | (s1, .error e) => (s1, .error e)
  | (s1, .ok ()) =>
    if !expectReply then (s1, .ok none) else
    match getResponse s1 with
    | (s3, .error e) => (s3, .error e)
    | (s3, .ok payload) => (s3, .ok (some payload))

end Kafka.Model
