import KafkaModel.Model.Basic
/-!
  Model of the Rust crate, part 2: request structures and their `ToByte` impls
  (src/protocol/{mod,metadata,offset,list_offset,fetch,produce,consumer}.rs).
-/
namespace Kafka.Model

structure Header where
  apiKey : Int
  apiVersion : Int
  corr : Int
  clientId : Bytes
deriving Repr, DecidableEq

def Header.encode (h : Header) : Except Err Bytes := do
  let cid ← wStr h.clientId
  pure (wI16 h.apiKey ++ wI16 h.apiVersion ++ wI32 h.corr ++ cid)

/-! #### metadata -/
structure MetadataRequest where
  header : Header
  topics : List Bytes
deriving Repr

def MetadataRequest.new (corr : Int) (cid : Bytes) (topics : List Bytes) : MetadataRequest :=
  ⟨⟨3, 0, corr, cid⟩, topics⟩

def MetadataRequest.encode (r : MetadataRequest) : Except Err Bytes := do
  let h ← r.header.encode
  let ts ← wArr wStr r.topics
  pure (h ++ ts)

/-! #### offsets v0 (src/protocol/offset.rs) and list offsets v1 (src/protocol/list_offset.rs) -/
structure OffsetRequest where
  header : Header
  replica : Int := -1
  topics : List (Bytes × List (Int × Int × Int))   -- partition, max_offsets, time
deriving Repr

def OffsetRequest.new (corr : Int) (cid : Bytes) : OffsetRequest := ⟨⟨2, 0, corr, cid⟩, -1, []⟩

/-- linear search by topic, push otherwise -/
def addTopicEntry {β} (topics : List (Bytes × List β)) (t : Bytes) (e : β) : List (Bytes × List β) :=
  match topics with
  | [] => [(t, [e])]
  | (t', es) :: r => if t' = t then (t', es ++ [e]) :: r else (t', es) :: addTopicEntry r t e

def OffsetRequest.add (r : OffsetRequest) (t : Bytes) (p : Int) (time : Int) : OffsetRequest :=
  { r with topics := addTopicEntry r.topics t (p, 1, time) }

def OffsetRequest.encode (r : OffsetRequest) : Except Err Bytes := do
  let h ← r.header.encode
  let ts ← wArr (fun (t, ps) => do
    let n ← wStr t
    let ps ← wArr (fun (p, mx, time) => .ok (wI32 p ++ wI64 time ++ wI32 mx)) ps
    pure (n ++ ps)) r.topics
  pure (h ++ wI32 r.replica ++ ts)

structure ListOffsetsRequest where
  header : Header
  replica : Int := -1
  topics : List (Bytes × List (Int × Int))   -- partition, time
deriving Repr

def ListOffsetsRequest.new (corr : Int) (cid : Bytes) : ListOffsetsRequest := ⟨⟨2, 1, corr, cid⟩, -1, []⟩

def ListOffsetsRequest.add (r : ListOffsetsRequest) (t : Bytes) (p : Int) (time : Int) : ListOffsetsRequest :=
  { r with topics := addTopicEntry r.topics t (p, time) }

def ListOffsetsRequest.encode (r : ListOffsetsRequest) : Except Err Bytes := do
  let h ← r.header.encode
  let ts ← wArr (fun (t, ps) => do
    let n ← wStr t
    let ps ← wArr (fun (p, time) => .ok (wI32 p ++ wI64 time)) ps
    pure (n ++ ps)) r.topics
  pure (h ++ wI32 r.replica ++ ts)

/-! #### fetch (src/protocol/fetch.rs:27-136): both levels are hash maps (insert replaces);
    the iteration order at encoding time is whatever the list order is — theorems quantify over it -/
structure FetchRequest where
  header : Header
  replica : Int := -1
  maxWait : Int
  minBytes : Int
  topics : List (Bytes × List (Int × Int × Int))   -- partition ↦ (offset, max_bytes)
deriving Repr

def FetchRequest.new (corr : Int) (cid : Bytes) (maxWait minBytes : Int) : FetchRequest :=
  ⟨⟨1, 0, corr, cid⟩, -1, maxWait, minBytes, []⟩

def insertPart (ps : List (Int × Int × Int)) (p off mb : Int) : List (Int × Int × Int) :=
  match ps with
  | [] => [(p, off, mb)]
  | (p', v) :: r => if p' = p then (p, off, mb) :: r else (p', v) :: insertPart r p off mb

def insertTopicPart (ts : List (Bytes × List (Int × Int × Int))) (t : Bytes) (p off mb : Int) :=
  match ts with
  | [] => [(t, [(p, off, mb)])]
  | (t', ps) :: r => if t' = t then (t', insertPart ps p off mb) :: r else (t', ps) :: insertTopicPart r t p off mb

def FetchRequest.add (r : FetchRequest) (t : Bytes) (p off mb : Int) : FetchRequest :=
  { r with topics := insertTopicPart r.topics t p off mb }

def FetchRequest.get (r : FetchRequest) (t : Bytes) (p : Int) : Option (Int × Int) :=
  match r.topics.find? (·.1 = t) with
  | some (_, ps) => (ps.find? (·.1 = p)).map (·.2)
  | none => none

def FetchRequest.encode (r : FetchRequest) : Except Err Bytes := do
  let h ← r.header.encode
  let ts ← wAll (fun (t, ps) => do
    let n ← wStr t
    pure (n ++ wI32 (wrapI 4 ps.length) ++ ps.flatMap fun (p, off, mb) => wI32 p ++ wI64 off ++ wI32 mb)) r.topics
  pure (h ++ wI32 r.replica ++ wI32 r.maxWait ++ wI32 r.minBytes ++ wI32 (wrapI 4 r.topics.length) ++ ts)

/-! #### produce (src/protocol/produce.rs) -/
structure ProduceRequest where
  header : Header
  acks : Int
  timeout : Int
  compression : Nat       -- 0 none, 1 gzip, 2 snappy
  topics : List (Bytes × List (Int × List (Option Bytes × Option Bytes)))
deriving Repr

def ProduceRequest.new (acks timeout corr : Int) (cid : Bytes) (compression : Nat) : ProduceRequest :=
  ⟨⟨0, 0, corr, cid⟩, acks, timeout, compression, []⟩

def addPartMsg (ps : List (Int × List (Option Bytes × Option Bytes))) (p : Int) (m : Option Bytes × Option Bytes) :=
  match ps with
  | [] => [(p, [m])]
  | (p', ms) :: r => if p' = p then (p', ms ++ [m]) :: r else (p', ms) :: addPartMsg r p m

def addTopicPartMsg (ts : List (Bytes × List (Int × List (Option Bytes × Option Bytes)))) (t : Bytes) (p : Int)
    (m : Option Bytes × Option Bytes) :=
  match ts with
  | [] => [(t, [(p, [m])])]
  | (t', ps) :: r => if t' = t then (t', addPartMsg ps p m) :: r else (t', ps) :: addTopicPartMsg r t p m

def ProduceRequest.add (r : ProduceRequest) (t : Bytes) (p : Int) (k v : Option Bytes) : ProduceRequest :=
  { r with topics := addTopicPartMsg r.topics t p (k, v) }

/-- `MessageProduceRequest::_encode_to_buf`: offset 0, back-patched size and CRC -/
def encodeMsg (attr : Int) (k v : Option Bytes) : Except Err Bytes := do
  let kb ← wOptBytes k
  let vb ← wOptBytes v
  let body := wI8 0 ++ wI8 attr ++ kb ++ vb
  let crc := be 4 (crc32 body).toNat
  pure (wI64 0 ++ wI32 (wrapI 4 (4 + body.length)) ++ crc ++ body)

/-- the plain message set of one partition -/
def encodeSet (ms : List (Option Bytes × Option Bytes)) : Except Err Bytes :=
  wAll (fun (k, v) => encodeMsg 0 k v) ms

/-- `PartitionProduceRequest::_encode` without the partition id: the (possibly wrapped) set; `comp` stands for flate2 / snap -/
def encodePartitionSet (comp : Nat → Bytes → Bytes) (compression : Nat) (ms : List (Option Bytes × Option Bytes)) :
    Except Err Bytes := do
  let buf ← encodeSet ms
  if compression = 0 then pure buf
  else encodeMsg compression none (some (comp compression buf))

def ProduceRequest.encode (comp : Nat → Bytes → Bytes) (r : ProduceRequest) : Except Err Bytes := do
  let h ← r.header.encode
  let ts ← wArr (fun (t, ps) => do
    let n ← wStr t
    let body ← wAll (fun (p, ms) => do
      let set ← encodePartitionSet comp r.compression ms
      let b ← wBytes set
      pure (wI32 p ++ b)) ps
    pure (n ++ wI32 (wrapI 4 ps.length) ++ body)) r.topics
  pure (h ++ wI16 r.acks ++ wI32 r.timeout ++ ts)

/-! #### group coordinator / offset fetch / offset commit (src/protocol/consumer.rs) -/
structure GroupCoordinatorRequest where
  header : Header
  group : Bytes
deriving Repr

def GroupCoordinatorRequest.new (group : Bytes) (corr : Int) (cid : Bytes) : GroupCoordinatorRequest :=
  ⟨⟨10, 0, corr, cid⟩, group⟩

def GroupCoordinatorRequest.encode (r : GroupCoordinatorRequest) : Except Err Bytes := do
  let h ← r.header.encode
  let g ← wStr r.group
  pure (h ++ g)

structure OffsetFetchRequest where
  header : Header
  group : Bytes
  topics : List (Bytes × List Int)
deriving Repr

def OffsetFetchRequest.new (group : Bytes) (version : Int) (corr : Int) (cid : Bytes) : OffsetFetchRequest :=
  ⟨⟨9, version, corr, cid⟩, group, []⟩

def OffsetFetchRequest.add (r : OffsetFetchRequest) (t : Bytes) (p : Int) : OffsetFetchRequest :=
  { r with topics := addTopicEntry r.topics t p }

def OffsetFetchRequest.encode (r : OffsetFetchRequest) : Except Err Bytes := do
  let h ← r.header.encode
  let g ← wStr r.group
  let ts ← wArr (fun (t, ps) => do
    let n ← wStr t
    let ps ← wArr (fun p => .ok (wI32 p)) ps
    pure (n ++ ps)) r.topics
  pure (h ++ g ++ ts)

structure OffsetCommitRequest where
  header : Header
  group : Bytes
  topics : List (Bytes × List (Int × Int × Bytes))   -- partition, offset, metadata
deriving Repr

def OffsetCommitRequest.new (group : Bytes) (version : Int) (corr : Int) (cid : Bytes) : OffsetCommitRequest :=
  ⟨⟨8, version, corr, cid⟩, group, []⟩

def OffsetCommitRequest.add (r : OffsetCommitRequest) (t : Bytes) (p off : Int) (md : Bytes) : OffsetCommitRequest :=
  { r with topics := addTopicEntry r.topics t (p, off, md) }

def OffsetCommitRequest.encode (r : OffsetCommitRequest) : Except Err Bytes := do
  let v := r.header.apiVersion
  let h ← r.header.encode
  let g ← wStr r.group
  let e ← wStr []
  let pre : Bytes :=
    if v = 1 then wI32 (-1) ++ e
    else if v = 2 then wI32 (-1) ++ e ++ wI64 (-1)
    else []
  let ts ← wArr (fun (t, ps) => do
    let n ← wStr t
    let ps ← wArr (fun (p, off, md) => do
      let m ← wStr md
      pure (wI32 p ++ wI64 off ++ (if v = 1 then wI64 (-1) else []) ++ m)) ps
    pure (n ++ ps)) r.topics
  pure (h ++ g ++ pre ++ ts)

/-- `__send_request` (src/client/mod.rs:1736-1751): the frame handed to the connection, or the encoding error (nothing sent) -/
def frameOf (payload : Except Err Bytes) : Except Err Bytes := do
  let p ← payload
  pure (wI32 (wrapI 4 p.length) ++ p)

end Kafka.Model
