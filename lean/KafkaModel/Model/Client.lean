import KafkaModel.Model.Requests
import KafkaModel.Model.Responses
import KafkaModel.Model.Fetch
/-!
  Model of the Rust crate, part 5: `ClientState` (src/client/state.rs) and the `KafkaClient`
  operations (src/client/mod.rs), written against an abstract environment `Env` that stands for the
  connection pool + network: in theorems it is the specification broker, in the correspondence run
  it is the recorded trace of the real client.
-/
namespace Kafka.Model

/-! ### outcome monad: state is threaded also through failures (Rust mutates before it fails) -/

inductive Outcome (α : Type)
  | ok (a : α)
  | err (e : Err)
  | panic (site : String)
  | diverge
deriving Repr

def M (ς α : Type) := ς → ς × Outcome α

instance {ς} : Monad (M ς) where
  pure a := fun s => (s, .ok a)
  bind m f := fun s =>
    match m s with
    | (s', .ok a) => f a s'
    | (s', .err e) => (s', .err e)
    | (s', .panic p) => (s', .panic p)
    | (s', .diverge) => (s', .diverge)

theorem M.bind_def {ς α β} (m : M ς α) (f : α → M ς β) (s : ς) :
    (m >>= f) s = match m s with
      | (s', .ok a) => f a s'
      | (s', .err e) => (s', .err e)
      | (s', .panic p) => (s', .panic p)
      | (s', .diverge) => (s', .diverge) := rfl

theorem M.pure_def {ς α} (a : α) (s : ς) : (pure a : M ς α) s = (s, .ok a) := rfl

def M.fail {ς α} (e : Err) : M ς α := fun s => (s, .err e)
def M.panic {ς α} (site : String) : M ς α := fun s => (s, .panic site)
def M.diverge {ς α} : M ς α := fun s => (s, .diverge)
def M.get {ς} : M ς ς := fun s => (s, .ok s)
def M.modify {ς} (f : ς → ς) : M ς Unit := fun s => (f s, .ok ())
def M.ofExcept {ς α} : Except Err α → M ς α
  | .ok a => pure a
  | .error e => M.fail e
/-- run `m`, returning its outcome as a value (used where Rust inspects a `Result` instead of `?`) -/
def M.try {ς α} (m : M ς α) : M ς (Outcome α) := fun s => let (s', o) := m s; (s', .ok o)

/-! ### client state -/

structure Broker where
  nodeId : Int
  host : Bytes
deriving Repr, DecidableEq

def UNKNOWN : Nat := 4294967295

structure ClientState where
  correlation : Int := 0
  brokers : List Broker := []
  /-- `HashMap<String, TopicPartitions>`: topic ↦ per-partition broker index (`UNKNOWN` = no leader) -/
  topics : List (Bytes × List Nat) := []
  coords : List (Bytes × Nat) := []
deriving Repr

def assocGet {α β} [DecidableEq α] (m : List (α × β)) (k : α) : Option β := (m.find? (·.1 = k)).map (·.2)

def assocSet {α β} [DecidableEq α] (m : List (α × β)) (k : α) (v : β) : List (α × β) :=
  match m with
  | [] => [(k, v)]
  | (k', v') :: r => if k' = k then (k, v) :: r else (k', v') :: assocSet r k v

def assocErase {α β} [DecidableEq α] (m : List (α × β)) (k : α) : List (α × β) := m.filter (·.1 ≠ k)

def ClientState.nextCorr (s : ClientState) : ClientState × Int :=
  let c := (s.correlation + 1) % 1073741824
  ({ s with correlation := c }, c)

/-- `TopicPartitions::partition(id)`: `get(id as usize)` -/
def partIdx (ps : List Nat) (p : Int) : Option Nat := if p < 0 then none else ps[p.toNat]?

def ClientState.findBroker (s : ClientState) (t : Bytes) (p : Int) : Option Bytes :=
  match assocGet s.topics t with
  | none => none
  | some ps =>
    match partIdx ps p with
    | none => none
    | some i => (s.brokers[i]?).map (·.host)

/-- `contains_topic_partition` (state.rs:226-231) -/
def ClientState.containsTopicPartition (s : ClientState) (t : Bytes) (p : Int) : Bool :=
  match assocGet s.topics t with
  | none => false
  | some ps => (partIdx ps p).isSome

def ClientState.clearMetadata (s : ClientState) : ClientState := { s with topics := [], brokers := [] }

def natBytes (n : Nat) : Bytes := strBytes (toString n)
def intBytes (n : Int) : Bytes := strBytes (toString n)
def hostPort (h : Bytes) (p : Int) : Bytes := h ++ [58] ++ intBytes p

/-- one advertised broker: update the address of a known one in place, or push a new one -/
def brokerStep (acc : List Broker × List (Int × Nat)) (b : BrokerMd) : List Broker × List (Int × Nat) :=
  let host := hostPort b.host b.port
  match assocGet acc.2 b.nodeId with
  | some i => (acc.1.set i ⟨(acc.1[i]?.map (·.nodeId)).getD b.nodeId, host⟩, acc.2)
  | none => (acc.1 ++ [⟨b.nodeId, host⟩], assocSet acc.2 b.nodeId acc.1.length)

/-- the node-id ↦ index map of the brokers already known -/
def brokerIndex (bs : List Broker) : List (Int × Nat) :=
  (List.range bs.length).zip bs |>.foldl (fun m (i, b) => assocSet m b.nodeId i) []

/-- `update_brokers` (state.rs:318-352): returns the node-id ↦ index map -/
def updateBrokers (bs : List Broker) (md : List BrokerMd) : List Broker × List (Int × Nat) :=
  md.foldl brokerStep (bs, brokerIndex bs)

def resize (ps : List Nat) (m : Nat) : List Nat :=
  if ps.length > m then ps.take m else ps ++ List.replicate (m - ps.length) UNKNOWN

/-- the per-partition sync loop of `update_metadata`: a partition whose id is not an index of the partitions vector is
    ignored (`tps.get_mut(id)`, state.rs:305); the result is always `some` (the type is kept from the time this was an
    index panic) -/
def syncParts (idx : List (Int × Nat)) : List PartitionMd → List Nat → Option (List Nat)
  | [], ps => some ps
  | p :: r, ps =>
    if p.id < 0 ∨ p.id.toNat ≥ ps.length then syncParts idx r ps
    else syncParts idx r (ps.set p.id.toNat ((assocGet idx p.leader).getD UNKNOWN))

/-- `update_metadata` (state.rs:271-314) -/
def ClientState.updateMetadata (s : ClientState) (md : MetadataResponse) : Option ClientState :=
  let (brokers, idx) := updateBrokers s.brokers md.brokers
  let rec go : List TopicMd → List (Bytes × List Nat) → Option (List (Bytes × List Nat))
    | [], ts => some ts
    | t :: r, ts =>
      let ps := match assocGet ts t.topic with
        | some ps => resize ps t.partitions.length
        | none => List.replicate t.partitions.length UNKNOWN
      match syncParts idx t.partitions ps with
      | none => none
      | some ps' => go r (assocSet ts t.topic ps')
  match go md.topics s.topics with
  | some ts => some { s with brokers := brokers, topics := ts }
  | none => none

def ClientState.groupCoordinator (s : ClientState) (g : Bytes) : Option Bytes :=
  match assocGet s.coords g with
  | some i => (s.brokers[i]?).map (·.host)
  | none => none

/-- `set_group_coordinator` (state.rs:372-413) -/
def ClientState.setGroupCoordinator (s : ClientState) (g : Bytes) (r : GroupCoordinatorResponse) : ClientState × Bytes :=
  let host := hostPort r.host r.port
  match (List.range s.brokers.length).zip s.brokers |>.find? (fun (_, b) => b.nodeId = r.brokerId) with
  | some (i, b) => ({ s with coords := assocSet s.coords g i }, b.host)
  | none => ({ s with brokers := s.brokers ++ [⟨r.brokerId, host⟩], coords := assocSet s.coords g s.brokers.length }, host)

/-! ### configuration -/

inductive Storage | zookeeper | kafka
deriving Repr, DecidableEq

def Storage.fetchVersion : Storage → Int | .zookeeper => 0 | .kafka => 1
def Storage.commitVersion : Storage → Int | .zookeeper => 0 | .kafka => 1

structure Config where
  clientId : Bytes := []
  hosts : List Bytes := []
  compression : Nat := 0
  fetchMaxWait : Int := 100
  fetchMinBytes : Int := 4096
  fetchMaxBytes : Int := 32768
  crcValidation : Bool := true
  storage : Option Storage := none
  retryBackoffMs : Nat := 100
  retryMax : Nat := 1200
  idleTimeoutMs : Nat := 540000
deriving Repr

/-- `to_millis_i32` (src/protocol/mod.rs:174-184) on a duration given as (secs, nanos) -/
def toMillisI32 (secs nanos : Nat) : Except Err Int :=
  let m := min (min (secs * 1000) 18446744073709551615 + nanos / 1000000) 18446744073709551615
  if m > 2147483647 then .error .invalidDuration else .ok m

structure Client where
  cfg : Config := {}
  st : ClientState := {}
  /-- hosts with a pooled connection -/
  conns : List Bytes := []
  /-- pooled connections on which a read or write failed (network.rs `broken`): replaced at the next checkout -/
  broken : List Bytes := []
deriving Repr

/-! ### environment -/

structure Env (σ : Type) where
  /-- open a connection to `host` -/
  connect : σ → Bytes → σ × Bool
  /-- hand a complete frame to `host`'s connection -/
  send : σ → Bytes → Bytes → σ × Except Err Unit
  /-- read one reply (payload after the size prefix) from `host`'s connection -/
  recv : σ → Bytes → σ × Except Err Bytes
  /-- hash-map iteration: which of the candidate hosts comes next -/
  pick : σ → List Bytes → Option Bytes
  codecs : Codecs
  comp : Nat → Bytes → Bytes
  debug : Bool := true
  depth : Nat := 16

structure W (σ : Type) where
  world : σ
  client : Client

abbrev CM (σ α : Type) := M (W σ) α

variable {σ : Type}

def getClient : CM σ Client := fun w => (w, .ok w.client)
def modClient (f : Client → Client) : CM σ Unit := M.modify fun w => { w with client := f w.client }
def modState (f : ClientState → ClientState) : CM σ Unit := modClient fun c => { c with st := f c.st }

def nextCorr : CM σ Int := fun w =>
  let (st, c) := w.client.st.nextCorr
  ({ w with client := { w.client with st := st } }, .ok c)

/-- `Connections::get_conn`: pooled (re-established when the idle time-out is zero, i.e. always reached), or newly connected.
    Idle time-outs are modelled at their two extremes only: 0 = reconnect on every use, anything else = never. -/
def getConn (env : Env σ) (host : Bytes) : CM σ Unit := fun w =>
  if host ∈ w.client.conns then
    if w.client.cfg.idleTimeoutMs = 0 ∨ host ∈ w.client.broken then
      let (wd, ok) := env.connect w.world host
      if ok then ({ world := wd, client := { w.client with broken := w.client.broken.filter (· ≠ host) } }, .ok ())
      else ({ w with world := wd }, .err .io)
    else (w, .ok ())
  else
    let (wd, ok) := env.connect w.world host
    if ok then ({ world := wd, client := { w.client with conns := w.client.conns ++ [host] } }, .ok ())
    else ({ w with world := wd }, .err .io)

/-- `__send_request` on an established connection -/
def sendRequest (env : Env σ) (host : Bytes) (payload : Except Err Bytes) : CM σ Unit := fun w =>
  match frameOf payload with
  | .error e => (w, .err e)
  | .ok frame =>
    let (wd, r) := env.send w.world host frame
    match r with
    | .ok () => ({ w with world := wd }, .ok ())
    | .error e => ({ world := wd, client := { w.client with broken := w.client.broken ++ [host] } }, .err e)

def recvReply (env : Env σ) (host : Bytes) : CM σ Bytes := fun w =>
  let (wd, r) := env.recv w.world host
  match r with
  | .ok b => ({ w with world := wd }, .ok b)
  -- a failed read marks the connection broken; a bad size field (a decoding error) does not
  | .error .io => ({ world := wd, client := { w.client with broken := w.client.broken ++ [host] } }, .err .io)
  | .error e => ({ w with world := wd }, .err e)

def decodeWith {α} (d : Dec α) (bs : Bytes) : CM σ α :=
  match d bs with
  | .ok (a, _) => pure a
  | .error e => M.fail e

/-- `__send_receive` -/
def sendReceive {α} (env : Env σ) (host : Bytes) (payload : Except Err Bytes) (d : Dec α) : CM σ α := do
  getConn env host
  sendRequest env host payload
  let b ← recvReply env host
  decodeWith d b

/-- iterate a host-keyed map in the environment's (hash-map) order -/
def forHosts {α β} (env : Env σ) : Nat → List (Bytes × α) → (Bytes → α → CM σ β) → CM σ (List β)
  | 0, _, _ => pure []
  | fuel+1, reqs, f => fun w =>
    match reqs with
    | [] => (w, .ok [])
    | _ =>
      let host := (env.pick w.world (reqs.map (·.1))).getD (reqs.head?.map (·.1)).get!
      match reqs.find? (·.1 = host) with
      | none => (w, .ok [])
      | some (h, r) =>
        (do
          let b ← f h r
          let bs ← forHosts env fuel (reqs.filter (·.1 ≠ host)) f
          pure (b :: bs) : CM σ (List β)) w

/-! ### metadata -/

def fetchMetadata (env : Env σ) (topics : List Bytes) : CM σ MetadataResponse := do
  let corr ← nextCorr
  let c ← getClient
  let rec go : List Bytes → CM σ MetadataResponse
    | [] => M.fail .noHost
    | host :: rest => do
      match ← M.try (getConn env host) with
      | .ok () =>
        let req := MetadataRequest.new corr c.cfg.clientId topics
        match ← M.try (sendRequest env host req.encode) with
        | .ok () => do
          let b ← recvReply env host
          decodeWith rMetadataResponse b
        | .panic s => M.panic s
        | .diverge => M.diverge
        | .err _ => go rest
      | .panic s => M.panic s
      | .diverge => M.diverge
      | .err _ => go rest
  go c.cfg.hosts

def loadMetadata (env : Env σ) (topics : List Bytes) : CM σ Unit := do
  let md ← fetchMetadata env topics
  let c ← getClient
  match c.st.updateMetadata md with
  | some st => modState fun _ => st
  | none => M.panic "state.rs:305 index"

def resetMetadata : CM σ Unit := modState (·.clearMetadata)

def loadMetadataAll (env : Env σ) : CM σ Unit := do
  resetMetadata
  loadMetadata env []

/-! ### offsets -/

def upsert {α} (m : List (Bytes × α)) (k : Bytes) (dflt : α) (f : α → α) : List (Bytes × α) :=
  match m with
  | [] => [(k, f dflt)]
  | (k', v) :: r => if k' = k then (k', f v) :: r else (k', v) :: upsert r k dflt f

/-- the (partition id, leader host) pairs of a known topic's led partitions -/
def ClientState.ledPartitions (s : ClientState) (t : Bytes) : Option (List (Int × Bytes)) :=
  (assocGet s.topics t).map fun ps =>
    (List.range ps.length).zip ps |>.filterMap fun (i, b) => (s.brokers[b]?).map fun br => ((i : Int), br.host)

/-- merge one response topic into the result map; error = first failing partition -/
def mergeOffsets {α} (res : List (Bytes × List α)) (t : Bytes) (ps : List (Except (Int × Int) α)) :
    Except Err (List (Bytes × List α)) :=
  let rec collect : List (Except (Int × Int) α) → List α → Except (Int × Int) (List α)
    | [], acc => .ok acc
    | .ok a :: r, acc => collect r (acc ++ [a])
    | .error e :: _, _ => .error e
  match collect ps [] with
  | .error (p, code) => .error (.tpe t p code)
  | .ok new => .ok (upsert res t [] (· ++ new))

/-- the per-host requests `fetch_offsets` builds (client/mod.rs:853-880): only led partitions of known topics -/
def offsetRequests (c : Client) (corr : Int) (topics : List Bytes) (time : Int) : List (Bytes × OffsetRequest) :=
  topics.foldl (fun reqs t =>
    match c.st.ledPartitions t with
    | none => reqs
    | some ps => ps.foldl (fun reqs (x : Int × Bytes) =>
        upsert reqs x.2 (OffsetRequest.new corr c.cfg.clientId) (·.add t x.1 time)) reqs) []

def fetchOffsets (env : Env σ) (topics : List Bytes) (time : Int) : CM σ (List (Bytes × List (Int × Int))) := do
  let corr ← nextCorr
  let c ← getClient
  let reqs : List (Bytes × OffsetRequest) := offsetRequests c corr topics time
  let rec merge : List (Bytes × List PartOffsetResp) → List (Bytes × List (Int × Int)) → Except Err (List (Bytes × List (Int × Int)))
    | [], res => .ok res
    | (t, ps) :: r, res =>
      match mergeOffsets res t (ps.map fun p => match p.toOffset with | .ok o => .ok o | .error c => .error (p.partition, c)) with
      | .ok res' => merge r res'
      | .error e => .error e
  let rec go : Nat → List (Bytes × OffsetRequest) → List (Bytes × List (Int × Int)) → CM σ (List (Bytes × List (Int × Int)))
    | 0, _, res => pure res
    | fuel+1, reqs, res => do
      if reqs.isEmpty then pure res else
      let w ← M.get
      let host := (env.pick w.world (reqs.map (·.1))).getD (reqs.head?.map (·.1)).get!
      match reqs.find? (·.1 = host) with
      | none => pure res
      | some (h, rq) =>
        let resp ← sendReceive env h rq.encode rOffsetResponse
        let res' ← M.ofExcept (merge resp.topics res)
        go fuel (reqs.filter (·.1 ≠ host)) res'
  go reqs.length reqs []

def listOffsetRequests (c : Client) (corr : Int) (topics : List Bytes) (time : Int) : List (Bytes × ListOffsetsRequest) :=
  topics.foldl (fun reqs t =>
    match c.st.ledPartitions t with
    | none => reqs
    | some ps => ps.foldl (fun reqs (x : Int × Bytes) =>
        upsert reqs x.2 (ListOffsetsRequest.new corr c.cfg.clientId) (·.add t x.1 time)) reqs) []

def listOffsets (env : Env σ) (topics : List Bytes) (time : Int) : CM σ (List (Bytes × List (Int × Int × Int))) := do
  let corr ← nextCorr
  let c ← getClient
  let reqs : List (Bytes × ListOffsetsRequest) := listOffsetRequests c corr topics time
  let rec merge : List (Bytes × List PartListOffsetResp) → List (Bytes × List (Int × Int × Int)) → Except Err (List (Bytes × List (Int × Int × Int)))
    | [], res => .ok res
    | (t, ps) :: r, res =>
      match mergeOffsets res t (ps.map fun p => match p.toOffset with | .ok o => .ok o | .error c => .error (p.partition, c)) with
      | .ok res' => merge r res'
      | .error e => .error e
  let rec go : Nat → List (Bytes × ListOffsetsRequest) → List (Bytes × List (Int × Int × Int)) → CM σ (List (Bytes × List (Int × Int × Int)))
    | 0, _, res => pure res
    | fuel+1, reqs, res => do
      if reqs.isEmpty then pure res else
      let w ← M.get
      let host := (env.pick w.world (reqs.map (·.1))).getD (reqs.head?.map (·.1)).get!
      match reqs.find? (·.1 = host) with
      | none => pure res
      | some (h, rq) =>
        let resp ← sendReceive env h rq.encode rListOffsetsResponse
        let res' ← M.ofExcept (merge resp.topics res)
        go fuel (reqs.filter (·.1 ≠ host)) res'
  go reqs.length reqs []

def fetchTopicOffsets (env : Env σ) (topic : Bytes) (time : Int) : CM σ (List (Int × Int)) := do
  let m ← fetchOffsets env [topic] time
  let offs := (assocGet m topic).getD []
  if offs.isEmpty then M.fail (.kafka 3) else pure offs

/-! ### fetch -/

structure FetchArg where
  topic : Bytes
  partition : Int
  offset : Int
  maxBytes : Int
deriving Repr, DecidableEq

/-- the per-host requests `fetch_messages` builds (client/mod.rs:1144-1182) -/
def fetchRequests (c : Client) (corr : Int) (input : List FetchArg) : List (Bytes × FetchRequest) :=
  input.foldl (fun reqs a =>
    match c.st.findBroker a.topic a.partition with
    | none => reqs
    | some host =>
      upsert reqs host (FetchRequest.new corr c.cfg.clientId c.cfg.fetchMaxWait c.cfg.fetchMinBytes)
        (fun r => r.add a.topic a.partition a.offset (if a.maxBytes > (0 : Int) then a.maxBytes else c.cfg.fetchMaxBytes))) []

def zSendReceive (env : Env σ) (validate : Bool) (host : Bytes) (rq : FetchRequest) : CM σ FetchResponse := do
  getConn env host
  sendRequest env host rq.encode
  let b ← recvReply env host
  match parseFetchResponse env.codecs env.debug env.depth (some rq) validate b with
  | .ok r => pure r
  | .err e => M.fail e
  | .panic s => M.panic s

def fetchMessages (env : Env σ) (input : List FetchArg) : CM σ (List FetchResponse) := do
  let corr ← nextCorr
  let c ← getClient
  let reqs := fetchRequests c corr input
  forHosts env reqs.length reqs (zSendReceive env c.cfg.crcValidation)

/-! ### produce -/

structure ProduceArg where
  topic : Bytes
  partition : Int
  key : Option Bytes
  value : Option Bytes
deriving Repr, DecidableEq

/-- grouping pass of `internal_produce_messages` (client/mod.rs:1429-1464); `none` = an unknown destination -/
def produceRequests (c : Client) (corr acks timeout : Int) (msgs : List ProduceArg) : Option (List (Bytes × ProduceRequest)) :=
  msgs.foldl (fun reqs m =>
    match reqs with
    | none => none
    | some reqs =>
      match c.st.findBroker m.topic m.partition with
      | none => none
      | some host =>
        some (upsert reqs host (ProduceRequest.new acks timeout corr c.cfg.clientId c.cfg.compression)
          (·.add m.topic m.partition m.key m.value))) (some [])

def internalProduce (env : Env σ) (acks timeout : Int) (msgs : List ProduceArg) : CM σ (List ProduceConfirm) := do
  let corr ← nextCorr
  let c ← getClient
  match produceRequests c corr acks timeout msgs with
  | none => M.fail (.kafka 3)
  | some reqs =>
    if acks = 0 then do
      let _ ← forHosts env reqs.length reqs fun host rq => do
        getConn env host
        sendRequest env host (rq.encode env.comp)
      pure []
    else do
      let rs ← forHosts env reqs.length reqs fun host rq =>
        sendReceive env host (rq.encode env.comp) rProduceResponse
      pure (rs.flatMap (·.getResponse))

/-- `produce_messages`: acks ∈ {0, 1, −1}, time-out as a duration -/
def produceMessages (env : Env σ) (acks : Int) (toSecs toNanos : Nat) (msgs : List ProduceArg) : CM σ (List ProduceConfirm) := do
  let to ← M.ofExcept (toMillisI32 toSecs toNanos)
  internalProduce env acks to msgs

/-! ### group coordinator, commit, group offsets -/

/-- what one attempt of a retried group operation decides -/
inductive Verdict (α : Type)
  | done (a : α)
  | retry (code : Int)
  | fail (e : Err)

/-- the retry policy shared by the three group operations (client/mod.rs:1467-1656): repeat `step` while it says
    `retry`, at most `max` attempts (at least one), then give the last retryable code as the error -/
def retrying {ς α : Type} (max : Nat) (step : M ς (Verdict α)) : Nat → Nat → M ς α
  | 0, _ => M.diverge
  | fuel+1, attempt => fun s =>
    match step s with
    | (s', .ok (.done a)) => (s', .ok a)
    | (s', .ok (.fail e)) => (s', .err e)
    | (s', .ok (.retry code)) =>
      if attempt < max then retrying max step fuel (attempt + 1) s' else (s', .err (.kafka code))
    | (s', .err e) => (s', .err e)
    | (s', .panic p) => (s', .panic p)
    | (s', .diverge) => (s', .diverge)

/-- one coordinator look-up attempt on any pooled connection -/
def coordinatorStep (env : Env σ) (group : Bytes) (req : GroupCoordinatorRequest) : CM σ (Verdict Bytes) := do
  let w ← M.get
  match env.pick w.world w.client.conns with
  | none => M.fail .noHost        -- no pooled connection at all (`get_conn_any` = None; an `expect` before the repair)
  | some host => do
    -- `get_conn_any`: with a zero idle time-out, or after an I/O failure on it, the pooled connection is re-established first
    if w.client.cfg.idleTimeoutMs = 0 ∨ host ∈ w.client.broken then
      (fun w => let (wd, ok) := env.connect w.world host
        ({ world := wd, client := if ok then { w.client with broken := w.client.broken.filter (· ≠ host) } else w.client }, .ok ()))
    sendRequest env host req.encode
    let b ← recvReply env host
    let r ← decodeWith rGroupCoordinatorResponse b
    match kafkaCode r.err with
    | none => do
      let c ← getClient
      let (st, h) := c.st.setGroupCoordinator group r
      modState fun _ => st
      pure (.done h)
    | some 15 => pure (.retry 15)
    | some e => pure (.fail (.kafka e))

/-- `__get_group_coordinator` (client/mod.rs:1467-1515) -/
def getGroupCoordinator (env : Env σ) (group : Bytes) : CM σ Bytes := do
  let c ← getClient
  match c.st.groupCoordinator group with
  | some host => pure host
  | none => do
    let corr ← nextCorr
    let req := GroupCoordinatorRequest.new group corr c.cfg.clientId
    retrying c.cfg.retryMax (coordinatorStep env group req) (c.cfg.retryMax + 1) 1

/-- scan of a commit response: first non-zero code in response order -/
def commitScan : List (Bytes × List (Int × Int)) → Option Int
  | [] => none
  | (_, ps) :: r =>
    match ps.findSome? (fun (_, e) => kafkaCode e) with
    | some c => some c
    | none => commitScan r

/-- one commit attempt -/
def commitStep (env : Env σ) (req : OffsetCommitRequest) : CM σ (Verdict Unit) := do
  let host ← getGroupCoordinator env req.group
  let resp ← sendReceive env host req.encode rOffsetCommitResponse
  match commitScan resp.topics with
  | none => pure (.done ())
  | some 14 => pure (.retry 14)
  | some 16 => do
    modState fun s => { s with coords := assocErase s.coords req.group }
    pure (.retry 16)
  | some e => pure (.fail (.kafka e))

/-- `__commit_offsets` (client/mod.rs:1517-1579) -/
def commitLoop (env : Env σ) (req : OffsetCommitRequest) (max : Nat) : CM σ Unit :=
  retrying max (commitStep env req) (max + 1) 1

def commitOffsets (env : Env σ) (group : Bytes) (offsets : List (Bytes × Int × Int)) : CM σ Unit := do
  let c ← getClient
  match c.cfg.storage with
  | none => M.fail .unsetStorage
  | some storage => do
    let corr ← nextCorr
    let req0 := OffsetCommitRequest.new group storage.commitVersion corr c.cfg.clientId
    let rec build : List (Bytes × Int × Int) → OffsetCommitRequest → Option OffsetCommitRequest
      | [], r => some r
      | (t, p, o) :: rest, r =>
        if c.st.containsTopicPartition t p then build rest (r.add t p o []) else none
    match build offsets req0 with
    | none => M.fail (.kafka 3)
    | some req =>
      if req.topics.isEmpty then pure ()
      else commitLoop env req c.cfg.retryMax

/-- per-topic scan of a group-offset response -/
def groupOffsetsScan : List (Bytes × List PartOffsetFetchResp) → List (Bytes × List (Int × Int)) →
    Except Err (List (Bytes × List (Int × Int)))
  | [], m => .ok m
  | (t, ps) :: r, m =>
    let rec parts : List PartOffsetFetchResp → List (Int × Int) → Except Err (List (Int × Int))
      | [], acc => .ok acc
      | p :: ps, acc =>
        match p.getOffsets with
        | .ok o => parts ps (acc ++ [o])
        | .error e => .error e
    match parts ps [] with
    | .ok os => groupOffsetsScan r (assocSet m t os)
    | .error e => .error e

/-- one group-offset fetch attempt -/
def fetchGroupStep (env : Env σ) (req : OffsetFetchRequest) : CM σ (Verdict (List (Bytes × List (Int × Int)))) := do
  let host ← getGroupCoordinator env req.group
  let resp ← sendReceive env host req.encode rOffsetFetchResponse
  match groupOffsetsScan resp.topics [] with
  | .ok m => pure (.done m)
  | .error (.kafka 14) => pure (.retry 14)
  | .error (.kafka 16) => do
    modState fun s => { s with coords := assocErase s.coords req.group }
    pure (.retry 16)
  | .error e => pure (.fail e)

/-- `__fetch_group_offsets` (client/mod.rs:1581-1656) -/
def fetchGroupLoop (env : Env σ) (req : OffsetFetchRequest) (max : Nat) : CM σ (List (Bytes × List (Int × Int))) :=
  retrying max (fetchGroupStep env req) (max + 1) 1

def fetchGroupOffsets (env : Env σ) (group : Bytes) (parts : List (Bytes × Int)) : CM σ (List (Bytes × List (Int × Int))) := do
  let c ← getClient
  match c.cfg.storage with
  | none => M.fail .unsetStorage
  | some storage => do
    let corr ← nextCorr
    let req0 := OffsetFetchRequest.new group storage.fetchVersion corr c.cfg.clientId
    let rec build : List (Bytes × Int) → OffsetFetchRequest → Option OffsetFetchRequest
      | [], r => some r
      | (t, p) :: rest, r => if c.st.containsTopicPartition t p then build rest (r.add t p) else none
    match build parts req0 with
    | none => M.fail (.kafka 3)
    | some req => fetchGroupLoop env req c.cfg.retryMax

def fetchGroupTopicOffset (env : Env σ) (group topic : Bytes) : CM σ (List (Int × Int)) := do
  let c ← getClient
  match c.cfg.storage with
  | none => M.fail .unsetStorage
  | some storage => do
    let corr ← nextCorr
    let req0 := OffsetFetchRequest.new group storage.fetchVersion corr c.cfg.clientId
    match assocGet c.st.topics topic with
    | none => M.fail (.kafka 3)
    | some ps =>
      let req := (List.range ps.length).foldl (fun r i => r.add topic (i : Int)) req0
      let m ← fetchGroupLoop env req c.cfg.retryMax
      pure ((assocGet m topic).getD [])

end Kafka.Model
