/-
  Wire-level basics shared by the specification and by the model of the Rust code:
  byte strings, big-endian integers (two's complement), all-or-nothing reads, hex, UTF-8.
  Core Lean only (this file is linked into the `kmodel` executable).
-/
namespace Kafka

abbrev Bytes := List UInt8

/-! ## big-endian naturals -/

/-- `k` bytes, big endian, of `n mod 256^k`. -/
def be : Nat → Nat → Bytes
  | 0, _ => []
  | k+1, n => UInt8.ofNat ((n / 256 ^ k) % 256) :: be k n

def unbe (bs : Bytes) : Nat := bs.foldl (fun a b => a * 256 + b.toNat) 0

/-! ## two's complement integers of `k` bytes, carried as `Int` -/

/-- the unsigned image of a (possibly out-of-range) integer on `k` bytes -/
def toU (k : Nat) (x : Int) : Nat := (x % (2 ^ (8 * k) : Nat)).toNat

/-- the signed reading of an unsigned `k`-byte value -/
def toS (k : Nat) (n : Nat) : Int :=
  if n < 2 ^ (8 * k - 1) then (n : Int) else (n : Int) - (2 ^ (8 * k) : Nat)

def encI (k : Nat) (x : Int) : Bytes := be k (toU k x)
def decI (bs : Bytes) : Int := toS bs.length (unbe bs)

/-- range predicates -/
def inI (k : Nat) (x : Int) : Prop := -(2 ^ (8 * k - 1) : Nat) ≤ x ∧ x < (2 ^ (8 * k - 1) : Nat)
instance (k x) : Decidable (inI k x) := by unfold inI; exact inferInstance

/-- wrap an arbitrary integer into the `k`-byte signed range (Rust `as iN`) -/
def wrapI (k : Nat) (x : Int) : Int := toS k (toU k x)

/-! ## all-or-nothing reads -/

def readN (n : Nat) (bs : Bytes) : Option (Bytes × Bytes) :=
  if n ≤ bs.length then some (bs.take n, bs.drop n) else none

def readI (k : Nat) (bs : Bytes) : Option (Int × Bytes) :=
  match readN k bs with
  | some (a, r) => some (decI a, r)
  | none => none

/-! ## hex -/

def hexDigit (n : Nat) : Char :=
  if n < 10 then Char.ofNat (48 + n) else Char.ofNat (87 + n)

def toHex (bs : Bytes) : String :=
  String.ofList (bs.flatMap fun b => [hexDigit (b.toNat / 16), hexDigit (b.toNat % 16)])

def hexVal (c : Char) : Option Nat :=
  if '0' ≤ c ∧ c ≤ '9' then some (c.toNat - 48)
  else if 'a' ≤ c ∧ c ≤ 'f' then some (c.toNat - 87)
  else if 'A' ≤ c ∧ c ≤ 'F' then some (c.toNat - 55)
  else none

def fromHexL : List Char → Option Bytes
  | [] => some []
  | [_] => none
  | a :: b :: r =>
    match hexVal a, hexVal b, fromHexL r with
    | some x, some y, some t => some (UInt8.ofNat (x * 16 + y) :: t)
    | _, _, _ => none

/-- "-" denotes the empty byte string (so that every field is a non-empty token) -/
def fromHex (s : String) : Option Bytes :=
  if s == "-" then some [] else fromHexL s.toList

def toHexTok (bs : Bytes) : String := if bs.isEmpty then "-" else toHex bs

def strBytes (s : String) : Bytes := s.toUTF8.toList

/-! ## UTF-8 validity (what Rust's `str::from_utf8` accepts) -/

def isCont (b : UInt8) : Bool := b.toNat / 64 == 2

def validUtf8 : Bytes → Bool
  | [] => true
  | b0 :: r =>
    let n := b0.toNat
    if n < 0x80 then validUtf8 r
    else if n < 0xC2 then false
    else if n < 0xE0 then
      match r with
      | b1 :: r' => isCont b1 && validUtf8 r'
      | _ => false
    else if n < 0xF0 then
      match r with
      | b1 :: b2 :: r' =>
        let m := b1.toNat
        isCont b1 && isCont b2 &&
        (if n == 0xE0 then 0xA0 ≤ m else if n == 0xED then m < 0xA0 else true) && validUtf8 r'
      | _ => false
    else if n < 0xF5 then
      match r with
      | b1 :: b2 :: b3 :: r' =>
        let m := b1.toNat
        isCont b1 && isCont b2 && isCont b3 &&
        (if n == 0xF0 then 0x90 ≤ m else if n == 0xF4 then m < 0x90 else true) && validUtf8 r'
      | _ => false
    else false

/-- lexicographic order on byte strings (= Rust's `str`/`[u8]` ordering) -/
def bytesLt : Bytes → Bytes → Bool
  | [], [] => false
  | [], _ :: _ => true
  | _ :: _, [] => false
  | a :: x, b :: y => if a < b then true else if b < a then false else bytesLt x y

def bytesLe (a b : Bytes) : Bool := !bytesLt b a

end Kafka
