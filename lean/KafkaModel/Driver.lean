import KafkaModel.Spec.Broker
/-! Line-protocol command interpreter for the specification broker (see DESIGN.md §12). -/
namespace Kafka.Driver
open Kafka Kafka.Spec

def tokOpt (s : String) : Option (Option Bytes) :=
  if s == "~" then some none else (fromHex s).map some

def optTok : Option Bytes → String
  | none => "~"
  | some b => toHexTok b

def parseMsgs : List String → Option (List Msg)
  | [] => some []
  | o :: k :: v :: r =>
    match o.toInt?, tokOpt k, tokOpt v, parseMsgs r with
    | some o, some k, some v, some ms => some (⟨o, 0, k, v⟩ :: ms)
    | _, _, _, _ => none
  | _ => none

def appendEntries (c : Cluster) (t : Bytes) (p : Nat) (es : List LogEntry) : Cluster :=
  c.modPart t p fun ps =>
    let entries := ps.entries ++ es
    let hw := match es.getLast? with | some e => max ps.hw (e.last + 1) | none => ps.hw
    { ps with entries := entries, hw := hw }

/-- apply a set-up command; `none` = malformed command -/
def setup (c : Cluster) (toks : List String) : Option Cluster :=
  match toks with
  | ["RESET"] => some {}
  | ["BROKER", n, h, p] =>
    match n.toInt?, fromHex h, p.toInt? with
    | some n, some h, some p => some { c with brokers := (c.brokers.filter (·.nodeId != n)) ++ [⟨n, h, p⟩] }
    | _, _, _ => none
  | ["DELBROKER", n] => n.toInt?.map fun n => { c with brokers := c.brokers.filter (·.nodeId != n) }
  | ["TOPIC", t, n] =>
    match fromHex t, n.toNat? with
    | some t, some n =>
      match c.topic? t with
      | some _ => some { c with topics := c.topics.map fun ts =>
          if ts.name == t then { ts with parts := (ts.parts ++ List.replicate (n - ts.parts.length) ({} : PartState)).take n } else ts }
      | none => some { c with topics := c.topics ++ [⟨t, List.replicate n ({} : PartState)⟩] }
    | _, _ => none
  | ["DELTOPIC", t] => (fromHex t).map fun t => { c with topics := c.topics.filter (·.name != t) }
  | ["LEADER", t, p, n] =>
    match fromHex t, p.toNat?, n.toInt? with
    | some t, some p, some n => some (c.modPart t p fun ps => { ps with leader := n })
    | _, _, _ => none
  | ["EARLIEST", t, p, e] =>
    match fromHex t, p.toNat?, e.toInt? with
    | some t, some p, some e => some (c.modPart t p fun ps => { ps with earliest := e })
    | _, _, _ => none
  | ["HW", t, p, e] =>
    match fromHex t, p.toNat?, e.toInt? with
    | some t, some p, some e => some (c.modPart t p fun ps => { ps with hw := e })
    | _, _, _ => none
  | ["CLEARLOG", t, p] =>
    match fromHex t, p.toNat? with
    | some t, some p => some (c.modPart t p fun ps => { ps with entries := [] })
    | _, _ => none
  | "APPEND" :: t :: p :: "plain" :: ms =>
    match fromHex t, p.toNat?, parseMsgs ms with
    | some t, some p, some ms => some (appendEntries c t p (plainEntries ms))
    | _, _, _ => none
  | "APPEND" :: t :: p :: "comp" :: codec :: chunk :: ms =>
    match fromHex t, p.toNat?, codec.toNat?, chunk.toNat?, parseMsgs ms with
    | some t, some p, some codec, some chunk, some ms =>
      if ms.isEmpty then none else some (appendEntries c t p [compEntry codec chunk ms])
    | _, _, _, _, _ => none
  | "APPEND" :: t :: p :: "nested" :: c1 :: c2 :: chunk :: ms =>
    match fromHex t, p.toNat?, c1.toNat?, c2.toNat?, chunk.toNat?, parseMsgs ms with
    | some t, some p, some c1, some c2, some chunk, some ms =>
      if ms.isEmpty then none else some (appendEntries c t p [nestedEntry c1 c2 chunk ms])
    | _, _, _, _, _, _ => none
  | ["APPENDRAW", t, p, f, l, hex] =>
    match fromHex t, p.toNat?, f.toInt?, l.toInt?, fromHex hex with
    | some t, some p, some f, some l, some bs => some (appendEntries c t p [⟨f, l, bs⟩])
    | _, _, _, _, _ => none
  | ["COMMITTED", g, t, p, o] =>
    match fromHex g, fromHex t, p.toInt?, o.toInt? with
    -- the same offset in both stores
    | some g, some t, some p, some o => some { c with groups := setGroup (setGroup c.groups (storeGroup 0 g, t, p) o) (storeGroup 1 g, t, p) o }
    | _, _, _, _ => none
  | ["COMMITTEDIN", store, g, t, p, o] =>
    match fromHex g, fromHex t, p.toInt?, o.toInt? with
    | some g, some t, some p, some o => some { c with groups := setGroup c.groups (storeGroup (if store == "zk" then 0 else 1) g, t, p) o }
    | _, _, _, _ => none
  | ["COORD", n] => n.toInt?.map fun n => { c with coordinator := n }
  | ["FAULT", api, t, p, code, count] =>
    match api.toInt?, code.toInt?, count.toNat? with
    | some api, some code, some count =>
      let t := if t == "*" then some none else (fromHex t).map some
      let p := if p == "*" then some none else p.toInt?.map some
      match t, p with
      | some t, some p => some { c with faults := c.faults ++ [⟨api, t, p, code, count⟩] }
      | _, _ => none
    | _, _, _ => none
  | "SCRIPT" :: api :: codes =>
    match api.toInt?, codes.mapM (·.toInt?) with
    | some api, some codes => some { c with scripts := (c.scripts.filter (·.1 != api)) ++ [(api, codes)] }
    | _, _ => none
  | ["ORDER", "req"] => some { c with order := .req }
  | ["ORDER", "rev"] => some { c with order := .rev }
  | ["ORDER", "rot", k] => k.toNat?.map fun k => { c with order := .rot k }
  | ["FETCHSHAPE", n, k] =>
    match n.toInt?, k.toNat? with
    | some n, some k => some { c with fetchShape := (c.fetchShape.filter (·.1 != n)) ++ (if k == 0 then [] else [(n, k)]) }
    | _, _ => none
  | ["DATAWITHERROR", b] => some { c with dataWithError := b == "1" }
  | _ => none

/-- serve one request frame: reply line -/
def serveReq (c : Cluster) (host frame : Bytes) : Cluster × String :=
  match parseFrame frame with
  | none => (c, "BAD unparseable-request")
  | some req =>
    let (c', r) := handle c host req
    match r with
    | some payload => (c', "RESP " ++ toHex payload)
    | none => (c', "NORESP")

end Kafka.Driver
