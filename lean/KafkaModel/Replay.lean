import KafkaModel.Model.Consumer
import KafkaModel.Model.Producer
import KafkaModel.Model.Net
import KafkaModel.Spec.Broker
import KafkaModel.Algo.Inflate
import KafkaModel.Algo.Snappy
/-!
  Correspondence check, Lean side: re-run the *model* over a recorded trace of the real client
  (operations, connection events, request frames, replies) and report every difference in
  observable behaviour.  See DESIGN.md §2.2 and §12.
-/
namespace Kafka.Replay
open Kafka Kafka.Model

/-! ### canonical text forms (mirrored by harness/src/canon.rs) -/

def insSorted {α} (lt : α → α → Bool) (x : α) : List α → List α
  | [] => [x]
  | y :: r => if lt x y then x :: y :: r else y :: insSorted lt x r

/-- stable insertion sort -/
def sortBy {α} (lt : α → α → Bool) (xs : List α) : List α := xs.foldr (fun x acc => insSorted (fun a b => !lt b a) x acc) []

def errStr : Err → String
  | .io => "Io"
  | .eof => "EOF"
  | .codec => "Codec"
  | .strDecode => "StrDecode"
  | .kafka c => s!"Kafka({c})"
  | .tpe t p c => s!"TPE({toHexTok t},{p},{c})"
  | .unsupportedProtocol => "UnsupportedProtocol"
  | .unsupportedCompression => "UnsupportedCompression"
  | .invalidSnappy => "InvalidSnappy"
  | .noHost => "NoHost"
  | .noTopics => "NoTopics"
  | .invalidDuration => "InvalidDuration"
  | .unsetStorage => "UnsetStorage"
  | .unsetGroup => "UnsetGroup"

def outStr {α} (f : α → String) : Outcome α → String
  | .ok a => f a
  | .err e => "err " ++ errStr e
  | .panic _ => "panic"
  | .diverge => "diverge"

def joinWith (sep : String) (xs : List String) : String := sep.intercalate xs

def tpLt (a b : Bytes × Int) : Bool := bytesLt a.1 b.1 || (a.1 == b.1 && a.2 < b.2)

def fmtOffsets (m : List (Bytes × List (Int × Int))) : String :=
  let ts := sortBy (fun a b => bytesLt a.1 b.1) m
  "ok" ++ String.join (ts.map fun (t, ps) =>
    " " ++ toHexTok t ++ "=" ++ joinWith "," ((sortBy (fun a b => a.1 < b.1 || (a.1 == b.1 && a.2 < b.2)) ps).map fun (p, o) => s!"{p}:{o}"))

def fmtListOffsets (m : List (Bytes × List (Int × Int × Int))) : String :=
  let ts := sortBy (fun a b => bytesLt a.1 b.1) m
  "ok" ++ String.join (ts.map fun (t, ps) =>
    " " ++ toHexTok t ++ "=" ++ joinWith "," ((sortBy (fun a b => a.1 < b.1 || (a.1 == b.1 && a.2.1 < b.2.1)) ps).map fun (p, o, tm) => s!"{p}:{o}:{tm}"))

def fmtMsgs (ms : List Message) : String :=
  "[" ++ joinWith "," (ms.map fun m => s!"{m.offset}:{toHexTok m.key}:{toHexTok m.value}") ++ "]"

def fmtFetch (rs : List FetchResponse) : String :=
  let parts := rs.flatMap fun r => r.topics.flatMap fun t => t.partitions.map fun p => (t.topic, p)
  let parts := sortBy (fun a b => tpLt (a.1, a.2.partition) (b.1, b.2.partition)) parts
  "ok" ++ String.join (parts.map fun (t, p) =>
    " " ++ toHexTok t ++ "/" ++ toString p.partition ++ "=" ++
      match p.data with
      | .error c => s!"E{c}"
      | .ok (hw, ms) => toString hw ++ fmtMsgs ms)

def fmtConfirms (cs : List ProduceConfirm) : String :=
  let cs := sortBy (fun a b => bytesLt a.topic b.topic ||
    (a.topic == b.topic && (a.confirms.head?.map (·.partition)).getD 0 < (b.confirms.head?.map (·.partition)).getD 0)) cs
  "ok" ++ String.join (cs.map fun c =>
    " " ++ toHexTok c.topic ++ "=" ++ joinWith "," (c.confirms.map fun pc =>
      match pc.offset with
      | .ok o => s!"{pc.partition}:{o}"
      | .error e => s!"{pc.partition}:E{e}"))

def fmtPoll (r : PollResult) : String :=
  let it := sortBy (fun a b => tpLt (a.1, a.2.1) (b.1, b.2.1)) (iterate r.responses)
  s!"ok empty={if r.empty then 1 else 0}" ++ String.join (it.map fun (t, p, ms) =>
    " " ++ toHexTok t ++ "/" ++ toString p ++ "=" ++ fmtMsgs ms)

def fmtSubs (m : List (Bytes × List Int)) : String :=
  let ts := sortBy (fun a b => bytesLt a.1 b.1) m
  "ok" ++ String.join (ts.map fun (t, ps) =>
    " " ++ toHexTok t ++ "=" ++ joinWith "," ((sortBy (fun (a b : Int) => a < b) ps).map toString))

def fmtTopics (st : ClientState) : String :=
  let ts := sortBy (fun a b => bytesLt a.1 b.1) st.topics
  "ok" ++ String.join (ts.map fun (t, ps) =>
    " " ++ toHexTok t ++ "=" ++ joinWith "," ((List.range ps.length).zip ps |>.map fun (i, b) =>
      match st.brokers[b]? with
      | some br => s!"{i}:{br.nodeId}@{toHexTok br.host}"
      | none => s!"{i}:~"))

def storageStr : Option Storage → String
  | none => "none" | some .zookeeper => "zk" | some .kafka => "kafka"

def fmtConfig (c : Config) : String :=
  s!"ok client_id={toHexTok c.clientId} compression={c.compression} maxwait_ms={c.fetchMaxWait} minbytes={c.fetchMinBytes} maxbytes={c.fetchMaxBytes} crc={if c.crcValidation then 1 else 0} storage={storageStr c.storage} backoff_ms={c.retryBackoffMs} retry={c.retryMax} idle_ms={c.idleTimeoutMs}"

/-! ### recorded events -/

inductive Ev
  | connect (host : Bytes) (ok : Bool)
  | req (host : Bytes) (frame : Bytes) (reply : Option Bytes)   -- reply payload; none = no reply read/sent
  | io (host : Bytes) (what : String)
  /-- raw bytes written by the "broker" in place of the framed reply of the preceding request (hostile replies) -/
  | raw (host : Bytes) (bytes : Bytes)
deriving Repr

structure RW where
  evs : List Ev
  /-- per host: the bytes the broker has written on the current connection and that were not read yet -/
  pending : List (Bytes × Bytes) := []
  /-- which object's connections the running operation uses (`c`lient, `k`onsumer, `p`roducer): each owns its own pool -/
  owner : Bytes := []
  mismatches : List String := []
deriving Repr

def evHost : Ev → Bytes
  | .connect h _ => h
  | .req h _ _ => h
  | .io h _ => h
  | .raw h _ => h

/-- a produced partition set, with a compressed wrapper opened by the independent decompressors
    (the model cannot predict flate2's / snap's exact output; what must agree is what it decompresses to) -/
def canonSet (set : Bytes) : Bytes :=
  match Spec.parseMessageSet set with
  | some [m] =>
    match m.value with
    | some v =>
      let c := (toU 1 m.attr) % 8
      if c = 1 then
        match Inflate.gunzip v with
        | .ok inner => strBytes "gzip:" ++ inner
        | .error _ => set
      else if c = 2 then
        match Snappy.rawDecode v with
        | some inner => strBytes "snappy:" ++ inner
        | none => set
      else set
    | none => set
  | _ => set

/-- requests are compared as parsed structures with map-ordered parts sorted -/
def canonReq (frame : Bytes) : String :=
  match Spec.parseFrame frame with
  | none => "raw:" ++ toHex frame
  | some r =>
    let body := match r.body with
      | .produce a b ts => Spec.ReqBody.produce a b (ts.map fun (t, ps) => (t, ps.map fun (p, set) => (p, canonSet set)))
      | .fetch a b c ts =>
        Spec.ReqBody.fetch a b c (sortBy (fun x y => bytesLt x.1 y.1) (ts.map fun (t, ps) => (t, sortBy (fun x y => x.partition < y.partition) ps)))
      | .offsetCommit g a b c ts =>
        .offsetCommit g a b c (sortBy (fun x y => bytesLt x.1 y.1) (ts.map fun (t, ps) => (t, sortBy (fun x y => x.partition < y.partition) ps)))
      | b => b
    toString (repr ({ r with body := body } : Spec.Request))

def note (w : RW) (s : String) : RW := { w with mismatches := w.mismatches ++ [s] }

def connKey (w : RW) (host : Bytes) : Bytes := w.owner ++ [0] ++ host
def streamOf (w : RW) (host : Bytes) : Bytes := ((w.pending.find? (·.1 = connKey w host)).map (·.2)).getD []
def setStream (w : RW) (host : Bytes) (bs : Bytes) : RW :=
  { w with pending := (w.pending.filter (·.1 ≠ connKey w host)) ++ (if bs.isEmpty then [] else [(connKey w host, bs)]) }

/-- the object an operation runs on -/
def ownerOf (toks : List String) : Bytes :=
  match toks with
  | "c" :: _ => strBytes "c"
  | "k" :: _ => strBytes "k"
  | "p" :: _ => strBytes "p"
  | op :: _ =>
    if op ∈ ["consumer_create", "poll", "poll_keep", "poll_mark", "seek", "consume", "commit", "consumer_drop", "consumer_into_client"] then strBytes "k"
    else if op ∈ ["producer_create", "send_all", "send", "producer_into_client"] then strBytes "p"
    else strBytes "c"
  | [] => strBytes "c"

def dropStreams (pend : List (Bytes × Bytes)) (o : Bytes) : List (Bytes × Bytes) := pend.filter fun x => x.1.takeWhile (· ≠ 0) ≠ o
def moveStreams (pend : List (Bytes × Bytes)) (src dst : Bytes) : List (Bytes × Bytes) :=
  (dropStreams pend dst).map fun x => if x.1.takeWhile (· ≠ 0) = src then (dst ++ x.1.dropWhile (· ≠ 0), x.2) else x

def replayEnv (cx : Codecs) (comp : Nat → Bytes → Bytes) (debug : Bool) : Env RW where
  connect := fun w host =>
    match w.evs with
    | .connect h ok :: r =>
      -- a new connection starts with an empty stream
      let w := if ok then setStream w h [] else w
      if h = host then ({ w with evs := r }, ok)
      else (note { w with evs := r } s!"model connects to {toHexTok host}, implementation to {toHexTok h}", ok)
    | _ => (note w s!"model connects to {toHexTok host}, implementation does not", false)
  send := fun w host frame =>
    match w.evs with
    | .req h f reply :: r =>
      -- what the broker writes in return: the framed reply, or the raw bytes recorded right after the request
      let (written, r) := match r with
        | .raw _ bs :: r' => (bs, r')
        | _ => ((match reply with | some p => encI 4 p.length ++ p | none => []), r)
      let w' := setStream { w with evs := r } h (streamOf w h ++ written)
      let w' := if h ≠ host then note w' s!"model sends to {toHexTok host}, implementation to {toHexTok h}" else w'
      let w' := if canonReq f ≠ canonReq frame then
          note w' s!"request differs: model {canonReq frame} | implementation {canonReq f}" else w'
      (w', .ok ())
    | .io h "send-fail" :: r =>
      if h = host then ({ w with evs := r }, .error .io) else (note { w with evs := r } "send-fail on other host", .error .io)
    | _ => (note w s!"model sends {canonReq frame} to {toHexTok host}, implementation sends nothing", .error .io)
  recv := fun w host =>
    -- `__get_response` on what the connection's stream holds (Model/Net.lean)
    let (st, res) := getResponse { incoming := streamOf w host }
    let failNext : Option (Bytes × List Ev) := match w.evs with
      | .io h "recv-fail" :: r => some (h, r)
      | _ => none
    match res, failNext with
    | Except.error Err.codec, none => (setStream w host st.incoming, Except.error Err.codec)
    | _, some (h, r) =>
      -- (a recorded read failure fired before anything else could be made of the reply, an unreadable size included)
      -- a read failed (injected, or the stream ran dry): whatever was read so far is lost with the connection
      let w := { w with evs := r }
      if h = host then (w, .error .io) else (note w "recv-fail on other host", .error .io)
    | Except.ok p, none => (setStream w host st.incoming, Except.ok p)
    | Except.error e, none => (note w s!"model reads a reply from {toHexTok host}, none (or too little) was recorded", Except.error e)
  pick := fun w cands =>
    match w.evs.head? with
    | some e => if evHost e ∈ cands then some (evHost e) else cands.head?
    | none => cands.head?
  codecs := cx
  comp := comp
  debug := debug

/-! ### sessions -/

structure Sess where
  client : Option Client := none
  cons : Option Consumer := none
  prod : Option Producer := none

def intsOf (xs : List String) : Option (List Int) := xs.mapM (·.toInt?)

def parseFetchArgs : List String → Option (List FetchArg)
  | [] => some []
  | t :: p :: o :: m :: r =>
    match fromHex t, p.toInt?, o.toInt?, m.toInt?, parseFetchArgs r with
    | some t, some p, some o, some m, some rest => some (⟨t, p, o, m⟩ :: rest)
    | _, _, _, _, _ => none
  | _ => none

def optBytes (s : String) : Option (Option Bytes) := if s == "~" then some none else (fromHex s).map some

def parseProduceArgs : List String → Option (List ProduceArg)
  | [] => some []
  | t :: p :: k :: v :: r =>
    match fromHex t, p.toInt?, optBytes k, optBytes v, parseProduceArgs r with
    | some t, some p, some k, some v, some rest => some (⟨t, p, k, v⟩ :: rest)
    | _, _, _, _, _ => none
  | _ => none

def parseRecords : List String → Option (List Record)
  | [] => some []
  | t :: p :: k :: v :: r =>
    match fromHex t, p.toInt?, fromHex k, fromHex v, parseRecords r with
    | some t, some p, some k, some v, some rest => some (⟨t, p, k, v⟩ :: rest)
    | _, _, _, _, _ => none
  | _ => none

def parseTPO : List String → Option (List (Bytes × Int × Int))
  | [] => some []
  | t :: p :: o :: r =>
    match fromHex t, p.toInt?, o.toInt?, parseTPO r with
    | some t, some p, some o, some rest => some ((t, p, o) :: rest)
    | _, _, _, _ => none
  | _ => none

def parseTP : List String → Option (List (Bytes × Int))
  | [] => some []
  | t :: p :: r =>
    match fromHex t, p.toInt?, parseTP r with
    | some t, some p, some rest => some ((t, p) :: rest)
    | _, _, _ => none
  | _ => none

def parseStorage (s : String) : Option (Option Storage) :=
  if s == "none" then some none else if s == "zk" then some (some .zookeeper) else if s == "kafka" then some (some .kafka) else none

def kv (s : String) : String × String :=
  match s.splitOn "=" with
  | k :: rest => (k, "=".intercalate rest)
  | [] => ("", "")

/-- `KafkaClient` setters; `none` = unknown option; `some (.error e)` = the setter returned an error -/
def applySet (c : Client) (opt : String) (vals : List String) : Option (Except Err Client) :=
  let cfg := c.cfg
  let ok (cfg : Config) : Option (Except Err Client) := some (.ok { c with cfg := cfg })
  match opt, vals with
  | "client_id", [v] => (fromHex v).bind fun v => ok { cfg with clientId := v }
  | "compression", [v] => v.toNat?.bind fun v => ok { cfg with compression := v }
  | "fetch_max_wait", [s, n] =>
    match s.toNat?, n.toNat? with
    | some s, some n => match toMillisI32 s n with
      | .ok m => ok { cfg with fetchMaxWait := m }
      | .error e => some (.error e)
    | _, _ => none
  | "fetch_min_bytes", [v] => v.toInt?.bind fun v => ok { cfg with fetchMinBytes := v }
  | "fetch_max_bytes", [v] => v.toInt?.bind fun v => ok { cfg with fetchMaxBytes := v }
  | "crc", [v] => ok { cfg with crcValidation := v == "1" }
  | "storage", [v] => (parseStorage v).bind fun v => ok { cfg with storage := v }
  | "retry_backoff_ms", [v] => v.toNat?.bind fun v => ok { cfg with retryBackoffMs := v }
  | "retry_max", [v] => v.toNat?.bind fun v => ok { cfg with retryMax := v }
  | "idle_ms", [v] => v.toNat?.bind fun v => ok { cfg with idleTimeoutMs := v }
  | _, _ => none

def parseFallback (s : String) : Option Fallback :=
  if s == "earliest" then some .earliest
  else if s == "latest" then some .latest
  else match s.splitOn ":" with
    | ["time", t] => t.toInt?.map .byTime
    | _ => none

def parseConsumerOpt (tok : String) : Option CBOp :=
  let (k, v) := kv tok
  match k with
  | "group" => (fromHex v).map .group
  | "topic" => (fromHex v).map .topic
  | "tp" =>
    match v.splitOn ":" with
    | [t, ps] =>
      match fromHex t, (if ps == "" then some [] else intsOf (ps.splitOn ",")) with
      | some t, some ps => some (.topicPartitions t ps)
      | _, _ => none
    | _ => none
  | "fallback" => (parseFallback v).map .fallback
  | "maxwait" =>
    match v.splitOn ":" with
    | [s, n] => match s.toNat?, n.toNat? with
      | some s, some n => some (.fetchMaxWait s n)
      | _, _ => none
    | _ => none
  | "minbytes" => v.toInt?.map .fetchMinBytes
  | "maxbytes" => v.toInt?.map .fetchMaxBytes
  | "retrylimit" => v.toInt?.map .retryLimit
  | "crc" => some (.crc (v == "1"))
  | "storage" => (parseStorage v).map .storage
  | "idle" => v.toNat?.map .idleTimeout
  | "clientid" => (fromHex v).map .clientId
  | _ => none

def applyConsumerOpt (b : ConsumerBuilder) (tok : String) : Option ConsumerBuilder :=
  (parseConsumerOpt tok).map b.apply

def applyProducerOpt (b : ProducerBuilder) (tok : String) : Option ProducerBuilder :=
  let (k, v) := kv tok
  match k with
  | "compression" => v.toNat?.map fun x => b.apply (.compression x)
  | "acktimeout" =>
    match v.splitOn ":" with
    | [s, n] => match s.toNat?, n.toNat? with
      | some s, some n => some (b.apply (.ackTimeout s n))
      | _, _ => none
    | _ => none
  | "idle" => v.toNat?.map fun x => b.apply (.idleTimeout x)
  | "acks" => v.toInt?.map fun x => b.apply (.acks x)
  | "clientid" => (fromHex v).map fun x => b.apply (.clientId x)
  | "partitioner" => v.toNat?.map fun x => b.apply (.partitioner x)
  | _ => none

def hostsOf (s : String) : Option (List Bytes) := if s == "" then some [] else (s.splitOn ",").mapM fromHex

/-- run a client-level operation of the model in whichever object currently owns the client -/
def withClient {α} (s : Sess) (w : RW) (target : String) (m : CM RW α) : Option (Sess × RW × Outcome α) :=
  match target with
  | "c" => s.client.map fun c =>
      let (w', o) := m ⟨w, c⟩
      ({ s with client := some w'.client }, w'.world, o)
  | "k" => s.cons.map fun k =>
      let (w', o) := m ⟨w, k.client⟩
      ({ s with cons := some { k with client := w'.client } }, w'.world, o)
  | "p" => s.prod.map fun p =>
      let (w', o) := m ⟨w, p.client⟩
      ({ s with prod := some { p with client := w'.client } }, w'.world, o)
  | _ => none

/-- execute one OP line against the model; returns the new session, the world after it and the predicted RESULT text -/
def runOp (env : Env RW) (s : Sess) (w : RW) (toks : List String) : Option (Sess × RW × String) :=
  -- operations on an object that does not exist (its creation failed earlier in the scenario)
  let missing : Bool := match toks with
    | "c" :: _ => s.client.isNone
    | "k" :: _ => s.cons.isNone
    | ["poll"] => s.cons.isNone
    | ["poll_keep"] => s.cons.isNone
    | ["poll_mark"] => s.cons.isNone
    | "seek" :: _ => s.cons.isNone
    | "consume" :: _ => s.cons.isNone
    | ["commit"] => s.cons.isNone
    | ["subscriptions"] => s.cons.isNone
    | "last_consumed" :: _ => s.cons.isNone
    | ["consumer_into_client"] => s.cons.isNone
    | "p" :: _ => s.prod.isNone
    | "send_all" :: _ => s.prod.isNone
    | "send" :: _ => s.prod.isNone
    | ["producer_into_client"] => s.prod.isNone
    | "consumer_create" :: "client" :: _ => s.client.isNone
    | "producer_create" :: "client" :: _ => s.client.isNone
    | _ => false
  if missing then some (s, w, "noobj") else
  match toks with
  | ["client_new", hosts] => (hostsOf hosts).map fun hs => ({ s with client := some { cfg := { hosts := hs } } }, w, "ok")
  | tgt :: "set" :: opt :: vals =>
    let c? : Option Client := match tgt with
      | "c" => s.client
      | "k" => s.cons.map (fun k => k.client)
      | "p" => s.prod.map (fun p => p.client)
      | _ => none
    c?.bind fun c => (applySet c opt vals).map fun (r : Except Err Client) =>
      match r with
      | Except.ok c' =>
        let s' := match tgt with
          | "c" => { s with client := some c' }
          | "k" => { s with cons := s.cons.map fun k => { k with client := c' } }
          | _ => { s with prod := s.prod.map fun p => { p with client := c' } }
        (s', w, "ok")
      | Except.error e => (s, w, "err " ++ errStr e)
  | [tgt, "get_config"] =>
    (withClient s w tgt (getClient (σ := RW))).map fun (s, w, o) => (s, w, outStr (fun c => fmtConfig c.cfg) o)
  | [tgt, "topics"] =>
    (withClient s w tgt (getClient (σ := RW))).map fun (s, w, o) => (s, w, outStr (fun c => fmtTopics c.st) o)
  | [tgt, "load_metadata_all"] =>
    (withClient s w tgt (loadMetadataAll env)).map fun (s, w, o) => (s, w, outStr (fun _ => "ok") o)
  | tgt :: "load_metadata" :: ts =>
    (ts.mapM fromHex).bind fun ts => (withClient s w tgt (loadMetadata env ts)).map fun (s, w, o) => (s, w, outStr (fun _ => "ok") o)
  | [tgt, "reset_metadata"] =>
    (withClient s w tgt (resetMetadata (σ := RW))).map fun (s, w, o) => (s, w, outStr (fun _ => "ok") o)
  | tgt :: "fetch_offsets" :: time :: ts =>
    match time.toInt?, ts.mapM fromHex with
    | some time, some ts => (withClient s w tgt (fetchOffsets env ts time)).map fun (s, w, o) => (s, w, outStr fmtOffsets o)
    | _, _ => none
  | tgt :: "list_offsets" :: time :: ts =>
    match time.toInt?, ts.mapM fromHex with
    | some time, some ts => (withClient s w tgt (listOffsets env ts time)).map fun (s, w, o) => (s, w, outStr fmtListOffsets o)
    | _, _ => none
  | [tgt, "fetch_topic_offsets", time, t] =>
    match time.toInt?, fromHex t with
    | some time, some t => (withClient s w tgt (fetchTopicOffsets env t time)).map fun (s, w, o) =>
        (s, w, outStr (fun ps => fmtOffsets [(t, ps)]) o)
    | _, _ => none
  | tgt :: "fetch_messages" :: args =>
    (parseFetchArgs args).bind fun args => (withClient s w tgt (fetchMessages env args)).map fun (s, w, o) => (s, w, outStr fmtFetch o)
  -- thin public wrappers: `fetch_messages_for_partition`, `commit_offset`
  | [tgt, "fetch_for_partition", t, p, o, m] =>
    (parseFetchArgs [t, p, o, m]).bind fun args => (withClient s w tgt (fetchMessages env args)).map fun (s, w, o) => (s, w, outStr fmtFetch o)
  | [tgt, "commit_offset", g, t, p, o] =>
    match fromHex g, fromHex t, p.toInt?, o.toInt? with
    | some g, some t, some p, some o => (withClient s w tgt (commitOffsets env g [(t, p, o)])).map fun (s, w, r) => (s, w, outStr (fun _ => "ok") r)
    | _, _, _, _ => none
  -- results kept alive by the harness (C18): at the value level the same calls; re-reading a live result shows what it showed
  | tgt :: "fetch_keep" :: args =>
    (parseFetchArgs args).bind fun args => (withClient s w tgt (fetchMessages env args)).map fun (s, w, o) => (s, w, outStr fmtFetch o)
  | ["poll_keep"] =>
    s.cons.map fun k =>
      let (wc, o) := poll env ⟨w, k⟩
      ({ s with cons := some wc.cons }, wc.world, outStr fmtPoll o)
  | ["keep_check"] => some (s, w, "ok")
  | ["keep_move", _] => some (s, w, "ok")
  | ["keep_drop", _] => some (s, w, "ok")
  | ["churn", _] => some (s, w, "ok")
  | tgt :: "produce" :: acks :: secs :: nanos :: args =>
    match acks.toInt?, secs.toNat?, nanos.toNat?, parseProduceArgs args with
    | some acks, some secs, some nanos, some args =>
      (withClient s w tgt (produceMessages env acks secs nanos args)).map fun (s, w, o) => (s, w, outStr fmtConfirms o)
    | _, _, _, _ => none
  | tgt :: "commit_offsets" :: g :: args =>
    match fromHex g, parseTPO args with
    | some g, some args => (withClient s w tgt (commitOffsets env g args)).map fun (s, w, o) => (s, w, outStr (fun _ => "ok") o)
    | _, _ => none
  | tgt :: "fetch_group_offsets" :: g :: args =>
    match fromHex g, parseTP args with
    | some g, some args => (withClient s w tgt (fetchGroupOffsets env g args)).map fun (s, w, o) => (s, w, outStr fmtOffsets o)
    | _, _ => none
  | [tgt, "fetch_group_topic_offset", g, t] =>
    match fromHex g, fromHex t with
    | some g, some t => (withClient s w tgt (fetchGroupTopicOffset env g t)).map fun (s, w, o) =>
        (s, w, outStr (fun ps => fmtOffsets [(t, ps)]) o)
    | _, _ => none
  -- consumer
  | "consumer_create" :: from_ :: opts =>
    let b0? : Option ConsumerBuilder :=
      if from_ == "client" then s.client.map fun c => ConsumerBuilder.new (some c) []
      else match from_.splitOn "=" with
        | ["hosts", hs] => (hostsOf hs).map fun hs => ConsumerBuilder.new none hs
        | _ => none
    b0?.bind fun b0 =>
      (opts.foldlM applyConsumerOpt b0).map fun b =>
        let s := if from_ == "client" then { s with client := none } else s
        let (w', o) := b.create env w
        match o with
        | .ok k => ({ s with cons := some k }, w', "ok")
        | o => (s, w', outStr (fun _ => "ok") o)
  | ["poll"] =>
    s.cons.map fun k =>
      let (wc, o) := poll env ⟨w, k⟩
      ({ s with cons := some wc.cons }, wc.world, outStr fmtPoll o)
  | ["poll_mark"] =>
    -- `poll`, then `consume_messageset` on every delivered set (= `consume_message` at its last offset)
    s.cons.map fun k =>
      let (wc, o) := poll env ⟨w, k⟩
      match o with
      | .ok r =>
        let sets := sortBy (fun (a b : Bytes × Int × List Message) => bytesLt a.1 b.1 || (a.1 == b.1 && a.2.1 < b.2.1)) (iterate r.responses)
        let (wc, marks) := sets.foldl (fun (acc : WC RW × List String) (x : Bytes × Int × List Message) =>
          match x.2.2.getLast? with
          | some last =>
            let (wc', r) := consumeMessage x.1 x.2.1 last.offset acc.1
            (wc', acc.2 ++ [match r with | .ok _ => "ok" | .err e => errStr e | .panic _ => "panic" | .diverge => "diverge"])
          | none => (acc.1, acc.2 ++ ["ok"])) (wc, [])
        ({ s with cons := some wc.cons }, wc.world, fmtPoll r ++ " marks=" ++ ",".intercalate marks)
      | o => ({ s with cons := some wc.cons }, wc.world, outStr fmtPoll o)
  | ["seek", t, p, o] =>
    match s.cons, fromHex t, p.toInt?, o.toInt? with
    | some k, some t, some p, some o =>
      let (wc, r) := seek t p o ⟨w, k⟩
      some ({ s with cons := some wc.cons }, wc.world, outStr (fun _ => "ok") r)
    | _, _, _, _ => none
  | ["consume", t, p, o] =>
    match s.cons, fromHex t, p.toInt?, o.toInt? with
    | some k, some t, some p, some o =>
      let (wc, r) := consumeMessage t p o ⟨w, k⟩
      some ({ s with cons := some wc.cons }, wc.world, outStr (fun _ => "ok") r)
    | _, _, _, _ => none
  | ["commit"] =>
    s.cons.map fun k =>
      let (wc, o) := commitConsumed env ⟨w, k⟩
      ({ s with cons := some wc.cons }, wc.world, outStr (fun _ => "ok") o)
  | ["subscriptions"] => s.cons.map fun k => (s, w, fmtSubs (subscriptions k))
  | ["last_consumed", t, p] =>
    match s.cons, fromHex t, p.toInt? with
    | some k, some t, some p => some (s, w, match lastConsumed k t p with | some o => s!"ok {o}" | none => "ok none")
    | _, _, _ => none
  | ["consumer_drop"] => some ({ s with cons := none }, w, "ok")
  | ["consumer_into_client"] => s.cons.map fun k => ({ s with cons := none, client := some k.client }, w, "ok")
  -- producer
  | "producer_create" :: from_ :: opts =>
    let b0? : Option ProducerBuilder :=
      if from_ == "client" then s.client.map fun c => ProducerBuilder.new (some c) []
      else match from_.splitOn "=" with
        | ["hosts", hs] => (hostsOf hs).map fun hs => ProducerBuilder.new none hs
        | _ => none
    b0?.bind fun b0 =>
      (opts.foldlM applyProducerOpt b0).map fun b =>
        let s := if from_ == "client" then { s with client := none } else s
        let (w', o) := b.create env w
        match o with
        | .ok p => ({ s with prod := some p }, w', "ok")
        | o => (s, w', outStr (fun _ => "ok") o)
  | "send_all" :: args =>
    match s.prod, parseRecords args with
    | some p, some recs =>
      let (wp, o) := sendAll env recs ⟨w, p⟩
      some ({ s with prod := some wp.prod }, wp.world, outStr fmtConfirms o)
    | _, _ => none
  | ["send", t, p, k, v] =>
    match s.prod, parseRecords [t, p, k, v] with
    | some pr, some [r] =>
      let (wp, o) := send env r ⟨w, pr⟩
      some ({ s with prod := some wp.prod }, wp.world, outStr (fun _ => "ok") o)
    | _, _ => none
  | ["producer_into_client"] => s.prod.map fun p => ({ s with prod := none, client := some p.client }, w, "ok")
  | _ => none

/-! ### trace structure -/

structure OpRec where
  idx : Nat
  toks : List String
  evs : List Ev
  result : String
  /-- broker set-up commands issued since the previous operation -/
  setup : List (List String) := []
  /-- harness notes recorded during the operation (e.g. `partial-frame <host> <n>`) -/
  notes : List (List String) := []
deriving Repr

/-- group trace lines into operations: OP …, events …, RESULT … -/
def parseOps (lines : List String) : List OpRec :=
  let toksOf (l : String) : List String := (l.trimAscii.toString.splitOn " ").filter (· ≠ "")
  let rec go : List (String × String) → Option (Nat × List String × List Ev) → List (List String) → Nat → List OpRec → List OpRec
    | [], _, _, _, acc => acc.reverse
    | (l, next) :: rest, cur, su, n, acc =>
      match toksOf l, cur with
      | "OP" :: t, _ => go rest (some (n, t, [])) (su.filter fun x => x.head? != some "NOTE") (n + 1) acc
      | "RESULT" :: r, some (i, t, evs) =>
        go rest none [] n (⟨i, t, evs.reverse, " ".intercalate r, (su.filter fun x => x.head? != some "NOTE").reverse,
          ((su.filter fun x => x.head? == some "NOTE").map (·.drop 1)).reverse⟩ :: acc)
      | "NOTE" :: t, some _ => go rest cur (("NOTE" :: t) :: su) n acc
      | ["CONNECT", h, ok], some (i, t, evs) =>
        match fromHex h with
        | some h => go rest (some (i, t, .connect h (ok == "ok") :: evs)) su n acc
        | none => go rest cur su n acc
      | ["IO", h, what], some (i, t, evs) =>
        match fromHex h with
        | some h => go rest (some (i, t, .io h what :: evs)) su n acc
        | none => go rest cur su n acc
      | ["REQ", h, f], some (i, t, evs) =>
        match fromHex h, fromHex f with
        | some h, some f =>
          -- the reply line follows immediately
          let reply := match toksOf next with
            | ["RESP", p] => fromHex p
            | _ => none
          go rest (some (i, t, .req h f reply :: evs)) su n acc
        | _, _ => go rest cur su n acc
      | ["RAW", h, bs], some (i, t, evs) =>
        match fromHex h, fromHex bs with
        | some h, some bs => go rest (some (i, t, .raw h bs :: evs)) su n acc
        | _, _ => go rest cur su n acc
      | "RESP" :: _, _ => go rest cur su n acc
      | ["NORESP"], _ => go rest cur su n acc
      | "BAD" :: _, _ => go rest cur su n acc
      | [], _ => go rest cur su n acc
      | toks, none => go rest cur (toks :: su) n acc
      | _, _ => go rest cur su n acc
  go (lines.zip (lines.drop 1 ++ [""])) none [] 0 []

/-- replay all operations; returns mismatch reports -/
def replay (cx : Codecs) (comp : Nat → Bytes → Bytes) (debug : Bool) (ops : List OpRec) : List String :=
  let env := replayEnv cx comp debug
  -- unread bytes stay in a connection's stream from one operation to the next
  let rec go : List OpRec → Sess → List (Bytes × Bytes) → List String → List String
    | [], _, _, out => out
    | op :: rest, s, pend, out =>
      -- connections belong to objects: they move with a client handed to a consumer / producer and die with a dropped one
      let pend := match op.toks with
        | "client_new" :: _ => dropStreams pend (strBytes "c")
        | "consumer_create" :: "client" :: _ => if s.client.isSome then moveStreams pend (strBytes "c") (strBytes "k") else pend
        | "consumer_create" :: _ => dropStreams pend (strBytes "k")
        | "producer_create" :: "client" :: _ => if s.client.isSome then moveStreams pend (strBytes "c") (strBytes "p") else pend
        | "producer_create" :: _ => dropStreams pend (strBytes "p")
        | _ => pend
      match runOp env s { evs := op.evs, pending := pend, owner := ownerOf op.toks } op.toks with
      | none => go rest s pend (out ++ [s!"op {op.idx}: cannot interpret `{" ".intercalate op.toks}`"])
      | some (s', w, predicted) =>
        let out := out ++ w.mismatches.map (fun m => s!"op {op.idx} `{" ".intercalate (op.toks.take 2)}`: {m}")
        let out := if w.evs.isEmpty then out else
          out ++ [s!"op {op.idx} `{" ".intercalate (op.toks.take 2)}`: implementation did {w.evs.length} more I/O event(s) than the model"]
        let out := if predicted == op.result then out else
          out ++ [s!"op {op.idx} `{" ".intercalate (op.toks.take 2)}`: result differs: model `{predicted}` | implementation `{op.result}`"]
        let pend := match op.toks with
          | ["consumer_into_client"] => if predicted == "ok" then moveStreams w.pending (strBytes "k") (strBytes "c") else w.pending
          | ["producer_into_client"] => if predicted == "ok" then moveStreams w.pending (strBytes "p") (strBytes "c") else w.pending
          | ["consumer_drop"] => dropStreams w.pending (strBytes "k")
          | "consumer_create" :: _ => if predicted == "ok" then w.pending else dropStreams w.pending (strBytes "k")
          | "producer_create" :: _ => if predicted == "ok" then w.pending else dropStreams w.pending (strBytes "p")
          | _ => w.pending
        go rest s' pend out
  go ops {} [] []

end Kafka.Replay

namespace Kafka.Replay

/-- the independent Lean decompressors / stand-in compressors used when the model is executed -/
def leanCodecs : Model.Codecs where
  gunzip := fun b => match Inflate.gunzip b with | .ok o => some o | .error _ => none
  unsnap := Snappy.rawDecode
  -- the announced length: a varint of at most five bytes below 2^32
  snapLen := fun b => match Snappy.varint 5 b 0 0 with
    | some (n, _) => if n < 4294967296 then some n else none
    | none => none

def leanComp (c : Nat) (b : Bytes) : Bytes := if c = 1 then Inflate.gzipStored b else Snappy.rawEncode b

def replayLines (debug : Bool) (lines : List String) : List String :=
  replay leanCodecs leanComp debug (parseOps lines)

end Kafka.Replay
