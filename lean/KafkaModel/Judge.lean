import KafkaModel.Replay
import KafkaModel.Driver
/-!
  Violation search: the *specification side* of each property's theorems, evaluated on what the
  real implementation was observed to do (requests it sent, results it returned), against the
  ground truth of the scenario (the cluster the Lean broker was set up with).
  Output: one line per violated conjunct, `<signature> | <details>`.
-/
namespace Kafka.Judge
open Kafka Kafka.Spec Kafka.Replay

structure JSt where
  cluster : Cluster := {}
  out : List String := []
  -- C12
  prodMeta : List (Bytes × (List Int × Nat)) := []
  run : Option (Bytes × List Int) := none

def applySetup (c : Cluster) (cmds : List (List String)) : Cluster :=
  cmds.foldl (fun c t => (Driver.setup c t).getD c) c

def framesOf (op : OpRec) : List (Bytes × Spec.Request) :=
  op.evs.filterMap fun e => match e with
    | .req h f _ => (Spec.parseFrame f).map fun r => (h, r)
    | _ => none

def viol (s : JSt) (sig : String) (op : OpRec) (details : String) : JSt :=
  { s with out := s.out ++ [s!"{sig} | op {op.idx} `{" ".intercalate (op.toks.take 1)}`: {details}"] }

/-! ### C12 -/

/-- the plain messages of a produced partition set, a single compressed wrapper opened with the independent decompressors -/
def openSet (set : Bytes) : List Msg :=
  match parseMessageSet set with
  | some [m] =>
    let c := (toU 1 m.attr) % 8
    if c = 0 then [m] else
    match m.value with
    | some v =>
      let inner := if c = 1 then (match Inflate.gunzip v with | .ok o => some o | .error _ => none) else if c = 2 then Snappy.rawDecode v else none
      match inner.bind parseMessageSet with
      | some ms => ms
      | none => []
    | none => []
  | some ms => ms
  | none => []

/-- all (topic, partition, key, value) seen in produce requests of an operation -/
def producedRecords (op : OpRec) : List (Bytes × Int × Option Bytes × Option Bytes) :=
  (framesOf op).flatMap fun (_, r) =>
    match r.body with
    | .produce _ _ ts => ts.flatMap fun (t, ps) => ps.flatMap fun (p, set) =>
        (openSet set).map fun m => (t, p, m.key, m.value)
    | _ => []

def metaOfCluster (c : Cluster) : List (Bytes × (List Int × Nat)) :=
  c.topics.map fun t =>
    (t.name, ((List.range t.parts.length).zip t.parts |>.filterMap (fun (i, p) =>
        if (c.brokers.any (·.nodeId == p.leader)) then some ((i : Nat) : Int) else none), t.parts.length))

def toOpt (b : Bytes) : Option Bytes := if b.isEmpty then none else some b

def judgeC12Rec (s : JSt) (op : OpRec) (seen : List (Bytes × Int × Option Bytes × Option Bytes)) (r : Model.Record) : JSt :=
  let k := toOpt r.key
  let v := toOpt r.value
  let landed := (seen.filter fun (t, _, k', v') => t == r.topic && k' == k && v' == v).map (·.2.1)
  match Model.assocGet s.prodMeta r.topic with
  | none => s    -- unknown topic: the call must have failed; checked by the caller
  | some (avail, n) =>
    if r.partition ≥ 0 then
      if landed == [r.partition] then s else viol s "C12-explicit" op s!"explicit partition {r.partition} landed in {landed}"
    else match k with
      | some key =>
        let want : Int := ((Xxh.xxh32 0 key).toNat % n : Nat)
        if n = 0 then s
        else if landed == [want] then s
        else viol s "C12-keyed" op s!"key {toHexTok key} with N={n}: expected partition {want}, landed in {landed}"
      | none =>
        match landed with
        | [p] =>
          let s := if avail.contains p then s else viol s "C12-keyless-unavailable" op s!"keyless record landed in partition {p} not in available {avail}"
          let window := match s.run with
            | some (t, w) => if t == r.topic then w else []
            | none => []
          let window := window.drop (window.length + 1 - avail.length)
          let s := if window.contains p then
              viol s "C12-rotation" op s!"keyless record repeats partition {p} within {avail.length} consecutive records (previous: {window})" else s
          { s with run := some (r.topic, window ++ [p]) }
        | _ => if avail.isEmpty then s else viol s "C12-keyless-lost" op s!"keyless record landed in {landed}"

def judgeC12 (ops : List OpRec) : List String :=
  let s := ops.foldl (fun (s : JSt) op =>
    let s := { s with cluster := applySetup s.cluster op.setup }
    match op.toks with
    | "producer_create" :: _ => { s with prodMeta := metaOfCluster s.cluster, run := none }
    | "send_all" :: args =>
      match parseRecords args with
      | some recs =>
        let seen := producedRecords op
        let bad := recs.any fun r =>
          match Model.assocGet s.prodMeta r.topic with
          | none => true
          | some (avail, n) =>
            if r.partition ≥ 0 then r.partition.toNat ≥ n || !(avail.contains r.partition)
            else match toOpt r.key with
              | some key => n = 0 || !(avail.contains (((Xxh.xxh32 0 key).toNat % n : Nat) : Int))
              | none => avail.isEmpty
        if bad then
          -- some record has no reachable destination: the call must fail with unknown-topic-or-partition and send nothing
          let s := if op.result == "err Kafka(3)" then s else viol s "C12-unknown-not-rejected" op s!"result `{op.result}`"
          let s := { s with run := none }   -- a rejected call consumed counter values for records never sent
          if seen.isEmpty then s else viol s "C12-unknown-sent" op "records were sent although one has no destination"
        else recs.foldl (fun s r => judgeC12Rec s op seen r) s
      | none => s
    | _ => s) ({} : JSt)
  s.out

def judge (prop : String) (lines : List String) : List String :=
  let ops := parseOps lines
  match prop with
  | "C12" => judgeC12 ops
  | _ => []

end Kafka.Judge
