import KafkaModel.Replay
import KafkaModel.Driver
import KafkaModel.Spec.MsgSet
/-!
  Violation search: the *specification side* of each property's theorems, evaluated on what the
  real implementation was observed to do (requests it sent, results it returned), against the
  ground truth of the scenario (the cluster the Lean broker was set up with).
  Output: one line per violated conjunct, `<signature> | <details>`.
-/
namespace Kafka.Judge
open Kafka Kafka.Spec Kafka.Replay

structure JSt where
  cluster : Cluster := {}
  out : List String := []
  compression : Nat := 0
  clientId : Bytes := []
  maxCorr : Int := 0
  fetchMaxWait : Int := 100
  fetchMinBytes : Int := 4096
  fetchMaxBytes : Int := 32768
  storage : String := "none"
  retryMax : Nat := 1200
  crcOn : Bool := true
  /-- C04: the validation setting in force for the consumer (the builder's last word, else the handed-in client's, else on) -/
  consCrc : Bool := true
  /-- C20: what the client has loaded: topic ↦ partition count -/
  loaded : List (Bytes × Nat) := []
  -- C12
  prodMeta : List (Bytes × (List Int × Nat)) := []
  run : Option (Bytes × List Int) := none
  -- C05 (producer layer): acknowledgement mode and time-out the producer was built with
  prodAcks : Int := 1
  prodTimeout : Int := 30000
  /-- C10: the client's view may lag the cluster (a reset, a partial load, a failed load, or a cluster change since the last
      complete load): what `topics()` shows is then C06's subject, not a statement about one response -/
  viewLags : Bool := false
  -- C14: groups whose last answer was 'not coordinator for group': the next attempt, in whatever call, needs a look-up first
  needLookup : List String := []

def applySetup (c : Cluster) (cmds : List (List String)) : Cluster :=
  cmds.foldl (fun c t => (Driver.setup c t).getD c) c

/-- the store a client configured with this offset storage reads and writes -/
def storeKey (storage : String) (g : Bytes) : Bytes := storeGroup (if storage == "zk" then 0 else 1) g

def framesOf (op : OpRec) : List (Bytes × Spec.Request) :=
  op.evs.filterMap fun e => match e with
    | .req h f _ => (Spec.parseFrame f).map fun r => (h, r)
    | _ => none

def viol (s : JSt) (sig : String) (op : OpRec) (details : String) : JSt :=
  { s with out := s.out ++ [s!"{sig} | op {op.idx} `{" ".intercalate (op.toks.take 1)}`: {details}"] }

/-! ### shared: ground truth of an operation, the metadata view an object holds -/

/-- let the judge's copy of the cluster see the requests of an operation (commits, produce counters, consumed scripts) -/
def evolve (c : Cluster) (op : OpRec) : Cluster :=
  op.evs.foldl (fun c e => match e with
    | .req h f _ => match Spec.parseFrame f with
      | some r => (handle c h r).1
      | none => c
    | _ => c) c

/-- the structured replies the broker gave during an operation (ground truth), in contact order, and the cluster afterwards -/
def truthBodies (c : Cluster) (op : OpRec) : Cluster × List (Bytes × Request × RespBody) :=
  op.evs.foldl (fun (acc : Cluster × List (Bytes × Request × RespBody)) e => match e with
    | .req h f _ => match Spec.parseFrame f with
      | some r =>
        let (c', b) := handleBody acc.1 h r
        match b with
        | some b => (c', acc.2 ++ [(h, r, b)])
        | none => (c', acc.2)
      | none => acc
    | _ => acc) (c, [])

def hostOf (b : BrokerMeta) : Bytes := b.host ++ strBytes ":" ++ strBytes (toString b.port)


structure J06 where
  cluster : Cluster := {}
  /-- specification view: node id ↦ latest advertised address -/
  hosts : List (Int × Bytes) := []
  /-- topic ↦ leader node id per partition, from the latest response mentioning the topic -/
  topics : List (Bytes × List Int) := []
  bootstrap : List Bytes := []
  out : List String := []

def J06.hostOfNode (s : J06) (n : Int) : Option Bytes := (s.hosts.find? (·.1 == n)).map (·.2)

def J06.view (s : J06) : String :=
  let ts := sortBy (fun (a b : Bytes × List Int) => bytesLt a.1 b.1) s.topics
  "ok" ++ String.join (ts.map fun (tp : Bytes × List Int) =>
    " " ++ toHexTok tp.1 ++ "=" ++ joinWith "," ((List.range tp.2.length).zip tp.2 |>.map fun (x : Nat × Int) =>
      match s.hostOfNode x.2 with
      | some h => s!"{x.1}:{x.2}@{toHexTok h}"
      | none => s!"{x.1}:~"))

/-- merge one metadata response into the view -/
def J06.merge (s : J06) (brokers : List BrokerMeta) (tms : List TopicMeta) : J06 :=
  let hosts := brokers.foldl (fun (m : List (Int × Bytes)) (b : BrokerMeta) => (m.filter fun (x : Int × Bytes) => x.1 != b.nodeId) ++ [(b.nodeId, hostOf b)]) s.hosts
  let topics := tms.foldl (fun (m : List (Bytes × List Int)) (t : TopicMeta) =>
    -- partition ids of a well-formed response are 0..n-1 in some order: place each leader at its id
    let n := t.parts.length
    let leaders : List Int := (List.range n).map fun (i : Nat) =>
      match t.parts.reverse.find? (fun (p : PartMeta) => p.id == (i : Int)) with
      | some p => p.leader
      | none => -1
    (m.filter fun (x : Bytes × List Int) => x.1 != t.name) ++ [(t.name, leaders)]) s.topics
  { s with hosts := hosts, topics := topics }

/-- the address the view resolves a partition's leader to -/
def J06.leaderHost (s : J06) (t : Bytes) (p : Int) : Option Bytes :=
  ((s.topics.find? (fun (y : Bytes × List Int) => y.1 == t)).bind fun (y : Bytes × List Int) =>
    if p < 0 then none else y.2[p.toNat]?).bind s.hostOfNode

/-- the metadata views held by the scenario's objects (`c` the client, `k` the consumer's client, `p` the producer's),
    followed over one operation: C06's specification of a view - the merge of the metadata replies received since the last
    reset - moved along when a client is handed to a builder or taken back -/
def trackViews (views : List (String × J06)) (op : OpRec) (bodies : List (Bytes × Request × RespBody)) : List (String × J06) :=
  let get (k : String) : J06 := ((views.find? (fun (x : String × J06) => x.1 == k)).map (fun (x : String × J06) => x.2)).getD {}
  let set (k : String) (v : J06) : List (String × J06) := (views.filter fun (x : String × J06) => x.1 != k) ++ [(k, v)]
  let okRes := !op.result.startsWith "err" && op.result != "panic" && op.result != "noobj"
  let cleared (v : J06) : J06 := { v with hosts := [], topics := [] }
  let mergeAll (v : J06) : J06 := bodies.foldl (fun (v : J06) (x : Bytes × Request × RespBody) => match x.2.2 with
    | RespBody.metadata bs ts => v.merge bs ts
    | _ => v) v
  match op.toks with
  | ["client_new", _] => set "c" {}
  | ["client_new"] => set "c" {}
  | [tgt, "reset_metadata"] => set tgt (cleared (get tgt))
  | [tgt, "load_metadata_all"] => set tgt (if okRes then mergeAll (cleared (get tgt)) else cleared (get tgt))
  | tgt :: "load_metadata" :: _ => if okRes then set tgt (mergeAll (get tgt)) else views
  | "producer_create" :: from_ :: _ =>
    if op.result == "noobj" then views
    else if from_ == "client" then (if okRes then set "p" (get "c") else views)
    else if okRes then set "p" (mergeAll {}) else views
  | "consumer_create" :: from_ :: _ =>
    if op.result == "noobj" then views
    else if from_ == "client" then (if okRes then set "k" (get "c") else views)
    else if okRes then set "k" (mergeAll {}) else views
  | ["producer_into_client"] => if okRes then set "c" (get "p") else views
  | ["consumer_into_client"] => if okRes then set "c" (get "k") else views
  | _ => views

/-! ### C12 -/

/-- the plain messages of a produced partition set, a single compressed wrapper opened with the independent decompressors -/
def openSet (set : Bytes) : List Msg :=
  match parseMessageSet set with
  | some [m] =>
    let c := (toU 1 m.attr) % 8
    if c = 0 then [m] else
    match m.value with
    | some v =>
      let inner := if c = 1 then (match Inflate.gunzip v with | .ok o => some o | .error _ => none) else if c = 2 then Snappy.rawDecode v else none
      match inner.bind parseMessageSet with
      | some ms => ms
      | none => []
    | none => []
  | some ms => ms
  | none => []

/-- all (topic, partition, key, value) seen in produce requests of an operation -/
def producedRecords (op : OpRec) : List (Bytes × Int × Option Bytes × Option Bytes) :=
  (framesOf op).flatMap fun (_, r) =>
    match r.body with
    | .produce _ _ ts => ts.flatMap fun (t, ps) => ps.flatMap fun (p, set) =>
        (openSet set).map fun m => (t, p, m.key, m.value)
    | _ => []

def metaOfCluster (c : Cluster) : List (Bytes × (List Int × Nat)) :=
  c.topics.map fun t =>
    (t.name, ((List.range t.parts.length).zip t.parts |>.filterMap (fun (i, p) =>
        if (c.brokers.any (·.nodeId == p.leader)) then some ((i : Nat) : Int) else none), t.parts.length))

def toOpt (b : Bytes) : Option Bytes := if b.isEmpty then none else some b

def judgeC12Rec (s : JSt) (op : OpRec) (seen : List (Bytes × Int × Option Bytes × Option Bytes)) (r : Model.Record) : JSt :=
  let k := toOpt r.key
  let v := toOpt r.value
  let landed := (seen.filter fun (t, _, k', v') => t == r.topic && k' == k && v' == v).map (·.2.1)
  match Model.assocGet s.prodMeta r.topic with
  | none => s    -- unknown topic: the call must have failed; checked by the caller
  | some (avail, n) =>
    if r.partition ≥ 0 then
      if landed == [r.partition] then s else viol s "C12-explicit" op s!"explicit partition {r.partition} landed in {landed}"
    else match k with
      | some key =>
        let want : Int := ((Xxh.xxh32 0 key).toNat % n : Nat)
        if n = 0 then s
        else if landed == [want] then s
        else viol s "C12-keyed" op s!"key {toHexTok key} with N={n}: expected partition {want}, landed in {landed}"
      | none =>
        match landed with
        | [p] =>
          let s := if avail.contains p then s else viol s "C12-keyless-unavailable" op s!"keyless record landed in partition {p} not in available {avail}"
          let window := match s.run with
            | some (t, w) => if t == r.topic then w else []
            | none => []
          let window := window.drop (window.length + 1 - avail.length)
          let s := if window.contains p then
              viol s "C12-rotation" op s!"keyless record repeats partition {p} within {avail.length} consecutive records (previous: {window})" else s
          { s with run := some (r.topic, window ++ [p]) }
        | _ => if avail.isEmpty then s else viol s "C12-keyless-lost" op s!"keyless record landed in {landed}"

def judgeC12 (ops : List OpRec) : List String :=
  let s := ops.foldl (fun (s : JSt) op =>
    let s := { s with cluster := applySetup s.cluster op.setup }
    match op.toks with
    | "producer_create" :: _ => { s with prodMeta := metaOfCluster s.cluster, run := none }
    | "send_all" :: args =>
      match parseRecords args with
      | some recs =>
        let seen := producedRecords op
        -- a send disturbed on the wire may have put none or some of its records there: where they would have landed is not
        -- judged (C05 / C15 judge such calls); the rotation is picked up again from the next undisturbed send
        let ioFault := op.evs.any fun e => match e with | .io _ _ => true | .connect _ ok => !ok | _ => false
        if ioFault then { s with run := none } else
        let bad := recs.any fun r =>
          match Model.assocGet s.prodMeta r.topic with
          | none => true
          | some (avail, n) =>
            if r.partition ≥ 0 then r.partition.toNat ≥ n || !(avail.contains r.partition)
            else match toOpt r.key with
              | some key => n = 0 || !(avail.contains (((Xxh.xxh32 0 key).toNat % n : Nat) : Int))
              | none => avail.isEmpty
        if bad then
          -- some record has no reachable destination: the call must fail with unknown-topic-or-partition and send nothing
          let s := if op.result == "err Kafka(3)" then s else viol s "C12-unknown-not-rejected" op s!"result `{op.result}`"
          let s := { s with run := none }   -- a rejected call consumed counter values for records never sent
          if seen.isEmpty then s else viol s "C12-unknown-sent" op "records were sent although one has no destination"
        else recs.foldl (fun s r => judgeC12Rec s op seen r) s
      | none => s
    | _ => s) ({} : JSt)
  s.out

/-! ### C03 -/

/-- the per-(topic, partition) record lists a `produce` call states, in order -/
def groupRecords (args : List Model.ProduceArg) : List ((Bytes × Int) × List (Option Bytes × Option Bytes)) :=
  args.foldl (fun m a =>
    match m.find? (·.1 == (a.topic, a.partition)) with
    | some _ => m.map fun (k, v) => if k == (a.topic, a.partition) then (k, v ++ [(a.key, a.value)]) else (k, v)
    | none => m ++ [((a.topic, a.partition), [(a.key, a.value)])]) []

def judgeC03Set (s : JSt) (op : OpRec) (t : Bytes) (p : Int) (set : Bytes) (want : List (Option Bytes × Option Bytes)) : JSt :=
  let tp := s!"{toHexTok t}/{p}"
  match parseMessageSet set with
  | none => viol s "C03-set-unparseable" op s!"{tp}: partition data does not parse as a Kafka v0 message set: {toHex set}"
  | some msgs =>
    if s.compression = 0 then
      if msgs.any (·.attr ≠ 0) then viol s "C03-attr" op s!"{tp}: attribute not 0 without compression"
      else if msgs.map (fun m => (m.key, m.value)) == want then s
      else viol s "C03-content" op s!"{tp}: keys/values differ from the records given"
    else match msgs with
      | [w] =>
        if w.attr ≠ (s.compression : Int) then viol s "C03-wrapper-attr" op s!"{tp}: wrapper attribute {w.attr}, codec {s.compression}"
        else if w.key.isSome then viol s "C03-wrapper-key" op s!"{tp}: wrapper has a key"
        else match w.value with
          | none => viol s "C03-wrapper-null" op s!"{tp}: wrapper value is null"
          | some v =>
            let inner := if s.compression = 1 then (match Inflate.gunzip v with | .ok o => some o | .error _ => none)
                         else Snappy.rawDecode v
            match inner with
            | none => viol s "C03-wrapper-undecompressable" op s!"{tp}: an independent decompressor rejects the wrapper value"
            | some plain =>
              match parseMessageSet plain with
              | none => viol s "C03-inner-unparseable" op s!"{tp}: decompressed data is not a message set"
              | some ms =>
                if ms.any (·.attr ≠ 0) then viol s "C03-inner-attr" op s!"{tp}: inner attribute not 0"
                else if ms.map (fun m => (m.key, m.value)) == want then s
                else viol s "C03-inner-content" op s!"{tp}: decompressed keys/values differ from the records given"
      | _ => viol s "C03-not-one-wrapper" op s!"{tp}: {msgs.length} messages at top level, expected one wrapper"

def judgeC03 (ops : List OpRec) : List String :=
  let s := ops.foldl (fun (s : JSt) op =>
    let s := { s with cluster := applySetup s.cluster op.setup }
    match op.toks with
    | [_, "set", "compression", c] => { s with compression := c.toNat?.getD 0 }
    | "client_new" :: _ => { s with compression := 0 }
    | _ :: "produce" :: _ :: _ :: _ :: args =>
      match parseProduceArgs args with
      | none => s
      | some pargs =>
        if op.result.startsWith "err" then s else
        let want := groupRecords pargs
        let seen : List ((Bytes × Int) × Bytes) := (framesOf op).flatMap fun (_, r) =>
          match r.body with
          | .produce _ _ ts => ts.flatMap fun (t, ps) => ps.map fun (p, set) => ((t, p), set)
          | _ => []
        -- every frame must be a well-formed produce request
        let s := op.evs.foldl (fun s e => match e with
          | .req _ f _ => match Spec.parseFrame f with
            | some _ => s
            | none => viol s "C03-frame-unparseable" op s!"frame does not parse: {toHex f}"
          | _ => s) s
        let s := want.foldl (fun s (k, recs) =>
          match seen.filter (·.1 == k) with
          | [(_, set)] => judgeC03Set s op k.1 k.2 set recs
          | l => viol s "C03-partition-count" op s!"{toHexTok k.1}/{k.2} appears {l.length} times in the requests") s
        seen.foldl (fun s (k, _) => if want.any (·.1 == k) then s else viol s "C03-foreign-partition" op s!"{toHexTok k.1}/{k.2} was not asked for") s
    | _ => s) ({} : JSt)
  s.out

/-! ### C09 -/

def leaderHost (c : Cluster) (t : Bytes) (p : Int) : Option Bytes :=
  match c.part? t p with
  | some ps => (c.brokers.find? (·.nodeId == ps.leader)).map fun b => b.host ++ strBytes ":" ++ strBytes (toString b.port)
  | none => none

/-- follow the client settings that show up on the wire -/
def trackSettings (s : JSt) (op : OpRec) : JSt :=
  match op.toks with
  | [_, "set", "client_id", v] => { s with clientId := (fromHex v).getD [] }
  | [_, "set", "compression", v] => { s with compression := v.toNat?.getD 0 }
  | [_, "set", "fetch_max_wait", a, b] =>
    match a.toNat?, b.toNat? with
    | some a, some b => match Model.toMillisI32 a b with
      | .ok m => { s with fetchMaxWait := m }
      | .error _ => s
    | _, _ => s
  | [_, "set", "fetch_min_bytes", v] => { s with fetchMinBytes := v.toInt?.getD 0 }
  | [_, "set", "fetch_max_bytes", v] => { s with fetchMaxBytes := v.toInt?.getD 0 }
  | [_, "set", "storage", v] => { s with storage := v }
  | [_, "set", "crc", v] => { s with crcOn := v == "1" }
  | [_, "set", "retry_max", v] => { s with retryMax := v.toNat?.getD 0 }
  -- a new client: default settings, and a correlation sequence of its own
  | ["client_new", _] => { s with clientId := [], compression := 0, fetchMaxWait := 100, fetchMinBytes := 4096, fetchMaxBytes := 32768, storage := "none", maxCorr := 0 }
  | _ => s

def reqFrames (op : OpRec) : List (Bytes × Bytes) :=
  op.evs.filterMap fun e => match e with | .req h f _ => some (h, f) | _ => none

def sortFP (ps : List FetchPart) : List FetchPart := sortBy (fun a b => a.partition < b.partition) ps

def judgeC09 (ops : List OpRec) : List String :=
  let r := ops.foldl (fun (acc : JSt × List (String × J06)) op =>
    let s := acc.1
    let views := acc.2
    let s := { s with cluster := applySetup s.cluster op.setup }
    let s := trackSettings s op
    let truth := (truthBodies s.cluster op).2
    -- "led by the addressed broker" is what the calling object's loaded metadata says (C06's view of it)
    let view : J06 := ((views.find? (fun (x : String × J06) => x.1 == (op.toks.headD ""))).map (fun (x : String × J06) => x.2)).getD {}
    let frames := reqFrames op
    -- 1. every frame is complete and parses under the independent grammar, nothing left over
    let parsed := frames.map fun (h, f) => (h, f, Spec.parseFrame f)
    let s := parsed.foldl (fun s (_, f, r) => match r with
      | some _ => s
      | none => viol s "C09-frame-unparseable" op s!"frame does not parse under the Kafka v0 grammar: {toHex (f.take 200)}") s
    let reqs : List (Bytes × Request) := parsed.filterMap fun (h, _, r) => r.map fun r => (h, r)
    -- 2. header: configured client id; correlation ids never decrease across calls and are not shared by two calls
    let s := reqs.foldl (fun s (_, r) =>
      if r.header.clientId == some s.clientId then s
      else viol s "C09-client-id" op s!"header client id {repr r.header.clientId}, configured {toHexTok s.clientId}") s
    let corrs := reqs.map (·.2.header.corr)
    let s := if corrs.any (· ≤ s.maxCorr) then viol s "C09-correlation" op s!"correlation ids {corrs} not above {s.maxCorr} used by earlier calls" else s
    let s := { s with maxCorr := corrs.foldl max s.maxCorr }
    -- 3. an unrepresentable string: nothing may be sent
    -- (a topic name that long can never be in the metadata, so it only reaches the wire as an explicit
    --  metadata-load argument or as a group name)
    let longTok (t : String) : Bool := t.length > 2 * 32767
    let tooLong := s.clientId.length > 32767 || (match op.toks with
      | _ :: "load_metadata" :: ts => ts.any longTok
      | _ :: "commit_offsets" :: g :: _ => longTok g
      | _ :: "fetch_group_offsets" :: g :: _ => longTok g
      | _ :: "fetch_group_topic_offset" :: g :: _ => longTok g
      | _ => false)
    let s := if tooLong ∧ !frames.isEmpty then viol s "C09-sent-despite-unencodable" op "a frame was sent although a string does not fit its length field" else s
    -- 4. the body states what was asked
    let s : JSt := match op.toks with
    | _ :: "fetch_messages" :: args =>
      match parseFetchArgs args with
      | none => s
      | some fas =>
        if tooLong then s else
        -- later duplicates of a (topic, partition) replace earlier ones
        let dedup := fas.foldl (fun (m : List Model.FetchArg) (a : Model.FetchArg) => (m.filter fun (b : Model.FetchArg) => !(b.topic == a.topic && b.partition == a.partition)) ++ [a]) []
        let want : List (Bytes × Bytes × FetchPart) := dedup.filterMap fun (a : Model.FetchArg) =>
          (view.leaderHost a.topic a.partition).map fun (h : Bytes) =>
            (h, a.topic, ⟨a.partition, a.offset, if a.maxBytes > 0 then a.maxBytes else s.fetchMaxBytes⟩)
        let got : List (Bytes × Bytes × FetchPart) := reqs.flatMap fun (h, r) => match r.body with
          | .fetch _ _ _ ts => ts.flatMap fun (t, ps) => ps.map fun p => (h, t, p)
          | _ => []
        let key (x : Bytes × Bytes × FetchPart) : String := s!"{toHexTok x.1}|{toHexTok x.2.1}|{x.2.2.partition}|{x.2.2.offset}|{x.2.2.maxBytes}"
        let w := sortBy (· < ·) (want.map key)
        let g := sortBy (· < ·) (got.map key)
        -- a call cut short on the wire has stated part of what was asked: whatever it did state must be right
        let cut := op.evs.any (fun e => match e with | .io _ _ => true | .connect _ ok => !ok | _ => false)
          -- (a call that failed on one broker's reply - an undecodable or corrupt one - never asked the brokers behind it)
          || op.result.startsWith "err"
        let s := if w == g || (cut && g.all (fun x => w.contains x)) then s else viol s "C09-fetch-body" op s!"fetch requests state {g}, asked (restricted to led partitions, by leader) {w}"
        reqs.foldl (fun s (_, r) => match r.body with
          | .fetch rep mw mb _ =>
            if rep == -1 && mw == s.fetchMaxWait && mb == s.fetchMinBytes then s
            else viol s "C09-fetch-settings" op s!"replica {rep} max_wait {mw} min_bytes {mb}; configured -1 {s.fetchMaxWait} {s.fetchMinBytes}"
          | _ => viol s "C09-wrong-api" op "fetch_messages emitted a non-fetch request") s
    | _ :: "fetch_offsets" :: time :: _ =>
      reqs.foldl (fun s (h, r) => match r.body with
        | .offsets rep ts =>
          let s := if r.header.apiKey == 2 && r.header.apiVersion == 0 && rep == -1 then s else viol s "C09-offsets-header" op "key/version/replica"
          ts.foldl (fun s (t, ps) => ps.foldl (fun s p =>
            let s := if some p.time == time.toInt? && p.maxOffsets == 1 then s else viol s "C09-offsets-body" op s!"time {p.time} max {p.maxOffsets}"
            if view.leaderHost t p.partition == some h then s else viol s "C09-offsets-route" op s!"{toHexTok t}/{p.partition} asked of {toHexTok h}") s) s
        | _ => viol s "C09-wrong-api" op "fetch_offsets emitted another request") s
    | _ :: "list_offsets" :: time :: _ =>
      reqs.foldl (fun s (h, r) => match r.body with
        | .offsets rep ts =>
          let s := if r.header.apiKey == 2 && r.header.apiVersion == 1 && rep == -1 then s else viol s "C09-list-offsets-header" op "key/version/replica"
          ts.foldl (fun s (t, ps) => ps.foldl (fun s p =>
            let s := if some p.time == time.toInt? then s else viol s "C09-list-offsets-body" op s!"time {p.time}"
            if view.leaderHost t p.partition == some h then s else viol s "C09-list-offsets-route" op s!"{toHexTok t}/{p.partition} asked of {toHexTok h}") s) s
        | _ => viol s "C09-wrong-api" op "list_offsets emitted another request") s
    | _ :: "produce" :: acks :: secs :: nanos :: args =>
      let to := match secs.toNat?, nanos.toNat? with
        | some a, some b => (Model.toMillisI32 a b).toOption
        | _, _ => none
      let s := reqs.foldl (fun s (_, r) => match r.body with
        | .produce a t _ =>
          if some a == acks.toInt? && some t == to then s else viol s "C09-produce-body" op s!"acks {a} timeout {t}"
        | _ => viol s "C09-wrong-api" op "produce emitted another request") s
      -- the body states exactly the records asked for: per (topic, partition) the given keys and values, in the given order,
      -- and nothing else
      match parseProduceArgs args with
      | none => s
      | some pas =>
        if reqs.isEmpty then s else
        let keys : List (Bytes × Int) := pas.foldl (fun (acc : List (Bytes × Int)) (a : Model.ProduceArg) => if acc.contains (a.topic, a.partition) then acc else acc ++ [(a.topic, a.partition)]) []
        let want : List String := keys.map fun (t, p) =>
          let recs := (pas.filter fun (a : Model.ProduceArg) => a.topic == t && a.partition == p).map fun (a : Model.ProduceArg) => s!"{repr a.key}/{repr a.value}"
          s!"{toHexTok t}|{p}|{recs}"
        let got : List String := reqs.flatMap fun (x : Bytes × Spec.Request) => match x.2.body with
          | .produce _ _ ts => ts.flatMap fun (tp : Bytes × List (Int × Bytes)) => tp.2.map fun (ps : Int × Bytes) =>
              s!"{toHexTok tp.1}|{ps.1}|{(openSet ps.2).map fun (m : Spec.Msg) => s!"{repr m.key}/{repr m.value}"}"
          | _ => []
        let cut := op.evs.any (fun e => match e with | .io _ _ => true | .connect _ ok => !ok | _ => false)
        if sortBy (· < ·) want == sortBy (· < ·) got || (cut && got.all (fun x => want.contains x)) then s
        else viol s "C09-produce-content" op s!"the requests state {sortBy (· < ·) got}, asked for {sortBy (· < ·) want}"
    | _ :: "commit_offsets" :: g :: args =>
      match fromHex g, parseTPO args with
      | some g, some tpo =>
        reqs.foldl (fun s (_, r) => match r.body with
          | .offsetCommit g' gen mem ret ts =>
            let v := r.header.apiVersion
            let s := if (s.storage == "zk" && v == 0) || (s.storage == "kafka" && v == 1) then s else viol s "C09-commit-version" op s!"version {v} with storage {s.storage}"
            let s := if g' == g && gen == -1 && mem == [] && ret == -1 then s else viol s "C09-commit-group" op "group / generation / member / retention"
            let got := ts.flatMap fun (t, ps) => ps.map fun p => s!"{toHexTok t}|{p.partition}|{p.offset}|{p.timestamp}|{repr p.metadata}"
            let want := tpo.map fun (t, p, o) => s!"{toHexTok t}|{p}|{o}|{if v == 1 then -1 else 0}|{repr (some ([] : Bytes))}"
            if sortBy (· < ·) got == sortBy (· < ·) want then s else viol s "C09-commit-body" op s!"commit states {got}, asked {want}"
          | .groupCoordinator g' => if g' == g then s else viol s "C09-coordinator-group" op "group"
          | _ => viol s "C09-wrong-api" op "commit emitted another request") s
      | _, _ => s
    | _ :: "fetch_group_offsets" :: g :: args =>
      match fromHex g, parseTP args with
      | some g, some tps =>
        reqs.foldl (fun s (_, r) => match r.body with
          | .offsetFetch g' ts =>
            let v := r.header.apiVersion
            let s := if (s.storage == "zk" && v == 0) || (s.storage == "kafka" && v == 1) then s else viol s "C09-offset-fetch-version" op s!"version {v} with storage {s.storage}"
            let got := ts.flatMap fun (t, ps) => ps.map fun p => s!"{toHexTok t}|{p}"
            let want := tps.map fun (t, p) => s!"{toHexTok t}|{p}"
            if g' == g && sortBy (· < ·) got == sortBy (· < ·) want then s else viol s "C09-offset-fetch-body" op s!"states {got}, asked {want}"
          | .groupCoordinator g' => if g' == g then s else viol s "C09-coordinator-group" op "group"
          | _ => viol s "C09-wrong-api" op "group offset fetch emitted another request") s
      | _, _ => s
    | _ :: "load_metadata" :: ts =>
      reqs.foldl (fun s (_, r) => match r.body with
        | .metadata names => if some names == ts.mapM fromHex then s else viol s "C09-metadata-body" op "topic list differs"
        | _ => viol s "C09-wrong-api" op "load_metadata emitted another request") s
    | _ => s
    ({ s with cluster := evolve s.cluster op }, trackViews views op truth)) (({} : JSt), [])
  r.1.out

/-! ### C10 -/

/-- what `topics()` must show after a full metadata load of this cluster -/
def expectTopics (c : Cluster) : String :=
  let ts := sortBy (fun a b => bytesLt a.name b.name) c.topics
  "ok" ++ String.join (ts.map fun t =>
    " " ++ toHexTok t.name ++ "=" ++ joinWith "," ((List.range t.parts.length).zip t.parts |>.map fun (i, p) =>
      match c.brokers.find? (·.nodeId == p.leader) with
      | some b => s!"{i}:{b.nodeId}@{toHexTok (hostOf b)}"
      | none => s!"{i}:~"))

def ledParts (c : Cluster) (t : Bytes) : Option (List (Nat × PartState)) :=
  (c.topic? t).map fun ts => (List.range ts.parts.length).zip ts.parts |>.filter fun (_, p) => c.brokers.any (·.nodeId == p.leader)

def dedupB (xs : List Bytes) : List Bytes := xs.foldl (fun acc x => if acc.contains x then acc else acc ++ [x]) []

def judgeC10 (ops : List OpRec) : List String :=
  let s := ops.foldl (fun (s : JSt) op =>
    let s := { s with cluster := applySetup s.cluster op.setup }
    let s := trackSettings s op
    let c := s.cluster
    let ioFault := op.evs.any (fun e => match e with | .io _ _ => true | .connect _ ok => !ok | _ => false)
    let faulty := !c.faults.all (·.count == 0) || ioFault
    let bodies := (truthBodies c op).2
    let clusterChanged := op.setup.any fun (l : List String) => ["BROKER", "DELBROKER", "TOPIC", "DELTOPIC", "LEADER", "ORDER"].contains (l.headD "")
    let s := if clusterChanged then { s with viewLags := true } else s
    let s := match op.toks with
      | [_, "load_metadata_all"] => { s with viewLags := !(op.result == "ok") }
      | _ :: "load_metadata" :: _ => { s with viewLags := true }
      | [_, "reset_metadata"] => { s with viewLags := true }
      | "client_new" :: _ => { s with viewLags := false }
      | _ => s
    let s := match op.toks with
    | [_, "topics"] =>
      if s.viewLags || op.result == expectTopics c then s else viol s "C10-metadata-view" op s!"topics() shows `{op.result}`, the broker sent `{expectTopics c}`"
    | _ :: "fetch_offsets" :: time :: ts =>
      if faulty then s else
      match time.toInt?, ts.mapM fromHex with
      | some time, some ts =>
        -- a topic listed twice is asked twice
        let want : List (Bytes × List (Int × Int)) := (dedupB ts).filterMap fun t =>
          (ledParts c t).bind fun ps =>
            let k := (ts.filter (· == t)).length
            let one := ps.map fun (i, p) => (((i : Nat) : Int), offsetForTime p time)
            if one.isEmpty then none else some (t, (List.replicate k one).flatten)
        if s.viewLags || op.result == fmtOffsets want then s else viol s "C10-offsets" op s!"returned `{op.result}`, the brokers sent `{fmtOffsets want}`"
      | _, _ => s
    | _ :: "list_offsets" :: time :: ts =>
      if faulty then s else
      match time.toInt?, ts.mapM fromHex with
      | some time, some ts =>
        let want : List (Bytes × List (Int × Int × Int)) := (dedupB ts).filterMap fun t =>
          (ledParts c t).bind fun ps =>
            let k := (ts.filter (· == t)).length
            let one := ps.map fun (i, p) => (((i : Nat) : Int), offsetForTime p time, time)
            if one.isEmpty then none else some (t, (List.replicate k one).flatten)
        if s.viewLags || op.result == fmtListOffsets want then s else viol s "C10-list-offsets" op s!"returned `{op.result}`, the brokers sent `{fmtListOffsets want}`"
      | _, _ => s
    | _ :: "fetch_group_offsets" :: g :: args =>
      -- whatever was retried on the way: a call that succeeds returns the content of the reply that ended it, nothing of
      -- the replies before it
      let lastFetch : Option (List (Bytes × List (Int × Int))) := (bodies.filterMap fun (x : Bytes × Request × RespBody) => match x.2.2 with
        | RespBody.offsetFetch ts => some (ts.map fun (tp : Bytes × List (Int × Int × Option Bytes × Int)) =>
            (tp.1, tp.2.map fun (q : Int × Int × Option Bytes × Int) => (q.1, q.2.1)))
        | _ => none).getLast?
      let s := match lastFetch with
        | some want =>
          if op.result.startsWith "ok" && !ioFault && op.result != fmtOffsets want then
            viol s "C10-group-offsets-final-reply" op s!"returned `{op.result}`, the reply that ended the call carried `{fmtOffsets want}`"
          else s
        | none => s
      if faulty || op.result.startsWith "err" then s else
      match fromHex g, parseTP args with
      | some g, some tps =>
        let lookup (t : Bytes) (p : Int) : Int :=
          match c.groups.find? (fun (e : (Bytes × Bytes × Int) × Int) => e.1 == (storeKey s.storage g, t, p)) with
          | some e => e.2
          | none => -1
        let want : List (Bytes × List (Int × Int)) := (dedupB (tps.map fun (x : Bytes × Int) => x.1)).map fun t =>
          (t, (tps.filter fun (x : Bytes × Int) => x.1 == t).map fun (x : Bytes × Int) => (x.2, lookup t x.2))
        if op.result == fmtOffsets want then s else viol s "C10-group-offsets" op s!"returned `{op.result}`, the coordinator sent `{fmtOffsets want}`"
      | _, _ => s
    | _ => s
    { s with cluster := evolve s.cluster op }) ({} : JSt)
  s.out

/-! ### C11 -/

def kindOf (code : Int) : Int := (Model.kafkaCode code).getD 0

def judgeC11 (ops : List OpRec) : List String :=
  let s := ops.foldl (fun (s : JSt) op =>
    let s := { s with cluster := applySetup s.cluster op.setup }
    let (c', bodies) := truthBodies s.cluster op
    let ioFault := op.evs.any (fun e => match e with | .io _ _ => true | .connect _ ok => !ok | _ => false)
    let s := if ioFault then s else match op.toks with
    | _ :: "produce" :: _ =>
      let confirms : List Model.ProduceConfirm := bodies.flatMap fun (_, _, b) => match b with
        | .produce ts => ts.map fun (t, ps) => ⟨t, ps.map fun (p, e, o) => ⟨p, if e = 0 then .ok o else .error (kindOf e)⟩⟩
        | _ => []
      let bad := bodies.any fun (_, _, b) => match b with
        | .produce ts => ts.any fun (_, ps) => ps.any fun (_, e, _) => e ≠ 0
        | _ => false
      if op.result.startsWith "err" then (if bodies.isEmpty then s else viol s "C11-produce-call-failed" op op.result)
      else if op.result == fmtConfirms confirms then s
      else viol s (if bad then "C11-produce-error-lost" else "C11-produce-result") op s!"returned `{op.result}`, brokers answered `{fmtConfirms confirms}`"
    | ["send", _, _, _, _] =>
      let firstBad : Option Int := bodies.findSome? fun (_, _, b) => match b with
        | .produce ts => ts.findSome? fun (_, ps) => ps.findSome? fun (_, e, _) => if e ≠ 0 then some e else none
        | _ => none
      match firstBad with
      | some e => if op.result == s!"err Kafka({kindOf e})" then s else viol s "C11-send-error" op s!"returned `{op.result}`, the partition carried code {e}"
      | none => s
    | _ :: api :: _ =>
      if api == "fetch_offsets" || api == "list_offsets" then
        let firstBad : Option (Bytes × Int × Int) := bodies.findSome? fun (_, _, b) => match b with
          | .offsets ts => ts.findSome? fun (t, ps) => ps.findSome? fun (p, e, _) => if e ≠ 0 then some (t, p, e) else none
          | .listOffsets ts => ts.findSome? fun (t, ps) => ps.findSome? fun (p, e, _, _) => if e ≠ 0 then some (t, p, e) else none
          | _ => none
        match firstBad with
        | some (t, p, e) =>
          let want := s!"err TPE({toHexTok t},{p},{kindOf e})"
          if op.result == want then s else viol s "C11-offsets-error" op s!"returned `{op.result}`, expected `{want}`"
        | none => if op.result.startsWith "err" then viol s "C11-offsets-spurious" op op.result else s
      else if api == "commit_offsets" then
        match bodies.getLast? with
        | some (_, _, .offsetCommit ts) =>
          let code := ts.findSome? fun (_, ps) => ps.findSome? fun (_, e) => if e ≠ 0 then some e else none
          match code with
          | some e => if op.result == s!"err Kafka({kindOf e})" then s else viol s "C11-commit-error" op s!"returned `{op.result}`, last commit answer carried code {e}"
          | none => if op.result == "ok" then s else viol s "C11-commit-spurious" op op.result
        | some (_, _, .groupCoordinator e _ _ _) =>
          if e ≠ 0 then (if op.result == s!"err Kafka({kindOf e})" then s else viol s "C11-coordinator-error" op s!"returned `{op.result}`, coordinator answer carried code {e}") else s
        | _ => s
      else if api == "fetch_group_offsets" then
        match bodies.getLast? with
        | some (_, _, .offsetFetch ts) =>
          let code := ts.findSome? fun (_, ps) => ps.findSome? fun (_, _, _, e) => if e ≠ 0 ∧ kindOf e ≠ 3 then some e else none
          match code with
          | some e => if op.result == s!"err Kafka({kindOf e})" then s else viol s "C11-group-fetch-error" op s!"returned `{op.result}`, answer carried code {e}"
          | none => if op.result.startsWith "ok" then s else viol s "C11-group-fetch-spurious" op op.result
        | some (_, _, .groupCoordinator e _ _ _) =>
          if e ≠ 0 then (if op.result == s!"err Kafka({kindOf e})" then s else viol s "C11-coordinator-error" op s!"returned `{op.result}`, coordinator answer carried code {e}") else s
        | _ => s
      else if api == "fetch_messages" then
        bodies.foldl (fun s (_, _, b) => match b with
          | .fetch ts => ts.foldl (fun s (t, ps) => ps.foldl (fun s p =>
              if p.err ≠ 0 then
                let want := s!" {toHexTok t}/{p.partition}=E{kindOf p.err}"
                if (op.result.splitOn want).length > 1 then s
                else viol s "C11-fetch-error" op s!"partition {toHexTok t}/{p.partition} answered with code {p.err}; result `{op.result}`"
              else s) s) s
          | _ => s) s
      else s
    | ["poll"] =>
      let firstBad : Option Int := bodies.findSome? fun (_, _, b) => match b with
        | .fetch ts => ts.findSome? fun (_, ps) => ps.findSome? fun p => if p.err ≠ 0 then some p.err else none
        | _ => none
      match firstBad with
      | some e => if op.result == s!"err Kafka({kindOf e})" then s else viol s "C11-poll-error" op s!"returned `{op.result}`, a partition carried code {e}"
      | none => s
    | _ => s
    { s with cluster := c' }) ({} : JSt)
  s.out

/-! ### C14 -/

inductive Ans | ok | retry (c : Int) | fatal (c : Int)
deriving Repr, BEq

/-- classify an answer the way the operation documents it -/
def classify (api : Int) (b : RespBody) : Option Ans :=
  match b with
  | .groupCoordinator e _ _ _ => if api ≠ 10 then none else
      some (if e = 0 then .ok else if kindOf e = 15 then .retry 15 else .fatal (kindOf e))
  | .offsetCommit ts => if api ≠ 8 then none else
      match ts.findSome? fun (_, ps) => ps.findSome? fun (_, e) => if e ≠ 0 then some e else none with
      | none => some .ok
      | some e => some (if kindOf e = 14 ∨ kindOf e = 16 then .retry (kindOf e) else .fatal (kindOf e))
  | .offsetFetch ts => if api ≠ 9 then none else
      match ts.findSome? fun (_, ps) => ps.findSome? fun (_, _, _, e) => if e ≠ 0 ∧ kindOf e ≠ 3 then some e else none with
      | none => some .ok
      | some e => some (if kindOf e = 14 ∨ kindOf e = 16 then .retry (kindOf e) else .fatal (kindOf e))
  | _ => none

/-- check one maximal run of same-API attempts against the policy: stops at the first non-retryable answer, at most max 1 N -/
def checkRun (s : JSt) (op : OpRec) (what : String) (N : Nat) (run : List Ans) (cut : Bool := false) : JSt :=
  let lim := max 1 N
  let s := if run.length > lim then viol s "C14-too-many-attempts" op s!"{what}: {run.length} attempts with limit {N}" else s
  -- every answer but the last must be retryable
  let s := if (run.dropLast.any fun a => match a with | .retry _ => false | _ => true) then
      viol s "C14-continued-after-final-answer" op s!"{what}: attempts continued after a non-retryable answer: {repr run}" else s
  -- a retryable last answer is only allowed when the limit is used up
  match run.getLast? with
  | some (.retry _) => if run.length < lim ∧ !cut then viol s "C14-gave-up-early" op s!"{what}: stopped after {run.length} retryable answers, limit {N}" else s
  | _ => s

def judgeC14 (ops : List OpRec) : List String :=
  let s := ops.foldl (fun (s : JSt) op =>
    let s := { s with cluster := applySetup s.cluster op.setup }
    let s := trackSettings s op
    let (c', bodies) := truthBodies s.cluster op
    let api : Int := match op.toks with
      | _ :: "commit_offsets" :: _ => 8
      | _ :: "fetch_group_offsets" :: _ => 9
      | _ :: "fetch_group_topic_offset" :: _ => 9
      | _ => 0
    -- a call disturbed on the wire (other than by the harness's own request cap) is C15's subject: the answers the
    -- specification broker computed may never have arrived
    let capped := op.notes.any fun (n : List String) => n.head? == some "request-cap"
    let wire := !capped && op.evs.any fun e => match e with | .io _ _ => true | .connect _ ok => !ok | _ => false
    -- ... but however a call is disturbed, it makes at most max 1 N attempts, and an attempt puts at most one request of the
    -- operation's own kind on the wire (`C14_attempts_any_step`: the bound holds for every attempt function)
    let s := if api != 0 && wire && !capped then
        let sent := (bodies.filter fun (x : Bytes × Request × RespBody) => x.2.1.header.apiKey = api).length
        if sent > max 1 s.retryMax then
          viol s "C14-more-requests-than-attempts" op s!"{sent} requests of the operation reached the coordinator in one call disturbed on the wire, limit {s.retryMax}"
        else s
      else s
    -- what a disturbed call did about the coordinator (looked it up again, or not) is not judged; nothing is remembered
    -- about that group from before it
    let s := if api != 0 && wire then { s with needLookup := s.needLookup.filter (· != op.toks.getD 2 "") } else s
    let s := if api = 0 || wire then s else
      let watchdog := capped
      let s := if watchdog then viol s (if api = 8 then "C14-commit-never-returns" else "C14-never-returns") op
          s!"the call kept sending requests ({bodies.length} before the harness cut the connection), limit {s.retryMax}" else s
      if watchdog then s else
      let N := s.retryMax
      -- main attempts
      let main : List Ans := bodies.filterMap fun (_, r, b) => if r.header.apiKey = api then classify api b else none
      -- (a retryable answer may be the last one when the nested coordinator look-up then failed)
      let lastIsMain0 := match bodies.getLast? with | some (_, r, _) => r.header.apiKey = api | none => false
      let s := checkRun s op "operation" N main (!lastIsMain0)
      -- coordinator look-ups: maximal runs between main attempts
      let runs : List (List Ans) := (bodies.foldl (fun (acc : List (List Ans)) (_, r, b) =>
          if r.header.apiKey = 10 then
            match classify 10 b, acc with
            | some a, cur :: rest => (cur ++ [a]) :: rest
            | _, _ => acc
          else [] :: acc) [[]]).filter (!·.isEmpty)
      let s := runs.foldl (fun s run => checkRun s op "coordinator look-up" N run) s
      -- result
      let lookupFailed : Option Ans := (runs.head?.bind (·.getLast?)).bind fun a => match a with | .ok => none | x => some x
      let lastMain := main.getLast?
      let lastIsMain := match bodies.getLast? with | some (_, r, _) => r.header.apiKey = api | none => false
      let want : Option String :=
        if !lastIsMain then
          match lookupFailed with
          | some (.retry c) => some s!"err Kafka({c})"
          | some (.fatal c) => some s!"err Kafka({c})"
          | _ => none
        else match lastMain with
          | some .ok => none      -- success: value checked by C10/C08
          | some (.retry c) => some s!"err Kafka({c})"
          | some (.fatal c) => some s!"err Kafka({c})"
          | none => none
      let s := match want with
        | some w => if op.result == w then s else viol s "C14-result" op s!"returned `{op.result}`, expected `{w}`"
        | none => if lastIsMain && lastMain == some .ok && op.result.startsWith "err" then viol s "C14-success-lost" op s!"an attempt succeeded but the call returned `{op.result}`" else s
      -- after 'not coordinator' (16) the next attempt is preceded by a look-up and goes to the broker it names
      let grp : String := op.toks.getD 2 ""
      let rec walk : List (Bytes × Request × RespBody) → Bool → Option Bytes → JSt → JSt
        | [], needLookup, _, s =>
          -- what is remembered about the coordinator outlives the call
          { s with needLookup := (s.needLookup.filter (· != grp)) ++ (if needLookup then [grp] else []) }
        | (h, r, b) :: rest, needLookup, named, s =>
          if r.header.apiKey = 10 then
            match b with
            | .groupCoordinator 0 _ host port => walk rest false (some (host ++ strBytes ":" ++ strBytes (toString port))) s
            | _ => walk rest needLookup named s
          else if r.header.apiKey = api then
            let s := if needLookup then viol s "C14-no-relookup" op "an attempt after 'not coordinator for group' was not preceded by a coordinator look-up" else s
            let s := match named with
              | some n => if n == h then s else viol s "C14-wrong-broker" op s!"attempt went to {toHexTok h}, the look-up named {toHexTok n}"
              | none => s
            let is16 := match classify api b with | some (.retry 16) => true | _ => false
            walk rest is16 (if is16 then none else named) s
          else walk rest needLookup named s
      walk bodies (s.needLookup.contains grp) none s
    -- dropping the metadata does not by itself forget or refresh a coordinator; a new client does
    let s := match op.toks with
      | "client_new" :: _ => { s with needLookup := [] }
      | _ => s
    { s with cluster := c' }) ({} : JSt)
  s.out

/-! ### C20 -/

def mentionsOf (r : Request) : List (Bytes × Int) :=
  match r.body with
  | .produce _ _ ts => ts.flatMap fun (t, ps) => ps.map fun (p, _) => (t, p)
  | .fetch _ _ _ ts => ts.flatMap fun (t, ps) => ps.map fun p => (t, p.partition)
  | .offsets _ ts => ts.flatMap fun (t, ps) => ps.map fun p => (t, p.partition)
  | .offsetCommit _ _ _ _ ts => ts.flatMap fun (t, ps) => ps.map fun p => (t, p.partition)
  | .offsetFetch _ ts => ts.flatMap fun (t, ps) => ps.map fun p => (t, p)
  | .metadata _ => []
  | .groupCoordinator _ => []

def isLoaded (l : List (Bytes × Nat)) (t : Bytes) (p : Int) : Bool :=
  match l.find? (·.1 == t) with
  | some (_, n) => decide (0 ≤ p ∧ p.toNat < n)
  | none => false

def loadAll (c : Cluster) : List (Bytes × Nat) := c.topics.map fun t => (t.name, t.parts.length)

def judgeC20 (ops : List OpRec) : List String :=
  let s := ops.foldl (fun (s : JSt) op =>
    let s := { s with cluster := applySetup s.cluster op.setup }
    let reqs := framesOf op
    let okRes := !op.result.startsWith "err" && op.result != "panic"
    -- what is loaded *before* this operation's requests are judged
    let explicitLoad : Option (List Bytes) := match op.toks with
      | _ :: "load_metadata" :: ts => ts.mapM fromHex
      | _ => none
    -- 1. metadata requests may name topics only in an explicit load for exactly those names
    let s := reqs.foldl (fun s (_, r) => match r.body with
      | .metadata names =>
        if names.isEmpty then s
        else if some names == explicitLoad then s
        else viol s "C20-metadata-names-topics" op s!"a metadata request names {names.map toHexTok} outside an explicit load for them"
      | _ => s) s
    -- 2. no other request mentions a topic / partition that is not loaded
    --    (requests are taken in the order sent: a load of everything inside the operation - creating a consumer or producer
    --    from hosts - makes the cluster's topics loaded for the requests that follow it)
    let loadedBefore := s.loaded
    let s := reqs.foldl (fun s (_, r) =>
      let s := (mentionsOf r).foldl (fun s (t, p) =>
        if isLoaded s.loaded t p then s
        else viol s "C20-mentions-unloaded" op s!"a request (api {r.header.apiKey}) mentions {toHexTok t}/{p}, not in the loaded metadata {s.loaded.map fun (t, n) => (toHexTok t, n)}") s
      match r.body with
      | .metadata [] => { s with loaded := loadAll s.cluster }
      | _ => s) s
    let s := { s with loaded := loadedBefore }
    -- 3. calls that must fail locally
    let s := match op.toks with
      | _ :: "produce" :: _ :: _ :: _ :: args =>
        match parseProduceArgs args with
        | some pas =>
          if pas.any (fun a => !isLoaded s.loaded a.topic a.partition) then
            let s := if op.result == "err Kafka(3)" then s else viol s "C20-produce-not-rejected" op s!"result `{op.result}`"
            if reqs.isEmpty then s else viol s "C20-produce-sent-before-failing" op "requests were sent by a produce call naming an unknown destination"
          else s
        | none => s
      | _ :: "commit_offsets" :: _ :: args =>
        match parseTPO args with
        | some tpo =>
          if s.storage != "none" && tpo.any (fun (t, p, _) => !isLoaded s.loaded t p) then
            let s := if op.result == "err Kafka(3)" then s else viol s "C20-commit-not-rejected" op s!"result `{op.result}`"
            if reqs.isEmpty then s else viol s "C20-commit-sent-before-failing" op "requests were sent by a commit naming an unknown partition"
          else s
        | none => s
      | _ :: "fetch_group_offsets" :: _ :: args =>
        match parseTP args with
        | some tps =>
          if s.storage != "none" && tps.any (fun (t, p) => !isLoaded s.loaded t p) then
            let s := if op.result == "err Kafka(3)" then s else viol s "C20-group-fetch-not-rejected" op s!"result `{op.result}`"
            if reqs.isEmpty then s else viol s "C20-group-fetch-sent-before-failing" op "requests were sent by a group offset fetch naming an unknown partition"
          else s
        | none => s
      | [_, "fetch_topic_offsets", _, t] =>
        match fromHex t with
        | some t => if (s.loaded.any (·.1 == t)) then s else
            if op.result == "err Kafka(3)" then s else viol s "C20-topic-offsets-unknown" op s!"result `{op.result}`"
        | none => s
      | _ => s
    -- 4. update what is loaded
    let s := trackSettings s op
    match op.toks with
    | [_, "load_metadata_all"] => if okRes then { s with loaded := loadAll s.cluster } else { s with loaded := [] }
    | [_, "reset_metadata"] => { s with loaded := [] }
    | _ :: "load_metadata" :: ts =>
      if !okRes then s else
      match ts.mapM fromHex with
      | some names =>
        if names.isEmpty then { s with loaded := (s.loaded.filter fun (t, _) => !(s.cluster.topics.any (·.name == t))) ++ loadAll s.cluster }
        else { s with loaded := names.foldl (fun l n =>
          (l.filter (·.1 != n)) ++ [(n, ((s.cluster.topic? n).map (·.parts.length)).getD 0)]) s.loaded }
      | none => s
    -- a producer / consumer built from hosts loads everything; one built from a client keeps what that client has loaded
    | "producer_create" :: from_ :: _ => if okRes && from_ != "client" then { s with loaded := loadAll s.cluster } else s
    | "consumer_create" :: from_ :: _ => if okRes && from_ != "client" then { s with loaded := loadAll s.cluster } else s
    | _ => s) ({} : JSt)
  s.out

/-! ### C16 -/

structure Cfg where
  clientId : Bytes := []
  compression : Nat := 0
  maxWait : Int := 100
  minBytes : Int := 4096
  maxBytes : Int := 32768
  crc : Bool := true
  storage : String := "none"
  backoff : Nat := 100
  retry : Nat := 1200
  idle : Nat := 540000
deriving Repr

def Cfg.fmt (c : Cfg) : String :=
  s!"ok client_id={toHexTok c.clientId} compression={c.compression} maxwait_ms={c.maxWait} minbytes={c.minBytes} maxbytes={c.maxBytes} crc={if c.crc then 1 else 0} storage={c.storage} backoff_ms={c.backoff} retry={c.retry} idle_ms={c.idle}"

def Cfg.set (c : Cfg) (opt : String) (vals : List String) : Cfg :=
  match opt, vals with
  | "client_id", [v] => { c with clientId := (fromHex v).getD [] }
  | "compression", [v] => { c with compression := v.toNat?.getD 0 }
  | "fetch_max_wait", [a, b] =>
    match a.toNat?, b.toNat? with
    | some a, some b => if a * 1000 + b / 1000000 ≤ 2147483647 then { c with maxWait := ((a * 1000 + b / 1000000 : Nat) : Int) } else c
    | _, _ => c
  | "fetch_min_bytes", [v] => { c with minBytes := v.toInt?.getD 0 }
  | "fetch_max_bytes", [v] => { c with maxBytes := v.toInt?.getD 0 }
  | "crc", [v] => { c with crc := v == "1" }
  | "storage", [v] => { c with storage := v }
  | "retry_backoff_ms", [v] => { c with backoff := v.toNat?.getD 0 }
  | "retry_max", [v] => { c with retry := v.toNat?.getD 0 }
  | "idle_ms", [v] => { c with idle := v.toNat?.getD 0 }
  | _, _ => c

/-- the specification of a consumer builder: start from the defaults (or the given client's values), then the last
    value given for each option; `none` = the duration does not fit (creation must fail with InvalidDuration) -/
def consumerCfg (base : Cfg) (opts : List String) : Option Cfg :=
  opts.foldl (fun (acc : Option Cfg) o => acc.bind fun c =>
    let (k, v) := kv o
    match k with
    | "maxwait" => match v.splitOn ":" with
      | [a, b] => match a.toNat?, b.toNat? with
        | some a, some b => if a * 1000 + b / 1000000 ≤ 2147483647 then some { c with maxWait := ((a * 1000 + b / 1000000 : Nat) : Int) } else none
        | _, _ => some c
      | _ => some c
    | "minbytes" => some { c with minBytes := v.toInt?.getD 0 }
    | "maxbytes" => some { c with maxBytes := v.toInt?.getD 0 }
    | "crc" => some { c with crc := v == "1" }
    | "storage" => some { c with storage := v }
    | "idle" => some { c with idle := v.toNat?.getD 0 }
    | "clientid" => some { c with clientId := (fromHex v).getD [] }
    | _ => some c) (some base)

def producerCfg (base : Cfg) (opts : List String) : Option Cfg :=
  opts.foldl (fun (acc : Option Cfg) o => acc.bind fun c =>
    let (k, v) := kv o
    match k with
    | "compression" => some { c with compression := v.toNat?.getD 0 }
    | "idle" => some { c with idle := v.toNat?.getD 0 }
    | "clientid" => some { c with clientId := (fromHex v).getD [] }
    | "acktimeout" => match v.splitOn ":" with
      | [a, b] => match a.toNat?, b.toNat? with
        | some a, some b => if a * 1000 + b / 1000000 ≤ 2147483647 then some c else none
        | _, _ => some c
      | _ => some c
    | _ => some c) (some base)

def lastOpt (opts : List String) (key : String) : Option String :=
  (opts.filterMap fun o => let (k, v) := kv o; if k == key then some v else none).getLast?

structure J16 where
  client : Cfg := {}
  cons : Option Cfg := none
  prod : Option Cfg := none
  prodAcks : Int := 1
  prodTimeout : Int := 30000
  consRetryLimit : Int := 0
  /-- fetch sizes that were in force on the consumer earlier (replaced by a setter on its client after creation): a partition
      keeps asking with the size it was created with until data arrives for it (the statement is about the object as built) -/
  consMaxBefore : List Int := []
  out : List String := []

def judgeC16 (ops : List OpRec) : List String :=
  let v (s : J16) (sig : String) (op : OpRec) (d : String) : J16 :=
    { s with out := s.out ++ [s!"{sig} | op {op.idx} `{" ".intercalate (op.toks.take 1)}`: {d}"] }
  let s := ops.foldl (fun (s : J16) op =>
    let reqs := framesOf op
    match op.toks with
    | ["client_new", _] => { s with client := {} }
    | "c" :: "set" :: opt :: vals => if op.result == "ok" then { s with client := s.client.set opt vals } else s
    | "k" :: "set" :: opt :: vals => if op.result == "ok" then
        { s with cons := s.cons.map (·.set opt vals),
                 consMaxBefore := if opt == "fetch_max_bytes" then (s.cons.map (·.maxBytes)).toList ++ s.consMaxBefore else s.consMaxBefore } else s
    | "p" :: "set" :: opt :: vals => if op.result == "ok" then { s with prod := s.prod.map (·.set opt vals) } else s
    | "consumer_create" :: from_ :: opts =>
      let base : Cfg := if from_ == "client" then s.client else {}
      match consumerCfg base opts with
      | none => if op.result == "err InvalidDuration" then s else v s "C16-duration-not-rejected" op s!"result `{op.result}`"
      | some want =>
        if op.result == "ok" then
          -- in force on the wire already during creation: client id in every header
          let s := reqs.foldl (fun s (_, r) => if r.header.clientId == some want.clientId then s
            else v s "C16-client-id-not-in-force" op s!"header client id {repr r.header.clientId}, configured {toHexTok want.clientId}") s
          { s with cons := some want, consMaxBefore := [], consRetryLimit := ((lastOpt opts "retrylimit").bind (·.toInt?)).getD 0 }
        else s
    | "producer_create" :: from_ :: opts =>
      let base : Cfg := if from_ == "client" then s.client else {}
      match producerCfg base opts with
      | none => if op.result == "err InvalidDuration" then s else v s "C16-duration-not-rejected" op s!"result `{op.result}`"
      | some want =>
        if op.result == "ok" then
          let s := reqs.foldl (fun s (_, r) => if r.header.clientId == some want.clientId then s
            else v s "C16-client-id-not-in-force" op s!"header client id {repr r.header.clientId}, configured {toHexTok want.clientId}") s
          let acks := ((lastOpt opts "acks").bind (·.toInt?)).getD 1
          let to : Int := match lastOpt opts "acktimeout" with
            | some x => match x.splitOn ":" with
              | [a, b] => (((a.toNat?.getD 0) * 1000 + (b.toNat?.getD 0) / 1000000 : Nat) : Int)
              | _ => 30000
            | none => 30000
          { s with prod := some want, prodAcks := acks, prodTimeout := to }
        else s
    | ["k", "get_config"] =>
      match s.cons with
      | some want => if op.result == want.fmt then s else v s "C16-consumer-setting-lost" op s!"getters show `{op.result}`, the builder was given `{want.fmt}`"
      | none => s
    | ["p", "get_config"] =>
      match s.prod with
      | some want => if op.result == want.fmt then s else v s "C16-producer-setting-lost" op s!"getters show `{op.result}`, the builder was given `{want.fmt}`"
      | none => s
    | ["c", "get_config"] => if op.result == s.client.fmt then s else v s "C16-client-setting-lost" op s!"getters show `{op.result}`, set `{s.client.fmt}`"
    | ["poll"] =>
      match s.cons with
      | some want => reqs.foldl (fun s (_, r) => match r.body with
          | .fetch _ mw mb ts =>
            let s := if mw == want.maxWait && mb == want.minBytes then s else v s "C16-fetch-settings" op s!"max_wait {mw} min_bytes {mb}, configured {want.maxWait} {want.minBytes}"
            let s := if r.header.clientId == some want.clientId then s else v s "C16-client-id-not-in-force" op "fetch header"
            -- (with a retry limit above the fetch size a partition may rightly be asked with more: C17's subject)
            if s.consRetryLimit > want.maxBytes || (ts.all fun (_, ps) => ps.all fun p => p.maxBytes == want.maxBytes || s.consMaxBefore.contains p.maxBytes) then s else v s "C16-fetch-max-bytes" op s!"configured {want.maxBytes}"
          | _ => s) s
      | none => s
    | "send_all" :: _ =>
      match s.prod with
      | some want => reqs.foldl (fun s (_, r) => match r.body with
          | .produce a t ts =>
            let s := if a == s.prodAcks && t == s.prodTimeout then s else v s "C16-produce-settings" op s!"acks {a} timeout {t}, configured {s.prodAcks} {s.prodTimeout}"
            let s := if r.header.clientId == some want.clientId then s else v s "C16-client-id-not-in-force" op s!"produce header client id {repr r.header.clientId}, configured {toHexTok want.clientId}"
            ts.foldl (fun s (_, ps) => ps.foldl (fun s (_, set) =>
              match parseMessageSet set with
              | some ms => if ms.all (fun m => (toU 1 m.attr) % 8 == want.compression) then s else v s "C16-compression-not-in-force" op s!"configured codec {want.compression}"
              | none => s) s) s
          | _ => s) s
      | none => s
    | _ => s) ({} : J16)
  s.out

/-! ### C07 -/

structure J07 where
  cluster : Cluster := {}
  /-- expected first fetch offset per (topic, partition) of the consumer just created; `none` = not judged -/
  expect : List ((Bytes × Int) × Int) := []
  pending : Bool := false
  /-- the offset storage set on the scenario's client (a consumer built from it inherits it unless the builder says otherwise) -/
  clientStorage : String := "none"
  out : List String := []

def judgeC07 (ops : List OpRec) : List String :=
  let v (s : J07) (sig : String) (op : OpRec) (d : String) : J07 :=
    { s with out := s.out ++ [s!"{sig} | op {op.idx} `{" ".intercalate (op.toks.take 1)}`: {d}"] }
  let s := ops.foldl (fun (s : J07) op =>
    let s := { s with cluster := applySetup s.cluster op.setup }
    let c := s.cluster
    let s := match op.toks with
    | "client_new" :: _ => { s with clientStorage := "none" }
    | ["c", "set", "storage", x] => { s with clientStorage := x }
    | "consumer_create" :: from_ :: opts =>
      let group := ((lastOpt opts "group").bind fromHex).getD []
      let storage := (lastOpt opts "storage").getD (if from_ == "client" then s.clientStorage else "none")
      let fb := (lastOpt opts "fallback").getD "latest"
      let topics : List Bytes := opts.filterMap fun o => let (k, x) := kv o; if k == "topic" then fromHex x else none
      let parts : List (Bytes × Int × PartState) := topics.flatMap fun t =>
        match c.topic? t with
        | some ts => (List.range ts.parts.length).zip ts.parts |>.map fun (i, p) => (t, ((i : Nat) : Int), p)
        | none => []
      -- what is judged here: whole-topic assignments of led partitions (explicit partition lists are C19's subject, a
      -- partition without a leader is outside the statement); otherwise no expectation is formed
      let parts := if opts.any (fun o => (kv o).1 == "tp") || parts.any (fun x => x.2.2.leader < 0) then [] else parts
      let committed (t : Bytes) (p : Int) : Option Int :=
        if group.isEmpty || storage == "none" then none else
        match c.groups.find? (fun (e : (Bytes × Bytes × Int) × Int) => e.1 == (storeKey storage group, t, p)) with
        | some e => if e.2 == -1 then none else some e.2
        | none => none
      let fbOff (p : PartState) : Option Int :=
        if fb == "earliest" then some p.earliest else if fb == "latest" then some p.hw
        else match fb.splitOn ":" with
          | ["time", t] => t.toInt?.map (offsetForTime p)
          | _ => none
      let anyCommitted := parts.any fun (t, p, _) => (committed t p).isSome
      let byTime := fb.startsWith "time:"
      -- per partition: the committed offset when within [earliest, latest], else the fallback; none = cannot be determined
      let want : List ((Bytes × Int) × Option Int) := parts.map fun (x : Bytes × Int × PartState) =>
        let t := x.1
        let p := x.2.1
        let ps := x.2.2
        match committed t p with
        | some cm => if ps.earliest ≤ cm ∧ cm ≤ ps.hw then ((t, p), some cm)
                     else ((t, p), if byTime then none else fbOff ps)
        | none => ((t, p), if byTime ∧ anyCommitted then none else fbOff ps)
      -- the reply that ended the look-up of the group's offsets: an error code in it (other than version 0's "nothing
      -- stored" on a partition) means the committed offsets could not be determined
      let lastFetchErr : Option Int := ((truthBodies c op).2.filterMap fun (x : Bytes × Request × RespBody) => match x.2.2 with
        | RespBody.offsetFetch ts => some ((ts.flatMap fun (tp : Bytes × List (Int × Int × Option Bytes × Int)) =>
            tp.2.filterMap fun (q : Int × Int × Option Bytes × Int) => if q.2.2.2 ≠ 0 ∧ q.2.2.2 ≠ 3 then some q.2.2.2 else none).head?)
        | _ => none).getLast?.join
      if op.result == "ok" then
        if lastFetchErr.isSome then v s "C07-created-despite-offset-fetch-error" op s!"creation succeeded although the group's offsets could not be read (the last answer carried error code {lastFetchErr.getD 0})"
        else if want.any (·.2.isNone) then v s "C07-created-without-offset" op "creation succeeded although no start offset can be determined for a partition"
        else { s with expect := want.filterMap (fun (x : (Bytes × Int) × Option Int) => x.2.map fun o => (x.1, o)), pending := true }
      else { s with pending := false }
    | ["seek", t, p, _] =>
      -- the application moved the partition itself: its first fetch is no longer the start offset's business
      (match fromHex t, p.toInt? with
       | some t, some p => if op.result == "ok" then { s with expect := s.expect.filter fun (e : (Bytes × Int) × Int) => e.1 != (t, p) } else s
       | _, _ => s)
    | ["poll"] =>
      if !s.pending then s else
      let got : List ((Bytes × Int) × Int) := (framesOf op).flatMap fun (x : Bytes × Request) => match x.2.body with
        | ReqBody.fetch _ _ _ ts => ts.flatMap fun (tp : Bytes × List FetchPart) => tp.2.map fun (p : FetchPart) => ((tp.1, p.partition), p.offset)
        | _ => []
      let s := got.foldl (fun (s : J07) (x : (Bytes × Int) × Int) =>
        match s.expect.find? (fun (e : (Bytes × Int) × Int) => e.1 == x.1) with
        | some (_, w) => if w == x.2 then s else
            v s "C07-wrong-start-offset" op s!"first fetch of {toHexTok x.1.1}/{x.1.2} asks for offset {x.2}, expected {w}"
        | none => s) s
      { s with pending := false }
    | _ => s
    { s with cluster := evolve s.cluster op }) ({} : J07)
  s.out

/-! ### C19 -/

structure J19 where
  cluster : Cluster := {}
  /-- the set the consumer must consume: topic ↦ sorted partition ids; none = no live consumer -/
  spec : Option (List (Bytes × List Int)) := none
  group : Bytes := []
  out : List String := []

def dedupI (xs : List Int) : List Int := xs.foldl (fun acc x => if acc.contains x then acc else acc ++ [x]) []

def inSpec (spec : List (Bytes × List Int)) (t : Bytes) (p : Int) : Bool :=
  match spec.find? (·.1 == t) with
  | some (_, ps) => ps.contains p
  | none => false

def judgeC19 (ops : List OpRec) : List String :=
  let v (s : J19) (sig : String) (op : OpRec) (d : String) : J19 :=
    { s with out := s.out ++ [s!"{sig} | op {op.idx} `{" ".intercalate (op.toks.take 1)}`: {d}"] }
  let s := ops.foldl (fun (s : J19) op =>
    let s := { s with cluster := applySetup s.cluster op.setup }
    let c := s.cluster
    let reqs := framesOf op
    let s := match op.toks with
    | "consumer_create" :: _ :: opts =>
      -- last call per topic wins
      let calls : List (Bytes × Option (List Int)) := opts.filterMap fun o =>
        let (k, x) := kv o
        if k == "topic" then (fromHex x).map fun t => (t, none)
        else if k == "tp" then match x.splitOn ":" with
          | [t, ps] => (fromHex t).map fun t => (t, some (if ps == "" then [] else (ps.splitOn ",").filterMap (fun (x : String) => x.toInt?)))
          | _ => none
        else none
      let amap : List (Bytes × Option (List Int)) := calls.foldl (fun (m : List (Bytes × Option (List Int))) (x : Bytes × Option (List Int)) =>
        (m.filter fun (y : Bytes × Option (List Int)) => y.1 != x.1) ++ [x]) []
      let group := ((lastOpt opts "group").bind fromHex).getD []
      let resolved : List (Bytes × Option (List Int)) := amap.map fun (x : Bytes × Option (List Int)) =>
        let t := x.1
        let a := x.2
        match c.topic? t with
        | none => (t, none)
        | some ts =>
          let n := ts.parts.length
          match a with
          | none => (t, some ((List.range n).map fun (i : Nat) => (i : Int)))
          | some [] => (t, some ((List.range n).map fun (i : Nat) => (i : Int)))
          | some ps => if ps.all (fun (p : Int) => decide (0 ≤ p ∧ p.toNat < n)) then (t, some (sortBy (· < ·) (dedupI ps))) else (t, none)
      if amap.isEmpty then
        (if op.result == "err NoTopics" then s else v s "C19-no-topics-not-reported" op s!"result `{op.result}`")
      else if resolved.any (·.2.isNone) then
        let s := if op.result == "err Kafka(3)" then s else v s "C19-unknown-assignment-accepted" op s!"an assigned topic/partition does not exist, result `{op.result}`"
        { s with spec := none }
      else
        let spec : List (Bytes × List Int) := resolved.filterMap fun (x : Bytes × Option (List Int)) => x.2.map fun ps => (x.1, ps)
        if op.result == "ok" then
          -- offsets loaded at creation are for exactly the set
          let s := reqs.foldl (fun (s : J19) (x : Bytes × Request) => match x.2.body with
            | ReqBody.offsetFetch _ ts =>
              let got := sortBy (· < ·) (ts.flatMap fun (tp : Bytes × List Int) => tp.2.map fun (p : Int) => s!"{toHexTok tp.1}/{p}")
              let want := sortBy (· < ·) (spec.flatMap fun (tp : Bytes × List Int) => tp.2.map fun (p : Int) => s!"{toHexTok tp.1}/{p}")
              if got == want then s else v s "C19-group-offsets-set" op s!"group offsets asked for {got}, consumed set {want}"
            | _ => s) s
          { s with spec := some spec, group := group }
        else { s with spec := none }
    | ["subscriptions"] =>
      match s.spec with
      | some spec => if op.result == fmtSubs spec then s else v s "C19-subscriptions" op s!"reported `{op.result}`, consumed set `{fmtSubs spec}`"
      | none => s
    | ["poll"] =>
      match s.spec with
      | some spec => reqs.foldl (fun (s : J19) (x : Bytes × Request) => match x.2.body with
          | ReqBody.fetch _ _ _ ts => ts.foldl (fun (s : J19) (tp : Bytes × List FetchPart) => let t := tp.1; tp.2.foldl (fun (s : J19) (p : FetchPart) =>
              if inSpec spec t p.partition then s else v s "C19-fetch-foreign-partition" op s!"fetch asks for {toHexTok t}/{p.partition}, not in the consumed set") s) s
          | _ => s) s
      | none => s
    | ["commit"] =>
      match s.spec with
      | some spec => reqs.foldl (fun (s : J19) (x : Bytes × Request) => match x.2.body with
          | ReqBody.offsetCommit _ _ _ _ ts => ts.foldl (fun (s : J19) (tp : Bytes × List CommitPart) => let t := tp.1; tp.2.foldl (fun (s : J19) (p : CommitPart) =>
              if inSpec spec t p.partition then s else v s "C19-commit-foreign-partition" op s!"commit names {toHexTok t}/{p.partition}, not in the consumed set") s) s
          | _ => s) s
      | none => s
    | ["seek", t, p, _] =>
      match s.spec, fromHex t, p.toInt? with
      | some spec, some t, some p =>
        if inSpec spec t p then (if op.result == "ok" then s else v s "C19-seek-rejected" op op.result)
        else if op.result.startsWith "err" then s else v s "C19-seek-foreign-accepted" op s!"seek on {toHexTok t}/{p} (not consumed) returned `{op.result}`"
      | _, _, _ => s
    | ["consume", t, p, _] =>
      match s.spec, fromHex t, p.toInt? with
      | some spec, some t, some p =>
        if inSpec spec t p then (if op.result == "ok" then s else v s "C19-consume-rejected" op op.result)
        else if op.result.startsWith "err" then s else v s "C19-consume-foreign-accepted" op s!"marking {toHexTok t}/{p} (not consumed) returned `{op.result}`"
      | _, _, _ => s
    | ["last_consumed", t, p] =>
      match s.spec, fromHex t, p.toInt? with
      | some spec, some t, some p =>
        if !inSpec spec t p && op.result != "ok none" then v s "C19-query-foreign" op s!"last_consumed on {toHexTok t}/{p} (not consumed) returned `{op.result}`" else s
      | _, _, _ => s
    | _ => s
    { s with cluster := evolve s.cluster op }) ({} : J19)
  s.out

/-! ### C05 -/

def kvStr (k v : Option Bytes) : String := s!"{Driver.optTok k}:{Driver.optTok v}"

def judgeC05 (ops : List OpRec) : List String :=
  let r := ops.foldl (fun (acc : JSt × List (String × J06)) op =>
    let s := acc.1
    let views := acc.2
    let s := { s with cluster := applySetup s.cluster op.setup }
    let s := trackSettings s op
    let (c', bodies) := truthBodies s.cluster op
    -- "known" and "current leader" are what the object's loaded metadata says (C06's view), not what the cluster has become
    let viewOf (k : String) : J06 := ((views.find? (fun (x : String × J06) => x.1 == k)).map (fun (x : String × J06) => x.2)).getD {}
    let s := match op.toks with
    | tgt :: "produce" :: acks :: secs :: nanos :: args =>
      let view := viewOf tgt
      match parseProduceArgs args with
      | none => s
      | some pas =>
        let reqs : List (Bytes × Request) := framesOf op
        let unknown := pas.any fun (a : Model.ProduceArg) => (view.leaderHost a.topic a.partition).isNone
        if unknown then
          let s := if op.result == "err Kafka(3)" then s else viol s "C05-unknown-not-rejected" op s!"result `{op.result}`"
          if reqs.isEmpty then s else viol s "C05-sent-before-failing" op "bytes were sent although a record names an unknown topic or partition"
        else if op.result == "err Codec" && reqs.isEmpty then s   -- a request that cannot be encoded (C09's subject): nothing was sent
        else
          -- expected: per (leader host, topic, partition) the records in input order
          let keys : List (Bytes × Int) := pas.foldl (fun (acc : List (Bytes × Int)) (a : Model.ProduceArg) => if acc.contains (a.topic, a.partition) then acc else acc ++ [(a.topic, a.partition)]) []
          let want : List String := keys.map fun (t, p) =>
            let recs := (pas.filter fun (a : Model.ProduceArg) => a.topic == t && a.partition == p).map fun (a : Model.ProduceArg) => kvStr a.key a.value
            s!"{toHexTok ((view.leaderHost t p).getD [])}|{toHexTok t}|{p}|{recs}"
          let got : List String := reqs.flatMap fun (x : Bytes × Request) => match x.2.body with
            | ReqBody.produce _ _ ts => ts.flatMap fun (tp : Bytes × List (Int × Bytes)) => tp.2.map fun (ps : Int × Bytes) =>
                s!"{toHexTok x.1}|{toHexTok tp.1}|{ps.1}|{(openSet ps.2).map fun (m : Msg) => kvStr m.key m.value}"
            | _ => []
          -- a call cut short on the wire has sent part of its requests: what it did send must be right
          let cut := op.evs.any (fun e => match e with | .io _ _ => true | .connect _ ok => !ok | _ => false)
          let s := if sortBy (· < ·) want == sortBy (· < ·) got || (cut && got.all (fun x => want.contains x)) then s
            else viol s "C05-records" op s!"requests carry {sortBy (· < ·) got}, expected (each record once, at its partition's leader, order kept) {sortBy (· < ·) want}"
          -- one request per involved broker, with the configured acks and time-out
          let hosts : List Bytes := reqs.map fun (x : Bytes × Request) => x.1
          let s := if hosts.length == (dedupB hosts).length then s else viol s "C05-several-requests-per-broker" op s!"{hosts.map toHexTok}"
          let to := match secs.toNat?, nanos.toNat? with
            | some a, some b => (Model.toMillisI32 a b).toOption
            | _, _ => none
          let s := reqs.foldl (fun (s : JSt) (x : Bytes × Request) => match x.2.body with
            | ReqBody.produce a t _ => if some a == acks.toInt? && some t == to then s else viol s "C05-acks-timeout" op s!"acks {a} timeout {t}"
            | _ => viol s "C05-wrong-api" op "not a produce request") s
          -- confirmations: exactly the per-partition results of all broker responses; none awaited with acks 0
          let ioFault := op.evs.any (fun e => match e with | .io _ _ => true | .connect _ ok => !ok | _ => false)
          if ioFault then s else
          if acks == "0" then
            let s := if op.result == "ok" then s else viol s "C05-noack-result" op op.result
            if op.evs.any (fun e => match e with | .req _ _ (some _) => true | _ => false) then viol s "C05-noack-reply-read" op "a reply was produced/read under acks 0" else s
          else
            let confirms : List Model.ProduceConfirm := bodies.flatMap fun (x : Bytes × Request × RespBody) => match x.2.2 with
              | RespBody.produce ts => ts.map fun (tp : Bytes × List (Int × Int × Int)) =>
                  (⟨tp.1, tp.2.map fun (q : Int × Int × Int) => ⟨q.1, if q.2.1 = 0 then .ok q.2.2 else .error (kindOf q.2.1)⟩⟩ : Model.ProduceConfirm)
              | _ => []
            if op.result == fmtConfirms confirms then s else viol s "C05-confirmations" op s!"returned `{op.result}`, brokers answered `{fmtConfirms confirms}`"
    | "producer_create" :: _ :: opts =>
      if op.result != "ok" then s else
      let acks : Int := ((lastOpt opts "acks").bind (·.toInt?)).getD 1
      let to : Int := match (lastOpt opts "acktimeout").map (fun (v : String) => v.splitOn ":") with
        | some [a, b] => match a.toNat?, b.toNat? with
          | some a, some b => ((a * 1000 + b / 1000000 : Nat) : Int)
          | _, _ => 30000
        | _ => 30000
      { s with prodAcks := acks, prodTimeout := to }
    | "send_all" :: args =>
      -- the producer layer: explicit partitions only here (partition choice is C12); every record once, at its
      -- partition's leader, order kept, one request per broker carrying the producer's own acks and time-out
      match Replay.parseRecords args with
      | none => s
      | some recs =>
        if recs.any (fun (r : Model.Record) => r.partition < 0) then s else
        let reqs : List (Bytes × Request) := framesOf op
        let view := viewOf "p"
        let unknown := recs.any fun (r : Model.Record) => (view.leaderHost r.topic r.partition).isNone
        if unknown then s else
        let keys : List (Bytes × Int) := recs.foldl (fun (acc : List (Bytes × Int)) (r : Model.Record) => if acc.contains (r.topic, r.partition) then acc else acc ++ [(r.topic, r.partition)]) []
        let want : List String := keys.map fun (t, p) =>
          let rs := (recs.filter fun (r : Model.Record) => r.topic == t && r.partition == p).map fun (r : Model.Record) => kvStr (Model.toOption r.key) (Model.toOption r.value)
          s!"{toHexTok ((view.leaderHost t p).getD [])}|{toHexTok t}|{p}|{rs}"
        let got : List String := reqs.flatMap fun (x : Bytes × Request) => match x.2.body with
          | ReqBody.produce _ _ ts => ts.flatMap fun (tp : Bytes × List (Int × Bytes)) => tp.2.map fun (ps : Int × Bytes) =>
              s!"{toHexTok x.1}|{toHexTok tp.1}|{ps.1}|{(openSet ps.2).map fun (m : Msg) => kvStr m.key m.value}"
          | _ => []
        let ioFault := op.evs.any (fun e => match e with | .io _ _ => true | .connect _ ok => !ok | _ => false)
        let s := if ioFault || sortBy (· < ·) want == sortBy (· < ·) got then s
          else viol s "C05-producer-records" op s!"requests carry {sortBy (· < ·) got}, expected {sortBy (· < ·) want}"
        reqs.foldl (fun (s : JSt) (x : Bytes × Request) => match x.2.body with
          | ReqBody.produce a t _ => if a == s.prodAcks && t == s.prodTimeout then s
              else viol s "C05-producer-acks-timeout" op s!"request carries acks {a} timeout {t}; the producer was built with acks {s.prodAcks} timeout {s.prodTimeout}"
          | _ => s) s
    | _ => s
    ({ s with cluster := c' }, trackViews views op bodies)) (({} : JSt), [])
  r.1.out

/-! ### C06 -/

def judgeC06 (ops : List OpRec) : List String :=
  let v (s : J06) (sig : String) (op : OpRec) (d : String) : J06 :=
    { s with out := s.out ++ [s!"{sig} | op {op.idx} `{" ".intercalate (op.toks.take 2)}`: {d}"] }
  let s := ops.foldl (fun (s : J06) op =>
    let s := { s with cluster := applySetup s.cluster op.setup }
    let (c', bodies) := truthBodies s.cluster op
    let s := { s with cluster := c' }
    let okRes := !op.result.startsWith "err" && op.result != "panic"
    match op.toks with
    | ["client_new", hs] => { s with bootstrap := (hostsOf hs).getD [], hosts := [], topics := [] }
    | [_, "reset_metadata"] => { s with hosts := [], topics := [] }
    | tgt :: load :: _ =>
      -- the view followed here is the one of the scenario's client object `c`
      if tgt != "c" then s else
      if load == "load_metadata_all" || load == "load_metadata" then
        let s := if load == "load_metadata_all" then { s with hosts := [], topics := [] } else s
        -- bootstrap: the first host that can be reached answers; no-host-reachable only if none can
        let connects : List (Bytes × Bool) := op.evs.filterMap fun (e : Ev) => match e with | .connect h ok => some (h, ok) | _ => none
        let reachable := s.bootstrap.filter fun (h : Bytes) => !(connects.any fun (x : Bytes × Bool) => x.1 == h && !x.2)
        let asked : List Bytes := (framesOf op).map fun (x : Bytes × Request) => x.1
        let s := match s.bootstrap.find? (fun (h : Bytes) => !(connects.any fun (x : Bytes × Bool) => x.1 == h && !x.2)) with
          | some first =>
            let s := if asked == [first] then s else v s "C06-bootstrap-order" op s!"metadata asked of {asked.map toHexTok}, first reachable bootstrap host is {toHexTok first}"
            if op.result == "err NoHost" then v s "C06-no-host-although-reachable" op s!"reachable: {reachable.map toHexTok}" else s
          | none => if op.result == "err NoHost" then s else v s "C06-no-host-not-reported" op s!"result `{op.result}`"
        if okRes then
          bodies.foldl (fun (s : J06) (x : Bytes × Request × RespBody) => match x.2.2 with
            | RespBody.metadata bs ts => s.merge bs ts
            | _ => s) s
        else s
      else if load == "topics" then
        if op.result == s.view then s else v s "C06-view" op s!"topics() shows `{op.result}`, the merge of the responses received is `{s.view}`"
      else if load == "fetch_messages" || load == "fetch_offsets" || load == "list_offsets" || load == "produce" then
        -- every partition mentioned in a request goes to the latest address of its leader, leaderless ones to nobody
        (framesOf op).foldl (fun (s : J06) (x : Bytes × Request) =>
          (mentionsOf x.2).foldl (fun (s : J06) (tp : Bytes × Int) =>
            let leader : Option Int := ((s.topics.find? (fun (y : Bytes × List Int) => y.1 == tp.1)).bind fun (y : Bytes × List Int) =>
              if tp.2 < 0 then none else y.2[tp.2.toNat]?)
            match leader.bind s.hostOfNode with
            | some h => if h == x.1 then s else v s "C06-misrouted" op s!"{toHexTok tp.1}/{tp.2} sent to {toHexTok x.1}, its leader's latest address is {toHexTok h}"
            | none => v s "C06-sent-to-leaderless" op s!"{toHexTok tp.1}/{tp.2} has no leader in the merged metadata but was sent to {toHexTok x.1}") s) s
      else s
    | _ => s) ({} : J06)
  s.out

/-! ### C02 -/

def fmtExposed (ms : List (Int × Bytes × Bytes)) : String :=
  "[" ++ joinWith "," (ms.map fun (x : Int × Bytes × Bytes) => s!"{x.1}:{toHexTok x.2.1}:{toHexTok x.2.2}") ++ "]"

def parseExposed (s : String) : List String :=
  -- "hw[a,b,c]" ↦ ["a","b","c"]
  match s.splitOn "[" with
  | [_, rest] => let inner := (rest.splitOn "]").head!; if inner == "" then [] else inner.splitOn ","
  | _ => []

/-- the property's own demand on one partition: what is exposed is a prefix of the complete messages at or above the
    requested offset, non-empty when such a message exists, and all of them when no entry is compressed -/
def judgeC02Part (s : JSt) (op : OpRec) (tp : String) (got : List String) (pr : FetchPartResp) (req : Int) : JSt :=
  let want := (exposed leanDec 4 pr.set req).map fun (x : Int × Bytes × Bytes) => s!"{x.1}:{toHexTok x.2.1}:{toHexTok x.2.2}"
  let allPlain := (completeEntries (pr.set.length + 1) pr.set).all fun (m : Msg) => (toU 1 m.attr) % 8 == 0
  if got != want.take got.length then
    viol s "C02-not-a-prefix" op s!"{tp}: exposed {got}, which is not a prefix of the complete messages at or above offset {req}: {want}"
  else if got.isEmpty && !want.isEmpty then
    viol s "C02-empty-although-available" op s!"{tp}: nothing exposed although complete messages at or above offset {req} exist: {want}"
  else if allPlain && got != want then
    viol s "C02-uncompressed-incomplete" op s!"{tp}: exposed {got} of an uncompressed set whose complete messages are {want}"
  else s

def judgeC02 (ops : List OpRec) : List String :=
  let s := ops.foldl (fun (s : JSt) op =>
    let s := { s with cluster := applySetup s.cluster op.setup }
    let (c', bodies) := truthBodies s.cluster op
    let ioFault := op.evs.any (fun e => match e with | .io _ _ => true | .connect _ ok => !ok | _ => false)
    let s := match op.toks with
    | _ :: "fetch_messages" :: _ =>
      if ioFault then s else
      if op.result.startsWith "err" || op.result == "panic" then
        (if bodies.isEmpty then s else viol s "C02-fetch-failed" op s!"returned `{op.result}` for well-formed responses")
      else
        -- result tokens: " t/p=hw[...]" or " t/p=E<code>"
        let toks := (op.result.splitOn " ").drop 1
        bodies.foldl (fun (s : JSt) (x : Bytes × Request × RespBody) =>
          let reqOff (t : Bytes) (p : Int) : Int := match x.2.1.body with
            | ReqBody.fetch _ _ _ ts => ((ts.find? (fun (y : Bytes × List FetchPart) => y.1 == t)).bind fun (y : Bytes × List FetchPart) =>
                (y.2.find? (fun (fp : FetchPart) => fp.partition == p)).map (fun (fp : FetchPart) => fp.offset)).getD 0
            | _ => 0
          match x.2.2 with
          | RespBody.fetch ts => ts.foldl (fun (s : JSt) (tp : Bytes × List FetchPartResp) => tp.2.foldl (fun (s : JSt) (pr : FetchPartResp) =>
              let key := s!"{toHexTok tp.1}/{pr.partition}="
              match toks.find? (fun (t : String) => t.startsWith key) with
              | none => viol s "C02-partition-missing" op s!"{key} is not in the result"
              | some tok =>
                let val := (tok.drop key.length).toString
                if pr.err ≠ 0 then (if val == s!"E{kindOf pr.err}" then s else viol s "C02-error-partition" op tok)
                else
                  let s := if val.startsWith (toString pr.hw ++ "[") then s else viol s "C02-high-watermark" op s!"{tok}: high watermark sent is {pr.hw}"
                  judgeC02Part s op key (parseExposed val) pr (reqOff tp.1 pr.partition)) s) s
          | _ => s) s
    | _ => s
    { s with cluster := c' }) ({} : JSt)
  s.out

/-! ### C04 -/

/-- walk a message set the way a decoder reaches its entries, checking nothing but sizes and checksums:
    `some true` = an entry with a wrong checksum is reached (before anything else goes wrong),
    `some false` = every reached entry is intact, `none` = the walk cannot tell (structural damage) -/
def reachesBadCrc (dec : Dec) : Nat → Nat → Bytes → Option Bool
  | _, 0, _ => some false
  | depth, fuel+1, bs =>
    if bs.isEmpty then some false else
    match readI 8 bs with
    | none => some false                    -- cut entry: end of set
    | some (_, r1) =>
    match readI 4 r1 with
    | none => some false
    | some (sz, r2) =>
    if sz ≤ 0 then some false else
    match readN sz.toNat r2 with
    | none => some false
    | some (m, rest) =>
    match readN 4 m with
    | none => some false
    | some (crc, body) =>
    if unbe crc ≠ (crc32 body).toNat then some true else
    match (do
        let magic ← pI8
        let attr ← pI8
        let k ← pNBytes
        let v ← pNBytes
        pure (magic, attr, k, v) : P _) body with
    | some ((magic, attr, _, v), _) =>
      if magic ≠ 0 then none else
      let c := (toU 1 attr) % 8
      if c = 0 then reachesBadCrc dec depth fuel rest
      else
        let inner := match v with
          | some v => if c = 1 then dec.gunzip v else if c = 2 then dec.unxerial v else none
          | none => none
        match inner, depth with
        | some ib, d+1 =>
          match reachesBadCrc dec d (ib.length + 1) ib with
          | some false => reachesBadCrc dec (d+1) fuel rest
          | r => r
        | _, _ => none
    | none => none

def judgeC04 (ops : List OpRec) : List String :=
  let s := ops.foldl (fun (s : JSt) op =>
    let s := { s with cluster := applySetup s.cluster op.setup }
    let s := trackSettings s op
    let (c', bodies) := truthBodies s.cluster op
    let isFetch := match op.toks with
      | _ :: "fetch_messages" :: _ => true
      | ["poll"] => true
      | _ => false
    let s := match op.toks with
      | "consumer_create" :: from_ :: opts =>
        let base := if from_ == "client" then s.crcOn else true
        { s with consCrc := match lastOpt opts "crc" with
            | some v => v == "1"
            | none => base }
      | _ => s
    let on := if op.toks == ["poll"] then s.consCrc else s.crcOn
    let s := if isFetch then
      -- in response order: the first partition set that reaches a bad checksum decides
      let sets : List Bytes := bodies.flatMap fun (x : Bytes × Request × RespBody) => match x.2.2 with
        | RespBody.fetch ts => ts.flatMap fun (tp : Bytes × List FetchPartResp) => tp.2.map fun (pr : FetchPartResp) => pr.set
        | _ => []
      let verdicts := sets.map fun (b : Bytes) => reachesBadCrc leanDec 4 (b.length + 1) b
      if on then
        match verdicts.find? (fun (v : Option Bool) => v != some false) with
        | some (some true) =>
          if op.result == "err Kafka(2)" then s
          else viol s "C04-corrupt-message-delivered" op s!"a message whose checksum does not match was reached with validation on; result `{op.result.take 300}`"
        | _ => s
      else
        -- validation off: a wrong checksum alone must never cause rejection
        if verdicts.all (fun (v : Option Bool) => v.isSome) && op.result == "err Kafka(2)" then
          viol s "C04-rejected-with-validation-off" op "corrupt-message error although validation is disabled"
        else s
      else s
    { s with cluster := c' }) ({} : JSt)
  s.out

/-! ### C01 -/

/-- all plain messages of a partition log (wrappers opened), in log order -/
def logMessages (ps : PartState) : List (Int × Bytes × Bytes) :=
  exposed leanDec 4 (ps.entries.flatMap (·.bytes)) (-9223372036854775808)

structure J01 where
  cluster : Cluster := {}
  live : Bool := false
  /-- per consumed (topic, partition): start offset (creation or last seek; none = not yet known) and what has been delivered since -/
  parts : List ((Bytes × Int) × (Option Int × List String)) := []
  out : List String := []

def msgStr (x : Int × Bytes × Bytes) : String := s!"{x.1}:{toHexTok x.2.1}:{toHexTok x.2.2}"

/-- parse " t/p=[a,b]" tokens of a poll result -/
def pollSets (result : String) : List ((Bytes × Int) × List String) :=
  ((result.splitOn " ").drop 2).filterMap fun (tok : String) =>
    match tok.splitOn "=" with
    | [tp, ms] =>
      match tp.splitOn "/" with
      | [t, p] =>
        match fromHex t, p.toInt? with
        | some t, some p =>
          let inner := ((ms.drop 1).toString.splitOn "]").head!
          some ((t, p), if inner == "" then [] else inner.splitOn ",")
        | _, _ => none
      | _ => none
    | _ => none

def judgeC01 (ops : List OpRec) : List String :=
  let v (s : J01) (sig : String) (op : OpRec) (d : String) : J01 :=
    { s with out := s.out ++ [s!"{sig} | op {op.idx} `{" ".intercalate (op.toks.take 1)}`: {d}"] }
  let s := ops.foldl (fun (s : J01) op =>
    let s := { s with cluster := applySetup s.cluster op.setup }
    let s := match op.toks with
    | "consumer_create" :: _ => { s with live := op.result == "ok", parts := [] }
    | ["seek", t, p, o] =>
      match fromHex t, p.toInt?, o.toInt? with
      | some t, some p, some o =>
        if op.result == "ok" then { s with parts := (s.parts.filter fun (x : (Bytes × Int) × (Option Int × List String)) => x.1 != (t, p)) ++ [((t, p), (some o, []))] } else s
      | _, _, _ => s
    | ["poll"] =>
      if !s.live then s else
      if op.result == "noobj" then s else
      -- the first fetch after creation / seek reveals the start offset when it is not known yet
      let reqOffsets : List ((Bytes × Int) × Int) := (framesOf op).flatMap fun (x : Bytes × Request) => match x.2.body with
        | ReqBody.fetch _ _ _ ts => ts.flatMap fun (tp : Bytes × List FetchPart) => tp.2.map fun (fp : FetchPart) => ((tp.1, fp.partition), fp.offset)
        | _ => []
      let s := reqOffsets.foldl (fun (s : J01) (x : (Bytes × Int) × Int) =>
        match s.parts.find? (fun (y : (Bytes × Int) × (Option Int × List String)) => y.1 == x.1) with
        | some (_, (some _, _)) => s
        | some (_, (none, dl)) => { s with parts := (s.parts.filter fun (y : (Bytes × Int) × (Option Int × List String)) => y.1 != x.1) ++ [(x.1, (some x.2, dl))] }
        | none => { s with parts := s.parts ++ [(x.1, (some x.2, []))] }) s
      -- what is asked for next is what follows the last delivered message (or the start offset): an offset that moved
      -- although nothing was delivered skips messages, one that moved back delivers twice
      let s := reqOffsets.foldl (fun (s : J01) (x : (Bytes × Int) × Int) =>
        match s.parts.find? (fun (y : (Bytes × Int) × (Option Int × List String)) => y.1 == x.1) with
        | some (_, (some start, dl)) =>
          let expected : Int := match dl.getLast? with
            | some m => (((m.splitOn ":").head?).bind (·.toInt?)).getD start + 1
            | none => start
          if x.2 == expected then s
          else v s (if x.2 > expected then "C01-offset-moved-without-delivery" else "C01-offset-moved-back") op s!"{toHexTok x.1.1}/{x.1.2}: fetch asks from offset {x.2}; delivered so far {dl.length} message(s) from start {start}, so {expected} is next"
        | _ => s) s
      -- (the requests of a failed poll were judged above; it delivers nothing)
      if op.result.startsWith "err" || op.result == "panic" then s else
      let sets := pollSets op.result
      -- the emptiness flag agrees with what iterating yields
      let flagEmpty := (op.result.splitOn " ").getD 1 "" == "empty=1"
      let s := if flagEmpty == sets.isEmpty then s else v s "C01-empty-flag" op s!"is_empty() = {flagEmpty} but iterating yields {sets.length} message set(s)"
      -- every delivered set extends "the log from the start offset onward": exactly once, in order, right label
      sets.foldl (fun (s : J01) (x : (Bytes × Int) × List String) =>
        match s.cluster.part? x.1.1 x.1.2, s.parts.find? (fun (y : (Bytes × Int) × (Option Int × List String)) => y.1 == x.1) with
        | some ps, some (_, (some start, dl)) =>
          let truth := ((logMessages ps).filter fun (m : Int × Bytes × Bytes) => m.1 ≥ start).map msgStr
          let dl' := dl ++ x.2
          let s := { s with parts := (s.parts.filter fun (y : (Bytes × Int) × (Option Int × List String)) => y.1 != x.1) ++ [(x.1, (some start, dl'))] }
          if dl' == truth.take dl'.length then s
          else v s "C01-delivery" op s!"{toHexTok x.1.1}/{x.1.2}: delivered so far {dl'} is not the log from offset {start} onward {truth.take (dl'.length + 2)}"
        | none, _ => v s "C01-label" op s!"messages labelled {toHexTok x.1.1}/{x.1.2}: no such partition"
        | _, _ => v s "C01-label" op s!"messages labelled {toHexTok x.1.1}/{x.1.2}, which this consumer never fetched") s
    | ["drain_check"] => s
    | _ => s
    { s with cluster := evolve s.cluster op }) ({} : J01)
  -- at the end of a scenario that finished with fault-free polls: nothing retained was left undelivered
  let s := match ops.getLast? with
    | some last =>
      -- (an entry that fits no permitted fetch size is *reported* — C17 — and stays undelivered by design)
      let reported := ops.any fun (o : OpRec) => o.toks == ["poll"] && o.result == "err Kafka(10)"
      if last.toks == ["poll"] && last.result == "ok empty=1" && !reported then
        s.parts.foldl (fun (s : J01) (x : (Bytes × Int) × (Option Int × List String)) =>
          match s.cluster.part? x.1.1 x.1.2, x.2.1 with
          | some ps, some start =>
            let truth := ((logMessages ps).filter fun (m : Int × Bytes × Bytes) => m.1 ≥ start).map msgStr
            if (s.cluster.brokers.any fun (b : BrokerMeta) => b.nodeId == ps.leader) && x.2.2 != truth then
              v s "C01-undelivered" last s!"{toHexTok x.1.1}/{x.1.2}: an empty poll although {truth.drop x.2.2.length |>.take 3} were never delivered (delivered {x.2.2.length} of {truth.length})"
            else s
          | _, _ => s) s
      else s
    | none => s
  s.out

/-! ### C08 -/

/-- the (topic, partition) pairs a consumer built with these options consumes (last call per topic wins, a whole-topic call
    or an empty list means every partition the cluster has); `none` when the assignment does not resolve -/
def assignedPairs (c : Cluster) (opts : List String) : Option (List (Bytes × Int)) :=
  let calls : List (Bytes × Option (List Int)) := opts.filterMap fun o =>
    let (k, x) := kv o
    if k == "topic" then (fromHex x).map fun t => (t, none)
    else if k == "tp" then match x.splitOn ":" with
      | [t, ps] => (fromHex t).map fun t => (t, some (if ps == "" then [] else (ps.splitOn ",").filterMap (fun (x : String) => x.toInt?)))
      | _ => none
    else none
  let amap : List (Bytes × Option (List Int)) := calls.foldl (fun (m : List (Bytes × Option (List Int))) (x : Bytes × Option (List Int)) =>
    (m.filter fun (y : Bytes × Option (List Int)) => y.1 != x.1) ++ [x]) []
  let resolved : List (Option (List (Bytes × Int))) := amap.map fun (x : Bytes × Option (List Int)) =>
    match c.topic? x.1 with
    | none => none
    | some ts =>
      let all := (List.range ts.parts.length).map fun (i : Nat) => (x.1, (i : Int))
      match x.2 with
      | none => some all
      | some [] => some all
      | some ps => some (ps.map fun p => (x.1, p))
  if resolved.any (·.isNone) then none else some (resolved.flatMap fun r => r.getD [])

structure J08 where
  cluster : Cluster := {}
  storage : String := "none"
  group : Bytes := []
  /-- marks: (topic, partition) ↦ (highest consumed mark, changed since the last successful commit) -/
  marks : List ((Bytes × Int) × (Int × Bool)) := []
  spec : List (Bytes × Int) := []
  /-- the offset storage set on the scenario's client (inherited by a consumer built from it unless the builder names one) -/
  clientStorage : String := "none"
  out : List String := []

def judgeC08 (ops : List OpRec) : List String :=
  let v (s : J08) (sig : String) (op : OpRec) (d : String) : J08 :=
    { s with out := s.out ++ [s!"{sig} | op {op.idx} `{" ".intercalate (op.toks.take 1)}`: {d}"] }
  let s := ops.foldl (fun (s : J08) op =>
    let s := { s with cluster := applySetup s.cluster op.setup }
    let c := s.cluster
    let s := match op.toks with
      | "client_new" :: _ => { s with clientStorage := "none" }
      | ["c", "set", "storage", x] => { s with clientStorage := x }
      | _ => s
    let s := match op.toks with
    | "consumer_create" :: from_ :: opts =>
      if op.result != "ok" then { s with marks := [] } else
      let group := ((lastOpt opts "group").bind fromHex).getD []
      let storage := (lastOpt opts "storage").getD (if from_ == "client" then s.clientStorage else "none")
      -- a new consumer of the group starts from what the coordinator has stored: marks = stored - 1, clean
      let marks : List ((Bytes × Int) × (Int × Bool)) := c.groups.filterMap fun (e : (Bytes × Bytes × Int) × Int) =>
        if e.1.1 == storeKey storage group && e.2 != -1 && !group.isEmpty && storage != "none"
            && ((assignedPairs c opts).getD []).contains (e.1.2.1, e.1.2.2) then some ((e.1.2.1, e.1.2.2), (e.2 - 1, false)) else none
      { s with group := group, storage := storage, marks := marks }
    | ["consumer_drop"] => { s with marks := [] }
    | ["consume", t, p, o] =>
      match fromHex t, p.toInt?, o.toInt? with
      | some t, some p, some o =>
        if op.result != "ok" then s else
        match s.marks.find? (fun (x : (Bytes × Int) × (Int × Bool)) => x.1 == (t, p)) with
        | some (_, (m, _)) =>
          if o > m then { s with marks := (s.marks.filter fun (x : (Bytes × Int) × (Int × Bool)) => x.1 != (t, p)) ++ [((t, p), (o, true))] } else s
        | none => { s with marks := s.marks ++ [((t, p), (o, true))] }
      | _, _, _ => s
    | ["last_consumed", t, p] =>
      match fromHex t, p.toInt? with
      | some t, some p =>
        let want := match s.marks.find? (fun (x : (Bytes × Int) × (Int × Bool)) => x.1 == (t, p)) with
          | some (_, (m, _)) => s!"ok {m}"
          | none => "ok none"
        if op.result == want then s else v s "C08-mark" op s!"last_consumed_message says `{op.result}`, the highest mark is `{want}` (marks never move backwards)"
      | _, _ => s
    | ["commit"] =>
      let dirty := s.marks.filter fun (x : (Bytes × Int) × (Int × Bool)) => x.2.2
      let want := sortBy (· < ·) (dirty.map fun (x : (Bytes × Int) × (Int × Bool)) => s!"{toHexTok x.1.1}/{x.1.2}@{x.2.1 + 1}")
      let commits : List (Bytes × Request) := (framesOf op).filter fun (x : Bytes × Request) => x.2.header.apiKey == 8
      let s := commits.foldl (fun (s : J08) (x : Bytes × Request) => match x.2.body with
        | ReqBody.offsetCommit g _ _ _ ts =>
          let got := sortBy (· < ·) (ts.flatMap fun (tp : Bytes × List CommitPart) => tp.2.map fun (cp : CommitPart) => s!"{toHexTok tp.1}/{cp.partition}@{cp.offset}")
          let s := if got == want then s else v s "C08-commit-content" op s!"commit request carries {got}; the marks changed since the last successful commit, plus one, are {want}"
          let s := if g == s.group then s else v s "C08-commit-group" op "group"
          let ver := x.2.header.apiVersion
          if (s.storage == "zk" && ver == 0) || (s.storage == "kafka" && ver == 1) then s else v s "C08-commit-version" op s!"version {ver} with storage {s.storage}"
        | _ => s) s
      let s := if want.isEmpty && !commits.isEmpty then v s "C08-commit-without-change" op "a commit request was sent although no mark changed" else s
      if op.result == "ok" then
        let s := if !want.isEmpty && commits.isEmpty then v s "C08-commit-not-sent" op s!"commit returned ok without sending {want}" else s
        -- a commit that reports success has persisted the marks: the coordinator's store (the specification broker's,
        -- after this operation's requests) holds mark + 1 for every partition that had changed
        let after := evolve s.cluster op
        let s := dirty.foldl (fun (s : J08) (x : (Bytes × Int) × (Int × Bool)) =>
          let stored := (after.groups.find? fun (g : (Bytes × Bytes × Int) × Int) => g.1 == (storeKey s.storage s.group, x.1.1, x.1.2)).map (fun (g : (Bytes × Bytes × Int) × Int) => g.2)
          if stored == some (x.2.1 + 1) then s
          else v s "C08-commit-not-stored" op s!"commit returned ok, but the coordinator holds {stored} for {toHexTok x.1.1}/{x.1.2}; the mark is {x.2.1}") s
        { s with marks := s.marks.map fun (x : (Bytes × Int) × (Int × Bool)) => (x.1, (x.2.1, false)) }
      else s
    | _ => s
    { s with cluster := evolve s.cluster op }) ({} : J08)
  -- resuming after a crash / restart is C07's statement evaluated on the coordinator's store at that moment
  s.out ++ judgeC07 ops

/-! ### C17 -/

structure J17 where
  cluster : Cluster := {}
  base : Int := 32768
  lim : Int := 0
  nparts : Nat := 0
  /-- per partition: the sizes the next request may ask with (absent = the normal size only).  After an empty answer although
      the high watermark showed data: the doubled size capped at the limit, nothing else; after a delivery: the normal size,
      nothing else; where the property is silent (an empty answer at the end of the log, a seek): the size last used or the
      normal one -/
  expect : List ((Bytes × Int) × List Int) := []
  /-- partitions whose last answer in a successful poll was empty although behind the high watermark -/
  behind : List (Bytes × Int) := []
  /-- the possible contents of "due for a fetch of its own, oldest first" (several when a poll failed before its request
      could be observed, or failed after it: the property does not say whether the turn is then used up) -/
  queues : List (List (Bytes × Int)) := [[]]
  /-- consecutive polls in which a stuck partition neither delivered nor was reported -/
  stuckPolls : Nat := 0
  /-- consecutive failed polls that asked for one and the same partition alone (others assigned) -/
  aloneFails : Nat := 0
  aloneWho : Option (Bytes × Int) := none
  out : List String := []

def dedupQ (xs : List (List (Bytes × Int))) : List (List (Bytes × Int)) :=
  xs.foldl (fun acc x => if acc.contains x then acc else acc ++ [x]) []

def judgeC17 (ops : List OpRec) : List String :=
  let v (s : J17) (sig : String) (op : OpRec) (d : String) : J17 :=
    { s with out := s.out ++ [s!"{sig} | op {op.idx} `{" ".intercalate (op.toks.take 1)}`: {d}"] }
  let s := ops.foldl (fun (s : J17) op =>
    let s := { s with cluster := applySetup s.cluster op.setup }
    let (c', bodies) := truthBodies s.cluster op
    let s := match op.toks with
    | "consumer_create" :: _ :: opts =>
      let base := ((lastOpt opts "maxbytes").bind (·.toInt?)).getD 32768
      let lim := ((lastOpt opts "retrylimit").bind (·.toInt?)).getD 0
      let n := ((assignedPairs s.cluster opts).getD []).length
      { s with base := base, lim := lim, nparts := n, expect := [], behind := [], queues := [[]], stuckPolls := 0 }
    | ["seek", t, p, _] =>
      match fromHex t, p.toInt? with
      | some t, some p =>
        let cur := ((s.expect.find? (fun (y : (Bytes × Int) × List Int) => y.1 == (t, p))).map (fun (y : (Bytes × Int) × List Int) => y.2)).getD [s.base]
        let cur := if cur.contains s.base then cur else cur ++ [s.base]
        { s with expect := (s.expect.filter fun (y : (Bytes × Int) × List Int) => y.1 != (t, p)) ++ [((t, p), cur)] }
      | _, _ => s
    | ["poll"] =>
      let asked : List (Bytes × Int × Int × Nat) := (framesOf op).flatMap fun (x : Bytes × Request) => match x.2.body with
        | ReqBody.fetch _ _ _ ts =>
          let cnt := (ts.map fun (tp : Bytes × List FetchPart) => tp.2.length).foldl (· + ·) 0
          ts.flatMap fun (tp : Bytes × List FetchPart) => tp.2.map fun (fp : FetchPart) => (tp.1, fp.partition, fp.maxBytes, cnt)
        | _ => []
      let totalAsked := asked.length
      let askedTPs : List (Bytes × Int) := asked.map fun (x : Bytes × Int × Int × Nat) => (x.1, x.2.1)
      let failed := op.result.startsWith "err"
      let ioFault := op.evs.any (fun e => match e with | .io _ _ => true | .connect _ ok => !ok | _ => false)
      let codeFault := bodies.any fun (x : Bytes × Request × RespBody) => match x.2.2 with
        | RespBody.fetch ts => ts.any fun (tp : Bytes × List FetchPartResp) => tp.2.any fun (pr : FetchPartResp) => pr.err ≠ 0
        | _ => false
      -- 1. sizes: never above max(base, limit); after an empty-but-behind answer: doubled up to the limit; after a delivery: normal
      let s := asked.foldl (fun (s : J17) (x : Bytes × Int × Int × Nat) =>
        let t := x.1; let p := x.2.1; let sz := x.2.2.1
        let s := if sz ≤ max s.base s.lim then s else v s "C17-size-above-limit" op s!"{toHexTok t}/{p} asked with max_bytes {sz}; normal size {s.base}, retry limit {s.lim}"
        let acc := ((s.expect.find? (fun (y : (Bytes × Int) × List Int) => y.1 == (t, p))).map (fun (y : (Bytes × Int) × List Int) => y.2)).getD [s.base]
        if acc.contains sz then s
        else if acc == [s.base] then v s "C17-size-not-reset" op s!"{toHexTok t}/{p} asked with {sz} although its last fetch delivered (or nothing was ever pending); normal size {s.base}"
        else v s "C17-size-sequence" op s!"{toHexTok t}/{p}: the request asks {sz}, expected one of {acc} (normal size {s.base}, limit {s.lim})"
        ) s
      -- 1b. a partition due for a fetch of its own is fetched alone, oldest first; with nothing due every partition is asked for
      let step (q : List (Bytes × Int)) : List (List (Bytes × Int)) :=
        -- a poll cut short on the wire shows some of its requests at most: nothing can be concluded from what is missing
        if askedTPs.isEmpty || ioFault then [q, q.tail]
        else match q with
          | x :: rest => if askedTPs == [x] then (if failed then [rest, q] else [rest]) else []
          | [] => if totalAsked == s.nparts then [[]] else []
      let nexts := dedupQ (s.queues.flatMap step)
      let s := if !nexts.isEmpty then s
        else match s.queues.find? (fun (q : List (Bytes × Int)) => !q.isEmpty) with
          | some (x :: _) => v s "C17-not-alone" op s!"{toHexTok x.1}/{x.2} was due for a fetch of its own; this poll asked for {asked.map fun (x : Bytes × Int × Int × Nat) => (toHexTok x.1, x.2.1)}"
          | _ => v s "C17-others-starved" op s!"no partition is due for a fetch of its own, yet this poll asked for {asked.map fun (x : Bytes × Int × Int × Nat) => (toHexTok x.1, x.2.1)} only ({s.nparts} partitions are assigned)"
      let nexts := if nexts.isEmpty then [[]] else nexts
      -- 1c. the others keep being delivered: a partition is not fetched alone, failing, poll after poll
      let aloneNow : Option (Bytes × Int) := match askedTPs with
        | [x] => if s.nparts > 1 && failed && !ioFault then some x else none
        | _ => none
      let fails := match aloneNow with
        | some x => if s.aloneWho == some x then s.aloneFails + 1 else 1
        | none => if askedTPs.isEmpty || ioFault then s.aloneFails else 0
      let s := { s with aloneFails := fails, aloneWho := if aloneNow.isSome then aloneNow else (if askedTPs.isEmpty then s.aloneWho else none) }
      let s := if fails == 3 then v s "C17-others-starved" op s!"{askedTPs.map fun (x : Bytes × Int) => (toHexTok x.1, x.2)} was fetched alone by {fails} failing polls in a row; {s.nparts} partitions are assigned and none of the others was asked for" else s
      -- 2. outcome per partition from the broker's answers
      let answers : List ((Bytes × Int) × (Bool × Bool)) := bodies.flatMap fun (x : Bytes × Request × RespBody) =>
        let reqOff (t : Bytes) (p : Int) : Int := match x.2.1.body with
          | ReqBody.fetch _ _ _ ts => ((ts.find? (fun (y : Bytes × List FetchPart) => y.1 == t)).bind fun (y : Bytes × List FetchPart) =>
              (y.2.find? (fun (fp : FetchPart) => fp.partition == p)).map (fun (fp : FetchPart) => fp.offset)).getD 0
          | _ => 0
        match x.2.2 with
        | RespBody.fetch ts => ts.flatMap fun (tp : Bytes × List FetchPartResp) => tp.2.map fun (pr : FetchPartResp) =>
            let got := !(exposed leanDec 4 pr.set (reqOff tp.1 pr.partition)).isEmpty
            ((tp.1, pr.partition), (got, reqOff tp.1 pr.partition < pr.hw))
        | _ => []
      let sizeOf (a : (Bytes × Int) × (Bool × Bool)) : Int :=
        ((asked.find? (fun (x : Bytes × Int × Int × Nat) => (x.1, x.2.1) == a.1)).map (fun (x : Bytes × Int × Int × Nat) => x.2.2.1)).getD s.base
      -- 3. an undisturbed single-partition fetch that is at (or beyond) the limit and still empty must be reported
      let s := answers.foldl (fun (s : J17) (a : (Bytes × Int) × (Bool × Bool)) =>
        let sz := sizeOf a
        if !a.2.1 && a.2.2 && totalAsked == 1 && !(sz < s.lim) && !ioFault && !codeFault then
          (if op.result == "err Kafka(10)" then s else v s "C17-not-reported" op s!"{toHexTok a.1.1}/{a.1.2}: fetched alone at size {sz} (limit {s.lim}), nothing fits, result `{op.result}`")
        else s) s
      -- 4. what the next request of each answered partition may ask with
      let grow (sz : Int) : Int := if sz < s.lim then (if sz + sz > s.lim then s.lim else sz + sz) else sz
      let (ex, bh) := if failed then (s.expect, s.behind) else
        answers.foldl (fun (acc : List ((Bytes × Int) × List Int) × List (Bytes × Int)) (a : (Bytes × Int) × (Bool × Bool)) =>
          let sz := sizeOf a
          let ex := acc.1.filter fun (y : (Bytes × Int) × List Int) => y.1 != a.1
          let bh := acc.2.filter fun (y : Bytes × Int) => y != a.1
          if a.2.1 then (ex, bh)
          else if a.2.2 then (ex ++ [(a.1, [grow sz])], bh ++ [a.1])
          else (ex ++ [(a.1, if sz == s.base then [sz] else [sz, s.base])], bh)) (s.expect, s.behind)
      -- 5. never stall: with something pending, polls must deliver, grow or report within a bound
      let progressed := failed || answers.any (fun (a : (Bytes × Int) × (Bool × Bool)) => a.2.1) || ex != s.expect
      let stuck := if !bh.isEmpty && !progressed then s.stuckPolls + 1 else 0
      let s := if stuck > s.nparts + 3 then v s "C17-stalled" op s!"{stuck} polls in a row neither delivered, grew a size nor reported, with {bh.length} partition(s) behind their high watermark" else s
      -- a successful poll of a multi-partition consumer queues every empty-but-behind partition for a fetch of its own
      let newq := if failed || s.nparts ≤ 1 then [] else
        (answers.filter fun (a : (Bytes × Int) × (Bool × Bool)) => !a.2.1 && a.2.2).map (fun (a : (Bytes × Int) × (Bool × Bool)) => a.1)
      { s with expect := ex, behind := bh, stuckPolls := stuck, queues := nexts.map (· ++ newq) }
    | _ => s
    { s with cluster := c' }) ({} : J17)
  -- other partitions keep being delivered without loss: C01's demands (an entry that cannot fit is reported by every
  -- other poll, so "an empty poll at the end" does not mean "drained" here)
  s.out ++ (judgeC01 ops).filter fun (l : String) => (l.splitOn "C01-undelivered").length == 1

/-! ### C15 -/

def judgeC15 (ops : List OpRec) : List String :=
  let s := ops.foldl (fun (s : JSt) op =>
    let okRes := op.result.startsWith "ok"
    -- success only if the whole request was handed to the stream
    let s := op.notes.foldl (fun (s : JSt) (n : List String) => match n with
      | ["partial-frame", h, k] =>
        if okRes then viol s "C15-success-with-partial-request" op s!"the call returned `{op.result.take 80}` although only {k} bytes of a request frame were accepted by the stream to {h}"
        else s
      | _ => s) s
    -- with acks disabled no reply is awaited: the call must not fail for want of one
    match op.toks with
    | _ :: "produce" :: "0" :: _ =>
      let faulted := op.evs.any (fun e => match e with | .io _ _ => true | .connect _ ok => !ok | _ => false) || !op.notes.isEmpty
      if !faulted && op.result != "ok" && op.result != "err Kafka(3)" then viol s "C15-noack-awaited-reply" op s!"result `{op.result}`" else s
    | _ => s) ({} : JSt)
  -- a connection on which a reply (or the rest of one) is still outstanding after a time-out must not carry another
  -- request: whatever is read next on it are bytes that answer the earlier request
  let stale : List String × List (Bytes × Bytes) := ops.foldl (fun (acc : List String × List (Bytes × Bytes)) (op : OpRec) =>
    let owner := Replay.ownerOf op.toks
    let (out, pending) := acc
    -- objects being created, dropped or moved take their connections with them: forget what was pending
    let pending := match op.toks with
      | "client_new" :: _ => pending.filter (·.1 != owner)
      | "consumer_create" :: _ => pending.filter (·.1 != owner)
      | "producer_create" :: _ => pending.filter (·.1 != owner)
      | ["consumer_drop"] => pending.filter (·.1 != owner)
      | ["consumer_into_client"] => []
      | ["producer_into_client"] => []
      | _ => pending
    let (out, pending) := op.evs.foldl (fun (a : List String × List (Bytes × Bytes)) (e : Ev) =>
      match e with
      | .connect h true => (a.1, a.2.filter fun (x : Bytes × Bytes) => x != (owner, h))
      | .req h _ _ =>
        if a.2.contains (owner, h) then
          (a.1 ++ [s!"C15-request-on-connection-with-outstanding-reply | op {op.idx} `{" ".intercalate (op.toks.take 2)}`: a request goes to {toHexTok h} on a connection whose earlier reply was never (completely) read; the next bytes read there answer that earlier request"],
           a.2.filter fun (x : Bytes × Bytes) => x != (owner, h))
        else a
      | _ => a) (out, pending)
    let late : List (Bytes × Bytes) := op.notes.filterMap fun (n : List String) => match n with
      | ["late-reply", h] => (fromHex h).map fun (hb : Bytes) => (owner, hb)
      | _ => none
    (out, pending ++ late)) ([], [])
  -- a result is never computed from bytes that answer an earlier request: whatever a call returns must be what the
  -- broker answered to *that* call's request — C10's demands on every offset look-up of the history
  s.out ++ stale.1 ++ (judgeC10 ops).map fun (l : String) => l.replace "C10-" "C15-foreign-reply-"

/-! ### C18 -/

/-- what a live result shows: (a) at first read, what the broker sent (C02's demands on the kept fetch), and
    (b) at every later read — after moves, drops of other results, further calls and allocation churn — the same bytes -/
def judgeC18 (ops : List OpRec) : List String :=
  let asFetch : List OpRec := ops.map fun (op : OpRec) => match op.toks with
    | tgt :: "fetch_keep" :: rest => { op with toks := tgt :: "fetch_messages" :: rest }
    | _ => op
  let first := (judgeC02 asFetch).map fun (l : String) => l.replace "C02-" "C18-first-read-"
  let s := ops.foldl (fun (s : JSt) (op : OpRec) =>
    match op.toks with
    | ["keep_check"] =>
      if op.result == "ok" then s
      else if op.result.startsWith "corrupt" then viol s "C18-bytes-changed" op op.result
      else viol s "C18-reread-failed" op op.result
    | "keep_move" :: _ => if op.result == "ok" then s else viol s "C18-move-failed" op op.result
    | "keep_drop" :: _ => if op.result == "ok" || op.result == "none" then s else viol s "C18-drop-failed" op op.result
    | _ => s) ({} : JSt)
  first ++ s.out

/-! ### C13 -/

/-- every operation returns a value or an error: no panic, no allocation request of 1 GiB or more, no operation that
    runs away; evaluated on the implementation's results and the harness's notes alone -/
def judgeC13 (ops : List OpRec) : List String :=
  let s := ops.foldl (fun (s : JSt) (op : OpRec) =>
    let s := trackSettings s op
    let noteOf (k : String) : Option String := (op.notes.find? (fun (n : List String) => n.head? == some k)).map fun (n : List String) => " ".intercalate (n.drop 1)
    let s := if op.result == "panic" then
        let loc := (noteOf "panic-at").getD "?"
        -- the file is the stable part of the location
        let file := ((loc.splitOn ":").head?).getD "?"
        viol s s!"C13-panic-in-{file}" op s!"panicked at {loc}"
      else s
    let s := if op.result == "bigalloc" then viol s "C13-allocation-1GiB" op s!"asked for a single allocation of {(noteOf "alloc-request").getD "?"} bytes" else s
    -- (an object built from hosts runs its creation with the default retry limit of 120 attempts: many requests are its right)
    let defaultLimits := match op.toks with
      | "consumer_create" :: from_ :: _ => from_ != "client"
      | "producer_create" :: from_ :: _ => from_ != "client"
      | _ => false
    -- (and so does a client whose retry limit was left at, or set to, ten attempts or more)
    let s := match (if defaultLimits || s.retryMax ≥ 10 then none else noteOf "request-cap") with
      | some n => viol s "C13-request-storm" op s!"sent {n} requests in one call and was still going (every retry limit in these histories is below 10)"
      | none => s
    let s := match noteOf "slow-op" with
      | some ms => viol s "C13-runaway" op s!"took {ms} ms"
      | none => s
    s) ({} : JSt)
  s.out

/-- the thin public wrappers are judged as what they are documented to be: `fetch_messages_for_partition` = `fetch_messages`
    of one partition, `commit_offset` = `commit_offsets` of one offset, `poll` followed by `consume_messageset` on every
    delivered set = `poll` followed by `consume_message` at each set's last offset -/
def normaliseOp (op : OpRec) : List OpRec :=
  match op.toks with
  | [tgt, "fetch_for_partition", t, p, o, m] => [{ op with toks := [tgt, "fetch_messages", t, p, o, m] }]
  | [tgt, "commit_offset", g, t, p, o] => [{ op with toks := [tgt, "commit_offsets", g, t, p, o] }]
  | ["poll_mark"] =>
    if !op.result.startsWith "ok" then [{ op with toks := ["poll"] }] else
    let parts := op.result.splitOn " marks="
    let pollRes := parts.headD op.result
    let marks : List String := ((parts.getD 1 "").splitOn ",").filter (· != "")
    let sets := pollSets pollRes
    let sorted := Replay.sortBy (fun (a b : (Bytes × Int) × List String) => bytesLt a.1.1 b.1.1 || (a.1.1 == b.1.1 && a.1.2 < b.1.2)) sets
    let consumes : List OpRec := (sorted.zip marks).filterMap fun (x : ((Bytes × Int) × List String) × String) =>
      match x.1.2.getLast? with
      | some m =>
        let off := ((m.splitOn ":").headD "0")
        some { idx := op.idx, toks := ["consume", toHexTok x.1.1.1, toString x.1.1.2, off], evs := [],
               result := if x.2 == "ok" then "ok" else "err " ++ x.2 }
      | none => none
    { op with toks := ["poll"], result := pollRes } :: consumes
  | _ => [op]

/-- the Producer layer, judged as what it is documented to be: a client whose settings are those given to the builder, and
    `send_all` / `send` of records with explicit partitions = `produce_messages` with the producer's acks and time-out
    (partition choice for records without one is C12's own subject and is left alone).  `producer_create hosts=… opts`
    becomes the creation of a fresh client followed by the settings; `producer_create client opts` keeps the client's. -/
def normaliseProducer (ops : List OpRec) : List OpRec :=
  let tok (b : String) : String := if b == "-" then "~" else b
  let r := ops.foldl (fun (acc : List OpRec × Int × Nat × Nat) (op : OpRec) =>
    let (out, acks, secs, nanos) := acc
    match op.toks with
    | "producer_create" :: from_ :: opts =>
      let acks' : Int := ((lastOpt opts "acks").bind (·.toInt?)).getD 1
      let (secs', nanos') : Nat × Nat := match (lastOpt opts "acktimeout").map (fun (v : String) => v.splitOn ":") with
        | some [a, b] => (a.toNat?.getD 30, b.toNat?.getD 0)
        | _ => (30, 0)
      let fresh : List OpRec := if from_ == "client" then [] else
        [{ idx := op.idx, toks := ["client_new", (from_.splitOn "=").getD 1 ""], evs := [], result := "ok" }]
      let settings : List OpRec := opts.filterMap fun (o : String) =>
        let (k, v) := kv o
        if k == "compression" then some { idx := op.idx, toks := ["p", "set", "compression", v], evs := [], result := "ok" }
        else if k == "clientid" then some { idx := op.idx, toks := ["p", "set", "client_id", v], evs := [], result := "ok" }
        else none
      -- the creation itself stays, with its events (the bootstrap metadata request carries the configured client id)
      (out ++ fresh ++ settings ++ [op], acks', secs', nanos')
    | "send_all" :: args =>
      let explicit := (Replay.parseRecords args).map fun (rs : List Model.Record) => rs.all fun (r : Model.Record) => r.partition ≥ 0
      if explicit == some true then
        let rec conv : List String → List String
          | t :: p :: k :: v :: rest => t :: p :: tok k :: tok v :: conv rest
          | l => l
        (out ++ [{ op with toks := ["p", "produce", toString acks, toString secs, toString nanos] ++ conv args }], acks, secs, nanos)
      else (out ++ [op], acks, secs, nanos)
    | _ => (out ++ [op], acks, secs, nanos)) ([], (1 : Int), 30, 0)
  r.1

def judge (prop : String) (lines : List String) : List String :=
  -- (an operation on an object that does not exist - its creation failed - did nothing and says nothing)
  let ops0 := ((parseOps lines).flatMap normaliseOp).filter fun (o : OpRec) => o.result != "noobj"
  -- the properties about the producer's own decisions and settings look at the producer's operations as they are
  let ops := if prop ∈ ["C12", "C16", "C13", "C18"] then ops0 else normaliseProducer ops0
  match prop with
  | "C12" => judgeC12 ops
  | "C03" => judgeC03 ops
  | "C09" => judgeC09 ops
  -- fetch responses are part of "the content the broker sent": client level as in C02, consumer level as in C01
  -- (everything the brokers' replies carried is handed out, whatever the shape of another broker's reply)
  | "C10" => judgeC10 ops ++ ((judgeC02 ops).map fun (l : String) => l.replace "C02-" "C10-fetch-")
      -- (what the client reports after a sequence of metadata responses, per topic: C06's demand)
      ++ ((judgeC06 ops).map fun (l : String) => l.replace "C06-" "C10-metadata-sequence-")
      ++ (((judgeC01 ops).filter fun (l : String) => (l.splitOn "C01-undelivered").length == 1).map fun (l : String) => l.replace "C01-" "C10-poll-")
  | "C11" => judgeC11 ops
  | "C14" => judgeC14 ops
  | "C20" => judgeC20 ops
  -- the CRC setting is judged by its effect too (C04's demand, with the setting the builder / setters determine)
  | "C16" => judgeC16 ops ++ ((judgeC04 ops).map fun (l : String) => l.replace "C04-" "C16-crc-setting-")
      -- … and so is the retry limit (C14's demand with the limit the setters determine)
      ++ ((judgeC14 ops).map fun (l : String) => l.replace "C14-" "C16-retry-setting-")
  | "C07" => judgeC07 ops
  | "C19" => judgeC19 ops
  | "C05" => judgeC05 ops
  | "C06" => judgeC06 ops
  | "C02" => judgeC02 ops
  | "C04" => judgeC04 ops
  | "C01" => judgeC01 ops
  | "C08" => judgeC08 ops
  | "C17" => judgeC17 ops
  -- "its whole request was handed to the stream": what a call hands over is one request frame, nothing before or behind it
  | "C15" => judgeC15 ops ++ (((judgeC09 ops).filter fun (l : String) => (l.splitOn "C09-frame-unparseable").length > 1).map
      fun (l : String) => l.replace "C09-frame-unparseable" "C15-frame-is-not-one-request")
  | "C18" => judgeC18 ops
  | "C13" => judgeC13 ops
  | _ => []

end Kafka.Judge
