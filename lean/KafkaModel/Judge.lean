import KafkaModel.Replay
import KafkaModel.Driver
/-!
  Violation search: the *specification side* of each property's theorems, evaluated on what the
  real implementation was observed to do (requests it sent, results it returned), against the
  ground truth of the scenario (the cluster the Lean broker was set up with).
  Output: one line per violated conjunct, `<signature> | <details>`.
-/
namespace Kafka.Judge
open Kafka Kafka.Spec Kafka.Replay

structure JSt where
  cluster : Cluster := {}
  out : List String := []
  compression : Nat := 0
  -- C12
  prodMeta : List (Bytes × (List Int × Nat)) := []
  run : Option (Bytes × List Int) := none

def applySetup (c : Cluster) (cmds : List (List String)) : Cluster :=
  cmds.foldl (fun c t => (Driver.setup c t).getD c) c

def framesOf (op : OpRec) : List (Bytes × Spec.Request) :=
  op.evs.filterMap fun e => match e with
    | .req h f _ => (Spec.parseFrame f).map fun r => (h, r)
    | _ => none

def viol (s : JSt) (sig : String) (op : OpRec) (details : String) : JSt :=
  { s with out := s.out ++ [s!"{sig} | op {op.idx} `{" ".intercalate (op.toks.take 1)}`: {details}"] }

/-! ### C12 -/

/-- the plain messages of a produced partition set, a single compressed wrapper opened with the independent decompressors -/
def openSet (set : Bytes) : List Msg :=
  match parseMessageSet set with
  | some [m] =>
    let c := (toU 1 m.attr) % 8
    if c = 0 then [m] else
    match m.value with
    | some v =>
      let inner := if c = 1 then (match Inflate.gunzip v with | .ok o => some o | .error _ => none) else if c = 2 then Snappy.rawDecode v else none
      match inner.bind parseMessageSet with
      | some ms => ms
      | none => []
    | none => []
  | some ms => ms
  | none => []

/-- all (topic, partition, key, value) seen in produce requests of an operation -/
def producedRecords (op : OpRec) : List (Bytes × Int × Option Bytes × Option Bytes) :=
  (framesOf op).flatMap fun (_, r) =>
    match r.body with
    | .produce _ _ ts => ts.flatMap fun (t, ps) => ps.flatMap fun (p, set) =>
        (openSet set).map fun m => (t, p, m.key, m.value)
    | _ => []

def metaOfCluster (c : Cluster) : List (Bytes × (List Int × Nat)) :=
  c.topics.map fun t =>
    (t.name, ((List.range t.parts.length).zip t.parts |>.filterMap (fun (i, p) =>
        if (c.brokers.any (·.nodeId == p.leader)) then some ((i : Nat) : Int) else none), t.parts.length))

def toOpt (b : Bytes) : Option Bytes := if b.isEmpty then none else some b

def judgeC12Rec (s : JSt) (op : OpRec) (seen : List (Bytes × Int × Option Bytes × Option Bytes)) (r : Model.Record) : JSt :=
  let k := toOpt r.key
  let v := toOpt r.value
  let landed := (seen.filter fun (t, _, k', v') => t == r.topic && k' == k && v' == v).map (·.2.1)
  match Model.assocGet s.prodMeta r.topic with
  | none => s    -- unknown topic: the call must have failed; checked by the caller
  | some (avail, n) =>
    if r.partition ≥ 0 then
      if landed == [r.partition] then s else viol s "C12-explicit" op s!"explicit partition {r.partition} landed in {landed}"
    else match k with
      | some key =>
        let want : Int := ((Xxh.xxh32 0 key).toNat % n : Nat)
        if n = 0 then s
        else if landed == [want] then s
        else viol s "C12-keyed" op s!"key {toHexTok key} with N={n}: expected partition {want}, landed in {landed}"
      | none =>
        match landed with
        | [p] =>
          let s := if avail.contains p then s else viol s "C12-keyless-unavailable" op s!"keyless record landed in partition {p} not in available {avail}"
          let window := match s.run with
            | some (t, w) => if t == r.topic then w else []
            | none => []
          let window := window.drop (window.length + 1 - avail.length)
          let s := if window.contains p then
              viol s "C12-rotation" op s!"keyless record repeats partition {p} within {avail.length} consecutive records (previous: {window})" else s
          { s with run := some (r.topic, window ++ [p]) }
        | _ => if avail.isEmpty then s else viol s "C12-keyless-lost" op s!"keyless record landed in {landed}"

def judgeC12 (ops : List OpRec) : List String :=
  let s := ops.foldl (fun (s : JSt) op =>
    let s := { s with cluster := applySetup s.cluster op.setup }
    match op.toks with
    | "producer_create" :: _ => { s with prodMeta := metaOfCluster s.cluster, run := none }
    | "send_all" :: args =>
      match parseRecords args with
      | some recs =>
        let seen := producedRecords op
        let bad := recs.any fun r =>
          match Model.assocGet s.prodMeta r.topic with
          | none => true
          | some (avail, n) =>
            if r.partition ≥ 0 then r.partition.toNat ≥ n || !(avail.contains r.partition)
            else match toOpt r.key with
              | some key => n = 0 || !(avail.contains (((Xxh.xxh32 0 key).toNat % n : Nat) : Int))
              | none => avail.isEmpty
        if bad then
          -- some record has no reachable destination: the call must fail with unknown-topic-or-partition and send nothing
          let s := if op.result == "err Kafka(3)" then s else viol s "C12-unknown-not-rejected" op s!"result `{op.result}`"
          let s := { s with run := none }   -- a rejected call consumed counter values for records never sent
          if seen.isEmpty then s else viol s "C12-unknown-sent" op "records were sent although one has no destination"
        else recs.foldl (fun s r => judgeC12Rec s op seen r) s
      | none => s
    | _ => s) ({} : JSt)
  s.out

/-! ### C03 -/

/-- the per-(topic, partition) record lists a `produce` call states, in order -/
def groupRecords (args : List Model.ProduceArg) : List ((Bytes × Int) × List (Option Bytes × Option Bytes)) :=
  args.foldl (fun m a =>
    match m.find? (·.1 == (a.topic, a.partition)) with
    | some _ => m.map fun (k, v) => if k == (a.topic, a.partition) then (k, v ++ [(a.key, a.value)]) else (k, v)
    | none => m ++ [((a.topic, a.partition), [(a.key, a.value)])]) []

def judgeC03Set (s : JSt) (op : OpRec) (t : Bytes) (p : Int) (set : Bytes) (want : List (Option Bytes × Option Bytes)) : JSt :=
  let tp := s!"{toHexTok t}/{p}"
  match parseMessageSet set with
  | none => viol s "C03-set-unparseable" op s!"{tp}: partition data does not parse as a Kafka v0 message set: {toHex set}"
  | some msgs =>
    if s.compression = 0 then
      if msgs.any (·.attr ≠ 0) then viol s "C03-attr" op s!"{tp}: attribute not 0 without compression"
      else if msgs.map (fun m => (m.key, m.value)) == want then s
      else viol s "C03-content" op s!"{tp}: keys/values differ from the records given"
    else match msgs with
      | [w] =>
        if w.attr ≠ (s.compression : Int) then viol s "C03-wrapper-attr" op s!"{tp}: wrapper attribute {w.attr}, codec {s.compression}"
        else if w.key.isSome then viol s "C03-wrapper-key" op s!"{tp}: wrapper has a key"
        else match w.value with
          | none => viol s "C03-wrapper-null" op s!"{tp}: wrapper value is null"
          | some v =>
            let inner := if s.compression = 1 then (match Inflate.gunzip v with | .ok o => some o | .error _ => none)
                         else Snappy.rawDecode v
            match inner with
            | none => viol s "C03-wrapper-undecompressable" op s!"{tp}: an independent decompressor rejects the wrapper value"
            | some plain =>
              match parseMessageSet plain with
              | none => viol s "C03-inner-unparseable" op s!"{tp}: decompressed data is not a message set"
              | some ms =>
                if ms.any (·.attr ≠ 0) then viol s "C03-inner-attr" op s!"{tp}: inner attribute not 0"
                else if ms.map (fun m => (m.key, m.value)) == want then s
                else viol s "C03-inner-content" op s!"{tp}: decompressed keys/values differ from the records given"
      | _ => viol s "C03-not-one-wrapper" op s!"{tp}: {msgs.length} messages at top level, expected one wrapper"

def judgeC03 (ops : List OpRec) : List String :=
  let s := ops.foldl (fun (s : JSt) op =>
    let s := { s with cluster := applySetup s.cluster op.setup }
    match op.toks with
    | [_, "set", "compression", c] => { s with compression := c.toNat?.getD 0 }
    | _ :: "produce" :: _ :: _ :: _ :: args =>
      match parseProduceArgs args with
      | none => s
      | some pargs =>
        if op.result.startsWith "err" then s else
        let want := groupRecords pargs
        let seen : List ((Bytes × Int) × Bytes) := (framesOf op).flatMap fun (_, r) =>
          match r.body with
          | .produce _ _ ts => ts.flatMap fun (t, ps) => ps.map fun (p, set) => ((t, p), set)
          | _ => []
        -- every frame must be a well-formed produce request
        let s := op.evs.foldl (fun s e => match e with
          | .req _ f _ => match Spec.parseFrame f with
            | some _ => s
            | none => viol s "C03-frame-unparseable" op s!"frame does not parse: {toHex f}"
          | _ => s) s
        let s := want.foldl (fun s (k, recs) =>
          match seen.filter (·.1 == k) with
          | [(_, set)] => judgeC03Set s op k.1 k.2 set recs
          | l => viol s "C03-partition-count" op s!"{toHexTok k.1}/{k.2} appears {l.length} times in the requests") s
        seen.foldl (fun s (k, _) => if want.any (·.1 == k) then s else viol s "C03-foreign-partition" op s!"{toHexTok k.1}/{k.2} was not asked for") s
    | _ => s) ({} : JSt)
  s.out

def judge (prop : String) (lines : List String) : List String :=
  let ops := parseOps lines
  match prop with
  | "C12" => judgeC12 ops
  | "C03" => judgeC03 ops
  | _ => []

end Kafka.Judge
