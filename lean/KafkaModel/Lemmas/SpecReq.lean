import KafkaModel.Lemmas.Spec
/-!
  The specification's request *encoder* (the inverse reading of the grammar in Spec/Proto.lean) and the
  theorem that the specification parser inverts it: the grammar is unambiguous on well-formed requests.
-/
namespace Kafka.Spec
open Kafka

def encHeader (h : ReqHeader) : Bytes := eI16 h.apiKey ++ eI16 h.apiVersion ++ eI32 h.corr ++ eNStr h.clientId

def encFetchPart (p : FetchPart) : Bytes := eI32 p.partition ++ eI64 p.offset ++ eI32 p.maxBytes
def encOffsetPart (version : Int) (p : OffsetPart) : Bytes :=
  eI32 p.partition ++ eI64 p.time ++ (if version = 0 then eI32 p.maxOffsets else [])
def encCommitPart (version : Int) (p : CommitPart) : Bytes :=
  eI32 p.partition ++ eI64 p.offset ++ (if version = 1 then eI64 p.timestamp else []) ++ eNStr p.metadata
def encProducePart (p : Int × Bytes) : Bytes := eI32 p.1 ++ eI32 p.2.length ++ p.2

def encTopic {α} (e : α → Bytes) (t : Bytes × List α) : Bytes := eStr t.1 ++ eArr e t.2

def encBody (version : Int) : ReqBody → Bytes
  | .produce acks to ts => eI16 acks ++ eI32 to ++ eArr (encTopic encProducePart) ts
  | .fetch rep mw mb ts => eI32 rep ++ eI32 mw ++ eI32 mb ++ eArr (encTopic encFetchPart) ts
  | .offsets rep ts => eI32 rep ++ eArr (encTopic (encOffsetPart version)) ts
  | .metadata ts => eArr eStr ts
  | .offsetCommit g gen mem ret ts =>
    eStr g ++ (if version ≥ 1 then eI32 gen ++ eStr mem else []) ++ (if version ≥ 2 then eI64 ret else []) ++
      eArr (encTopic (encCommitPart version)) ts
  | .offsetFetch g ts => eStr g ++ eArr (encTopic eI32) ts
  | .groupCoordinator g => eStr g

def encRequest (r : Request) : Bytes := encHeader r.header ++ encBody r.header.apiVersion r.body

/-! ### well-formedness -/

def strOK (s : Bytes) : Prop := s.length ≤ 32767
def lenOK {α} (xs : List α) : Prop := xs.length ≤ 2147483647

def headerOK (h : ReqHeader) : Prop :=
  inI 2 h.apiKey ∧ inI 2 h.apiVersion ∧ inI 4 h.corr ∧ (∀ b, h.clientId = some b → strOK b)

def topicsOK {α} (ok : α → Prop) (ts : List (Bytes × List α)) : Prop :=
  lenOK ts ∧ ∀ t ∈ ts, strOK t.1 ∧ lenOK t.2 ∧ ∀ p ∈ t.2, ok p

def fetchPartOK (p : FetchPart) : Prop := inI 4 p.partition ∧ inI 8 p.offset ∧ inI 4 p.maxBytes
def offsetPartOK (version : Int) (p : OffsetPart) : Prop :=
  inI 4 p.partition ∧ inI 8 p.time ∧ (if version = 0 then inI 4 p.maxOffsets else p.maxOffsets = 0)
def commitPartOK (version : Int) (p : CommitPart) : Prop :=
  inI 4 p.partition ∧ inI 8 p.offset ∧ (if version = 1 then inI 8 p.timestamp else p.timestamp = 0) ∧
  (∀ b, p.metadata = some b → strOK b)
def producePartOK (p : Int × Bytes) : Prop := inI 4 p.1 ∧ p.2.length ≤ 2147483647

def bodyOK (key version : Int) : ReqBody → Prop
  | .produce acks to ts => key = 0 ∧ version = 0 ∧ inI 2 acks ∧ inI 4 to ∧ topicsOK producePartOK ts
  | .fetch rep mw mb ts => key = 1 ∧ version = 0 ∧ inI 4 rep ∧ inI 4 mw ∧ inI 4 mb ∧ topicsOK fetchPartOK ts
  | .offsets rep ts => key = 2 ∧ (version = 0 ∨ version = 1) ∧ inI 4 rep ∧ topicsOK (offsetPartOK version) ts
  | .metadata ts => key = 3 ∧ version = 0 ∧ lenOK ts ∧ ∀ t ∈ ts, strOK t
  | .offsetCommit g gen mem ret ts =>
    key = 8 ∧ (version = 0 ∨ version = 1 ∨ version = 2) ∧ strOK g ∧
    (if version ≥ 1 then inI 4 gen ∧ strOK mem else gen = -1 ∧ mem = []) ∧
    (if version ≥ 2 then inI 8 ret else ret = -1) ∧ topicsOK (commitPartOK version) ts
  | .offsetFetch g ts => key = 9 ∧ (version = 0 ∨ version = 1) ∧ strOK g ∧ topicsOK (inI 4) ts
  | .groupCoordinator g => key = 10 ∧ version = 0 ∧ strOK g

def reqOK (r : Request) : Prop := headerOK r.header ∧ bodyOK r.header.apiKey r.header.apiVersion r.body

/-! ### the parser inverts the encoder -/

theorem pHeader_append (h : ReqHeader) (ok : headerOK h) (r : Bytes) : pHeader (encHeader h ++ r) = some (h, r) := by
  obtain ⟨h1, h2, h3, h4⟩ := ok
  unfold pHeader encHeader
  simp only [bind_eq, List.append_assoc]
  rw [pI16_append _ h1]; simp only []
  rw [pI16_append _ h2]; simp only []
  rw [pI32_append _ h3]; simp only []
  rw [pNStr_append _ h4]
  rfl

theorem pTopic_append {α} (p : P α) (e : α → Bytes) (ok : α → Prop)
    (hrt : ∀ a, ok a → ∀ r, p (e a ++ r) = some (a, r))
    (t : Bytes × List α) (ht : strOK t.1 ∧ lenOK t.2 ∧ ∀ x ∈ t.2, ok x) (r : Bytes) :
    (do let n ← pStr; let ps ← pArr p; pure (n, ps) : P (Bytes × List α)) (encTopic e t ++ r) = some (t, r) := by
  obtain ⟨h1, h2, h3⟩ := ht
  unfold encTopic
  simp only [bind_eq, List.append_assoc]
  rw [pStr_append _ h1]; simp only []
  rw [pArr_append p e _ h2 (fun x hx => hrt x (h3 x hx))]
  rfl

theorem pTopics_append {α} (p : P α) (e : α → Bytes) (ok : α → Prop)
    (hrt : ∀ a, ok a → ∀ r, p (e a ++ r) = some (a, r))
    (ts : List (Bytes × List α)) (h : topicsOK ok ts) (r : Bytes) :
    pArr (do let n ← pStr; let ps ← pArr p; pure (n, ps) : P (Bytes × List α)) (eArr (encTopic e) ts ++ r) = some (ts, r) :=
  pArr_append _ _ ts h.1 (fun t ht => pTopic_append p e ok hrt t (h.2 t ht)) r

theorem pFetchPart_append (p : FetchPart) (h : fetchPartOK p) (r : Bytes) :
    (do let a ← pI32; let o ← pI64; let m ← pI32; pure (⟨a, o, m⟩ : FetchPart) : P FetchPart) (encFetchPart p ++ r) = some (p, r) := by
  obtain ⟨h1, h2, h3⟩ := h
  unfold encFetchPart
  simp only [bind_eq, List.append_assoc]
  rw [pI32_append _ h1]; simp only []
  rw [pI64_append _ h2]; simp only []
  rw [pI32_append _ h3]
  rfl

theorem pFetch_append (rep mw mb : Int) (ts : List (Bytes × List FetchPart))
    (h : inI 4 rep ∧ inI 4 mw ∧ inI 4 mb ∧ topicsOK fetchPartOK ts) (r : Bytes) :
    pFetch (encBody 0 (.fetch rep mw mb ts) ++ r) = some (.fetch rep mw mb ts, r) := by
  obtain ⟨h1, h2, h3, h4⟩ := h
  unfold pFetch encBody
  simp only [bind_eq, List.append_assoc]
  rw [pI32_append _ h1]; simp only []
  rw [pI32_append _ h2]; simp only []
  rw [pI32_append _ h3]; simp only []
  have := pTopics_append _ encFetchPart fetchPartOK pFetchPart_append ts h4 r
  rw [this]
  rfl

theorem pMetadata_append (ts : List Bytes) (h : lenOK ts ∧ ∀ t ∈ ts, strOK t) (r : Bytes) :
    pMetadata (encBody 0 (.metadata ts) ++ r) = some (.metadata ts, r) := by
  unfold pMetadata encBody
  simp only [bind_eq]
  rw [pArr_append pStr eStr ts h.1 (fun t ht => pStr_append t (h.2 t ht))]
  rfl

theorem pGroupCoordinator_append (g : Bytes) (h : strOK g) (r : Bytes) :
    pGroupCoordinator (encBody 0 (.groupCoordinator g) ++ r) = some (.groupCoordinator g, r) := by
  unfold pGroupCoordinator encBody
  simp only [bind_eq]
  rw [pStr_append g h]
  rfl

theorem pOffsetFetch_append (v : Int) (g : Bytes) (ts : List (Bytes × List Int)) (hg : strOK g) (h : topicsOK (inI 4) ts) (r : Bytes) :
    pOffsetFetch (encBody v (.offsetFetch g ts) ++ r) = some (.offsetFetch g ts, r) := by
  unfold pOffsetFetch encBody
  simp only [bind_eq, List.append_assoc]
  rw [pStr_append g hg]; simp only []
  have := pTopics_append pI32 eI32 (inI 4) (fun a ha r => pI32_append a ha r) ts h r
  rw [this]
  rfl

theorem pOffsetPart_append (v : Int) (p : OffsetPart) (h : offsetPartOK v p) (r : Bytes) :
    (do
      let a ← pI32
      let time ← pI64
      if v = 0 then
        let n ← pI32
        pure (⟨a, time, n⟩ : OffsetPart)
      else pure (⟨a, time, 0⟩ : OffsetPart) : P OffsetPart) (encOffsetPart v p ++ r) = some (p, r) := by
  obtain ⟨h1, h2, h3⟩ := h
  unfold encOffsetPart
  simp only [bind_eq, List.append_assoc]
  rw [pI32_append _ h1]; simp only []
  rw [pI64_append _ h2]; simp only []
  by_cases hv : v = 0
  · simp only [hv, if_true] at h3 ⊢
    simp only [bind_eq]
    rw [pI32_append _ h3]
    rfl
  · simp only [hv, if_false] at h3 ⊢
    cases p; simp_all [pure_eq]

theorem pOffsets_append (v : Int) (rep : Int) (ts : List (Bytes × List OffsetPart))
    (h : inI 4 rep ∧ topicsOK (offsetPartOK v) ts) (r : Bytes) :
    pOffsets v (encBody v (.offsets rep ts) ++ r) = some (.offsets rep ts, r) := by
  obtain ⟨h1, h2⟩ := h
  unfold pOffsets encBody
  simp only [bind_eq, List.append_assoc]
  rw [pI32_append _ h1]; simp only []
  have := pTopics_append _ (encOffsetPart v) (offsetPartOK v) (pOffsetPart_append v) ts h2 r
  rw [this]
  rfl

theorem pProducePart_append (p : Int × Bytes) (h : producePartOK p) (r : Bytes) :
    (do
      let a ← pI32
      let sz ← pI32
      if sz < 0 then P.fail else
      let ms ← pTake sz.toNat
      pure (a, ms) : P (Int × Bytes)) (encProducePart p ++ r) = some (p, r) := by
  obtain ⟨h1, h2⟩ := h
  unfold encProducePart
  simp only [bind_eq, List.append_assoc]
  rw [pI32_append _ h1]; simp only []
  rw [pI32_append _ (inI_len4 _ h2)]; simp only []
  have : ¬ ((p.2.length : Int) < 0) := by omega
  simp only [this, if_false, bind_eq, Int.toNat_natCast]
  rw [show pTake p.2.length (p.2 ++ r) = some (p.2, r) from readN_append _ _]
  rfl

theorem pProduce_append (acks to : Int) (ts : List (Bytes × List (Int × Bytes)))
    (h : inI 2 acks ∧ inI 4 to ∧ topicsOK producePartOK ts) (r : Bytes) :
    pProduce (encBody 0 (.produce acks to ts) ++ r) = some (.produce acks to ts, r) := by
  obtain ⟨h1, h2, h3⟩ := h
  unfold pProduce encBody
  simp only [bind_eq, List.append_assoc]
  rw [pI16_append _ h1]; simp only []
  rw [pI32_append _ h2]; simp only []
  have := pTopics_append _ encProducePart producePartOK pProducePart_append ts h3 r
  rw [this]
  rfl

theorem pCommitPart_append (v : Int) (p : CommitPart) (h : commitPartOK v p) (r : Bytes) :
    (do
      let a ← pI32
      let o ← pI64
      let ts ← (if v = 1 then pI64 else pure 0 : P Int)
      let md ← pNStr
      pure (⟨a, o, ts, md⟩ : CommitPart) : P CommitPart) (encCommitPart v p ++ r) = some (p, r) := by
  obtain ⟨h1, h2, h3, h4⟩ := h
  unfold encCommitPart
  simp only [bind_eq, List.append_assoc]
  rw [pI32_append _ h1]; simp only []
  rw [pI64_append _ h2]; simp only []
  by_cases hv : v = 1
  · simp only [hv, if_true] at h3 ⊢
    rw [pI64_append _ h3]; simp only []
    rw [pNStr_append _ h4]
    rfl
  · simp only [hv, if_false] at h3 ⊢
    simp only [pure_eq, List.nil_append]
    rw [pNStr_append _ h4]
    cases p; simp_all [pure_eq]

theorem pOffsetCommit_append (v : Int) (hv : v = 0 ∨ v = 1 ∨ v = 2) (g : Bytes) (gen : Int) (mem : Bytes) (ret : Int)
    (ts : List (Bytes × List CommitPart))
    (h : strOK g ∧ (if v ≥ 1 then inI 4 gen ∧ strOK mem else gen = -1 ∧ mem = []) ∧
      (if v ≥ 2 then inI 8 ret else ret = -1) ∧ topicsOK (commitPartOK v) ts) (r : Bytes) :
    pOffsetCommit v (encBody v (.offsetCommit g gen mem ret ts) ++ r) = some (.offsetCommit g gen mem ret ts, r) := by
  obtain ⟨h1, h2, h3, h4⟩ := h
  have hT := pTopics_append _ (encCommitPart v) (commitPartOK v) (pCommitPart_append v) ts h4 r
  unfold pOffsetCommit encBody
  simp only [bind_eq, List.append_assoc]
  rw [pStr_append g h1]; simp only []
  rcases hv with rfl | rfl | rfl
  · simp only [show ¬ ((0 : Int) ≥ 1) by decide, show ¬ ((0 : Int) ≥ 2) by decide, if_false] at h2 h3 ⊢
    obtain ⟨rfl, rfl⟩ := h2
    subst h3
    simp only [pure_eq, List.nil_append]
    rw [hT]
  · simp only [show ((1 : Int) ≥ 1) by decide, show ¬ ((1 : Int) ≥ 2) by decide, if_true, if_false] at h2 h3 hT ⊢
    subst h3
    simp only [bind_eq, List.append_assoc]
    rw [pI32_append _ h2.1]; simp only []
    rw [pStr_append _ h2.2]; simp only [pure_eq, List.nil_append]
    rw [hT]
  · simp only [show ((2 : Int) ≥ 1) by decide, show ((2 : Int) ≥ 2) by decide, if_true] at h2 h3 ⊢
    simp only [bind_eq, List.append_assoc]
    rw [pI32_append _ h2.1]; simp only []
    rw [pStr_append _ h2.2]; simp only [pure_eq]
    rw [pI64_append _ h3]; simp only []
    rw [hT]

/-- **the request grammar is unambiguous**: every well-formed request is read back exactly, nothing left over -/
theorem parseRequest_encRequest (r : Request) (h : reqOK r) : parseRequest (encRequest r) = some r := by
  obtain ⟨hh, hb⟩ := h
  unfold parseRequest pRequest encRequest
  simp only [bind_eq]
  rw [pHeader_append _ hh]
  simp only []
  obtain ⟨hdr, body⟩ := r
  simp only at hb ⊢
  have key : pBody hdr.apiKey hdr.apiVersion (encBody hdr.apiVersion body ++ []) = some (body, []) := by
    cases body with
    | produce acks to ts =>
      obtain ⟨hk, hv, rest⟩ := hb
      simp only [pBody, hk, hv]; simp
      have := pProduce_append acks to ts rest []
      simpa using this
    | fetch rep mw mb ts =>
      obtain ⟨hk, hv, rest⟩ := hb
      simp only [pBody, hk, hv]; simp
      have := pFetch_append rep mw mb ts rest []
      simpa using this
    | offsets rep ts =>
      obtain ⟨hk, hv, rest⟩ := hb
      have := pOffsets_append hdr.apiVersion rep ts rest []
      rcases hv with hv | hv <;> simp only [pBody, hk, hv] at this ⊢ <;> simp <;> simpa using this
    | metadata ts =>
      obtain ⟨hk, hv, rest⟩ := hb
      simp only [pBody, hk, hv]; simp
      have := pMetadata_append ts rest []
      simpa using this
    | offsetCommit g gen mem ret ts =>
      obtain ⟨hk, hv, rest⟩ := hb
      have := pOffsetCommit_append hdr.apiVersion hv g gen mem ret ts rest []
      rcases hv with hv | hv | hv <;> simp only [pBody, hk, hv] at this ⊢ <;> simp <;> simpa using this
    | offsetFetch g ts =>
      obtain ⟨hk, hv, hg, rest⟩ := hb
      have := pOffsetFetch_append hdr.apiVersion g ts hg rest []
      rcases hv with hv | hv <;> simp only [pBody, hk, hv] at this ⊢ <;> simp <;> simpa using this
    | groupCoordinator g =>
      obtain ⟨hk, hv, rest⟩ := hb
      simp only [pBody, hk, hv]; simp
      have := pGroupCoordinator_append g rest []
      simpa using this
  simp only [List.append_nil] at key
  rw [key]
  rfl

end Kafka.Spec
