import KafkaModel.Lemmas.Crc
/-!
  The CRC-32 register, run on zero input, has period exactly 2^32 - 1 on the orbit of `1` (the generator polynomial is
  primitive), hence two flipped bits less than 2^32 - 1 positions apart always change the checksum.
  Method: the step as a GF(2)-linear map on natural numbers; linear maps as 32-column matrices; repeated squaring evaluated
  by the kernel (`decide +kernel`: T^(2^32-1)·1 = 1, T^((2^32-1)/q)·1 ≠ 1 for q ∈ {3, 5, 17, 257, 65537}); returns to `1`
  are closed under gcd; every divisor of 2^32 - 1 other than 1 has one of the five primes as a factor.  Core Lean only.
-/
namespace Kafka.CrcOrder

def P : Nat := 0xEDB88320
/-- the register step on zero input, on natural numbers -/
def stepN (n : Nat) : Nat := if n % 2 = 1 then (n / 2) ^^^ P else n / 2

/-- apply a 32-column GF(2) matrix (column i = image of 2^i) -/
def mapply : List Nat → Nat → Nat
  | [], _ => 0
  | c :: cs, v => (if v % 2 = 1 then c else 0) ^^^ mapply cs (v / 2)

def mmul (A B : List Nat) : List Nat := B.map (mapply A)

def colsFrom (F : Nat → Nat) : Nat → List Nat
  | 0 => []
  | k+1 => F 1 :: colsFrom (fun x => F (2 * x)) k

def T : List Nat := colsFrom stepN 32
def I : List Nat := colsFrom id 32

def mpowF : Nat → List Nat → Nat → List Nat
  | 0, _, _ => I
  | f+1, M, n => if n = 0 then I else
      let h := mpowF f (mmul M M) (n / 2)
      if n % 2 = 1 then mmul M h else h

def N : Nat := 4294967295


theorem TN : mapply (mpowF 33 T N) 1 = 1 := by decide +kernel
theorem TNq : ∀ q ∈ [3,5,17,257,65537], mapply (mpowF 33 T (N / q)) 1 ≠ 1 := by decide +kernel

/-! ### GF(2)-linear maps on natural numbers -/

def Lin (F : Nat → Nat) : Prop := ∀ a b, F (a ^^^ b) = F a ^^^ F b

theorem Lin.zero {F} (h : Lin F) : F 0 = 0 := by
  have := h 0 0
  simp at this
  exact this

theorem xor_mod_two (a b : Nat) : (a ^^^ b) % 2 = (a % 2 + b % 2) % 2 := by
  have h := Nat.testBit_xor a b 0
  simp only [Nat.testBit_zero] at h
  rcases Nat.mod_two_eq_zero_or_one a with ha | ha <;> rcases Nat.mod_two_eq_zero_or_one b with hb | hb <;>
    rcases Nat.mod_two_eq_zero_or_one (a ^^^ b) with hc | hc <;> simp [ha, hb, hc] at h ⊢

theorem xor_div_two (a b : Nat) : (a ^^^ b) / 2 = a / 2 ^^^ b / 2 := by
  have := Nat.shiftRight_xor_distrib (a := a) (b := b) (i := 1)
  simpa [Nat.shiftRight_eq_div_pow] using this

theorem two_mul_xor (a b : Nat) : 2 * (a ^^^ b) = 2 * a ^^^ 2 * b := by
  have := Nat.shiftLeft_xor_distrib (a := a) (b := b) (i := 1)
  simpa [Nat.shiftLeft_eq, Nat.mul_comm] using this

theorem stepN_lin : Lin stepN := by
  intro a b
  unfold stepN
  rw [xor_mod_two, xor_div_two]
  rcases Nat.mod_two_eq_zero_or_one a with ha | ha <;> rcases Nat.mod_two_eq_zero_or_one b with hb | hb <;> simp [ha, hb]
  · ac_rfl
  · ac_rfl
  · have : a / 2 ^^^ P ^^^ (b / 2 ^^^ P) = a / 2 ^^^ b / 2 ^^^ (P ^^^ P) := by ac_rfl
    rw [this]; simp

theorem mapply_zero (M : List Nat) : mapply M 0 = 0 := by
  induction M with
  | nil => rfl
  | cons c cs ih => simp [mapply, ih]

theorem mapply_lin (M : List Nat) : Lin (mapply M) := by
  induction M with
  | nil => intro a b; simp [mapply]
  | cons c cs ih =>
    intro a b
    simp only [mapply]
    rw [xor_mod_two, xor_div_two, ih]
    rcases Nat.mod_two_eq_zero_or_one a with ha | ha <;> rcases Nat.mod_two_eq_zero_or_one b with hb | hb <;> simp only [ha, hb]
    all_goals simp
    · ac_rfl
    · ac_rfl
    · have : c ^^^ mapply cs (a / 2) ^^^ (c ^^^ mapply cs (b / 2)) = (c ^^^ c) ^^^ (mapply cs (a / 2) ^^^ mapply cs (b / 2)) := by ac_rfl
      rw [this]; simp

/-- a linear map pushed through a matrix application -/
theorem lin_mapply {G : Nat → Nat} (hG : Lin G) (M : List Nat) (v : Nat) : G (mapply M v) = mapply (M.map G) v := by
  induction M generalizing v with
  | nil => simp [mapply, hG.zero]
  | cons c cs ih =>
    simp only [mapply, List.map_cons]
    rw [hG, ih]
    split <;> simp [hG.zero]

theorem mapply_mmul (A B : List Nat) (v : Nat) : mapply (mmul A B) v = mapply A (mapply B v) := by
  unfold mmul
  rw [lin_mapply (mapply_lin A)]

theorem even_xor_bit (v : Nat) : v = 2 * (v / 2) ^^^ v % 2 := by
  have h : (2 : Nat) * (v / 2) ^^^ v % 2 = 2 ^ 1 * (v / 2) + v % 2 := by
    apply Nat.eq_of_testBit_eq
    intro j
    rw [Nat.testBit_xor, Nat.testBit_two_pow_mul_add _ (by omega)]
    have h2 : (2 : Nat) * (v / 2) = 2 ^ 1 * (v / 2) := by simp
    rw [h2, Nat.testBit_two_pow_mul]
    by_cases hj : j < 1
    · have : ¬ 1 ≤ j := by omega
      simp [hj, this]
    · have : (v % 2).testBit j = false := Nat.testBit_lt_two_pow (by
        have : 2 ^ 1 ≤ 2 ^ j := Nat.pow_le_pow_right (by decide) (by omega)
        have := Nat.mod_lt v (show 0 < 2 by decide)
        omega)
      simp [hj, this]; omega
  rw [h]; simp; omega

/-- a linear map is its matrix: on numbers below 2^k the columns `F 1, F 2, F 4, …` reproduce it -/
theorem mapply_colsFrom : ∀ (k : Nat) (F : Nat → Nat), Lin F → ∀ v, v < 2 ^ k → mapply (colsFrom F k) v = F v := by
  intro k
  induction k with
  | zero => intro F hF v hv; have : v = 0 := by simpa using hv
            subst this; simp [colsFrom, mapply, hF.zero]
  | succ k ih =>
    intro F hF v hv
    simp only [colsFrom, mapply]
    have hG : Lin (fun x => F (2 * x)) := by intro a b; simp only [two_mul_xor, hF (2 * a) (2 * b)]
    rw [ih _ hG (v / 2) (by rw [Nat.pow_succ] at hv; omega)]
    conv => rhs; rw [even_xor_bit v, hF]
    rw [Nat.xor_comm]
    congr 1
    rcases Nat.mod_two_eq_zero_or_one v with h | h <;> simp [h, hF.zero]

def iter (f : Nat → Nat) : Nat → Nat → Nat
  | 0, x => x
  | n+1, x => iter f n (f x)

theorem iter_add (f : Nat → Nat) (a b : Nat) (x : Nat) : iter f (a + b) x = iter f b (iter f a x) := by
  induction a generalizing x with
  | zero => simp [iter]
  | succ a ih => rw [Nat.succ_add]; simp only [iter]; exact ih _

theorem iter_succ' (f : Nat → Nat) (n : Nat) (x : Nat) : iter f (n + 1) x = f (iter f n x) := by
  rw [iter_add]; rfl

theorem iter_mul_fix (f : Nat → Nat) (p k : Nat) (x : Nat) (h : iter f p x = x) : iter f (p * k) x = x := by
  induction k with
  | zero => rfl
  | succ k ih => rw [Nat.mul_succ, iter_add, ih, h]

theorem iter_comp_sq (g : Nat → Nat) (n x : Nat) : iter (fun y => g (g y)) n x = iter g (2 * n) x := by
  induction n generalizing x with
  | zero => rfl
  | succ n ih =>
    have : 2 * (n + 1) = (2 * n + 1) + 1 := by omega
    rw [this]
    simp only [iter]
    exact ih _

theorem id_lin : Lin id := fun _ _ => rfl

theorem mapply_I (v : Nat) (hv : v < 2 ^ 32) : mapply I v = v := mapply_colsFrom 32 id id_lin v hv

/-- repeated squaring computes the iterate -/
theorem mapply_mpowF : ∀ (f : Nat) (M : List Nat) (n : Nat), n < 2 ^ f → ∀ v, v < 2 ^ 32 →
    mapply (mpowF f M n) v = iter (mapply M) n v := by
  intro f
  induction f with
  | zero => intro M n hn v hv; have : n = 0 := by simpa using hn
            subst this; simp [mpowF, iter, mapply_I v hv]
  | succ f ih =>
    intro M n hn v hv
    simp only [mpowF]
    by_cases h0 : n = 0
    · subst h0; simp [iter, mapply_I v hv]
    · simp only [h0, if_false]
      have hh : n / 2 < 2 ^ f := by rw [Nat.pow_succ] at hn; omega
      have e : mapply (mmul M M) = fun y => mapply M (mapply M y) := funext (mapply_mmul M M)
      have hsq : mapply (mpowF f (mmul M M) (n / 2)) v = iter (mapply M) (2 * (n / 2)) v := by
        rw [ih (mmul M M) (n / 2) hh v hv, e, iter_comp_sq]
      by_cases hodd : n % 2 = 1
      · simp only [hodd, if_true]
        rw [mapply_mmul, hsq]
        have e2 : n = 2 * (n / 2) + 1 := by omega
        conv => rhs; rw [e2]
        rw [iter_succ']
      · simp only [hodd, if_false]
        rw [hsq]
        congr 1; omega

theorem stepN_lt (v : Nat) (hv : v < 2 ^ 32) : stepN v < 2 ^ 32 := by
  unfold stepN
  split
  · exact Nat.xor_lt_two_pow (by omega) (by decide)
  · omega

theorem iter_stepN_lt (n v : Nat) (hv : v < 2 ^ 32) : iter stepN n v < 2 ^ 32 := by
  induction n generalizing v with
  | zero => exact hv
  | succ n ih => exact ih _ (stepN_lt v hv)

theorem mapply_T (v : Nat) (hv : v < 2 ^ 32) : mapply T v = stepN v := mapply_colsFrom 32 stepN stepN_lin v hv

theorem iter_T (n v : Nat) (hv : v < 2 ^ 32) : iter (mapply T) n v = iter stepN n v := by
  induction n generalizing v with
  | zero => rfl
  | succ n ih => simp only [iter]; rw [mapply_T v hv]; exact ih _ (stepN_lt v hv)

/-- the iterate of the register step on `1`, for exponents up to 2^33, by matrix arithmetic -/
theorem iter_by_matrix (n : Nat) (hn : n < 2 ^ 33) : iter stepN n 1 = mapply (mpowF 33 T n) 1 := by
  rw [mapply_mpowF 33 T n hn 1 (by decide), iter_T n 1 (by decide)]

/-! ### the orbit of `1` has period exactly 2^32 - 1 -/

theorem period_N : iter stepN N 1 = 1 := by rw [iter_by_matrix N (by decide)]; exact TN

theorem not_period (q : Nat) (hq : q ∈ [3, 5, 17, 257, 65537]) : iter stepN (N / q) 1 ≠ 1 := by
  rw [iter_by_matrix (N / q) (by
    have : N / q ≤ N := Nat.div_le_self _ _
    have : N < 2 ^ 33 := by decide
    omega)]
  exact TNq q hq

/-- returns to `1` are closed under remainders -/
theorem period_mod (p D : Nat) (hp : iter stepN p 1 = 1) (hD : iter stepN D 1 = 1) : iter stepN (D % p) 1 = 1 := by
  have h : D = p * (D / p) + D % p := (Nat.div_add_mod D p).symm
  have h2 := hD
  rw [h, iter_add, iter_mul_fix stepN p (D / p) 1 hp] at h2
  exact h2


theorem period_gcd (a b : Nat) (ha : iter stepN a 1 = 1) (hb : iter stepN b 1 = 1) : iter stepN (Nat.gcd a b) 1 = 1 := by
  induction a, b using Nat.gcd.induction with
  | H0 n => simpa using hb
  | H1 m n hm ih =>
    rw [Nat.gcd_rec]
    exact ih (period_mod m n ha hb) ha

/-! ### 2^32 - 1 = 3 · 5 · 17 · 257 · 65537, all prime -/

theorem prime_of_trial (q r : Nat) (hq : 0 < q) (hr : q < r * r) (h : ∀ k, k < r → 2 ≤ k → ¬ k ∣ q) :
    ∀ d, d ∣ q → d = 1 ∨ d = q := by
  intro d ⟨e, he⟩
  by_cases h1 : d = 1
  · left; exact h1
  by_cases h2 : d = q
  · right; exact h2
  exfalso
  have hd0 : d ≠ 0 := by intro h0; subst h0; simp at he; omega
  have he0 : e ≠ 0 := by intro h0; subst h0; simp at he; omega
  have he1 : e ≠ 1 := by intro h0; subst h0; simp at he; exact h2 he.symm
  by_cases hdr : d < r
  · exact h d hdr (by omega) ⟨e, he⟩
  · have her : e < r := by
      apply Classical.byContradiction
      intro hn
      have : r * r ≤ d * e := Nat.mul_le_mul (by omega) (by omega)
      omega
    exact h e her (by omega) ⟨d, by rw [he, Nat.mul_comm]⟩

theorem p3 : ∀ d, d ∣ 3 → d = 1 ∨ d = 3 := prime_of_trial 3 2 (by decide) (by decide) (by decide)
theorem p5 : ∀ d, d ∣ 5 → d = 1 ∨ d = 5 := prime_of_trial 5 3 (by decide) (by decide) (by decide)
theorem p17 : ∀ d, d ∣ 17 → d = 1 ∨ d = 17 := prime_of_trial 17 5 (by decide) (by decide) (by decide)
theorem p257 : ∀ d, d ∣ 257 → d = 1 ∨ d = 257 := prime_of_trial 257 17 (by decide) (by decide) (by decide)
theorem p65537 : ∀ d, d ∣ 65537 → d = 1 ∨ d = 65537 := prime_of_trial 65537 257 (by decide) (by decide) (by decide +kernel)

theorem dvd_or_coprime (q : Nat) (hq : ∀ d, d ∣ q → d = 1 ∨ d = q) (m : Nat) : q ∣ m ∨ Nat.Coprime m q := by
  rcases hq (Nat.gcd m q) (Nat.gcd_dvd_right m q) with h | h
  · right; exact h
  · left; rw [← h]; exact Nat.gcd_dvd_left m q

/-- every divisor of 2^32 - 1 other than 1 is divisible by one of its five prime factors -/
theorem divisor_has_factor (m : Nat) (hm : m ∣ N) (h1 : m ≠ 1) : ∃ q ∈ [3, 5, 17, 257, 65537], q ∣ m := by
  have hN : N = 3 * (5 * (17 * (257 * 65537))) := by decide
  rw [hN] at hm
  rcases dvd_or_coprime 3 p3 m with h | h
  · exact ⟨3, by simp, h⟩
  have hm := h.dvd_of_dvd_mul_left hm
  rcases dvd_or_coprime 5 p5 m with h | h
  · exact ⟨5, by simp, h⟩
  have hm := h.dvd_of_dvd_mul_left hm
  rcases dvd_or_coprime 17 p17 m with h | h
  · exact ⟨17, by simp, h⟩
  have hm := h.dvd_of_dvd_mul_left hm
  rcases dvd_or_coprime 257 p257 m with h | h
  · exact ⟨257, by simp, h⟩
  have hm := h.dvd_of_dvd_mul_left hm
  rcases p65537 m hm with h | h
  · exact absurd h h1
  · exact ⟨65537, by simp, by rw [h]; exact Nat.dvd_refl _⟩

/-- **the register, run on zero input from `1`, does not return to `1` before 2^32 - 1 steps** -/
theorem no_short_period (D : Nat) (h0 : 0 < D) (hD : D < N) : iter stepN D 1 ≠ 1 := by
  intro h
  have hg := period_gcd D N h period_N
  have hgN : Nat.gcd D N ∣ N := Nat.gcd_dvd_right D N
  have hgD : Nat.gcd D N ∣ D := Nat.gcd_dvd_left D N
  have hgle : Nat.gcd D N ≤ D := Nat.le_of_dvd h0 hgD
  generalize Nat.gcd D N = g at hg hgN hgle
  obtain ⟨m, hm⟩ := hgN
  have hm1 : m ≠ 1 := by intro h1; subst h1; simp at hm; omega
  obtain ⟨q, hq, ⟨e, he⟩⟩ := divisor_has_factor m ⟨g, by rw [hm, Nat.mul_comm]⟩ hm1
  have hqpos : 0 < q := by
    simp at hq; rcases hq with h | h | h | h | h <;> omega
  have hNq : N / q = g * e := by
    rw [hm, he]
    rw [show g * (q * e) = q * (g * e) by
      rw [← Nat.mul_assoc, Nat.mul_comm g q, Nat.mul_assoc]]
    exact Nat.mul_div_cancel_left _ hqpos
  have := iter_mul_fix stepN g e 1 hg
  rw [← hNq] at this
  exact not_period q hq this


/-! ### back to the 32-bit register -/

theorem crcBit_toNat (x : UInt32) : (crcBit x).toNat = stepN x.toNat := by
  unfold crcBit stepN
  have hm : (x &&& 1).toNat = x.toNat % 2 := by simp [UInt32.toNat_and]
  rcases Nat.mod_two_eq_zero_or_one x.toNat with h | h
  · have h0 : x &&& 1 = 0 := by apply UInt32.toNat_inj.mp; rw [hm, h]; rfl
    simp [h0, h, UInt32.toNat_shiftRight, Nat.shiftRight_eq_div_pow]
  · have h1 : x &&& 1 = 1 := by apply UInt32.toNat_inj.mp; rw [hm, h]; rfl
    simp [h1, h, UInt32.toNat_xor, UInt32.toNat_shiftRight, Nat.shiftRight_eq_div_pow, crcPoly, P]

theorem crcBits_toNat (n : Nat) (x : UInt32) : (crcBits n x).toNat = iter stepN n x.toNat := by
  induction n generalizing x with
  | zero => rfl
  | succ n ih => simp only [crcBits, iter]; rw [ih, crcBit_toNat]

theorem iter_two_pow (a : Nat) (ha : a < 32) : iter stepN a (2 ^ a) = 1 := by
  induction a with
  | zero => rfl
  | succ a ih =>
    simp only [iter]
    have : stepN (2 ^ (a + 1)) = 2 ^ a := by
      unfold stepN
      have : 2 ^ (a + 1) = 2 * 2 ^ a := by rw [Nat.pow_succ]; omega
      rw [this]; simp
    rw [this]; exact ih (by omega)

theorem crcBits_zero (n : Nat) : crcBits n 0 = 0 := by
  induction n with
  | zero => rfl
  | succ n ih => simp only [crcBits, crcBit_zero]; exact ih

/-- the register after a run of zero bytes -/
theorem crcReg_zeros (m : Nat) (s : UInt32) : (crcReg s (List.replicate m 0)).toNat = iter stepN (8 * m) s.toNat := by
  induction m generalizing s with
  | zero => rfl
  | succ m ih =>
    simp only [List.replicate_succ, crcReg, List.foldl_cons]
    have := ih (crcByte s 0)
    simp only [crcReg] at this
    rw [this]
    unfold crcByte
    have : s ^^^ (0 : UInt8).toUInt32 = s := by simp
    rw [this, crcBits_toNat, ← iter_add]
    congr 1; omega

theorem crcByte_eq_zero (r : UInt32) (e : UInt8) (h : crcByte r e = 0) : r = e.toUInt32 := by
  unfold crcByte at h
  have h0 : crcBits 8 (r ^^^ e.toUInt32) = crcBits 8 0 := by rw [crcBits_zero]; exact h
  have h1 := crcBits_injective 8 _ _ h0
  have : r = r ^^^ e.toUInt32 ^^^ e.toUInt32 := by rw [UInt32.xor_assoc]; simp
  rw [this, h1]; simp

theorem pow_byte (a : Nat) (ha : a < 8) : (UInt8.ofNat (2 ^ a)).toUInt32.toNat = 2 ^ a := by
  have : 2 ^ a < 256 := by
    have : 2 ^ a ≤ 2 ^ 7 := Nat.pow_le_pow_right (by decide) (by omega)
    omega
  simp [UInt8.toNat_ofNat', Nat.mod_eq_of_lt this]

/-- **two flipped bits in different covered bytes leave a non-zero difference** as long as they are less than
    2^32 - 1 bit positions apart -/
theorem crcReg_two_bits (a b m : Nat) (ha : a < 8) (hb : b < 8) (hspan : (m + 2) * 8 ≤ 4294967295) :
    crcReg 0 (UInt8.ofNat (2 ^ a) :: (List.replicate m 0 ++ [UInt8.ofNat (2 ^ b)])) ≠ 0 := by
  intro h
  have hshape : crcReg 0 (UInt8.ofNat (2 ^ a) :: (List.replicate m 0 ++ [UInt8.ofNat (2 ^ b)]))
      = crcByte (crcReg (crcByte 0 (UInt8.ofNat (2 ^ a))) (List.replicate m 0)) (UInt8.ofNat (2 ^ b)) := by
    simp [crcReg, List.foldl_append]
  rw [hshape] at h
  have hR := crcByte_eq_zero _ _ h
  have hRn := congrArg UInt32.toNat hR
  rw [crcReg_zeros, pow_byte b hb] at hRn
  have hfirst : (crcByte 0 (UInt8.ofNat (2 ^ a))).toNat = iter stepN 8 (2 ^ a) := by
    unfold crcByte
    have hx : (0 : UInt32) ^^^ (UInt8.ofNat (2 ^ a)).toUInt32 = (UInt8.ofNat (2 ^ a)).toUInt32 := by simp
    rw [hx, crcBits_toNat, pow_byte a ha]
  rw [hfirst, ← iter_add] at hRn
  -- run `b` more steps on both sides, and peel `a` steps off the left
  have h2 := congrArg (iter stepN b) hRn
  rw [← iter_add, iter_two_pow b (by omega)] at h2
  have hsplit : 8 + 8 * m + b = a + (8 + 8 * m + b - a) := by omega
  rw [hsplit, iter_add, iter_two_pow a (by omega)] at h2
  exact no_short_period (8 + 8 * m + b - a) (by omega) (by unfold N; omega) h2


/-- any error pattern that leaves a non-zero difference in a register started at zero changes the checksum, wherever
    it is laid over the covered bytes -/
theorem crc32_pattern (pre xs post es : Bytes) (hlen : es.length = xs.length) (hnz : crcReg 0 es ≠ 0) :
    crc32 (pre ++ xorOnto xs es ++ post) ≠ crc32 (pre ++ xs ++ post) := by
  intro heq
  unfold crc32 at heq
  have h1 := xor_right_cancel _ _ _ heq
  simp only [crcReg, List.foldl_append] at h1
  have h2 := crcReg_injective_state post _ _ h1
  have hl := crcReg_linear xs es (List.foldl crcByte 4294967295 pre) 0 hlen
  simp only [UInt32.xor_zero] at hl
  apply hnz
  have e1 : crcReg (List.foldl crcByte 4294967295 pre) (xorOnto xs es) = crcReg (List.foldl crcByte 4294967295 pre) xs := h2
  rw [e1] at hl
  have : crcReg 0 es = crcReg (List.foldl crcByte 4294967295 pre) xs ^^^ (crcReg (List.foldl crcByte 4294967295 pre) xs ^^^ crcReg 0 es) := by
    rw [← UInt32.xor_assoc]; simp
  rw [this, ← hl]; simp

/-- **every double-bit flip in two different covered bytes changes the checksum**, the two bits anywhere in a message
    whose covered part is shorter than 2^32 - 1 bits (512 MiB): bit `a` of the byte after `pre`, bit `b` of the byte
    `m + 1` further on -/
theorem crc32_two_bits (pre xs post : Bytes) (a b m : Nat) (ha : a < 8) (hb : b < 8) (hlen : xs.length = m + 2)
    (hspan : (m + 2) * 8 ≤ 4294967295) :
    crc32 (pre ++ xorOnto xs (UInt8.ofNat (2 ^ a) :: (List.replicate m 0 ++ [UInt8.ofNat (2 ^ b)])) ++ post) ≠ crc32 (pre ++ xs ++ post) :=
  crc32_pattern pre xs post _ (by simp [hlen]) (crcReg_two_bits a b m ha hb hspan)

end Kafka.CrcOrder
