import KafkaModel.Lemmas.Wire
import KafkaModel.Spec.Proto
/-! Round-trip lemmas for the specification's parser combinators. -/
namespace Kafka.Spec
open Kafka

theorem bind_eq {α β} (p : P α) (f : α → P β) (bs : Bytes) :
    (p >>= f) bs = match p bs with | some (a, r) => f a r | none => none := rfl

theorem pure_eq {α} (a : α) (bs : Bytes) : (pure a : P α) bs = some (a, bs) := rfl

/-- `p` reads back what `e` wrote, whatever follows -/
def RT {α} (p : P α) (e : α → Bytes) (ok : α → Prop) : Prop :=
  ∀ a, ok a → ∀ r, p (e a ++ r) = some (a, r)

theorem pI_rt (k : Nat) (hk : 0 < k) : RT (pI k) (encI k) (inI k) := by
  intro x hx r
  exact readI_append k hk x hx r

theorem pI_append (k : Nat) (hk : 0 < k) (x : Int) (hx : inI k x) (r : Bytes) : pI k (encI k x ++ r) = some (x, r) :=
  readI_append k hk x hx r

theorem pI8_append (x : Int) (hx : inI 1 x) (r : Bytes) : pI8 (eI8 x ++ r) = some (x, r) := readI_append 1 (by decide) x hx r
theorem pI16_append (x : Int) (hx : inI 2 x) (r : Bytes) : pI16 (eI16 x ++ r) = some (x, r) := readI_append 2 (by decide) x hx r
theorem pI32_append (x : Int) (hx : inI 4 x) (r : Bytes) : pI32 (eI32 x ++ r) = some (x, r) := readI_append 4 (by decide) x hx r
theorem pI64_append (x : Int) (hx : inI 8 x) (r : Bytes) : pI64 (eI64 x ++ r) = some (x, r) := readI_append 8 (by decide) x hx r

theorem inI_len2 (n : Nat) (h : n ≤ 32767) : inI 2 (n : Int) := by
  unfold inI; simp; omega
theorem inI_len4 (n : Nat) (h : n ≤ 2147483647) : inI 4 (n : Int) := by
  unfold inI; simp; omega

theorem pNStr_append (s : Option Bytes) (hs : ∀ b, s = some b → b.length ≤ 32767) (r : Bytes) :
    pNStr (eNStr s ++ r) = some (s, r) := by
  unfold pNStr eNStr
  cases s with
  | none =>
    simp only [eI16]
    rw [readI_append 2 (by decide) (-1) (by decide) r]
    simp
  | some b =>
    have hb := hs b rfl
    simp only [eStr, eI16, List.append_assoc]
    rw [readI_append 2 (by decide) _ (inI_len2 _ hb)]
    have h1 : ¬ ((b.length : Int) = -1) := by omega
    have h2 : ¬ ((b.length : Int) < 0) := by omega
    simp only [h1, h2, if_false, Int.toNat_natCast]
    rw [readN_append]

theorem pStr_append (s : Bytes) (hs : s.length ≤ 32767) (r : Bytes) : pStr (eStr s ++ r) = some (s, r) := by
  unfold pStr
  have := pNStr_append (some s) (by intro b hb; cases hb; exact hs) r
  simp only [eNStr] at this
  rw [this]

theorem pNBytes_append (s : Option Bytes) (hs : ∀ b, s = some b → b.length ≤ 2147483647) (r : Bytes) :
    pNBytes (eNBytes s ++ r) = some (s, r) := by
  unfold pNBytes eNBytes
  cases s with
  | none =>
    simp only [eI32]
    rw [readI_append 4 (by decide) (-1) (by decide) r]
    simp
  | some b =>
    have hb := hs b rfl
    simp only [eBytes, eI32, List.append_assoc]
    rw [readI_append 4 (by decide) _ (inI_len4 _ hb)]
    have h1 : ¬ ((b.length : Int) = -1) := by omega
    have h2 : ¬ ((b.length : Int) < 0) := by omega
    simp only [h1, h2, if_false, Int.toNat_natCast]
    rw [readN_append]

theorem pRep_append {α} (p : P α) (e : α → Bytes) (xs : List α)
    (h : ∀ x ∈ xs, ∀ r, p (e x ++ r) = some (x, r)) (r : Bytes) :
    pRep p xs.length (xs.flatMap e ++ r) = some (xs, r) := by
  induction xs with
  | nil => simp [pRep, pure_eq]
  | cons x xs ih =>
    simp only [List.length_cons, pRep, List.flatMap_cons, List.append_assoc, bind_eq]
    rw [h x (by simp)]
    simp only []
    rw [ih (fun y hy => h y (by simp [hy]))]
    simp [pure_eq]

theorem pArr_append {α} (p : P α) (e : α → Bytes) (xs : List α) (hl : xs.length ≤ 2147483647)
    (h : ∀ x ∈ xs, ∀ r, p (e x ++ r) = some (x, r)) (r : Bytes) :
    pArr p (eArr e xs ++ r) = some (xs, r) := by
  unfold pArr eArr
  simp only [eI32, List.append_assoc]
  rw [readI_append 4 (by decide) _ (inI_len4 _ hl)]
  have h1 : ¬ ((xs.length : Int) = -1) := by omega
  have h2 : ¬ ((xs.length : Int) < 0) := by omega
  simp only [h1, h2, if_false, Int.toNat_natCast]
  exact pRep_append p e xs h r

end Kafka.Spec
