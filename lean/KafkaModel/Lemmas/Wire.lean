import KafkaModel.Wire
/-! Round-trip lemmas for big-endian integers and all-or-nothing reads. Core Lean only. -/
namespace Kafka

@[simp] theorem be_length (k n : Nat) : (be k n).length = k := by
  induction k with
  | zero => rfl
  | succ k ih => simp [be, ih]

theorem foldl_be_acc (bs : Bytes) (acc : Nat) :
    bs.foldl (fun a b => a * 256 + b.toNat) acc = acc * 256 ^ bs.length + unbe bs := by
  induction bs generalizing acc with
  | nil => simp [unbe]
  | cons x xs ih =>
    simp only [List.foldl_cons, List.length_cons, unbe]
    rw [ih, ih (0 * 256 + x.toNat)]
    simp [Nat.pow_succ, Nat.add_mul, Nat.mul_assoc, Nat.mul_comm 256, Nat.add_assoc]

theorem unbe_cons (x : UInt8) (a : Bytes) : unbe (x :: a) = x.toNat * 256 ^ a.length + unbe a := by
  simp only [unbe, List.foldl_cons]
  rw [foldl_be_acc]
  simp [unbe]

theorem unbe_lt (bs : Bytes) : unbe bs < 256 ^ bs.length := by
  induction bs with
  | nil => simp [unbe]
  | cons x xs ih =>
    rw [unbe_cons]
    have hx : x.toNat < 256 := x.toNat_lt
    simp only [List.length_cons, Nat.pow_succ]
    have : x.toNat * 256 ^ xs.length + unbe xs < (x.toNat + 1) * 256 ^ xs.length := by
      rw [Nat.add_mul]; omega
    have h2 : (x.toNat + 1) * 256 ^ xs.length ≤ 256 * 256 ^ xs.length := Nat.mul_le_mul_right _ (by omega)
    rw [Nat.mul_comm (256 ^ xs.length) 256]
    omega

theorem unbe_be (k n : Nat) : unbe (be k n) = n % 256 ^ k := by
  induction k with
  | zero => simp [be, unbe, Nat.mod_one]
  | succ k ih =>
    rw [be, unbe_cons, ih, be_length]
    have h : (UInt8.ofNat (n / 256 ^ k % 256)).toNat = n / 256 ^ k % 256 := by
      simp [UInt8.toNat_ofNat']
    rw [h, Nat.pow_succ]
    have := Nat.mod_mul (a := 256 ^ k) (b := 256) (x := n)
    rw [this]
    rw [Nat.mul_comm]
    omega

/-- big-endian bytes are determined by their value -/
theorem be_unbe (bs : Bytes) : be bs.length (unbe bs) = bs := by
  induction bs with
  | nil => rfl
  | cons x xs ih =>
    simp only [List.length_cons, be]
    rw [unbe_cons]
    have hlt := unbe_lt xs
    have hpos : 0 < 256 ^ xs.length := Nat.pow_pos (by decide)
    have h1 : (x.toNat * 256 ^ xs.length + unbe xs) / 256 ^ xs.length = x.toNat := by
      rw [Nat.add_comm, Nat.add_mul_div_right _ _ hpos, Nat.div_eq_of_lt hlt]; simp
    rw [h1]
    have hx : x.toNat % 256 = x.toNat := Nat.mod_eq_of_lt x.toNat_lt
    rw [hx]
    congr 1
    · simp
    · -- the tail only depends on the value modulo 256^len
      have : ∀ (k a b : Nat), a % 256 ^ k = b % 256 ^ k → be k a = be k b := by
        intro k
        induction k with
        | zero => intros; rfl
        | succ k ihk =>
          intro a b hab
          simp only [be]
          have h256 : (256 : Nat) ^ (k + 1) = 256 ^ k * 256 := Nat.pow_succ ..
          have e1 : a / 256 ^ k % 256 = b / 256 ^ k % 256 := by
            have ha := Nat.mod_mul (a := 256 ^ k) (b := 256) (x := a)
            have hb := Nat.mod_mul (a := 256 ^ k) (b := 256) (x := b)
            rw [h256] at hab
            rw [ha, hb] at hab
            have hpk : 0 < 256 ^ k := Nat.pow_pos (by decide)
            have la : a % 256 ^ k < 256 ^ k := Nat.mod_lt _ hpk
            have lb : b % 256 ^ k < 256 ^ k := Nat.mod_lt _ hpk
            -- compare quotients by 256^k of both sides
            have qa : (a % 256 ^ k + 256 ^ k * (a / 256 ^ k % 256)) / 256 ^ k = a / 256 ^ k % 256 := by
              rw [Nat.add_mul_div_left _ _ hpk, Nat.div_eq_of_lt la]; simp
            have qb : (b % 256 ^ k + 256 ^ k * (b / 256 ^ k % 256)) / 256 ^ k = b / 256 ^ k % 256 := by
              rw [Nat.add_mul_div_left _ _ hpk, Nat.div_eq_of_lt lb]; simp
            rw [← qa, ← qb, hab]
          have e2 : a % 256 ^ k = b % 256 ^ k := by
            have := congrArg (· % 256 ^ k) hab
            simp only [h256] at this
            rwa [Nat.mod_mul_right_mod, Nat.mod_mul_right_mod] at this
          rw [e1, ihk a b e2]
      apply Eq.trans (this xs.length _ (unbe xs) _) ih
      rw [Nat.add_comm, Nat.add_mul_mod_self_right]

/-! ### two's complement -/

theorem pow8_pos (k : Nat) : 0 < 2 ^ (8 * k) := Nat.pow_pos (by decide)

theorem toU_lt (k : Nat) (x : Int) : toU k x < 2 ^ (8 * k) := by
  unfold toU
  have hpos : (0 : Int) < ((2 ^ (8 * k) : Nat) : Int) := by exact_mod_cast pow8_pos k
  have h1 := Int.emod_lt_of_pos x hpos
  have h0 := Int.emod_nonneg x (by omega : ((2 ^ (8 * k) : Nat) : Int) ≠ 0)
  omega

theorem toS_toU (k : Nat) (hk : 0 < k) (x : Int) (h : inI k x) : toS k (toU k x) = x := by
  unfold inI at h
  unfold toS toU
  have hp : (2 : Nat) ^ (8 * k) = 2 * 2 ^ (8 * k - 1) := by
    have : 8 * k = (8 * k - 1) + 1 := by omega
    rw [this, Nat.pow_succ]; simp; omega
  generalize hH : (2 : Nat) ^ (8 * k - 1) = H at *
  rw [hp]
  have hHpos : 0 < H := by rw [← hH]; exact Nat.pow_pos (by decide)
  by_cases hx : 0 ≤ x
  · have : x % ((2 * H : Nat) : Int) = x := by
      apply Int.emod_eq_of_lt hx; push_cast; omega
    rw [this]
    have : x.toNat < H := by omega
    simp [this]; omega
  · have : x % ((2 * H : Nat) : Int) = x + (2 * H : Nat) := by
      have h1 : (x + ((2 * H : Nat) : Int)) % ((2 * H : Nat) : Int) = x % ((2 * H : Nat) : Int) := by
        simp
      rw [← h1]
      apply Int.emod_eq_of_lt <;> push_cast <;> omega
    rw [this]
    have : ¬ (x + ((2 * H : Nat) : Int)).toNat < H := by push_cast; omega
    simp [this]; push_cast; omega

theorem toU_toS (k : Nat) (hk : 0 < k) (n : Nat) (h : n < 2 ^ (8 * k)) : toU k (toS k n) = n := by
  unfold toS toU
  have hp : (2 : Nat) ^ (8 * k) = 2 * 2 ^ (8 * k - 1) := by
    have : 8 * k = (8 * k - 1) + 1 := by omega
    rw [this, Nat.pow_succ]; simp; omega
  generalize hH : (2 : Nat) ^ (8 * k - 1) = H at *
  rw [hp] at h ⊢
  split
  · have : (n : Int) % ((2 * H : Nat) : Int) = n := by
      apply Int.emod_eq_of_lt <;> push_cast <;> omega
    rw [this]; simp
  · have : ((n : Int) - ((2 * H : Nat) : Int)) % ((2 * H : Nat) : Int) = n := by
      have h1 : ((n : Int) - ((2 * H : Nat) : Int)) % ((2 * H : Nat) : Int) = (n : Int) % ((2 * H : Nat) : Int) := by
        simp
      rw [h1]
      apply Int.emod_eq_of_lt <;> push_cast <;> omega
    rw [this]; simp

@[simp] theorem encI_length (k : Nat) (x : Int) : (encI k x).length = k := by simp [encI]

/-- decoding an encoded in-range integer gives it back -/
theorem decI_encI (k : Nat) (hk : 0 < k) (x : Int) (h : inI k x) : decI (encI k x) = x := by
  unfold decI encI
  rw [be_length, unbe_be]
  have : toU k x % 256 ^ k = toU k x := by
    apply Nat.mod_eq_of_lt
    have := toU_lt k x
    have e : (256 : Nat) ^ k = 2 ^ (8 * k) := by
      rw [show (256 : Nat) = 2 ^ 8 by rfl, ← Nat.pow_mul]
    omega
  rw [this]
  exact toS_toU k hk x h

/-- a decoded integer is always in range -/
theorem decI_inI (bs : Bytes) (hk : 0 < bs.length) : inI bs.length (decI bs) := by
  unfold decI inI toS
  have hlt := unbe_lt bs
  have e : (256 : Nat) ^ bs.length = 2 ^ (8 * bs.length) := by
    rw [show (256 : Nat) = 2 ^ 8 by rfl, ← Nat.pow_mul]
  have hp : (2 : Nat) ^ (8 * bs.length) = 2 * 2 ^ (8 * bs.length - 1) := by
    have : 8 * bs.length = (8 * bs.length - 1) + 1 := by omega
    rw [this, Nat.pow_succ]; simp; omega
  rw [e, hp] at hlt
  rw [hp]
  generalize (2 : Nat) ^ (8 * bs.length - 1) = H at *
  split <;> push_cast <;> omega

/-- re-encoding a decoded integer gives the original bytes -/
theorem encI_decI (bs : Bytes) (hk : 0 < bs.length) : encI bs.length (decI bs) = bs := by
  unfold encI decI
  have e : (256 : Nat) ^ bs.length = 2 ^ (8 * bs.length) := by
    rw [show (256 : Nat) = 2 ^ 8 by rfl, ← Nat.pow_mul]
  rw [toU_toS bs.length hk (unbe bs) (by have := unbe_lt bs; omega)]
  exact be_unbe bs

/-! ### reads -/

theorem readN_append (a r : Bytes) : readN a.length (a ++ r) = some (a, r) := by
  simp [readN]

theorem readN_some {n : Nat} {bs a r : Bytes} (h : readN n bs = some (a, r)) :
    bs = a ++ r ∧ a.length = n := by
  unfold readN at h
  split at h
  · simp at h
    obtain ⟨h1, h2⟩ := h
    subst h1 h2
    simp; omega
  · simp at h

theorem readI_append (k : Nat) (hk : 0 < k) (x : Int) (h : inI k x) (r : Bytes) :
    readI k (encI k x ++ r) = some (x, r) := by
  unfold readI
  have := readN_append (encI k x) r
  rw [encI_length] at this
  rw [this]
  simp [decI_encI k hk x h]

theorem readI_some {k : Nat} (hk : 0 < k) {bs r : Bytes} {x : Int} (h : readI k bs = some (x, r)) :
    bs = encI k x ++ r ∧ inI k x := by
  unfold readI at h
  split at h
  · rename_i a r' heq
    simp at h
    obtain ⟨h1, h2⟩ := h
    subst h1 h2
    obtain ⟨e, hl⟩ := readN_some heq
    subst hl
    constructor
    · rw [encI_decI a hk]; exact e
    · exact decI_inI a hk
  · simp at h

end Kafka
