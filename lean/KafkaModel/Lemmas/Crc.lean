import KafkaModel.Algo.Crc32
/-! GF(2)-linearity and injectivity of the CRC-32 register step; consequences for error detection. Core Lean only. -/
namespace Kafka

theorem and_one_xor (s t : UInt32) : (s ^^^ t) &&& 1 = (s &&& 1) ^^^ (t &&& 1) := by
  apply UInt32.toBitVec_inj.1
  simp only [UInt32.toBitVec_and, UInt32.toBitVec_xor]
  ext i hi
  simp [Bool.and_xor_distrib_right]

theorem shr_xor (s t : UInt32) : (s ^^^ t) >>> 1 = (s >>> 1) ^^^ (t >>> 1) := by
  apply UInt32.toBitVec_inj.1
  simp [BitVec.ushiftRight_xor_distrib]

theorem and_one_cases (s : UInt32) : s &&& 1 = 0 ∨ s &&& 1 = 1 := by
  have h : (s &&& 1).toNat = s.toNat % 2 := by simp [UInt32.toNat_and]
  rcases Nat.mod_two_eq_zero_or_one s.toNat with h0 | h1
  · left; apply UInt32.toNat_inj.mp; rw [h, h0]; rfl
  · right; apply UInt32.toNat_inj.mp; rw [h, h1]; rfl

/-- the register step is linear over GF(2) -/
theorem crcBit_linear (s t : UInt32) : crcBit (s ^^^ t) = crcBit s ^^^ crcBit t := by
  unfold crcBit
  rw [and_one_xor, shr_xor]
  rcases and_one_cases s with hs | hs <;> rcases and_one_cases t with ht | ht <;> simp [hs, ht]
  · ac_rfl
  · ac_rfl
  · have : s >>> 1 ^^^ crcPoly ^^^ (t >>> 1 ^^^ crcPoly) = s >>> 1 ^^^ t >>> 1 ^^^ (crcPoly ^^^ crcPoly) := by ac_rfl
    rw [this]; simp

theorem crcBit_zero : crcBit 0 = 0 := by decide

theorem shr_lt (d : UInt32) : (d >>> 1).toNat < 2147483648 := by
  have : (d >>> 1).toNat = d.toNat / 2 := by simp [UInt32.toNat_shiftRight, Nat.shiftRight_eq_div_pow]
  have := d.toNat_lt
  omega

/-- only the zero difference is mapped to zero (the polynomial's top coefficient is set) -/
theorem crcBit_kernel (d : UInt32) (h : crcBit d = 0) : d = 0 := by
  unfold crcBit at h
  rcases and_one_cases d with h0 | h1
  · simp [h0] at h
    have hm : (d &&& 1).toNat = d.toNat % 2 := by simp [UInt32.toNat_and]
    have hs : (d >>> 1).toNat = d.toNat / 2 := by simp [UInt32.toNat_shiftRight, Nat.shiftRight_eq_div_pow]
    rw [h0] at hm; rw [h] at hs
    apply UInt32.toNat_inj.mp
    simp at hm hs
    show d.toNat = 0
    omega
  · simp [h1] at h
    -- (d >>> 1) ^^^ P = 0 forces d >>> 1 = P, impossible: P ≥ 2³¹
    have : d >>> 1 = crcPoly := by
      have : d >>> 1 = (d >>> 1) ^^^ crcPoly ^^^ crcPoly := by
        rw [UInt32.xor_assoc]; simp
      rw [this, h]; simp
    have hl := shr_lt d
    rw [this] at hl
    exact absurd hl (by decide)

theorem crcBit_injective (s t : UInt32) (h : crcBit s = crcBit t) : s = t := by
  have : crcBit (s ^^^ t) = 0 := by rw [crcBit_linear, h]; simp
  have := crcBit_kernel _ this
  have h2 : s = s ^^^ t ^^^ t := by rw [UInt32.xor_assoc]; simp
  rw [h2, this]; simp

theorem crcBits_injective (n : Nat) : ∀ s t, crcBits n s = crcBits n t → s = t := by
  induction n with
  | zero => intro s t h; exact h
  | succ n ih => intro s t h; exact crcBit_injective _ _ (ih _ _ h)

theorem xor_right_cancel (a b c : UInt32) (h : a ^^^ c = b ^^^ c) : a = b := by
  have : a = a ^^^ c ^^^ c := by rw [UInt32.xor_assoc]; simp
  rw [this, h, UInt32.xor_assoc]; simp

/-- feeding one byte is injective in the register -/
theorem crcByte_injective_state (b : UInt8) (s t : UInt32) (h : crcByte s b = crcByte t b) : s = t :=
  xor_right_cancel _ _ _ (crcBits_injective 8 _ _ h)

theorem toUInt32_injective (x y : UInt8) (h : x.toUInt32 = y.toUInt32) : x = y := by
  apply UInt8.toNat_inj.mp
  have := congrArg UInt32.toNat h
  simpa using this

/-- … and, from one register, in the byte -/
theorem crcByte_injective_byte (s : UInt32) (x y : UInt8) (h : crcByte s x = crcByte s y) : x = y := by
  have := crcBits_injective 8 _ _ h
  have h2 : x.toUInt32 = y.toUInt32 := by
    have e : ∀ (a b : UInt32), s ^^^ a = s ^^^ b → a = b := by
      intro a b hab
      have : a = s ^^^ (s ^^^ a) := by rw [← UInt32.xor_assoc]; simp
      rw [this, hab, ← UInt32.xor_assoc]; simp
    exact e _ _ this
  exact toUInt32_injective x y h2

theorem crcReg_injective_state (bs : Bytes) : ∀ s t, crcReg s bs = crcReg t bs → s = t := by
  induction bs with
  | nil => intro s t h; exact h
  | cons b r ih =>
    intro s t h
    simp only [crcReg, List.foldl_cons] at h
    exact crcByte_injective_state b s t (ih _ _ h)

/-- **a change confined to one covered byte always changes the checksum** — every single-bit flip and every burst that
    stays inside one byte, at any position of a message of any length -/
theorem crc32_one_byte (pre post : Bytes) (x y : UInt8) (h : x ≠ y) :
    crc32 (pre ++ x :: post) ≠ crc32 (pre ++ y :: post) := by
  intro heq
  unfold crc32 at heq
  have h1 := xor_right_cancel _ _ _ heq
  simp only [crcReg, List.foldl_append, List.foldl_cons] at h1
  have h2 := crcReg_injective_state post _ _ h1
  exact h (crcByte_injective_byte _ x y h2)

/-! ### bursts: the register run backwards -/

theorem crcBit_even (x : UInt32) (h : x.toNat % 2 = 0) : (crcBit x).toNat = x.toNat / 2 := by
  unfold crcBit
  have hm : (x &&& 1).toNat = x.toNat % 2 := by simp [UInt32.toNat_and]
  have h0 : x &&& 1 = 0 := by apply UInt32.toNat_inj.mp; rw [hm, h]; rfl
  simp [h0, UInt32.toNat_shiftRight, Nat.shiftRight_eq_div_pow]

theorem crcBit_odd_big (x : UInt32) (h : x.toNat % 2 = 1) : 2147483648 ≤ (crcBit x).toNat := by
  unfold crcBit
  have hm : (x &&& 1).toNat = x.toNat % 2 := by simp [UInt32.toNat_and]
  have h1 : x &&& 1 = 1 := by apply UInt32.toNat_inj.mp; rw [hm, h]; rfl
  simp only [h1]
  have hl := shr_lt x
  have hx : ((x >>> 1) ^^^ crcPoly).toNat = (x >>> 1).toNat ^^^ crcPoly.toNat := by simp [UInt32.toNat_xor]
  have hb : ((x >>> 1).toNat ^^^ crcPoly.toNat).testBit 31 = true := by
    rw [Nat.testBit_xor]
    have : (x >>> 1).toNat.testBit 31 = false := Nat.testBit_lt_two_pow (by simpa using hl)
    rw [this]; decide
  simp only [beq_self_eq_true, if_true]
  rw [hx]
  exact Nat.ge_two_pow_of_testBit hb

/-- backward step: a register whose successor is below 2³¹ is twice that successor -/
theorem crcBit_back (x : UInt32) (hv : (crcBit x).toNat < 2147483648) : x.toNat = 2 * (crcBit x).toNat := by
  rcases Nat.mod_two_eq_zero_or_one x.toNat with h | h
  · rw [crcBit_even x h]; omega
  · have := crcBit_odd_big x h; omega

theorem crcBits_back : ∀ (n : Nat) (x : UInt32), (crcBits n x).toNat * 2 ^ n < 4294967296 → x.toNat = 2 ^ n * (crcBits n x).toNat := by
  intro n
  induction n with
  | zero => intro x _; simp [crcBits]
  | succ n ih =>
    intro x h
    simp only [crcBits] at h ⊢
    generalize hv : (crcBits n (crcBit x)).toNat = v at h ⊢
    have hp : 2 ^ (n + 1) = 2 * 2 ^ n := by rw [Nat.pow_succ]; omega
    have hm : v * (2 * 2 ^ n) = 2 * (v * 2 ^ n) := by rw [Nat.mul_left_comm]
    rw [hp, hm] at h
    have h1 : (crcBits n (crcBit x)).toNat * 2 ^ n < 4294967296 := by rw [hv]; omega
    have e1 := ih (crcBit x) h1
    rw [hv] at e1
    have hc : 2 ^ n * v = v * 2 ^ n := Nat.mul_comm _ _
    have e2 := crcBit_back x (by rw [e1, hc]; omega)
    rw [e2, e1, hp, Nat.mul_assoc]

theorem crcBits_fwd : ∀ (n : Nat) (x : UInt32) (u : Nat), x.toNat = 2 ^ n * u → (crcBits n x).toNat = u := by
  intro n
  induction n with
  | zero => intro x u h; simpa [crcBits] using h
  | succ n ih =>
    intro x u h
    simp only [crcBits]
    have hp : 2 ^ (n + 1) = 2 * 2 ^ n := by rw [Nat.pow_succ]; omega
    rw [hp, Nat.mul_assoc] at h
    apply ih
    rw [crcBit_even x (by omega)]; omega

theorem crcBits_add (a b : Nat) (x : UInt32) : crcBits (a + b) x = crcBits b (crcBits a x) := by
  induction a generalizing x with
  | zero => simp [crcBits]
  | succ a ih => rw [Nat.succ_add]; simp only [crcBits]; exact ih _

/-- a byte string read as a little-endian number -/
def leNat : Bytes → Nat
  | [] => 0
  | e :: es => e.toNat + 256 * leNat es

theorem leNat_lt (es : Bytes) : leNat es < 256 ^ es.length := by
  induction es with
  | nil => simp [leNat]
  | cons e es ih =>
    have := e.toNat_lt
    simp only [leNat, List.length_cons, Nat.pow_succ]
    omega

theorem leNat_eq_zero (es : Bytes) (h : leNat es = 0) : ∀ e ∈ es, e = 0 := by
  induction es with
  | nil => intro e he; cases he
  | cons x xs ih =>
    simp only [leNat] at h
    intro e he
    rcases List.mem_cons.mp he with rfl | he
    · apply UInt8.toNat_inj.mp; simp; omega
    · exact ih (by omega) e he

theorem xor_low (v e : Nat) (he : e < 256) : (256 * v) ^^^ e = 256 * v + e := by
  apply Nat.eq_of_testBit_eq
  intro j
  rw [Nat.testBit_xor]
  have h8 : (256 : Nat) = 2 ^ 8 := by decide
  rw [h8, Nat.testBit_two_pow_mul_add _ (by simpa using he), Nat.testBit_two_pow_mul]
  by_cases hj : j < 8
  · have h9 : ¬ 8 ≤ j := by omega
    simp [hj, h9]
  · have : e.testBit j = false := Nat.testBit_lt_two_pow (by
      have : 2 ^ 8 ≤ 2 ^ j := Nat.pow_le_pow_right (by decide) (by omega)
      omega)
    simp [hj, this]; omega

theorem toUInt32_toNat (e : UInt8) : e.toUInt32.toNat = e.toNat := by simp

/-- backward over whole bytes: a register that reaches zero after at most four more bytes *is* those bytes
    (read as a little-endian number) -/
theorem crcReg_back : ∀ (es : Bytes) (d : UInt32), es.length ≤ 4 → crcReg d es = 0 → d.toNat = leNat es := by
  intro es
  induction es with
  | nil => intro d _ h; simp only [crcReg, List.foldl_nil] at h; simp [h, leNat]
  | cons e es ih =>
    intro d hl h
    simp only [crcReg, List.foldl_cons] at h
    simp only [List.length_cons] at hl
    have h1 := ih (crcByte d e) (by omega) h
    have hlt := leNat_lt es
    have hpow : 256 ^ es.length ≤ 256 ^ 3 := Nat.pow_le_pow_right (by decide) (by omega)
    unfold crcByte at h1
    have hb := crcBits_back 8 (d ^^^ e.toUInt32) (by rw [h1]; omega)
    rw [h1] at hb
    have hd : d = (d ^^^ e.toUInt32) ^^^ e.toUInt32 := by rw [UInt32.xor_assoc]; simp
    have : d.toNat = (d ^^^ e.toUInt32).toNat ^^^ e.toUInt32.toNat := by
      conv => lhs; rw [hd]
      simp [UInt32.toNat_xor]
    rw [this, hb, toUInt32_toNat]
    have := e.toNat_lt
    simp only [leNat]
    rw [show (2:Nat) ^ 8 = 256 by decide, xor_low _ _ (by omega)]
    omega

/-- an error pattern, as the bytes XORed onto consecutive covered bytes starting with the first changed one, is a
    *burst of at most 32 bits* (in the order the checksum consumes bits: least significant bit of each byte first) when it
    spans at most five bytes and, with `a` the position of its first bit inside the first byte, nothing lies at or beyond
    bit `a` of the fifth byte -/
def Burst32 : Bytes → Prop
  | [] => True
  | e0 :: rest => rest.length ≤ 4 ∧ ∃ a, a ≤ 8 ∧ 2 ^ a ∣ e0.toNat ∧ leNat rest < 2 ^ (24 + a)

/-- the heart: starting from a zero difference, a non-zero burst of at most 32 bits leaves a non-zero difference -/
theorem crcReg_burst_zero (es : Bytes) (hb : Burst32 es) (h : crcReg 0 es = 0) : ∀ e ∈ es, e = 0 := by
  cases es with
  | nil => intro e he; cases he
  | cons e0 rest =>
    obtain ⟨hl, a, ha, ⟨u, hu⟩, hlt⟩ := hb
    simp only [crcReg, List.foldl_cons] at h
    have h1 := crcReg_back rest (crcByte 0 e0) hl h
    unfold crcByte at h1
    have hx : (0 : UInt32) ^^^ e0.toUInt32 = e0.toUInt32 := by simp
    rw [hx] at h1
    have hsplit : crcBits 8 e0.toUInt32 = crcBits (8 - a) (crcBits a e0.toUInt32) := by
      rw [← crcBits_add]; congr 1; omega
    rw [hsplit] at h1
    have hy := crcBits_fwd a e0.toUInt32 u (by rw [toUInt32_toNat, hu])
    have hpw : 2 ^ (24 + a) * 2 ^ (8 - a) = 4294967296 := by
      rw [← Nat.pow_add]; rw [show 24 + a + (8 - a) = 32 by omega]
    have hbk := crcBits_back (8 - a) (crcBits a e0.toUInt32) (by
      rw [h1]
      have hp : 0 < 2 ^ (8 - a) := Nat.two_pow_pos _
      calc leNat rest * 2 ^ (8 - a) < 2 ^ (24 + a) * 2 ^ (8 - a) := Nat.mul_lt_mul_of_pos_right hlt hp
        _ = 4294967296 := hpw)
    rw [h1, hy] at hbk
    -- u < 2^(8-a) and u = 2^(8-a) * leNat rest
    have hu8 : u < 2 ^ (8 - a) := by
      have he := e0.toNat_lt
      have hp : 0 < 2 ^ a := Nat.two_pow_pos _
      have : 2 ^ a * 2 ^ (8 - a) = 2 ^ 8 := by rw [← Nat.pow_add]; rw [show a + (8 - a) = 8 by omega]
      rw [hu] at he
      have he : 2 ^ a * u < 2 ^ 8 := by simpa using he
      rw [← this] at he
      exact Nat.lt_of_mul_lt_mul_left he
    have hv0 : leNat rest = 0 := by
      rcases Nat.eq_zero_or_pos (leNat rest) with h0 | hpos
      · exact h0
      · have : 2 ^ (8 - a) * 1 ≤ 2 ^ (8 - a) * leNat rest := Nat.mul_le_mul_left _ hpos
        omega
    have hu0 : u = 0 := by rw [hbk, hv0]; simp
    intro e he
    rcases List.mem_cons.mp he with rfl | he
    · apply UInt8.toNat_inj.mp; rw [hu, hu0]; simp
    · exact leNat_eq_zero rest hv0 e he

theorem crcBits_linear (n : Nat) : ∀ s t : UInt32, crcBits n (s ^^^ t) = crcBits n s ^^^ crcBits n t := by
  induction n with
  | zero => intro s t; rfl
  | succ n ih => intro s t; simp only [crcBits]; rw [crcBit_linear, ih]

theorem crcByte_linear (s d : UInt32) (x e : UInt8) : crcByte (s ^^^ d) (x ^^^ e) = crcByte s x ^^^ crcByte d e := by
  unfold crcByte
  rw [← crcBits_linear]
  congr 1
  have : (x ^^^ e).toUInt32 = x.toUInt32 ^^^ e.toUInt32 := by
    apply UInt32.toNat_inj.mp
    simp [UInt32.toNat_xor]
  rw [this]
  ac_rfl

/-- XOR an error pattern onto a byte string (the pattern no longer than the string) -/
def xorOnto : Bytes → Bytes → Bytes
  | x :: xs, e :: es => (x ^^^ e) :: xorOnto xs es
  | xs, _ => xs

/-- the register is linear in (state, bytes) -/
theorem crcReg_linear : ∀ (xs es : Bytes) (s d : UInt32), es.length = xs.length →
    crcReg (s ^^^ d) (xorOnto xs es) = crcReg s xs ^^^ crcReg d es := by
  intro xs
  induction xs with
  | nil => intro es s d h; cases es with
    | nil => simp [crcReg, xorOnto]
    | cons _ _ => simp at h
  | cons x xs ih =>
    intro es s d h
    cases es with
    | nil => simp at h
    | cons e es =>
      simp only [xorOnto, crcReg, List.foldl_cons]
      rw [crcByte_linear]
      exact ih es _ _ (by simpa using h)

/-- **every burst of at most 32 bits inside the covered bytes changes the checksum** — at any position of a message of
    any length: `es` is the error pattern XORed onto the bytes `xs` that follow `pre` -/
theorem crc32_burst (pre xs post es : Bytes) (hlen : es.length = xs.length) (hb : Burst32 es) (hne : ∃ e ∈ es, e ≠ 0) :
    crc32 (pre ++ xorOnto xs es ++ post) ≠ crc32 (pre ++ xs ++ post) := by
  intro heq
  unfold crc32 at heq
  have h1 := xor_right_cancel _ _ _ heq
  simp only [crcReg, List.foldl_append] at h1
  have h2 := crcReg_injective_state post _ _ h1
  have hl := crcReg_linear xs es (List.foldl crcByte 4294967295 pre) 0 hlen
  simp only [UInt32.xor_zero] at hl
  have h3 : crcReg 0 es = 0 := by
    have e1 : crcReg (List.foldl crcByte 4294967295 pre) (xorOnto xs es) = crcReg (List.foldl crcByte 4294967295 pre) xs := h2
    rw [e1] at hl
    have : crcReg 0 es = crcReg (List.foldl crcByte 4294967295 pre) xs ^^^ (crcReg (List.foldl crcByte 4294967295 pre) xs ^^^ crcReg 0 es) := by
      rw [← UInt32.xor_assoc]; simp
    rw [this, ← hl]; simp
  obtain ⟨e, he, hne⟩ := hne
  exact hne (crcReg_burst_zero es hb h3 e he)


/-- `k` little-endian bytes of a number -/
def nle : Nat → Nat → Bytes
  | 0, _ => []
  | k+1, n => UInt8.ofNat (n % 256) :: nle k (n / 256)

theorem nle_length (k n : Nat) : (nle k n).length = k := by
  induction k generalizing n with
  | zero => rfl
  | succ k ih => simp [nle, ih]

theorem leNat_nle (k n : Nat) : leNat (nle k n) = n % 256 ^ k := by
  induction k generalizing n with
  | zero => simp [nle, leNat, Nat.mod_one]
  | succ k ih =>
    simp only [nle, leNat, ih]
    have : (UInt8.ofNat (n % 256)).toNat = n % 256 := by simp [UInt8.toNat_ofNat']
    rw [this, Nat.pow_succ, Nat.mul_comm (256 ^ k) 256, Nat.mod_mul]

/-- the bit-level reading of `Burst32`: any pattern of at most 32 bits `B`, starting at any bit `a` of a byte, laid over
    five bytes, is one -/
theorem burst32_of_bits (B a : Nat) (hB : B < 2 ^ 32) (ha : a < 8) : Burst32 (nle 5 (B * 2 ^ a)) := by
  show Burst32 (UInt8.ofNat (B * 2 ^ a % 256) :: nle 4 (B * 2 ^ a / 256))
  refine ⟨by rw [nle_length]; omega, a, by omega, ?_, ?_⟩
  · have : (UInt8.ofNat (B * 2 ^ a % 256)).toNat = B * 2 ^ a % 256 := by simp [UInt8.toNat_ofNat']
    rw [this]
    have h256 : (256 : Nat) = 2 ^ a * 2 ^ (8 - a) := by rw [← Nat.pow_add, show a + (8 - a) = 8 by omega]
    apply (Nat.dvd_mod_iff (by rw [h256]; exact Nat.dvd_mul_right _ _)).mpr
    exact Nat.dvd_mul_left _ _
  · rw [leNat_nle]
    apply Nat.lt_of_le_of_lt (Nat.mod_le _ _)
    apply Nat.div_lt_of_lt_mul
    have : 256 * 2 ^ (24 + a) = 2 ^ 32 * 2 ^ a := by
      rw [show (256 : Nat) = 2 ^ 8 by decide, ← Nat.pow_add, ← Nat.pow_add]; congr 1; omega
    rw [this]
    exact Nat.mul_lt_mul_of_pos_right hB (Nat.two_pow_pos a)

end Kafka
