import KafkaModel.Algo.Crc32
/-! GF(2)-linearity and injectivity of the CRC-32 register step; consequences for error detection. Core Lean only. -/
namespace Kafka

theorem and_one_xor (s t : UInt32) : (s ^^^ t) &&& 1 = (s &&& 1) ^^^ (t &&& 1) := by
  apply UInt32.toBitVec_inj.1
  simp only [UInt32.toBitVec_and, UInt32.toBitVec_xor]
  ext i hi
  simp [Bool.and_xor_distrib_right]

theorem shr_xor (s t : UInt32) : (s ^^^ t) >>> 1 = (s >>> 1) ^^^ (t >>> 1) := by
  apply UInt32.toBitVec_inj.1
  simp [BitVec.ushiftRight_xor_distrib]

theorem and_one_cases (s : UInt32) : s &&& 1 = 0 ∨ s &&& 1 = 1 := by
  have h : (s &&& 1).toNat = s.toNat % 2 := by simp [UInt32.toNat_and]
  rcases Nat.mod_two_eq_zero_or_one s.toNat with h0 | h1
  · left; apply UInt32.toNat_inj.mp; rw [h, h0]; rfl
  · right; apply UInt32.toNat_inj.mp; rw [h, h1]; rfl

/-- the register step is linear over GF(2) -/
theorem crcBit_linear (s t : UInt32) : crcBit (s ^^^ t) = crcBit s ^^^ crcBit t := by
  unfold crcBit
  rw [and_one_xor, shr_xor]
  rcases and_one_cases s with hs | hs <;> rcases and_one_cases t with ht | ht <;> simp [hs, ht]
  · ac_rfl
  · ac_rfl
  · have : s >>> 1 ^^^ crcPoly ^^^ (t >>> 1 ^^^ crcPoly) = s >>> 1 ^^^ t >>> 1 ^^^ (crcPoly ^^^ crcPoly) := by ac_rfl
    rw [this]; simp

theorem crcBit_zero : crcBit 0 = 0 := by decide

theorem shr_lt (d : UInt32) : (d >>> 1).toNat < 2147483648 := by
  have : (d >>> 1).toNat = d.toNat / 2 := by simp [UInt32.toNat_shiftRight, Nat.shiftRight_eq_div_pow]
  have := d.toNat_lt
  omega

/-- only the zero difference is mapped to zero (the polynomial's top coefficient is set) -/
theorem crcBit_kernel (d : UInt32) (h : crcBit d = 0) : d = 0 := by
  unfold crcBit at h
  rcases and_one_cases d with h0 | h1
  · simp [h0] at h
    have hm : (d &&& 1).toNat = d.toNat % 2 := by simp [UInt32.toNat_and]
    have hs : (d >>> 1).toNat = d.toNat / 2 := by simp [UInt32.toNat_shiftRight, Nat.shiftRight_eq_div_pow]
    rw [h0] at hm; rw [h] at hs
    apply UInt32.toNat_inj.mp
    simp at hm hs
    show d.toNat = 0
    omega
  · simp [h1] at h
    -- (d >>> 1) ^^^ P = 0 forces d >>> 1 = P, impossible: P ≥ 2³¹
    have : d >>> 1 = crcPoly := by
      have : d >>> 1 = (d >>> 1) ^^^ crcPoly ^^^ crcPoly := by
        rw [UInt32.xor_assoc]; simp
      rw [this, h]; simp
    have hl := shr_lt d
    rw [this] at hl
    exact absurd hl (by decide)

theorem crcBit_injective (s t : UInt32) (h : crcBit s = crcBit t) : s = t := by
  have : crcBit (s ^^^ t) = 0 := by rw [crcBit_linear, h]; simp
  have := crcBit_kernel _ this
  have h2 : s = s ^^^ t ^^^ t := by rw [UInt32.xor_assoc]; simp
  rw [h2, this]; simp

theorem crcBits_injective (n : Nat) : ∀ s t, crcBits n s = crcBits n t → s = t := by
  induction n with
  | zero => intro s t h; exact h
  | succ n ih => intro s t h; exact crcBit_injective _ _ (ih _ _ h)

theorem xor_right_cancel (a b c : UInt32) (h : a ^^^ c = b ^^^ c) : a = b := by
  have : a = a ^^^ c ^^^ c := by rw [UInt32.xor_assoc]; simp
  rw [this, h, UInt32.xor_assoc]; simp

/-- feeding one byte is injective in the register -/
theorem crcByte_injective_state (b : UInt8) (s t : UInt32) (h : crcByte s b = crcByte t b) : s = t :=
  xor_right_cancel _ _ _ (crcBits_injective 8 _ _ h)

theorem toUInt32_injective (x y : UInt8) (h : x.toUInt32 = y.toUInt32) : x = y := by
  apply UInt8.toNat_inj.mp
  have := congrArg UInt32.toNat h
  simpa using this

/-- … and, from one register, in the byte -/
theorem crcByte_injective_byte (s : UInt32) (x y : UInt8) (h : crcByte s x = crcByte s y) : x = y := by
  have := crcBits_injective 8 _ _ h
  have h2 : x.toUInt32 = y.toUInt32 := by
    have e : ∀ (a b : UInt32), s ^^^ a = s ^^^ b → a = b := by
      intro a b hab
      have : a = s ^^^ (s ^^^ a) := by rw [← UInt32.xor_assoc]; simp
      rw [this, hab, ← UInt32.xor_assoc]; simp
    exact e _ _ this
  exact toUInt32_injective x y h2

theorem crcReg_injective_state (bs : Bytes) : ∀ s t, crcReg s bs = crcReg t bs → s = t := by
  induction bs with
  | nil => intro s t h; exact h
  | cons b r ih =>
    intro s t h
    simp only [crcReg, List.foldl_cons] at h
    exact crcByte_injective_state b s t (ih _ _ h)

/-- **a change confined to one covered byte always changes the checksum** — every single-bit flip and every burst that
    stays inside one byte, at any position of a message of any length -/
theorem crc32_one_byte (pre post : Bytes) (x y : UInt8) (h : x ≠ y) :
    crc32 (pre ++ x :: post) ≠ crc32 (pre ++ y :: post) := by
  intro heq
  unfold crc32 at heq
  have h1 := xor_right_cancel _ _ _ heq
  simp only [crcReg, List.foldl_append, List.foldl_cons] at h1
  have h2 := crcReg_injective_state post _ _ h1
  exact h (crcByte_injective_byte _ x y h2)

end Kafka
