import KafkaModel.Lemmas.Spec
import KafkaModel.Model.Responses
/-! Round-trip lemmas for the model's `FromByte` decoders against the specification's encoders. -/
namespace Kafka.Model
open Kafka Kafka.Spec

theorem rI_append (k : Nat) (hk : 0 < k) (x : Int) (hx : inI k x) (r : Bytes) : rI k (encI k x ++ r) = .ok (x, r) := by
  unfold rI
  rw [readI_append k hk x hx r]

theorem rI2_append (x : Int) (hx : inI 2 x) (r : Bytes) : rI 2 (eI16 x ++ r) = .ok (x, r) := rI_append 2 (by decide) x hx r
theorem rI4_append (x : Int) (hx : inI 4 x) (r : Bytes) : rI 4 (eI32 x ++ r) = .ok (x, r) := rI_append 4 (by decide) x hx r
theorem rI8_append (x : Int) (hx : inI 8 x) (r : Bytes) : rI 8 (eI64 x ++ r) = .ok (x, r) := rI_append 8 (by decide) x hx r

/-- a name the broker may send: fits the length field and is valid UTF-8 -/
def nameOK (s : Bytes) : Prop := s.length ≤ 32767 ∧ validUtf8 s = true

theorem rString_append (s : Bytes) (h : nameOK s) (r : Bytes) : rString (eStr s ++ r) = .ok (s, r) := by
  obtain ⟨hl, hu⟩ := h
  unfold rString eStr
  simp only [eI16, List.append_assoc]
  rw [readI_append 2 (by decide) _ (inI_len2 _ hl)]
  by_cases h0 : s.length = 0
  · have : s = [] := List.eq_nil_of_length_eq_zero h0
    subst this; simp
  · have hpos : ¬ ((s.length : Int) ≤ 0) := by omega
    simp only [hpos, if_false, Int.toNat_natCast]
    simp [hu]

/-- a null string (length −1) reads as the empty string -/
theorem rString_null (r : Bytes) : rString (eNStr none ++ r) = .ok ([], r) := by
  unfold rString eNStr
  simp only [eI16]
  rw [readI_append 2 (by decide) (-1) (by decide) r]
  simp

theorem rRep_append {α β} (p : Dec β) (e : α → Bytes) (g : α → β) (xs : List α)
    (h : ∀ x ∈ xs, ∀ r, p (e x ++ r) = .ok (g x, r)) (r : Bytes) :
    rRep p xs.length (xs.flatMap e ++ r) = .ok (xs.map g, r) := by
  induction xs with
  | nil => simp [rRep]
  | cons x xs ih =>
    simp only [List.length_cons, rRep, List.flatMap_cons, List.append_assoc]
    rw [h x (by simp)]
    simp only []
    rw [ih (fun y hy => h y (by simp [hy]))]
    simp

theorem rVec_append {α β} (p : Dec β) (e : α → Bytes) (g : α → β) (xs : List α) (hl : xs.length ≤ 2147483647)
    (h : ∀ x ∈ xs, ∀ r, p (e x ++ r) = .ok (g x, r)) (r : Bytes) :
    rVec p (eArr e xs ++ r) = .ok (xs.map g, r) := by
  unfold rVec eArr
  simp only [eI32, List.append_assoc]
  rw [readI_append 4 (by decide) _ (inI_len4 _ hl)]
  by_cases h0 : xs.length = 0
  · have : xs = [] := List.eq_nil_of_length_eq_zero h0
    subst this; simp
  · have hpos : ¬ ((xs.length : Int) ≤ 0) := by omega
    simp only [hpos, if_false, Int.toNat_natCast]
    exact rRep_append p e g xs h r

/-- a null array (count −1) reads as the empty list -/
theorem rVec_null {β} (p : Dec β) (r : Bytes) : rVec p (eI32 (-1) ++ r) = .ok ([], r) := by
  unfold rVec
  simp only [eI32]
  rw [readI_append 4 (by decide) (-1) (by decide) r]
  simp

end Kafka.Model
