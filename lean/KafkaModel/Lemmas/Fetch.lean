import KafkaModel.Lemmas.Spec
import KafkaModel.Model.Fetch
/-! Lemmas about the model's `ZReader` operations and `next_message` on encoded and on truncated entries. -/
namespace Kafka.Model
open Kafka Kafka.Spec

theorem zI_append (k : Nat) (hk : 0 < k) (x : Int) (hx : inI k x) (r : Bytes) : zI k (encI k x ++ r) = .ok (x, r) := by
  unfold zI; rw [readI_append k hk x hx r]

theorem readN_short (n : Nat) (bs : Bytes) (h : bs.length < n) : readN n bs = none := by
  unfold readN; have : ¬ n ≤ bs.length := by omega
  simp [this]

theorem zI_short (k : Nat) (bs : Bytes) (h : bs.length < k) : zI k bs = .error .eof := by
  unfold zI readI; rw [readN_short k bs h]

theorem zRead_short (n : Nat) (bs : Bytes) (h : bs.length < n) : zRead n bs = .error .eof := by
  unfold zRead; rw [readN_short n bs h]

theorem zRead_append (a r : Bytes) : zRead a.length (a ++ r) = .ok (a, r) := by
  unfold zRead; rw [readN_append]

/-- `read_bytes` on an encoded nullable byte string: null and empty both read as empty -/
theorem zBytes_append (b : Option Bytes) (hb : ∀ x, b = some x → x.length ≤ 2147483647) (r : Bytes) :
    zBytes (eNBytes b ++ r) = .ok (b.getD [], r) := by
  unfold zBytes eNBytes
  cases b with
  | none =>
    simp only [eI32, bind, Except.bind]
    rw [zI_append 4 (by decide) (-1) (by decide)]
    simp [pure, Except.pure]
  | some x =>
    have hx := hb x rfl
    simp only [eBytes, eI32, List.append_assoc, bind, Except.bind]
    rw [zI_append 4 (by decide) _ (inI_len4 _ hx)]
    by_cases h0 : x.length = 0
    · have : x = [] := List.eq_nil_of_length_eq_zero h0
      subst this; simp [pure, Except.pure]
    · have : ¬ ((x.length : Int) ≤ 0) := by omega
      simp only [this, if_false, Int.toNat_natCast]
      rw [zRead_append]; rfl

/-- well-formed message: fields in range, sizes fit -/
def msgOK (m : Msg) : Prop :=
  inI 8 m.offset ∧ inI 1 m.attr ∧ (∀ x, m.key = some x → x.length ≤ 2147483647) ∧ (∀ x, m.value = some x → x.length ≤ 2147483647) ∧
  4 + (msgBody m.attr m.key m.value).length ≤ 2147483647

theorem crcField_len (b : Bytes) : (crcField b).length = 4 := by simp [crcField]

theorem crc_roundtrip (body : Bytes) : wrapI 4 ((crc32 body).toNat : Int) = decI (crcField body) := by
  unfold crcField decI wrapI
  rw [be_length, unbe_be]
  have hlt : (crc32 body).toNat < 256 ^ 4 := by
    have := (crc32 body).toNat_lt; simpa using this
  rw [Nat.mod_eq_of_lt hlt]
  congr 1
  unfold toU
  have : ((crc32 body).toNat : Int) % ((2 ^ (8 * 4) : Nat) : Int) = ((crc32 body).toNat : Int) := by
    apply Int.emod_eq_of_lt <;> simp <;> omega
  rw [this]; simp

/-- **`ProtocolMessage::from_slice` accepts what the specification encodes** (CRC right, magic 0), whatever the flag -/
theorem protoMsg_enc (m : Msg) (h : msgOK m) (validate : Bool) :
    protoMsg validate (crcField (msgBody m.attr m.key m.value) ++ msgBody m.attr m.key m.value) =
      .ok ⟨m.attr, m.key.getD [], m.value.getD [], 0⟩ := by
  obtain ⟨_, ha, hk, hv, _⟩ := h
  unfold protoMsg
  simp only [bind, Except.bind]
  have h4 : zI 4 (crcField (msgBody m.attr m.key m.value) ++ msgBody m.attr m.key m.value) =
      .ok (decI (crcField (msgBody m.attr m.key m.value)), msgBody m.attr m.key m.value) := by
    unfold zI readI
    have := readN_append (crcField (msgBody m.attr m.key m.value)) (msgBody m.attr m.key m.value)
    rw [crcField_len] at this
    rw [this]
  rw [h4]
  simp only []
  have hcrc : ¬ (validate = true ∧ wrapI 4 ((crc32 (msgBody m.attr m.key m.value)).toNat : Int) ≠ decI (crcField (msgBody m.attr m.key m.value))) := by
    rw [crc_roundtrip]; simp
  simp only [hcrc, if_false]
  unfold msgBody
  simp only [eI8, List.append_assoc]
  rw [zI_append 1 (by decide) 0 (by decide)]
  simp only [ne_eq, not_true_eq_false, if_false]
  rw [zI_append 1 (by decide) _ ha]
  simp only []
  rw [zBytes_append _ hk]
  simp only []
  have := zBytes_append m.value hv []
  simp only [List.append_nil] at this
  rw [this]
  rfl

theorem encMsg_split (m : Msg) :
    encMsg m = eI64 m.offset ++ (eI32 (4 + ((msgBody m.attr m.key m.value).length : Int)) ++
      (crcField (msgBody m.attr m.key m.value) ++ msgBody m.attr m.key m.value)) := by
  simp [encMsg, List.append_assoc]

theorem inner_len (m : Msg) : (crcField (msgBody m.attr m.key m.value) ++ msgBody m.attr m.key m.value).length =
    4 + (msgBody m.attr m.key m.value).length := by simp [crcField_len]

/-- **`next_message` on a complete encoded entry** -/
theorem nextMessage_enc (m : Msg) (h : msgOK m) (validate : Bool) (rest : Bytes) :
    nextMessage validate (encMsg m ++ rest) = .ok ((m.offset, ⟨m.attr, m.key.getD [], m.value.getD [], 0⟩), rest) := by
  have ⟨ho, _, _, _, hsz⟩ := h
  unfold nextMessage
  rw [encMsg_split]
  simp only [eI64, eI32, List.append_assoc, bind, Except.bind]
  rw [zI_append 8 (by decide) _ ho]
  simp only []
  unfold zBytes
  simp only [bind, Except.bind]
  have hlen : inI 4 ((4 : Int) + ((msgBody m.attr m.key m.value).length : Int)) := by unfold inI; simp; omega
  rw [zI_append 4 (by decide) _ hlen]
  simp only []
  have hpos : ¬ ((4 : Int) + ((msgBody m.attr m.key m.value).length : Int) ≤ 0) := by omega
  simp only [hpos, if_false]
  have hN : ((4 : Int) + ((msgBody m.attr m.key m.value).length : Int)).toNat =
      (crcField (msgBody m.attr m.key m.value) ++ msgBody m.attr m.key m.value).length := by rw [inner_len]; omega
  rw [hN, ← List.append_assoc (crcField _), zRead_append]
  simp only []
  rw [protoMsg_enc m h validate]
  rfl

/-- **`next_message` on a cut entry**: any proper, non-empty prefix of an encoded entry is "unexpected EOF" — never
    another error, never a partial message -/
theorem nextMessage_trunc (m : Msg) (h : msgOK m) (validate : Bool) (t : Nat) (ht : t < (encMsg m).length) :
    nextMessage validate ((encMsg m).take t) = .error .eof := by
  have ⟨ho, _, _, _, hsz⟩ := h
  unfold nextMessage
  simp only [bind, Except.bind]
  by_cases h8 : t < 8
  · rw [zI_short 8 _ (by simp; omega)]
  · rw [encMsg_split] at ht ⊢
    have hl8 : (eI64 m.offset).length = 8 := by simp [eI64]
    rw [List.take_append, hl8]
    have : (eI64 m.offset).take t = eI64 m.offset := List.take_of_length_le (by omega)
    rw [this]
    simp only [eI64]
    rw [zI_append 8 (by decide) _ ho]
    simp only []
    unfold zBytes
    simp only [bind, Except.bind]
    by_cases h12 : t - 8 < 4
    · rw [zI_short 4 _ (by simp; omega)]
    · have hl4 : (eI32 (4 + ((msgBody m.attr m.key m.value).length : Int))).length = 4 := by simp [eI32]
      rw [List.take_append, hl4]
      have : (eI32 (4 + ((msgBody m.attr m.key m.value).length : Int))).take (t - 8) = eI32 (4 + ((msgBody m.attr m.key m.value).length : Int)) :=
        List.take_of_length_le (by omega)
      rw [this]
      have hlen : inI 4 ((4 : Int) + ((msgBody m.attr m.key m.value).length : Int)) := by unfold inI; simp; omega
      simp only [eI32]
      rw [zI_append 4 (by decide) _ hlen]
      simp only []
      have hpos : ¬ ((4 : Int) + ((msgBody m.attr m.key m.value).length : Int) ≤ 0) := by omega
      simp only [hpos, if_false]
      rw [zRead_short]
      have hin := inner_len m
      have hcl := crcField_len (msgBody m.attr m.key m.value)
      simp only [List.length_append, hl8, hl4] at ht hin
      simp only [List.length_take, List.length_append]
      have : ((4 : Int) + ((msgBody m.attr m.key m.value).length : Int)).toNat = 4 + (msgBody m.attr m.key m.value).length := by omega
      rw [this]
      omega

end Kafka.Model
