import KafkaModel.Model.Client
/-!
  "Returns a value or an error": the outcome of a computation in the model's monad is never `panic` or `diverge`.
  Compositional lemmas for the monad's combinators and for the client's building blocks.
-/
namespace Kafka.Model

def Outcome.fine {α} : Outcome α → Prop
  | .ok _ => True
  | .err _ => True
  | .panic _ => False
  | .diverge => False

/-- every run of `m`, from every state, ends in a value or an error -/
def Safe {ς α} (m : M ς α) : Prop := ∀ s, (m s).2.fine

theorem Safe.not_panic {ς α} {m : M ς α} (h : Safe m) {s s' : ς} {p : String} (hm : m s = (s', .panic p)) : False := by
  have := h s
  rw [hm] at this
  exact this

theorem Safe.not_diverge {ς α} {m : M ς α} (h : Safe m) {s s' : ς} (hm : m s = (s', .diverge)) : False := by
  have := h s
  rw [hm] at this
  exact this

theorem Safe.pure {ς α} (a : α) : Safe (pure a : M ς α) := fun _ => trivial
theorem Safe.fail {ς α} (e : Err) : Safe (M.fail e : M ς α) := fun _ => trivial
theorem Safe.get {ς} : Safe (M.get : M ς ς) := fun _ => trivial
theorem Safe.modify {ς} (f : ς → ς) : Safe (M.modify f) := fun _ => trivial
theorem Safe.ofExcept {ς α} (x : Except Err α) : Safe (M.ofExcept x : M ς α) := by
  cases x <;> intro s <;> trivial

theorem Safe.bind {ς α β} {m : M ς α} {f : α → M ς β} (hm : Safe m) (hf : ∀ a, Safe (f a)) : Safe (m >>= f) := by
  intro s
  rw [M.bind_def]
  have h := hm s
  cases hms : m s with
  | mk s' o =>
    rw [hms] at h
    cases o with
    | ok a => exact hf a s'
    | err e => trivial
    | panic p => exact h
    | diverge => exact h

/-- `M.try` itself always returns; what it returns is fine when the inner computation is safe -/
theorem Safe.try_ok {ς α} {m : M ς α} (hm : Safe m) (s s' : ς) (o : Outcome α) (h : M.try m s = (s', .ok o)) : o.fine := by
  unfold M.try at h
  have := hm s
  cases hms : m s with
  | mk s1 o1 =>
    rw [hms] at h this
    simp at h
    rw [← h.2]
    exact this

/-- inspecting the outcome of a safe computation: only fine outcomes have to be handled safely -/
theorem Safe.try_bind {ς α β} {m : M ς α} {f : Outcome α → M ς β} (hm : Safe m) (hf : ∀ o, o.fine → Safe (f o)) :
    Safe (M.try m >>= f) := by
  intro s
  rw [M.bind_def]
  have h := hm s
  unfold M.try
  cases hms : m s with
  | mk s' o =>
    rw [hms] at h
    exact hf o h s'

theorem Safe.try {ς α} (m : M ς α) : Safe (M.try m) := by
  intro s
  unfold M.try
  cases m s
  trivial

variable {σ : Type}

theorem Safe.getClient : Safe (getClient : CM σ Client) := fun _ => trivial
theorem Safe.nextCorr : Safe (nextCorr : CM σ Int) := fun _ => trivial
theorem Safe.modState (f : ClientState → ClientState) : Safe (modState f : CM σ Unit) := fun _ => trivial

theorem Safe.getConn (env : Env σ) (host : Bytes) : Safe (getConn env host) := by
  intro w
  unfold Kafka.Model.getConn
  split
  · split
    · cases env.connect w.world host with
      | mk wd ok => cases ok <;> trivial
    · trivial
  · cases env.connect w.world host with
    | mk wd ok => cases ok <;> trivial

theorem Safe.sendRequest (env : Env σ) (host : Bytes) (p : Except Err Bytes) : Safe (sendRequest env host p) := by
  intro w
  unfold Kafka.Model.sendRequest
  split
  · trivial
  · cases env.send w.world host _ with
    | mk wd r => cases r <;> trivial

theorem Safe.recvReply (env : Env σ) (host : Bytes) : Safe (recvReply env host) := by
  intro w
  unfold Kafka.Model.recvReply
  cases env.recv w.world host with
  | mk wd r =>
    cases r with
    | ok b => trivial
    | error e => cases e <;> trivial

theorem Safe.decodeWith {α} (d : Dec α) (bs : Bytes) : Safe (decodeWith d bs : CM σ α) := by
  intro w
  unfold Kafka.Model.decodeWith
  cases d bs with
  | ok x => trivial
  | error e => trivial

theorem Safe.sendReceive {α} (env : Env σ) (host : Bytes) (p : Except Err Bytes) (d : Dec α) : Safe (sendReceive env host p d) := by
  unfold Kafka.Model.sendReceive
  exact Safe.bind (Safe.getConn env host) fun _ =>
    Safe.bind (Safe.sendRequest env host p) fun _ =>
      Safe.bind (Safe.recvReply env host) fun b => Safe.decodeWith d b

theorem Safe.forHosts {α β} (env : Env σ) (f : Bytes → α → CM σ β) (hf : ∀ h a, Safe (f h a)) :
    ∀ (fuel : Nat) (reqs : List (Bytes × α)), Safe (forHosts env fuel reqs f) := by
  intro fuel
  induction fuel with
  | zero => intro reqs w; simp [Kafka.Model.forHosts]; trivial
  | succ n ih =>
    intro reqs w
    simp only [Kafka.Model.forHosts]
    split
    · trivial
    · split
      · trivial
      · rename_i h r _
        exact (Safe.bind (hf h r) fun b => Safe.bind (ih _) fun bs => Safe.pure (b :: bs)) w

/-- the retry policy returns when its step does and the fuel covers the attempts that are left -/
theorem Safe.retrying {ς α} (max : Nat) (step : M ς (Verdict α)) (hs : Safe step) :
    ∀ (fuel attempt : Nat), 1 ≤ fuel → max < fuel + attempt → Safe (retrying max step fuel attempt) := by
  intro fuel
  induction fuel with
  | zero => intro attempt h1 _; omega
  | succ n ih =>
    intro attempt _ hlt s
    simp only [Kafka.Model.retrying]
    have h := hs s
    cases hst : step s with
    | mk s' o =>
      rw [hst] at h
      cases o with
      | ok v =>
        cases v with
        | done a => trivial
        | fail e => trivial
        | retry code =>
          simp only []
          split
          · rename_i ham
            exact ih (attempt + 1) (by omega) (by omega) s'
          · trivial
      | err e => trivial
      | panic p => exact h
      | diverge => exact h

end Kafka.Model
