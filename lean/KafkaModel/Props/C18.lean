import KafkaModel.Model.Owner
/-!
  C18 — Fetched message bytes stay valid and unchanged for the life of the response.
  What a proof can carry: an *ownership* invariant of the decoder (Model/Owner.lean).  Under Rust's ownership discipline
  (assumed, not proved) a buffer owned by a live result is neither freed nor written by anything else; so the property
  reduces to "every message of a decoded set points into the buffer being decoded or into a buffer the set owns",
  "every owned buffer is owned once".  That the compiled code keeps what this model says is observed, not proved
  (churn runs; valgrind in the thorough tier).
-/
namespace Kafka.Props.C18
open Kafka Kafka.Model

/-- the invariant: identities are fresh-above-bound, every message tag is the raw buffer or owned, owned has no duplicate -/
def Inv (raw lo : Nat) (s : OSet) : Prop :=
  (∀ x ∈ s.msgs, x.2 = raw ∨ x.2 ∈ s.owned) ∧ s.owned.Nodup ∧ (∀ b ∈ s.owned, lo ≤ b ∧ b < s.next) ∧ lo ≤ s.next

theorem C18_views_owned (cx : Codecs) (debug : Bool) :
    ∀ (depth fuel : Nat) (data : Bytes) (raw next : Nat) (req : Int) (validate : Bool) (acc : List (Message × Nat)) (owned : List Nat) (lo : Nat) (r : OSet),
      raw < lo → lo ≤ next →
      (∀ x ∈ acc, x.2 = raw ∨ x.2 ∈ owned) → owned.Nodup → (∀ b ∈ owned, lo ≤ b ∧ b < next) →
      fromSliceO cx debug depth fuel data raw next req validate acc owned = .ok r →
      Inv raw lo r ∧ next ≤ r.next := by
  intro depth
  induction depth using Nat.strongRecOn with
  | _ depth ihd =>
    intro fuel
    induction fuel with
    | zero =>
      intro data raw next req validate acc owned lo r _ hl ha hn hb h
      simp only [fromSliceO] at h
      cases h
      exact ⟨⟨ha, hn, hb, hl⟩, Nat.le_refl _⟩
    | succ f ihf =>
      intro data raw next req validate acc owned lo r hr hl ha hn hb h
      rw [fromSliceO] at h
      split at h
      · cases h; exact ⟨⟨ha, hn, hb, hl⟩, Nat.le_refl _⟩
      · split at h
        · cases h; exact ⟨⟨ha, hn, hb, hl⟩, Nat.le_refl _⟩
        · cases h
        · rename_i off pm rest _
          split at h
          · apply ihf _ _ _ _ _ _ _ _ _ hr hl _ hn hb h
            intro x hx
            split at hx
            · rcases List.mem_append.mp hx with hx | hx
              · exact ha x hx
              · simp at hx; subst hx; exact Or.inl rfl
            · exact ha x hx
          · split at h
            · cases h
            · rename_i d
              split at h
              · rename_i r' hx; subst h; revert hx
                unfold innerOf
                repeat' split
                all_goals (intro hx; cases hx)
              · rename_i v _
                split at h
                · rename_i inner hin
                  -- the inner set: decoded from the fresh buffer `next`, identities from `next + 1`
                  obtain ⟨⟨hi1, hi2, hi3, hi4⟩, hi5⟩ := ihd d (Nat.lt_succ_self _) (v.length + 1) v next (next + 1) req validate [] [] (next + 1) inner
                    (Nat.lt_succ_self _) (Nat.le_refl _) (by intro x hx; cases hx) List.nodup_nil (by intro b hb'; cases hb') hin
                  have hnext : next < inner.next := by omega
                  obtain ⟨hres, hle⟩ := ihf rest raw inner.next req validate (acc ++ inner.msgs) (owned ++ [next] ++ inner.owned) lo r hr (by omega)
                    (by
                      intro x hx
                      rcases List.mem_append.mp hx with hx | hx
                      · rcases ha x hx with h1 | h1
                        · exact Or.inl h1
                        · exact Or.inr (by simp [h1])
                      · rcases hi1 x hx with h1 | h1
                        · exact Or.inr (by simp [h1])
                        · exact Or.inr (by simp [h1]))
                    (by
                      rw [List.nodup_append]
                      refine ⟨?_, hi2, ?_⟩
                      · rw [List.nodup_append]
                        refine ⟨hn, by simp, ?_⟩
                        intro a ha' b hb' heq
                        simp at hb'; subst hb'; subst heq
                        have := (hb a ha').2; omega
                      · intro a ha' b hb' heq
                        subst heq
                        have h3 := (hi3 a hb').1
                        rcases List.mem_append.mp ha' with h4 | h4
                        · have := (hb a h4).2; omega
                        · simp at h4; omega)
                    (by
                      intro b hb'
                      rcases List.mem_append.mp hb' with h4 | h4
                      · rcases List.mem_append.mp h4 with h5 | h5
                        · have := hb b h5; omega
                        · simp at h5; omega
                      · have := hi3 b h4; omega)
                    h
                  exact ⟨hres, by omega⟩
                · rename_i hne
                  exact absurd h.symm (fun h' => hne r h'.symm)

/-- **top level**: decoding a partition's set (buffer identity 0, fresh identities from 1): every exposed message points
    into the response's own buffer or into a buffer the set keeps alive, and no buffer is kept twice -/
theorem C18_decode (cx : Codecs) (debug : Bool) (depth : Nat) (data : Bytes) (req : Int) (validate : Bool) (r : OSet)
    (h : fromSliceO cx debug depth (data.length + 1) data 0 1 req validate [] [] = .ok r) :
    (∀ x ∈ r.msgs, x.2 = 0 ∨ x.2 ∈ r.owned) ∧ r.owned.Nodup := by
  obtain ⟨⟨h1, h2, _, _⟩, _⟩ := C18_views_owned cx debug depth _ data 0 1 req validate [] [] 1 r (by omega) (Nat.le_refl _)
    (by intro x hx; cases hx) List.nodup_nil (by intro b hb; cases hb) h
  exact ⟨h1, h2⟩

/-! ### non-vacuity: a model of the code *before* the repair (inner owned buffers dropped) violates the invariant -/
example : ¬ ((∀ x ∈ [((⟨0, [], [1]⟩ : Message), 2)], x.2 = 0 ∨ x.2 ∈ [1]) ) := by decide

end Kafka.Props.C18

namespace Kafka.Props.C18
open Kafka Kafka.Model

/-- forget the ownership tags -/
def erase : ORes → SetRes
  | .ok s => .ok (s.msgs.map (·.1))
  | .err e => .err e
  | .panic p => .panic p

def eraseInner : Except ORes Bytes → Except SetRes Bytes
  | .ok v => .ok v
  | .error r => .error (erase r)

/-- the ownership model is the value-level decoder (the one the correspondence check runs against the crate) with tags:
    same messages, same failures, for every input -/
theorem C18_erase (cx : Codecs) (debug : Bool) :
    ∀ (depth fuel : Nat) (data : Bytes) (raw next : Nat) (req : Int) (validate : Bool) (acc : List (Message × Nat)) (owned : List Nat),
      erase (fromSliceO cx debug depth fuel data raw next req validate acc owned)
        = fromSlice cx debug depth fuel data req validate (acc.map (·.1)) := by
  intro depth
  induction depth using Nat.strongRecOn with
  | _ depth ihd =>
    intro fuel
    induction fuel with
    | zero => intro data raw next req validate acc owned; simp [fromSliceO, fromSlice, erase]
    | succ f ihf =>
      intro data raw next req validate acc owned
      rw [fromSliceO, fromSlice]
      cases he : data.isEmpty
      case true => simp [erase]
      case false =>
        simp only [Bool.false_eq_true, if_false]
        cases hnm : nextMessage validate data with
        | error e => cases e <;> simp [erase]
        | ok x =>
          obtain ⟨⟨off, pm⟩, rest⟩ := x
          simp only []
          generalize hcv : toU 1 pm.attr % 8 = c
          by_cases h0 : c = 0
          · simp only [h0, if_true]
            rw [ihf]
            congr 1
            split <;> simp
          · simp only [h0, if_false]
            cases depth with
            | zero => simp [erase]
            | succ d =>
              simp only []
              unfold innerOf
              by_cases h1 : c = 1
              · simp only [h1, if_true]
                cases hg : cx.gunzip pm.value with
                | none => simp [erase]
                | some v =>
                  -- the same nested decode on both sides
                  simp only []
                  have hin := ihd d (Nat.lt_succ_self _) (v.length + 1) v next (next + 1) req validate [] []
                  simp only [List.map_nil] at hin
                  cases hr : fromSliceO cx debug d (v.length + 1) v next (next + 1) req validate [] [] with
                  | ok inner =>
                    rw [hr] at hin
                    simp only [erase] at hin
                    rw [← hin]
                    simp only []
                    rw [ihf]
                    simp
                  | err e =>
                    rw [hr] at hin
                    simp only [erase] at hin
                    rw [← hin]
                    simp [erase]
                  | panic p =>
                    rw [hr] at hin
                    simp only [erase] at hin
                    rw [← hin]
                    simp [erase]
              · simp only [h1, if_false]
                by_cases h2 : c = 2
                · simp only [h2, if_true]
                  cases hv : validateStream pm.value with
                  | error e => simp [erase]
                  | ok s =>
                    simp only []
                    cases hs : snappyChunks (uncompressTo cx) (s.length + 1) s [] with
                    | err => simp [erase]
                    | panic => simp [erase]
                    | ok v =>
                      -- the same nested decode on both sides
                      simp only []
                      have hin := ihd d (Nat.lt_succ_self _) (v.length + 1) v next (next + 1) req validate [] []
                      simp only [List.map_nil] at hin
                      cases hr : fromSliceO cx debug d (v.length + 1) v next (next + 1) req validate [] [] with
                      | ok inner =>
                        rw [hr] at hin
                        simp only [erase] at hin
                        rw [← hin]
                        simp only []
                        rw [ihf]
                        simp
                      | err e =>
                        rw [hr] at hin
                        simp only [erase] at hin
                        rw [← hin]
                        simp [erase]
                      | panic p =>
                        rw [hr] at hin
                        simp only [erase] at hin
                        rw [← hin]
                        simp [erase]
                · simp [h2, erase]
end Kafka.Props.C18

namespace Kafka.Props.C18
open Kafka Kafka.Model

/-- **C18 (ownership form)**: whenever the value-level decoder — the one the correspondence check compares with the crate on
    every generated reply — produces messages, those are the messages of a tagged decode in which every message points into
    the response buffer (identity 0) or into a buffer the set keeps alive, and no buffer is kept twice. -/
theorem C18_values_owned (cx : Codecs) (debug : Bool) (depth : Nat) (data : Bytes) (req : Int) (validate : Bool) (ms : List Message)
    (h : fromSlice cx debug depth (data.length + 1) data req validate [] = .ok ms) :
    ∃ r : OSet, fromSliceO cx debug depth (data.length + 1) data 0 1 req validate [] [] = .ok r ∧ r.msgs.map (·.1) = ms ∧
      (∀ x ∈ r.msgs, x.2 = 0 ∨ x.2 ∈ r.owned) ∧ r.owned.Nodup := by
  have he := C18_erase cx debug depth (data.length + 1) data 0 1 req validate [] []
  simp only [List.map_nil] at he
  rw [h] at he
  cases hr : fromSliceO cx debug depth (data.length + 1) data 0 1 req validate [] [] with
  | ok r =>
    rw [hr] at he
    simp only [erase, SetRes.ok.injEq] at he
    exact ⟨r, rfl, he, C18_decode cx debug depth data req validate r hr⟩
  | err e => rw [hr] at he; simp [erase] at he
  | panic p => rw [hr] at he; simp [erase] at he

end Kafka.Props.C18
