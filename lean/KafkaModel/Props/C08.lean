import KafkaModel.Props.C07
/-!
  C08 — Commit persists last-consumed+1 for changed partitions; restart resumes there.
-/
namespace Kafka.Props.C08
open Kafka Kafka.Model

/-- what `commit_consumed` hands to `commit_offsets`: for exactly the dirty marks, the offset one past the mark -/
def commitArgs (c : Consumer) : List (Bytes × Int × Int) :=
  (c.consumed.filter (·.2.dirty)).map fun (x : TP × Consumed) => (c.topicName x.1.topicRef, x.1.partition, x.2.offset + 1)

theorem assocGet_set_self (m : List (TP × Consumed)) (k : TP) (v : Consumed) : assocGet (assocSet m k v) k = some v := by
  induction m with
  | nil => simp [assocSet, assocGet]
  | cons x xs ih =>
    obtain ⟨k', v'⟩ := x
    by_cases h : k' = k
    · simp [assocSet, assocGet, h]
    · simp only [assocSet, h, if_false]
      simp only [assocGet, List.find?, h, decide_false] at ih ⊢
      exact ih

/-- **marks never move backwards** (and a mark is only ever set on a consumed partition) -/
theorem C08_monotone {σ} (t : Bytes) (p off : Int) (w : WC σ) (tr : Nat) (old : Consumed)
    (htr : topicRef w.cons.assignments t = some tr) (hold : assocGet w.cons.consumed ⟨tr, p⟩ = some old) :
    ∃ new, assocGet (consumeMessage t p off w).1.cons.consumed ⟨tr, p⟩ = some new ∧ old.offset ≤ new.offset ∧
      (new.offset = old.offset ∨ new.offset = off) := by
  unfold consumeMessage
  simp only [M.bind_def, getCons, htr]
  cases hf : assocGet w.cons.fetchOffsets ⟨tr, p⟩ with
  | none => exact ⟨old, by simpa [M.fail] using hold, Int.le_refl _, Or.inl rfl⟩
  | some fs =>
    simp only [Option.isNone_some, Bool.false_eq_true, if_false, hold]
    by_cases hgt : off > old.offset
    · simp only [hgt, if_true, modCons, M.modify]
      exact ⟨⟨off, true⟩, assocGet_set_self _ _ _, by simp; omega, Or.inr rfl⟩
    · simp only [hgt, if_false]
      exact ⟨old, by simpa [M.pure_def] using hold, Int.le_refl _, Or.inl rfl⟩

/-- a higher offset moves the mark there and makes it dirty; a lower or equal one changes nothing at all -/
theorem C08_mark_lower_ignored {σ} (t : Bytes) (p off : Int) (w : WC σ) (tr : Nat) (old : Consumed) (fs : FetchState)
    (htr : topicRef w.cons.assignments t = some tr) (hold : assocGet w.cons.consumed ⟨tr, p⟩ = some old)
    (hf : assocGet w.cons.fetchOffsets ⟨tr, p⟩ = some fs) (hle : off ≤ old.offset) : consumeMessage t p off w = (w, .ok ()) := by
  unfold consumeMessage
  have : ¬ off > old.offset := by omega
  simp [M.bind_def, getCons, htr, hf, hold, this, M.pure_def]

/-- **commit content**: `commit_consumed` commits exactly `commitArgs` — the dirty marks, each as mark + 1 — under the
    consumer's group; without a group it fails before touching the network -/
theorem C08_commit_content {σ} (env : Env σ) (w : WC σ) (hg : w.cons.group ≠ []) :
    (commitConsumed env w).2 = (match (commitOffsets env w.cons.group (commitArgs w.cons) ⟨w.world, w.cons.client⟩).2 with
      | .ok () => .ok ()
      | .err e => .err e
      | .panic s => .panic s
      | .diverge => .diverge) := by
  unfold commitConsumed
  have hne : w.cons.group.isEmpty = false := by cases hh : w.cons.group <;> simp_all
  simp only [M.bind_def, getCons, hne, Bool.false_eq_true, if_false, liftClient, commitArgs]
  cases hco : commitOffsets env w.cons.group
      (List.map (fun (x : TP × Consumed) => (w.cons.topicName x.1.topicRef, x.1.partition, x.2.offset + 1))
        (List.filter (fun x => x.2.dirty) w.cons.consumed)) ⟨w.world, w.cons.client⟩ with
  | mk w' o => cases o <;> simp [modCons, M.modify]

theorem C08_no_group {σ} (env : Env σ) (w : WC σ) (hg : w.cons.group = []) : commitConsumed env w = (w, .err .unsetGroup) := by
  simp [commitConsumed, M.bind_def, getCons, hg, M.fail]

/-- **a failed commit keeps the marks dirty**: they are sent again by the next commit -/
theorem C08_failed_commit_keeps {σ} (env : Env σ) (w : WC σ) (hg : w.cons.group ≠ []) (e : Err) (w' : W σ)
    (hf : commitOffsets env w.cons.group (commitArgs w.cons) ⟨w.world, w.cons.client⟩ = (w', .err e)) :
    (commitConsumed env w).2 = .err e ∧ (commitConsumed env w).1.cons.consumed = w.cons.consumed := by
  unfold commitConsumed
  have hne : w.cons.group.isEmpty = false := by cases hh : w.cons.group <;> simp_all
  unfold commitArgs at hf
  simp only [M.bind_def, getCons, hne, Bool.false_eq_true, if_false, liftClient, hf]
  refine ⟨?_, ?_⟩ <;> simp

/-- **a successful commit clears every dirty flag** (and changes no mark) -/
theorem C08_success_clears {σ} (env : Env σ) (w : WC σ) (hg : w.cons.group ≠ []) (w' : W σ)
    (hf : commitOffsets env w.cons.group (commitArgs w.cons) ⟨w.world, w.cons.client⟩ = (w', .ok ())) :
    (commitConsumed env w).2 = .ok () ∧
    (commitConsumed env w).1.cons.consumed = w.cons.consumed.map (fun x => (x.1, { x.2 with dirty := false })) := by
  unfold commitConsumed
  have hne : w.cons.group.isEmpty = false := by cases hh : w.cons.group <;> simp_all
  unfold commitArgs at hf
  simp only [M.bind_def, getCons, hne, Bool.false_eq_true, if_false, liftClient, hf, modCons, M.modify]
  refine ⟨?_, ?_⟩ <;> simp

/-- nothing changed since the last successful commit: nothing is sent -/
theorem C08_nothing_dirty {σ} (env : Env σ) (group : Bytes) (w : W σ) (storage : Storage) (hs : w.client.cfg.storage = some storage) :
    (commitOffsets env group [] w).2 = .ok () ∧ (commitOffsets env group [] w).1.world = w.world := by
  simp [commitOffsets, M.bind_def, getClient, hs, nextCorr, commitOffsets.build, OffsetCommitRequest.new, M.pure_def]

/-- the API version matches the configured storage: 0 for Zookeeper, 1 for Kafka (commit and fetch alike) -/
theorem C08_versions : Storage.zookeeper.commitVersion = 0 ∧ Storage.kafka.commitVersion = 1 ∧
    Storage.zookeeper.fetchVersion = 0 ∧ Storage.kafka.fetchVersion = 1 := ⟨rfl, rfl, rfl, rfl⟩

/-- **resume**: a stored commit of `mark + 1` that still lies in the partition's range is where a new consumer of the
    group starts — the message after the last consumed one, nothing skipped, nothing before it re-read (with C07) -/
theorem C08_resume (mark e l : Int) (fb : Fallback) (hr : e ≤ mark + 1 ∧ mark + 1 ≤ l) (hne : mark + 1 ≠ -1) :
    startOffset (consumedOf (mark + 1)) e l fb = .ok (mark + 1) := by
  rw [C07.C07_start]
  simp [C07.specStart, C07.committedOf, hne, hr]

/-! ### non-vacuity -/
example : commitArgs ⟨{}, [103], .latest, 0, [([116], [])], [], [], [(⟨0, 0⟩, ⟨4, true⟩), (⟨0, 1⟩, ⟨9, false⟩)]⟩ = [([116], 0, 5)] := by
  simp [commitArgs, Consumer.topicName]

end Kafka.Props.C08
