import KafkaModel.Props.C07
/-!
  C08 — Commit persists last-consumed+1 for changed partitions; restart resumes there.
-/
namespace Kafka.Props.C08
open Kafka Kafka.Model

/-- what `commit_consumed` hands to `commit_offsets`: for exactly the dirty marks, the offset one past the mark -/
def commitArgs (c : Consumer) : List (Bytes × Int × Int) :=
  (c.consumed.filter (·.2.dirty)).map fun (x : TP × Consumed) => (c.topicName x.1.topicRef, x.1.partition, x.2.offset + 1)

theorem assocGet_set_self (m : List (TP × Consumed)) (k : TP) (v : Consumed) : assocGet (assocSet m k v) k = some v := by
  induction m with
  | nil => simp [assocSet, assocGet]
  | cons x xs ih =>
    obtain ⟨k', v'⟩ := x
    by_cases h : k' = k
    · simp [assocSet, assocGet, h]
    · simp only [assocSet, h, if_false]
      simp only [assocGet, List.find?, h, decide_false] at ih ⊢
      exact ih

/-- **marks never move backwards** (and a mark is only ever set on a consumed partition) -/
theorem C08_monotone {σ} (t : Bytes) (p off : Int) (w : WC σ) (tr : Nat) (old : Consumed)
    (htr : topicRef w.cons.assignments t = some tr) (hold : assocGet w.cons.consumed ⟨tr, p⟩ = some old) :
    ∃ new, assocGet (consumeMessage t p off w).1.cons.consumed ⟨tr, p⟩ = some new ∧ old.offset ≤ new.offset ∧
      (new.offset = old.offset ∨ new.offset = off) := by
  unfold consumeMessage
  simp only [M.bind_def, getCons, htr]
  cases hf : assocGet w.cons.fetchOffsets ⟨tr, p⟩ with
  | none => exact ⟨old, by simpa [M.fail] using hold, Int.le_refl _, Or.inl rfl⟩
  | some fs =>
    simp only [Option.isNone_some, Bool.false_eq_true, if_false, hold]
    by_cases hgt : off > old.offset
    · simp only [hgt, if_true, modCons, M.modify]
      exact ⟨⟨off, true⟩, assocGet_set_self _ _ _, by simp; omega, Or.inr rfl⟩
    · simp only [hgt, if_false]
      exact ⟨old, by simpa [M.pure_def] using hold, Int.le_refl _, Or.inl rfl⟩

/-- a higher offset moves the mark there and makes it dirty; a lower or equal one changes nothing at all -/
theorem C08_mark_lower_ignored {σ} (t : Bytes) (p off : Int) (w : WC σ) (tr : Nat) (old : Consumed) (fs : FetchState)
    (htr : topicRef w.cons.assignments t = some tr) (hold : assocGet w.cons.consumed ⟨tr, p⟩ = some old)
    (hf : assocGet w.cons.fetchOffsets ⟨tr, p⟩ = some fs) (hle : off ≤ old.offset) : consumeMessage t p off w = (w, .ok ()) := by
  unfold consumeMessage
  have : ¬ off > old.offset := by omega
  simp [M.bind_def, getCons, htr, hf, hold, this, M.pure_def]

/-- **commit content**: `commit_consumed` commits exactly `commitArgs` — the dirty marks, each as mark + 1 — under the
    consumer's group; without a group it fails before touching the network -/
theorem C08_commit_content {σ} (env : Env σ) (w : WC σ) (hg : w.cons.group ≠ []) :
    (commitConsumed env w).2 = (match (commitOffsets env w.cons.group (commitArgs w.cons) ⟨w.world, w.cons.client⟩).2 with
      | .ok () => .ok ()
      | .err e => .err e
      | .panic s => .panic s
      | .diverge => .diverge) := by
  unfold commitConsumed
  have hne : w.cons.group.isEmpty = false := by cases hh : w.cons.group <;> simp_all
  simp only [M.bind_def, getCons, hne, Bool.false_eq_true, if_false, liftClient, commitArgs]
  cases hco : commitOffsets env w.cons.group
      (List.map (fun (x : TP × Consumed) => (w.cons.topicName x.1.topicRef, x.1.partition, x.2.offset + 1))
        (List.filter (fun x => x.2.dirty) w.cons.consumed)) ⟨w.world, w.cons.client⟩ with
  | mk w' o => cases o <;> simp [modCons, M.modify]

theorem C08_no_group {σ} (env : Env σ) (w : WC σ) (hg : w.cons.group = []) : commitConsumed env w = (w, .err .unsetGroup) := by
  simp [commitConsumed, M.bind_def, getCons, hg, M.fail]

/-- **a failed commit keeps the marks dirty**: they are sent again by the next commit -/
theorem C08_failed_commit_keeps {σ} (env : Env σ) (w : WC σ) (hg : w.cons.group ≠ []) (e : Err) (w' : W σ)
    (hf : commitOffsets env w.cons.group (commitArgs w.cons) ⟨w.world, w.cons.client⟩ = (w', .err e)) :
    (commitConsumed env w).2 = .err e ∧ (commitConsumed env w).1.cons.consumed = w.cons.consumed := by
  unfold commitConsumed
  have hne : w.cons.group.isEmpty = false := by cases hh : w.cons.group <;> simp_all
  unfold commitArgs at hf
  simp only [M.bind_def, getCons, hne, Bool.false_eq_true, if_false, liftClient, hf]
  refine ⟨?_, ?_⟩ <;> simp

/-- **a successful commit clears every dirty flag** (and changes no mark) -/
theorem C08_success_clears {σ} (env : Env σ) (w : WC σ) (hg : w.cons.group ≠ []) (w' : W σ)
    (hf : commitOffsets env w.cons.group (commitArgs w.cons) ⟨w.world, w.cons.client⟩ = (w', .ok ())) :
    (commitConsumed env w).2 = .ok () ∧
    (commitConsumed env w).1.cons.consumed = w.cons.consumed.map (fun x => (x.1, { x.2 with dirty := false })) := by
  unfold commitConsumed
  have hne : w.cons.group.isEmpty = false := by cases hh : w.cons.group <;> simp_all
  unfold commitArgs at hf
  simp only [M.bind_def, getCons, hne, Bool.false_eq_true, if_false, liftClient, hf, modCons, M.modify]
  refine ⟨?_, ?_⟩ <;> simp

/-- nothing changed since the last successful commit: nothing is sent -/
theorem C08_nothing_dirty {σ} (env : Env σ) (group : Bytes) (w : W σ) (storage : Storage) (hs : w.client.cfg.storage = some storage) :
    (commitOffsets env group [] w).2 = .ok () ∧ (commitOffsets env group [] w).1.world = w.world := by
  simp [commitOffsets, M.bind_def, getClient, hs, nextCorr, commitOffsets.build, OffsetCommitRequest.new, M.pure_def]

/-- the API version matches the configured storage: 0 for Zookeeper, 1 for Kafka (commit and fetch alike) -/
theorem C08_versions : Storage.zookeeper.commitVersion = 0 ∧ Storage.kafka.commitVersion = 1 ∧
    Storage.zookeeper.fetchVersion = 0 ∧ Storage.kafka.fetchVersion = 1 := ⟨rfl, rfl, rfl, rfl⟩

/-- **resume**: a stored commit of `mark + 1` that still lies in the partition's range is where a new consumer of the
    group starts — the message after the last consumed one, nothing skipped, nothing before it re-read (with C07) -/
theorem C08_resume (mark e l : Int) (fb : Fallback) (hr : e ≤ mark + 1 ∧ mark + 1 ≤ l) (hne : mark + 1 ≠ -1) :
    startOffset (consumedOf (mark + 1)) e l fb = .ok (mark + 1) := by
  rw [C07.C07_start]
  simp [C07.specStart, C07.committedOf, hne, hr]

/-! ### whole histories of marks and commits against an abstract specification -/

/-- what an application does to the marks, as the consumer sees it -/
inductive Op
  | mark (tp : TP) (off : Int)     -- `consume_message` / `consume_messageset` on a consumed partition
  | commitOk                        -- `commit_consumed` that succeeded
  | commitFailed                    -- `commit_consumed` that failed (error code, lost connection)

/-- the model's side: the association list `consumed` -/
def markStep (m : List (TP × Consumed)) (tp : TP) (off : Int) : List (TP × Consumed) :=
  match assocGet m tp with
  | none => assocSet m tp ⟨off, true⟩
  | some o => if off > o.offset then assocSet m tp ⟨off, true⟩ else m

def clearStep (m : List (TP × Consumed)) : List (TP × Consumed) := m.map fun x => (x.1, { x.2 with dirty := false })

def stepM (m : List (TP × Consumed)) : Op → List (TP × Consumed)
  | .mark tp off => markStep m tp off
  | .commitOk => clearStep m
  | .commitFailed => m

/-- the specification: per partition the highest offset marked so far (if any) and whether it was raised since the last
    commit that succeeded -/
abbrev Spec := TP → Option (Int × Bool)

def stepS (S : Spec) : Op → Spec
  | .mark tp off => fun k => if k = tp then
      (match S tp with
       | none => some (off, true)
       | some (o, d) => if off > o then some (off, true) else some (o, d))
    else S k
  | .commitOk => fun k => (S k).map fun x => (x.1, false)
  | .commitFailed => S

def abs (m : List (TP × Consumed)) : Spec := fun k => (assocGet m k).map fun c => (c.offset, c.dirty)

theorem assocGet_set_other (m : List (TP × Consumed)) (k k' : TP) (v : Consumed) (h : k' ≠ k) :
    assocGet (assocSet m k v) k' = assocGet m k' := by
  induction m with
  | nil => simp [assocSet, assocGet, List.find?, Ne.symm h]
  | cons x xs ih =>
    obtain ⟨a, b⟩ := x
    by_cases ha : a = k
    · subst ha
      simp [assocSet, assocGet, List.find?, Ne.symm h]
    · simp only [assocSet, ha, if_false]
      by_cases hk : a = k'
      · simp [assocGet, List.find?, hk]
      · simp only [assocGet, List.find?, hk, decide_false] at ih ⊢
        exact ih

theorem assocGet_clear (m : List (TP × Consumed)) (k : TP) :
    assocGet (clearStep m) k = (assocGet m k).map fun c => { c with dirty := false } := by
  induction m with
  | nil => rfl
  | cons x xs ih =>
    obtain ⟨a, b⟩ := x
    by_cases ha : a = k
    · simp [clearStep, assocGet, List.find?, ha]
    · simp only [clearStep, List.map_cons, assocGet, List.find?, ha, decide_false] at ih ⊢
      exact ih

/-- **refinement, one step** -/
theorem abs_step (m : List (TP × Consumed)) (op : Op) : abs (stepM m op) = stepS (abs m) op := by
  funext k
  cases op with
  | mark tp off =>
    simp only [stepM, stepS, abs, markStep]
    by_cases hk : k = tp
    · subst hk
      simp only [if_true]
      cases hg : assocGet m k with
      | none => simp [assocGet_set_self]
      | some o =>
        simp only [Option.map_some]
        by_cases hgt : off > o.offset
        · simp [hgt, assocGet_set_self]
        · simp [hgt, hg]
    · simp only [hk, if_false]
      cases hg : assocGet m tp with
      | none => simp only []; rw [assocGet_set_other m tp k _ hk]
      | some o =>
        simp only []
        by_cases hgt : off > o.offset
        · simp only [hgt, if_true]; rw [assocGet_set_other m tp k _ hk]
        · simp [hgt]
  | commitOk =>
    simp only [stepM, stepS, abs, assocGet_clear]
    cases assocGet m k <;> simp
  | commitFailed => rfl

/-- **refinement over every history**: whatever sequence of marks, successful and failed commits an application produces,
    the consumer's `consumed` table stands for exactly what the specification says -/
theorem C08_history (ops : List Op) : ∀ (m : List (TP × Consumed)), abs (ops.foldl stepM m) = ops.foldl stepS (abs m) := by
  induction ops with
  | nil => intro m; rfl
  | cons op r ih => intro m; simp only [List.foldl_cons]; rw [ih, abs_step]

/-- on the specification: **a mark never moves backwards**, over any history -/
theorem spec_monotone (ops : List Op) : ∀ (S : Spec) (k : TP) (o : Int) (d : Bool), S k = some (o, d) →
    ∃ o' d', (ops.foldl stepS S) k = some (o', d') ∧ o ≤ o' := by
  induction ops with
  | nil => intro S k o d h; exact ⟨o, d, h, Int.le_refl _⟩
  | cons op r ih =>
    intro S k o d h
    simp only [List.foldl_cons]
    have h1 : ∃ o1 d1, stepS S op k = some (o1, d1) ∧ o ≤ o1 := by
      cases op with
      | mark tp off =>
        simp only [stepS]
        by_cases hk : k = tp
        · subst hk
          simp only [if_true, h]
          by_cases hgt : off > o
          · exact ⟨off, true, by simp [hgt], by omega⟩
          · exact ⟨o, d, by simp [hgt], Int.le_refl _⟩
        · exact ⟨o, d, by simp [hk, h], Int.le_refl _⟩
      | commitOk => exact ⟨o, false, by simp [stepS, h], Int.le_refl _⟩
      | commitFailed => exact ⟨o, d, h, Int.le_refl _⟩
    obtain ⟨o1, d1, hs, hle⟩ := h1
    obtain ⟨o2, d2, hs2, hle2⟩ := ih (stepS S op) k o1 d1 hs
    exact ⟨o2, d2, hs2, by omega⟩

/-- … and so it is for the consumer's table: **marks never move backwards over any history** -/
theorem C08_history_monotone (ops : List Op) (m : List (TP × Consumed)) (k : TP) (c : Consumed) (h : assocGet m k = some c) :
    ∃ c', assocGet (ops.foldl stepM m) k = some c' ∧ c.offset ≤ c'.offset := by
  have hs : abs m k = some (c.offset, c.dirty) := by simp [abs, h]
  obtain ⟨o', d', h1, hle⟩ := spec_monotone ops (abs m) k c.offset c.dirty hs
  rw [← C08_history] at h1
  simp only [abs] at h1
  cases hg : assocGet (ops.foldl stepM m) k with
  | none => simp [hg] at h1
  | some c' =>
    simp [hg] at h1
    exact ⟨c', rfl, by omega⟩

/-- a mark that the last operations did not raise is clean after a successful commit and stays clean under failed commits and
    lower marks: **a partition whose highest mark did not change is not committed again** -/
theorem spec_clean_after_commit (S : Spec) (k : TP) (o : Int) (d : Bool) (h : S k = some (o, d)) :
    (stepS S .commitOk) k = some (o, false) := by simp [stepS, h]

theorem spec_lower_mark_keeps_clean (S : Spec) (k : TP) (o off : Int) (h : S k = some (o, false)) (hle : off ≤ o) :
    (stepS S (.mark k off)) k = some (o, false) := by
  have : ¬ off > o := by omega
  simp [stepS, h, this]

/-- the model's operations are these steps: `consume_message` on a consumed partition -/
theorem C08_consume_is_step {σ} (t : Bytes) (p off : Int) (w : WC σ) (tr : Nat) (fs : FetchState)
    (htr : topicRef w.cons.assignments t = some tr) (hf : assocGet w.cons.fetchOffsets ⟨tr, p⟩ = some fs) :
    (consumeMessage t p off w).1.cons.consumed = stepM w.cons.consumed (.mark ⟨tr, p⟩ off) ∧ (consumeMessage t p off w).2 = .ok () := by
  unfold consumeMessage stepM markStep
  simp only [M.bind_def, getCons, htr, hf, Option.isNone_some, Bool.false_eq_true, if_false]
  cases hg : assocGet w.cons.consumed ⟨tr, p⟩ with
  | none => simp [modCons, M.modify]
  | some o =>
    by_cases hgt : off > o.offset
    · simp [hgt, modCons, M.modify]
    · simp [hgt, M.pure_def]

-- a history: mark 4, commit, a lower mark, a failed commit, mark 9: the table holds 9, raised since the last good commit
example : (([Op.mark ⟨0, 0⟩ 4, .commitOk, .mark ⟨0, 0⟩ 2, .commitFailed, .mark ⟨0, 0⟩ 9].foldl stepM []) : List (TP × Consumed)) = [(⟨0, 0⟩, ⟨9, true⟩)] := by
  decide

/-! ### non-vacuity -/
example : commitArgs ⟨{}, [103], .latest, 0, [([116], [])], [], [], [(⟨0, 0⟩, ⟨4, true⟩), (⟨0, 1⟩, ⟨9, false⟩)]⟩ = [([116], 0, 5)] := by
  simp [commitArgs, Consumer.topicName]

open Kafka.Props.C07 in
/-- **restart, the whole assignment**: a new consumer of the group - any number of topics and partitions, any shape of the
    coordinator's reply - starts every partition whose stored offset is `mark + 1` (what a commit persists for a mark, see
    `C08_commit_content`) and lies within the partition's current range exactly there: at the first message not yet consumed -/
theorem C08_restart_assignment {σ} (fb : Fallback) (as : List (Bytes × List Int)) (tpos : List (Bytes × List (Int × Int))) (mb : Int)
    (latest earliest : List (Bytes × List (Int × Int))) (tps : List (Bytes × Int)) (w w1 w2 : W σ)
    (consumed : List (TP × Consumed)) (fo : List (TP × FetchState))
    (hnd : (tps.map (keyOf as)).Nodup)
    (h1 : loadState.ins as tpos [] w = (w1, Outcome.ok consumed))
    (h2 : loadState.go2 fb as consumed mb latest earliest tps [] w1 = (w2, Outcome.ok fo))
    (tp : Bytes × Int) (htp : tp ∈ tps) (mark : Int)
    (hrep : reportedCommit as tpos (keyOf as tp) = mark + 1) (hne : mark + 1 ≠ -1)
    (hr : reported earliest tp ≤ mark + 1 ∧ mark + 1 ≤ reported latest tp) :
    assocGet fo (keyOf as tp) = some ⟨mark + 1, mb⟩ := by
  obtain ⟨_, hall⟩ := C07_create fb as tpos mb latest earliest tps w w1 w2 consumed fo hnd h1 h2
  obtain ⟨o, hs, hg⟩ := hall tp htp
  rw [hrep] at hs
  simp only [specStart, committedOf, ne_eq, hne, not_false_eq_true, if_true, hr, and_self, Except.ok.injEq] at hs
  rw [hg, ← hs]
end Kafka.Props.C08
