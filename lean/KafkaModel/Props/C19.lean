import KafkaModel.Model.Consumer
/-!
  C19 — The consumer fetches exactly the assigned partitions, nothing else.
-/
namespace Kafka.Props.C19
open Kafka Kafka.Model

/-! ### resolution of an assignment against the metadata -/

/-- a topic assigned without partitions consumes all partitions the metadata lists -/
theorem C19_all_partitions (st : ClientState) (t : Bytes) (ps : List Nat) (h : assocGet st.topics t = some ps) :
    determinePartitions st t [] = .ok ((List.range ps.length).map fun (i : Nat) => (i : Int)) := by
  simp [determinePartitions, h]

/-- explicit partitions: exactly those, if every one of them exists … -/
theorem C19_explicit_ok (st : ClientState) (t : Bytes) (ps : List Nat) (req : List Int) (h : assocGet st.topics t = some ps)
    (hne : req ≠ []) (hall : ∀ p ∈ req, 0 ≤ p ∧ p.toNat < ps.length) : determinePartitions st t req = .ok req := by
  have hall' : req.all (fun p => (partIdx ps p).isSome) = true := by
    rw [List.all_eq_true]
    intro p hp
    obtain ⟨h0, h1⟩ := hall p hp
    have : ¬ p < 0 := by omega
    simp [partIdx, this, h1]
  have : req.isEmpty = false := by cases req <;> simp_all
  simp [determinePartitions, h, this, hall']

/-- … and creation fails with unknown-topic-or-partition if any does not -/
theorem C19_explicit_unknown_partition (st : ClientState) (t : Bytes) (ps : List Nat) (req : List Int) (p : Int)
    (h : assocGet st.topics t = some ps) (hp : p ∈ req) (hbad : p < 0 ∨ p.toNat ≥ ps.length) :
    determinePartitions st t req = .error (.kafka 3) := by
  have hne : req.isEmpty = false := by cases req <;> simp_all
  have : req.all (fun p => (partIdx ps p).isSome) = false := by
    rw [List.all_eq_false]
    refine ⟨p, hp, ?_⟩
    unfold partIdx
    rcases hbad with h1 | h1
    · simp [h1]
    · have : ¬ p < 0 ∨ p < 0 := by omega
      by_cases h2 : p < 0
      · simp [h2]
      · simp [h2]; omega
  simp [determinePartitions, h, hne, this]

theorem C19_unknown_topic (st : ClientState) (t : Bytes) (req : List Int) (h : assocGet st.topics t = none) :
    determinePartitions st t req = .error (.kafka 3) := by
  simp [determinePartitions, h]

/-- nothing assigned: creation fails with no-topics-assigned before anything else happens -/
theorem C19_no_topics {σ} (env : Env σ) (b : ConsumerBuilder) (h : assignMap b.assignOps = []) (w : σ) :
    b.create env w = (w, .err .noTopics) := by
  simp [ConsumerBuilder.create, h]

/-- a later assignment call for the same topic overrides the earlier one -/
theorem C19_later_call_wins (ops : List AssignOp) (t : Bytes) (ps : List Int) :
    assocGet (assignMap (ops ++ [.topicPartitions t ps])) t = some ps := by
  have key : ∀ (m : List (Bytes × List Int)), assocGet (assocSet m t ps) t = some ps := by
    intro m
    induction m with
    | nil => simp [assocSet, assocGet]
    | cons x xs ih =>
      obtain ⟨k, v⟩ := x
      by_cases hk : k = t
      · simp [assocSet, assocGet, hk]
      · simp only [assocSet, hk, if_false]
        simp only [assocGet, List.find?, hk, decide_false] at ih ⊢
        exact ih
  unfold assignMap
  rw [List.foldl_append]
  simp only [List.foldl_cons, List.foldl_nil]
  exact key _

/-! ### the sorted table and its binary search -/

/-- the search only ever answers with an index holding the asked topic -/
theorem bsearch_sound (xs : Array (Bytes × List Int)) (t : Bytes) :
    ∀ (fuel lo hi i : Nat), hi ≤ xs.size → bsearch xs t fuel lo hi = some i → i < xs.size ∧ (xs[i]!).1 = t := by
  intro fuel
  induction fuel with
  | zero => intro lo hi i _ h; simp [bsearch] at h
  | succ f ih =>
    intro lo hi i hhi h
    simp only [bsearch] at h
    split at h
    · simp at h
    · rename_i hlt
      split at h
      · rename_i heq
        simp at h
        subst h
        constructor
        · omega
        · exact heq
      · split at h
        · exact ih _ _ _ hhi h
        · exact ih _ _ _ (by omega) h

/-- **look-up soundness**: `topic_ref(t) = Some(i)` only if entry `i` of the table is topic `t` -/
theorem C19_lookup_sound (as : List (Bytes × List Int)) (t : Bytes) (i : Nat) (h : topicRef as t = some i) :
    ∃ e, as[i]? = some e ∧ e.1 = t := by
  unfold topicRef at h
  obtain ⟨h1, h2⟩ := bsearch_sound as.toArray t _ 0 as.length i (by simp) h
  simp at h1
  refine ⟨as[i], by simp [h1], ?_⟩
  simpa [h1] using h2

/-- a topic that is not in the table is not found: marking, seeking and querying it fail / return nothing -/
theorem C19_lookup_absent (as : List (Bytes × List Int)) (t : Bytes) (h : ∀ e ∈ as, e.1 ≠ t) : topicRef as t = none := by
  cases hr : topicRef as t with
  | none => rfl
  | some i =>
    obtain ⟨e, he, het⟩ := C19_lookup_sound as t i hr
    exact absurd het (h e (List.mem_of_getElem? he))

/-! ### foreign topic-partitions -/

/-- seeking a topic-partition the consumer does not consume fails and changes nothing -/
theorem C19_seek_foreign {σ} (t : Bytes) (p off : Int) (w : WC σ)
    (h : ∀ tr, topicRef w.cons.assignments t = some tr → assocGet w.cons.fetchOffsets ⟨tr, p⟩ = none) :
    (∃ e, (seek t p off w).2 = .err e) ∧ (seek t p off w).1 = w := by
  unfold seek
  simp only [M.bind_def, getCons]
  cases hr : topicRef w.cons.assignments t with
  | none => exact ⟨⟨_, rfl⟩, rfl⟩
  | some tr =>
    simp only [h tr hr]
    exact ⟨⟨_, rfl⟩, rfl⟩

/-- marking a message of a topic-partition the consumer does not consume fails and changes nothing -/
theorem C19_consume_foreign {σ} (t : Bytes) (p off : Int) (w : WC σ)
    (h : ∀ tr, topicRef w.cons.assignments t = some tr → assocGet w.cons.fetchOffsets ⟨tr, p⟩ = none) :
    (consumeMessage t p off w).2 = .err (.kafka 3) ∧ (consumeMessage t p off w).1 = w := by
  unfold consumeMessage
  simp only [M.bind_def, getCons]
  cases hr : topicRef w.cons.assignments t with
  | none => exact ⟨rfl, rfl⟩
  | some tr =>
    simp only [h tr hr]
    exact ⟨rfl, rfl⟩

/-- querying a topic that is not assigned returns nothing -/
theorem C19_last_consumed_foreign (c : Consumer) (t : Bytes) (p : Int) (h : topicRef c.assignments t = none) :
    lastConsumed c t p = none := by
  simp [lastConsumed, h]

theorem assocSet_other {β} (m : List (TP × β)) (k k2 : TP) (v : β) (hne : k2 ≠ k) : assocGet (assocSet m k v) k2 = assocGet m k2 := by
  induction m with
  | nil => simp [assocSet, assocGet, Ne.symm hne]
  | cons x xs ih =>
    obtain ⟨k', v'⟩ := x
    by_cases h : k' = k
    · subst h
      simp [assocSet, assocGet, Ne.symm hne]
    · simp only [assocSet, h, if_false]
      by_cases h2 : k' = k2
      · simp [assocGet, h2]
      · simp only [assocGet, List.find?, h2, decide_false] at ih ⊢
        exact ih

/-- seeking one topic-partition never affects another one's fetch position, nor any mark -/
theorem C19_seek_frame {σ} (t : Bytes) (p off : Int) (w : WC σ) (other : TP)
    (hne : ∀ tr, topicRef w.cons.assignments t = some tr → other ≠ ⟨tr, p⟩) :
    assocGet (seek t p off w).1.cons.fetchOffsets other = assocGet w.cons.fetchOffsets other ∧
    (seek t p off w).1.cons.consumed = w.cons.consumed := by
  unfold seek
  simp only [M.bind_def, getCons]
  cases hr : topicRef w.cons.assignments t with
  | none => exact ⟨rfl, rfl⟩
  | some tr =>
    simp only []
    cases hf : assocGet w.cons.fetchOffsets ⟨tr, p⟩ with
    | none => exact ⟨rfl, rfl⟩
    | some fs =>
      simp only [modCons, M.modify]
      refine ⟨assocSet_other _ _ _ _ (hne tr hr), ?_⟩
      simp

/-! ### non-vacuity -/
example : topicRef (assignmentsFromMap [([116, 98], [2, 0, 2]), ([116], []), ([84], [1])]) [116] = some 1 := by decide
example : assignmentsFromMap [([116, 98], [2, 0, 2]), ([116], []), ([84], [1])] = [([84], [1]), ([116], []), ([116, 98], [0, 2])] := by decide

end Kafka.Props.C19
