import KafkaModel.Model.Consumer
/-!
  C19 — The consumer fetches exactly the assigned partitions, nothing else.
-/
namespace Kafka.Props.C19
open Kafka Kafka.Model

/-! ### resolution of an assignment against the metadata -/

/-- a topic assigned without partitions consumes all partitions the metadata lists -/
theorem C19_all_partitions (st : ClientState) (t : Bytes) (ps : List Nat) (h : assocGet st.topics t = some ps) :
    determinePartitions st t [] = .ok ((List.range ps.length).map fun (i : Nat) => (i : Int)) := by
  simp [determinePartitions, h]

/-- explicit partitions: exactly those, if every one of them exists … -/
theorem C19_explicit_ok (st : ClientState) (t : Bytes) (ps : List Nat) (req : List Int) (h : assocGet st.topics t = some ps)
    (hne : req ≠ []) (hall : ∀ p ∈ req, 0 ≤ p ∧ p.toNat < ps.length) : determinePartitions st t req = .ok req := by
  have hall' : req.all (fun p => (partIdx ps p).isSome) = true := by
    rw [List.all_eq_true]
    intro p hp
    obtain ⟨h0, h1⟩ := hall p hp
    have : ¬ p < 0 := by omega
    simp [partIdx, this, h1]
  have : req.isEmpty = false := by cases req <;> simp_all
  simp [determinePartitions, h, this, hall']

/-- … and creation fails with unknown-topic-or-partition if any does not -/
theorem C19_explicit_unknown_partition (st : ClientState) (t : Bytes) (ps : List Nat) (req : List Int) (p : Int)
    (h : assocGet st.topics t = some ps) (hp : p ∈ req) (hbad : p < 0 ∨ p.toNat ≥ ps.length) :
    determinePartitions st t req = .error (.kafka 3) := by
  have hne : req.isEmpty = false := by cases req <;> simp_all
  have : req.all (fun p => (partIdx ps p).isSome) = false := by
    rw [List.all_eq_false]
    refine ⟨p, hp, ?_⟩
    unfold partIdx
    rcases hbad with h1 | h1
    · simp [h1]
    · have : ¬ p < 0 ∨ p < 0 := by omega
      by_cases h2 : p < 0
      · simp [h2]
      · simp [h2]; omega
  simp [determinePartitions, h, hne, this]

theorem C19_unknown_topic (st : ClientState) (t : Bytes) (req : List Int) (h : assocGet st.topics t = none) :
    determinePartitions st t req = .error (.kafka 3) := by
  simp [determinePartitions, h]

/-- nothing assigned: creation fails with no-topics-assigned before anything else happens -/
theorem C19_no_topics {σ} (env : Env σ) (b : ConsumerBuilder) (h : assignMap b.assignOps = []) (w : σ) :
    b.create env w = (w, .err .noTopics) := by
  simp [ConsumerBuilder.create, h]

/-- a later assignment call for the same topic overrides the earlier one -/
theorem C19_later_call_wins (ops : List AssignOp) (t : Bytes) (ps : List Int) :
    assocGet (assignMap (ops ++ [.topicPartitions t ps])) t = some ps := by
  have key : ∀ (m : List (Bytes × List Int)), assocGet (assocSet m t ps) t = some ps := by
    intro m
    induction m with
    | nil => simp [assocSet, assocGet]
    | cons x xs ih =>
      obtain ⟨k, v⟩ := x
      by_cases hk : k = t
      · simp [assocSet, assocGet, hk]
      · simp only [assocSet, hk, if_false]
        simp only [assocGet, List.find?, hk, decide_false] at ih ⊢
        exact ih
  unfold assignMap
  rw [List.foldl_append]
  simp only [List.foldl_cons, List.foldl_nil]
  exact key _

/-! ### the sorted table and its binary search -/

/-- the search only ever answers with an index holding the asked topic -/
theorem bsearch_sound (xs : Array (Bytes × List Int)) (t : Bytes) :
    ∀ (fuel lo hi i : Nat), hi ≤ xs.size → bsearch xs t fuel lo hi = some i → i < xs.size ∧ (xs[i]!).1 = t := by
  intro fuel
  induction fuel with
  | zero => intro lo hi i _ h; simp [bsearch] at h
  | succ f ih =>
    intro lo hi i hhi h
    simp only [bsearch] at h
    split at h
    · simp at h
    · rename_i hlt
      split at h
      · rename_i heq
        simp at h
        subst h
        constructor
        · omega
        · exact heq
      · split at h
        · exact ih _ _ _ hhi h
        · exact ih _ _ _ (by omega) h

/-- **look-up soundness**: `topic_ref(t) = Some(i)` only if entry `i` of the table is topic `t` -/
theorem C19_lookup_sound (as : List (Bytes × List Int)) (t : Bytes) (i : Nat) (h : topicRef as t = some i) :
    ∃ e, as[i]? = some e ∧ e.1 = t := by
  unfold topicRef at h
  obtain ⟨h1, h2⟩ := bsearch_sound as.toArray t _ 0 as.length i (by simp) h
  simp at h1
  refine ⟨as[i], by simp [h1], ?_⟩
  simpa [h1] using h2

/-- a topic that is not in the table is not found: marking, seeking and querying it fail / return nothing -/
theorem C19_lookup_absent (as : List (Bytes × List Int)) (t : Bytes) (h : ∀ e ∈ as, e.1 ≠ t) : topicRef as t = none := by
  cases hr : topicRef as t with
  | none => rfl
  | some i =>
    obtain ⟨e, he, het⟩ := C19_lookup_sound as t i hr
    exact absurd het (h e (List.mem_of_getElem? he))

/-! ### foreign topic-partitions -/

/-- seeking a topic-partition the consumer does not consume fails and changes nothing -/
theorem C19_seek_foreign {σ} (t : Bytes) (p off : Int) (w : WC σ)
    (h : ∀ tr, topicRef w.cons.assignments t = some tr → assocGet w.cons.fetchOffsets ⟨tr, p⟩ = none) :
    (∃ e, (seek t p off w).2 = .err e) ∧ (seek t p off w).1 = w := by
  unfold seek
  simp only [M.bind_def, getCons]
  cases hr : topicRef w.cons.assignments t with
  | none => exact ⟨⟨_, rfl⟩, rfl⟩
  | some tr =>
    simp only [h tr hr]
    exact ⟨⟨_, rfl⟩, rfl⟩

/-- marking a message of a topic-partition the consumer does not consume fails and changes nothing -/
theorem C19_consume_foreign {σ} (t : Bytes) (p off : Int) (w : WC σ)
    (h : ∀ tr, topicRef w.cons.assignments t = some tr → assocGet w.cons.fetchOffsets ⟨tr, p⟩ = none) :
    (consumeMessage t p off w).2 = .err (.kafka 3) ∧ (consumeMessage t p off w).1 = w := by
  unfold consumeMessage
  simp only [M.bind_def, getCons]
  cases hr : topicRef w.cons.assignments t with
  | none => exact ⟨rfl, rfl⟩
  | some tr =>
    simp only [h tr hr]
    exact ⟨rfl, rfl⟩

/-- querying a topic that is not assigned returns nothing -/
theorem C19_last_consumed_foreign (c : Consumer) (t : Bytes) (p : Int) (h : topicRef c.assignments t = none) :
    lastConsumed c t p = none := by
  simp [lastConsumed, h]

theorem assocSet_other {β} (m : List (TP × β)) (k k2 : TP) (v : β) (hne : k2 ≠ k) : assocGet (assocSet m k v) k2 = assocGet m k2 := by
  induction m with
  | nil => simp [assocSet, assocGet, Ne.symm hne]
  | cons x xs ih =>
    obtain ⟨k', v'⟩ := x
    by_cases h : k' = k
    · subst h
      simp [assocSet, assocGet, Ne.symm hne]
    · simp only [assocSet, h, if_false]
      by_cases h2 : k' = k2
      · simp [assocGet, h2]
      · simp only [assocGet, List.find?, h2, decide_false] at ih ⊢
        exact ih

/-- seeking one topic-partition never affects another one's fetch position, nor any mark -/
theorem C19_seek_frame {σ} (t : Bytes) (p off : Int) (w : WC σ) (other : TP)
    (hne : ∀ tr, topicRef w.cons.assignments t = some tr → other ≠ ⟨tr, p⟩) :
    assocGet (seek t p off w).1.cons.fetchOffsets other = assocGet w.cons.fetchOffsets other ∧
    (seek t p off w).1.cons.consumed = w.cons.consumed := by
  unfold seek
  simp only [M.bind_def, getCons]
  cases hr : topicRef w.cons.assignments t with
  | none => exact ⟨rfl, rfl⟩
  | some tr =>
    simp only []
    cases hf : assocGet w.cons.fetchOffsets ⟨tr, p⟩ with
    | none => exact ⟨rfl, rfl⟩
    | some fs =>
      simp only [modCons, M.modify]
      refine ⟨assocSet_other _ _ _ _ (hne tr hr), ?_⟩
      simp

/-! ### non-vacuity -/
example : topicRef (assignmentsFromMap [([116, 98], [2, 0, 2]), ([116], []), ([84], [1])]) [116] = some 1 := by decide
example : assignmentsFromMap [([116, 98], [2, 0, 2]), ([116], []), ([84], [1])] = [([84], [1]), ([116], []), ([116, 98], [0, 2])] := by decide

end Kafka.Props.C19

/-! ### completeness of the look-up: an assigned topic is always found -/
namespace Kafka.Props.C19
open Kafka Kafka.Model

theorem bytesLt_irrefl : ∀ a : Bytes, bytesLt a a = false := by
  intro a
  induction a with
  | nil => rfl
  | cons x r ih => simp [bytesLt, ih]

theorem bytesLt_trans : ∀ a b c : Bytes, bytesLt a b = true → bytesLt b c = true → bytesLt a c = true := by
  intro a
  induction a with
  | nil =>
    intro b c h1 h2
    cases b with
    | nil => simp [bytesLt] at h1
    | cons y s =>
      cases c with
      | nil => simp [bytesLt] at h2
      | cons z u => simp [bytesLt]
  | cons x r ih =>
    intro b c h1 h2
    cases b with
    | nil => simp [bytesLt] at h1
    | cons y s =>
      cases c with
      | nil => simp [bytesLt] at h2
      | cons z u =>
        simp only [bytesLt] at h1 h2 ⊢
        by_cases hxy : x < y
        · by_cases hyz : y < z
          · have : x < z := UInt8.lt_trans hxy hyz
            simp [this]
          · simp only [hyz, if_false] at h2
            by_cases hzy : z < y
            · simp [hzy] at h2
            · simp only [hzy, if_false] at h2
              have : y = z := UInt8.le_antisymm (UInt8.not_lt.mp hzy) (UInt8.not_lt.mp hyz)
              subst this
              simp [hxy]
        · simp only [hxy, if_false] at h1
          by_cases hyx : y < x
          · simp [hyx] at h1
          · simp only [hyx, if_false] at h1
            have : x = y := UInt8.le_antisymm (UInt8.not_lt.mp hyx) (UInt8.not_lt.mp hxy)
            subst this
            by_cases hxz : x < z
            · simp [hxz]
            · simp only [hxz, if_false] at h2 ⊢
              by_cases hzx : z < x
              · simp [hzx] at h2
              · simp only [hzx, if_false] at h2 ⊢
                exact ih s u h1 h2

theorem bytesLt_total : ∀ a b : Bytes, bytesLt a b = false → a ≠ b → bytesLt b a = true := by
  intro a
  induction a with
  | nil =>
    intro b h hne
    cases b with
    | nil => exact absurd rfl hne
    | cons y s => simp [bytesLt] at h
  | cons x r ih =>
    intro b h hne
    cases b with
    | nil => simp [bytesLt]
    | cons y s =>
      simp only [bytesLt] at h ⊢
      by_cases hxy : x < y
      · simp [hxy] at h
      · simp only [hxy, if_false] at h
        by_cases hyx : y < x
        · simp [hyx]
        · simp only [hyx, if_false] at h ⊢
          have : x = y := UInt8.le_antisymm (UInt8.not_lt.mp hyx) (UInt8.not_lt.mp hxy)
          subst this
          simp only [hxy, if_false]
          exact ih s h (fun heq => hne (by rw [heq]))

/-- the table is strictly ascending by topic -/
def SortedBy (as : List (Bytes × List Int)) : Prop := as.Pairwise fun x y => bytesLt x.1 y.1 = true

/-- **the search finds every entry of a sorted table**: with the window containing index `i` and fuel for its width -/
theorem bsearch_complete (as : List (Bytes × List Int)) (hs : SortedBy as) (t : Bytes) (i : Nat) (hi : i < as.length)
    (ht : (as[i]'hi).1 = t) :
    ∀ (fuel lo hi' : Nat), lo ≤ i → i < hi' → hi' ≤ as.length → hi' - lo < fuel → bsearch as.toArray t fuel lo hi' = some i := by
  have hlt : ∀ a b (ha : a < as.length) (hb : b < as.length), a < b → bytesLt (as[a]'ha).1 (as[b]'hb).1 = true := by
    intro a b ha hb hab
    exact (List.pairwise_iff_getElem.mp hs) a b ha hb hab
  intro fuel
  induction fuel with
  | zero => intro lo hi' _ _ _ h; omega
  | succ f ih =>
    intro lo hi' hlo hhi hle hf
    simp only [bsearch]
    have hnot : ¬ lo ≥ hi' := by omega
    simp only [hnot, if_false]
    have hmid : lo + (hi' - lo) / 2 < as.length := by omega
    have hget : (as.toArray[lo + (hi' - lo) / 2]!) = as[lo + (hi' - lo) / 2]'hmid := by
      simp [hmid]
    simp only [hget]
    by_cases heq : (as[lo + (hi' - lo) / 2]'hmid).1 = t
    · -- equal keys sit at equal indices in a strictly sorted table
      simp only [heq, if_true]
      by_cases h1 : lo + (hi' - lo) / 2 < i
      · have := hlt _ _ hmid hi h1
        rw [heq, ht, bytesLt_irrefl] at this
        cases this
      · by_cases h2 : i < lo + (hi' - lo) / 2
        · have := hlt _ _ hi hmid h2
          rw [heq, ht, bytesLt_irrefl] at this
          cases this
        · congr 1
          omega
    · simp only [heq, if_false]
      by_cases hb : bytesLt (as[lo + (hi' - lo) / 2]'hmid).1 t = true
      · simp only [hb, if_true]
        -- mid's key is below t: i lies right of mid
        have : lo + (hi' - lo) / 2 < i := by
          by_cases h2 : i < lo + (hi' - lo) / 2
          · have h3 := hlt _ _ hi hmid h2
            rw [ht] at h3
            have := bytesLt_trans _ _ _ h3 hb
            rw [bytesLt_irrefl] at this
            cases this
          · have : i ≠ lo + (hi' - lo) / 2 := by
              intro h3
              apply heq
              subst h3
              exact ht
            omega
        exact ih _ _ (by omega) hhi hle (by omega)
      · simp only [hb, Bool.false_eq_true, if_false]
        -- mid's key is above t: i lies left of mid
        have hb' : bytesLt (as[lo + (hi' - lo) / 2]'hmid).1 t = false := by simpa using hb
        have hgt := bytesLt_total _ _ hb' heq
        have : i < lo + (hi' - lo) / 2 := by
          by_cases h2 : lo + (hi' - lo) / 2 < i
          · have h3 := hlt _ _ hmid hi h2
            rw [ht] at h3
            rw [h3] at hb'
            cases hb'
          · have : i ≠ lo + (hi' - lo) / 2 := by
              intro h3
              apply heq
              subst h3
              exact ht
            omega
        exact ih _ _ hlo this (by omega) (by omega)

/-- **look-up completeness**: in a table that is strictly ascending by topic, the entry of an assigned topic is found, at
    its own index (so marking, seeking and fetching an assigned topic never fail for want of the look-up) -/
theorem C19_lookup_complete (as : List (Bytes × List Int)) (hs : SortedBy as) (i : Nat) (hi : i < as.length) :
    topicRef as (as[i]'hi).1 = some i := by
  unfold topicRef
  exact bsearch_complete as hs _ i hi rfl _ 0 as.length (Nat.zero_le _) hi (Nat.le_refl _) (by omega)

theorem insertByTopic_sorted (x : Bytes × List Int) : ∀ (as : List (Bytes × List Int)), SortedBy as →
    (∀ y ∈ as, y.1 ≠ x.1) → SortedBy (insertByTopic x as) ∧ ∀ z ∈ insertByTopic x as, z = x ∨ z ∈ as := by
  intro as
  induction as with
  | nil => intro _ _; simp [insertByTopic, SortedBy]
  | cons y r ih =>
    intro hs hne
    have hs' := (List.pairwise_cons.mp hs).2
    have hy := (List.pairwise_cons.mp hs).1
    simp only [insertByTopic]
    by_cases hle : bytesLe x.1 y.1 = true
    · simp only [hle, if_true]
      -- x ≤ y and x ≠ y: x < y, hence below everything
      have hxy : bytesLt x.1 y.1 = true := by
        unfold bytesLe at hle
        have : bytesLt y.1 x.1 = false := by simpa using hle
        exact bytesLt_total _ _ this (hne y (by simp))
      constructor
      · unfold SortedBy
        rw [List.pairwise_cons]
        refine ⟨?_, hs⟩
        intro z hz
        rcases List.mem_cons.mp hz with rfl | hz
        · exact hxy
        · exact bytesLt_trans _ _ _ hxy (hy z hz)
      · intro z hz
        rcases List.mem_cons.mp hz with rfl | hz
        · exact Or.inl rfl
        · exact Or.inr hz
    · simp only [hle, Bool.false_eq_true, if_false]
      have hyx : bytesLt y.1 x.1 = true := by
        unfold bytesLe at hle
        simpa using hle
      obtain ⟨h1, h2⟩ := ih hs' (fun z hz => hne z (by simp [hz]))
      constructor
      · unfold SortedBy
        rw [List.pairwise_cons]
        refine ⟨?_, h1⟩
        intro z hz
        rcases h2 z hz with rfl | hz
        · exact hyx
        · exact hy z hz
      · intro z hz
        rcases List.mem_cons.mp hz with rfl | hz
        · exact Or.inr (by simp)
        · rcases h2 z hz with h | h
          · exact Or.inl h
          · exact Or.inr (by simp [h])

/-- the table built from an assignment map with distinct topics is strictly ascending -/
theorem assignmentsFromMap_sorted : ∀ (m : List (Bytes × List Int)), (m.map (·.1)).Nodup →
    SortedBy (assignmentsFromMap m) ∧ ∀ z ∈ assignmentsFromMap m, z.1 ∈ m.map (·.1) := by
  intro m
  induction m with
  | nil => intro _; simp [assignmentsFromMap, SortedBy]
  | cons x r ih =>
    intro hnd
    obtain ⟨t, ps⟩ := x
    simp only [List.map_cons, List.nodup_cons] at hnd
    obtain ⟨h1, h2⟩ := ih hnd.2
    unfold assignmentsFromMap at h1 h2 ⊢
    simp only [List.map_cons, List.foldr_cons]
    obtain ⟨h3, h4⟩ := insertByTopic_sorted (t, dedupAdj (sortInts ps)) _ h1 (by
      intro y hy heq
      have := h2 y hy
      simp only [] at heq
      rw [heq] at this
      exact hnd.1 this)
    refine ⟨h3, ?_⟩
    intro z hz
    rcases h4 z hz with rfl | hz'
    · simp
    · have := h2 z hz'
      simp at this ⊢
      exact Or.inr this

end Kafka.Props.C19

namespace Kafka.Props.C19
open Kafka Kafka.Model

/-- **the consumer's table is searchable**: built from an assignment map with distinct topics (what `assignMap` produces:
    one entry per topic, the later call winning), the table is strictly ascending — so every assigned topic is found -/
theorem C19_table_sorted (m : List (Bytes × List Int)) (h : (m.map (·.1)).Nodup) (i : Nat) (hi : i < (assignmentsFromMap m).length) :
    topicRef (assignmentsFromMap m) ((assignmentsFromMap m)[i]'hi).1 = some i :=
  C19_lookup_complete _ (assignmentsFromMap_sorted m h).1 i hi

/-! ## the consumed set never changes after creation -/

variable {σ : Type}

/-- the consumed set as the consumer holds it: the keys of its fetch-state table, and the assignment table they index -/
def Same (c c' : Consumer) : Prop :=
  c'.fetchOffsets.map (·.1) = c.fetchOffsets.map (·.1) ∧ c'.assignments = c.assignments

theorem Same.refl (c : Consumer) : Same c c := ⟨rfl, rfl⟩
theorem Same.trans {a b c : Consumer} (h1 : Same a b) (h2 : Same b c) : Same a c :=
  ⟨h2.1.trans h1.1, h2.2.trans h1.2⟩

theorem assocSet_keys {α β} [DecidableEq α] (m : List (α × β)) (k : α) (v : β) (h : (assocGet m k).isSome) :
    (assocSet m k v).map (·.1) = m.map (·.1) := by
  induction m with
  | nil => simp [assocGet] at h
  | cons x xs ih =>
    obtain ⟨k', v'⟩ := x
    by_cases hk : k' = k
    · simp [assocSet, hk]
    · simp only [assocSet, hk, if_false, List.map_cons]
      have : (assocGet xs k).isSome := by
        simpa [assocGet, List.find?, hk] using h
      rw [ih this]

theorem processPartition_same (nm : Int) (nq : Nat) (single : Bool) (c c' : Consumer) (tr : Nat) (p : FetchPartition) (got : Bool)
    (h : processPartition nm nq single c tr p = (.ok c', got)) : Same c c' := by
  unfold processPartition at h
  cases hd : p.data with
  | error code => rw [hd] at h; simp at h
  | ok v =>
    obtain ⟨hw, msgs⟩ := v
    rw [hd] at h
    simp only [] at h
    cases hfs : assocGet c.fetchOffsets ⟨tr, p.partition⟩ with
    | none => rw [hfs] at h; simp at h
    | some fs =>
      rw [hfs] at h
      simp only [] at h
      have hs : (assocGet c.fetchOffsets ⟨tr, p.partition⟩).isSome := by simp [hfs]
      cases hl : msgs.getLast? with
      | some last =>
        rw [hl] at h
        simp only [Prod.mk.injEq, Outcome.ok.injEq] at h
        rw [← h.1]; exact ⟨assocSet_keys _ _ _ hs, rfl⟩
      | none =>
        rw [hl] at h
        simp only [] at h
        by_cases h1 : fs.offset < hw
        · simp only [h1, if_true] at h
          by_cases h2 : fs.maxBytes < c.retryLimit
          · simp only [h2, if_true, Prod.mk.injEq, Outcome.ok.injEq] at h
            rw [← h.1]
            split <;> exact ⟨assocSet_keys _ _ _ hs, rfl⟩
          · simp only [h2, if_false] at h
            by_cases h3 : nq = 1
            · simp [h3] at h
            · simp only [h3, if_false, Prod.mk.injEq, Outcome.ok.injEq] at h
              rw [← h.1]; split <;> exact Same.refl c
        · simp only [h1, if_false, Prod.mk.injEq, Outcome.ok.injEq] at h
          rw [← h.1]; exact Same.refl c

theorem processAll_same (nm : Int) (nq : Nat) (single : Bool) :
    ∀ (parts : List (Bytes × FetchPartition)) (c c' : Consumer) (ne ne' : Bool),
      processAll nm nq single parts c ne = (.ok c', ne') → Same c c' := by
  intro parts
  induction parts with
  | nil => intro c c' ne ne' h; simp only [processAll, Prod.mk.injEq, Outcome.ok.injEq] at h; rw [← h.1]; exact Same.refl c
  | cons x r ih =>
    intro c c' ne ne' h
    obtain ⟨t, p⟩ := x
    simp only [processAll] at h
    cases htr : topicRef c.assignments t with
    | none => rw [htr] at h; simp at h
    | some tr =>
      rw [htr] at h
      simp only [] at h
      rcases hp : processPartition nm nq single c tr p with ⟨o, got⟩
      rw [hp] at h
      cases o with
      | ok c1 => exact Same.trans (processPartition_same nm nq single c c1 tr p got hp) (ih _ _ _ _ h)
      | err e => simp at h
      | panic s => simp at h
      | diverge => simp at h

theorem processAllReached_same (nm : Int) (nq : Nat) (single : Bool) :
    ∀ (parts : List (Bytes × FetchPartition)) (c : Consumer), Same c (processAllReached nm nq single parts c) := by
  intro parts
  induction parts with
  | nil => intro c; exact Same.refl c
  | cons x r ih =>
    intro c
    obtain ⟨t, p⟩ := x
    simp only [processAllReached]
    cases htr : topicRef c.assignments t with
    | none => exact Same.refl c
    | some tr =>
      simp only []
      rcases hp : processPartition nm nq single c tr p with ⟨o, got⟩
      cases o with
      | ok c1 => exact Same.trans (processPartition_same nm nq single c c1 tr p got hp) (ih c1)
      | err e => exact Same.refl c
      | panic s => exact Same.refl c
      | diverge => exact Same.refl c

/-- whatever the brokers answered: the book-keeping of a poll leaves the consumed set alone -/
theorem processResponses_same (nq : Nat) (resps : List FetchResponse) (w : WC σ) :
    Same w.cons (processResponses nq resps w).1.cons := by
  unfold processResponses
  simp only []
  split
  · exact Same.refl _
  · split
    · rename_i c' ne h; exact processAll_same _ _ _ _ _ _ _ _ h
    · exact processAllReached_same _ _ _ _ _
    · exact Same.refl _
    · exact Same.refl _

/-- a consumer operation that leaves the consumed set alone, whatever the world does -/
def Keeps {α} (m : CoM σ α) : Prop := ∀ w, Same w.cons (m w).1.cons

theorem keeps_bind {α β} (m : CoM σ α) (f : α → CoM σ β) (hm : Keeps m) (hf : ∀ a, Keeps (f a)) : Keeps (m >>= f) := by
  intro w
  rw [M.bind_def]
  have h1 := hm w
  rcases hmw : m w with ⟨s', o⟩
  rw [hmw] at h1
  cases o with
  | ok a => exact Same.trans h1 (hf a s')
  | err e => exact h1
  | panic p => exact h1
  | diverge => exact h1

theorem keeps_pure {α} (a : α) : Keeps (pure a : CoM σ α) := fun _ => Same.refl _
theorem keeps_fail {α} (e : Err) : Keeps (M.fail e : CoM σ α) := fun _ => Same.refl _
theorem keeps_getCons : Keeps (getCons : CoM σ Consumer) := fun _ => Same.refl _
theorem keeps_lift {α} (m : CM σ α) : Keeps (liftClient m) := fun _ => ⟨rfl, rfl⟩
theorem keeps_mod (f : Consumer → Consumer) (hf : ∀ c, Same c (f c)) : Keeps (modCons f : CoM σ Unit) := fun w => hf w.cons
theorem keeps_process (nq : Nat) (resps : List FetchResponse) : Keeps (processResponses nq resps : CoM σ PollResult) :=
  fun w => processResponses_same nq resps w

/-- **poll** fetches and book-keeps; the consumed set is what it was -/
theorem C19_poll_keeps (env : Env σ) : Keeps (poll env) := by
  unfold poll
  refine keeps_bind _ _ keeps_getCons fun c => ?_
  split
  · refine keeps_bind _ _ (keeps_mod _ fun c => ⟨rfl, rfl⟩) fun _ => ?_
    split
    · exact keeps_fail _
    · exact keeps_bind _ _ (keeps_lift _) fun r => keeps_process _ _
  · exact keeps_bind _ _ (keeps_lift _) fun r => keeps_process _ _

theorem C19_seek_keeps (t : Bytes) (p off : Int) : Keeps (seek t p off : CoM σ Unit) := by
  intro w
  unfold seek
  rw [M.bind_def]
  simp only [getCons]
  cases htr : topicRef w.cons.assignments t with
  | none => exact Same.refl _
  | some tr =>
    simp only []
    cases hfs : assocGet w.cons.fetchOffsets ⟨tr, p⟩ with
    | none => exact Same.refl _
    | some fs =>
      simp only [modCons, M.modify]
      exact ⟨assocSet_keys _ _ _ (by simp [hfs]), rfl⟩

theorem C19_consume_keeps (t : Bytes) (p off : Int) : Keeps (consumeMessage t p off : CoM σ Unit) := by
  unfold consumeMessage
  refine keeps_bind _ _ keeps_getCons fun c => ?_
  split
  · exact keeps_fail _
  · simp only []
    split
    · exact keeps_fail _
    · split
      · exact keeps_mod _ fun c => ⟨rfl, rfl⟩
      · split
        · exact keeps_mod _ fun c => ⟨rfl, rfl⟩
        · exact keeps_pure _

theorem C19_commit_keeps (env : Env σ) : Keeps (commitConsumed env) := by
  unfold commitConsumed
  refine keeps_bind _ _ keeps_getCons fun c => ?_
  split
  · exact keeps_fail _
  · exact keeps_bind _ _ (keeps_lift _) fun _ => keeps_mod _ fun c => ⟨rfl, rfl⟩

/-- the operations of a consumer's life -/
inductive COp
  | poll | seek (t : Bytes) (p off : Int) | consume (t : Bytes) (p off : Int) | commit

def runOp (env : Env σ) (w : WC σ) : COp → WC σ
  | .poll => (poll env w).1
  | .seek t p off => (seek t p off w).1
  | .consume t p off => (consumeMessage t p off w).1
  | .commit => (commitConsumed env w).1

/-- **nothing else, ever**: after any history of polls, seeks, consumed marks and commits - whatever the brokers answer,
    whichever calls fail - the consumer's fetch-state table has exactly the keys it was created with, in the same order,
    over the same assignment table; every poll's Fetch request is built from that table -/
theorem C19_history (env : Env σ) (ops : List COp) (w : WC σ) : Same w.cons (ops.foldl (runOp env) w).cons := by
  induction ops generalizing w with
  | nil => exact Same.refl _
  | cons op r ih =>
    refine Same.trans ?_ (ih (runOp env w op))
    cases op with
    | poll => exact C19_poll_keeps env w
    | seek t p off => exact C19_seek_keeps t p off w
    | consume t p off => exact C19_consume_keeps t p off w
    | commit => exact C19_commit_keeps env w
/-- what `subscriptions()` reports is a function of the key list and the assignment table alone … -/
theorem subscriptions_of_keys (c : Consumer) :
    subscriptions c = (c.fetchOffsets.map (·.1)).foldl
      (fun m tp => upsert m ((c.assignments[tp.topicRef]?.map (·.1)).getD []) [] (· ++ [tp.partition])) [] := by
  unfold subscriptions Consumer.topicName
  rw [List.foldl_map]

/-- … so it is the same after any history of operations: **the reported subscriptions never change** -/
theorem C19_subscriptions_stable (env : Env σ) (ops : List COp) (w : WC σ) :
    subscriptions (ops.foldl (runOp env) w).cons = subscriptions w.cons := by
  obtain ⟨hk, ha⟩ := C19_history env ops w
  rw [subscriptions_of_keys, subscriptions_of_keys, hk, ha]

/-- a regular poll asks for exactly the table's entries: one Fetch argument per key, in table order, with the key's own offset
    and size (a retry poll asks for the one queued key, if it is in the table, and for nothing otherwise) -/
theorem C19_poll_asks_table (env : Env σ) (w : WC σ) (h : w.cons.retry = []) :
    poll env w = ((liftClient (fetchMessages env (w.cons.fetchOffsets.map fun x =>
        (⟨w.cons.topicName x.1.topicRef, x.1.partition, x.2.offset, x.2.maxBytes⟩ : FetchArg)))) >>=
      fun resps => processResponses w.cons.fetchOffsets.length resps) w := by
  unfold poll
  rw [M.bind_def]
  simp only [getCons, h]

theorem C19_retry_poll_asks_one (env : Env σ) (w : WC σ) (tp : TP) (rest : List TP) (h : w.cons.retry = tp :: rest)
    (hk : assocGet w.cons.fetchOffsets tp = none) :
    (poll env w).2 = .err (.kafka 3) := by
  unfold poll
  rw [M.bind_def]
  simp only [getCons, h]
  rw [M.bind_def]
  simp [modCons, M.modify, hk, M.fail]
end Kafka.Props.C19
