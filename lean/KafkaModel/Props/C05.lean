import KafkaModel.Model.Producer
import KafkaModel.Props.C20
/-!
  C05 — Produce sends each record exactly once to its partition's leader, order kept.
-/
namespace Kafka.Props.C05
open Kafka Kafka.Model

abbrev KV := Option Bytes × Option Bytes
abbrev PartsMap := List (Int × List KV)
abbrev TopicsMap := List (Bytes × PartsMap)

def partRecs (ps : PartsMap) (p : Int) : List KV :=
  match ps.find? (·.1 = p) with
  | some (_, ms) => ms
  | none => []

/-- the records a request holds for (topic, partition) -/
def recsIn (ts : TopicsMap) (t : Bytes) (p : Int) : List KV :=
  match ts.find? (·.1 = t) with
  | some (_, ps) => partRecs ps p
  | none => []

/-- the records the request for `host` holds for (topic, partition) -/
def recordsOf (reqs : List (Bytes × ProduceRequest)) (host t : Bytes) (p : Int) : List KV :=
  match reqs.find? (·.1 = host) with
  | some (_, r) => recsIn r.topics t p
  | none => []

theorem recs_addPart (ps : PartsMap) (p q : Int) (m : KV) :
    partRecs (addPartMsg ps p m) q = partRecs ps q ++ (if q = p then [m] else []) := by
  induction ps with
  | nil =>
    by_cases h : q = p
    · subst h; simp [addPartMsg, partRecs]
    · have : ¬ p = q := fun e => h e.symm
      simp [addPartMsg, partRecs, h, this]
  | cons x xs ih =>
    obtain ⟨p', ms⟩ := x
    simp only [addPartMsg]
    by_cases h1 : p' = p
    · subst h1
      by_cases h2 : p' = q
      · subst h2; simp [partRecs]
      · have : ¬ q = p' := fun e => h2 e.symm
        simp [partRecs, h2, this]
    · simp only [h1, if_false]
      by_cases h2 : p' = q
      · subst h2
        have : ¬ p' = p := h1
        simp [partRecs, this]
      · simp only [partRecs, List.find?, h2, decide_false] at ih ⊢
        exact ih

theorem recs_addTopic (ts : TopicsMap) (t u : Bytes) (p q : Int) (m : KV) :
    recsIn (addTopicPartMsg ts t p m) u q = recsIn ts u q ++ (if u = t ∧ q = p then [m] else []) := by
  induction ts with
  | nil =>
    by_cases h : u = t
    · subst h
      by_cases h2 : q = p
      · subst h2; simp [addTopicPartMsg, recsIn, partRecs]
      · have : ¬ p = q := fun e => h2 e.symm
        simp [addTopicPartMsg, recsIn, partRecs, h2, this]
    · have : ¬ t = u := fun e => h e.symm
      simp [addTopicPartMsg, recsIn, h, this]
  | cons x xs ih =>
    obtain ⟨t', ps⟩ := x
    simp only [addTopicPartMsg]
    by_cases h1 : t' = t
    · subst h1
      by_cases h2 : t' = u
      · subst h2
        simp only [if_true, recsIn, List.find?, decide_true, true_and]
        exact recs_addPart ps p q m
      · have : ¬ u = t' := fun e => h2 e.symm
        simp [recsIn, h2, this]
    · simp only [h1, if_false]
      by_cases h2 : t' = u
      · subst h2
        have : ¬ t' = t := h1
        simp [recsIn, this]
      · simp only [recsIn, List.find?, h2, decide_false] at ih ⊢
        exact ih

theorem records_upsert (reqs : List (Bytes × ProduceRequest)) (host h2 t u : Bytes) (p q : Int) (k v : Option Bytes)
    (d : ProduceRequest) (hd : d.topics = []) :
    recordsOf (upsert reqs host d (·.add t p k v)) h2 u q =
      recordsOf reqs h2 u q ++ (if h2 = host ∧ u = t ∧ q = p then [(k, v)] else []) := by
  induction reqs with
  | nil =>
    by_cases h : h2 = host
    · subst h
      simp only [upsert, recordsOf, List.find?, decide_true, ProduceRequest.add, hd, true_and]
      have := recs_addTopic [] t u p q (k, v)
      simpa [recsIn] using this
    · have : ¬ host = h2 := fun e => h e.symm
      simp [upsert, recordsOf, h, this]
  | cons x xs ih =>
    obtain ⟨h', r⟩ := x
    simp only [upsert]
    by_cases h1 : h' = host
    · subst h1
      by_cases h3 : h' = h2
      · subst h3
        simp only [if_true, recordsOf, List.find?, decide_true, ProduceRequest.add, true_and]
        exact recs_addTopic r.topics t u p q (k, v)
      · have : ¬ h2 = h' := fun e => h3 e.symm
        simp [recordsOf, h3, this]
    · simp only [h1, if_false]
      by_cases h3 : h' = h2
      · subst h3
        have : ¬ h' = host := h1
        simp [recordsOf, this]
      · simp only [recordsOf, List.find?, h3, decide_false] at ih ⊢
        exact ih

/-- what the grouping pass must produce for (host, topic, partition): the records of that partition, in input
    order, if `host` is its leader — and nothing otherwise -/
def expected (st : ClientState) (msgs : List ProduceArg) (host t : Bytes) (p : Int) : List KV :=
  (msgs.filter fun m => m.topic = t ∧ m.partition = p ∧ st.findBroker m.topic m.partition = some host).map fun m => (m.key, m.value)

/-- **routing**: when every record has a leader, the per-broker requests hold every record exactly once, in the
    message set of its topic-partition, in the request for that partition's leader and no other, input order kept -/
theorem C05_routing (c : Client) (corr acks to : Int) (msgs : List ProduceArg)
    (hall : ∀ m ∈ msgs, c.st.findBroker m.topic m.partition ≠ none) :
    ∃ reqs, produceRequests c corr acks to msgs = some reqs ∧
      ∀ host t p, recordsOf reqs host t p = expected c.st msgs host t p := by
  have key : ∀ (msgs : List ProduceArg) (acc : List (Bytes × ProduceRequest)) (done : List ProduceArg),
      (∀ m ∈ msgs, c.st.findBroker m.topic m.partition ≠ none) →
      (∀ host t p, recordsOf acc host t p = expected c.st done host t p) →
      ∃ reqs, msgs.foldl (C20.produceStep c corr acks to) (some acc) = some reqs ∧
        ∀ host t p, recordsOf reqs host t p = expected c.st (done ++ msgs) host t p := by
    intro msgs
    induction msgs with
    | nil => intro acc done _ h; exact ⟨acc, rfl, by simpa using h⟩
    | cons m ms ih =>
      intro acc done hall hacc
      have hm := hall m (by simp)
      cases hb : c.st.findBroker m.topic m.partition with
      | none => exact absurd hb hm
      | some host =>
        simp only [List.foldl_cons, C20.produceStep, hb]
        have := ih (upsert acc host (ProduceRequest.new acks to corr c.cfg.clientId c.cfg.compression)
            (·.add m.topic m.partition m.key m.value)) (done ++ [m]) (fun x hx => hall x (by simp [hx])) (by
          intro h2 t p
          rw [records_upsert acc host h2 m.topic t m.partition p m.key m.value _ rfl, hacc h2 t p]
          unfold expected
          rw [List.filter_append, List.map_append]
          congr 1
          by_cases hc : h2 = host ∧ t = m.topic ∧ p = m.partition
          · obtain ⟨rfl, rfl, rfl⟩ := hc
            simp [hb]
          · simp only [hc, if_false]
            have : ¬ (m.topic = t ∧ m.partition = p ∧ c.st.findBroker m.topic m.partition = some h2) := by
              rintro ⟨rfl, rfl, h3⟩
              rw [hb] at h3
              exact hc ⟨(Option.some.inj h3).symm, rfl, rfl⟩
            simp [this])
        obtain ⟨reqs, h1, h2⟩ := this
        exact ⟨reqs, h1, by simpa [List.append_assoc] using h2⟩
  rw [C20.produceRequests_eq]
  have := key msgs [] [] hall (by intro host t p; simp [recordsOf, expected])
  simpa using this

/-- a record is sent to no broker other than its partition's leader -/
theorem C05_no_other_broker (c : Client) (corr acks to : Int) (msgs : List ProduceArg) (reqs : List (Bytes × ProduceRequest))
    (hall : ∀ m ∈ msgs, c.st.findBroker m.topic m.partition ≠ none)
    (h : produceRequests c corr acks to msgs = some reqs) (host t : Bytes) (p : Int)
    (hne : c.st.findBroker t p ≠ some host) : recordsOf reqs host t p = [] := by
  obtain ⟨reqs', h1, h2⟩ := C05_routing c corr acks to msgs hall
  rw [h] at h1
  cases h1
  rw [h2]
  unfold expected
  have : (msgs.filter fun m => m.topic = t ∧ m.partition = p ∧ c.st.findBroker m.topic m.partition = some host) = [] := by
    rw [List.filter_eq_nil_iff]
    intro m _
    simp only [decide_eq_true_eq]
    rintro ⟨rfl, rfl, h3⟩
    exact hne h3
  rw [this]; rfl

/-- every request carries the configured acks, time-out, client id and compression, and one correlation id -/
theorem upsert_pres {α} (P : α → Prop) (m : List (Bytes × α)) (k : Bytes) (d : α) (f : α → α)
    (hm : ∀ x ∈ m, P x.2) (hd : P (f d)) (hf : ∀ a, P a → P (f a)) : ∀ x ∈ upsert m k d f, P x.2 := by
  induction m with
  | nil => intro x hx; simp [upsert] at hx; subst hx; exact hd
  | cons y ys ih =>
    obtain ⟨k', v⟩ := y
    intro x hx
    simp only [upsert] at hx
    split at hx
    · simp at hx
      rcases hx with rfl | hx
      · exact hf v (hm (k', v) (by simp))
      · exact hm x (by simp [hx])
    · simp at hx
      rcases hx with rfl | hx
      · exact hm (k', v) (by simp)
      · exact ih (fun z hz => hm z (by simp [hz])) x hx

theorem C05_settings (c : Client) (corr acks to : Int) (msgs : List ProduceArg) (reqs : List (Bytes × ProduceRequest))
    (h : produceRequests c corr acks to msgs = some reqs) :
    ∀ r ∈ reqs, r.2.acks = acks ∧ r.2.timeout = to ∧ r.2.header.clientId = c.cfg.clientId ∧ r.2.header.corr = corr ∧
      r.2.compression = c.cfg.compression ∧ r.2.header.apiKey = 0 := by
  have key : ∀ (msgs : List ProduceArg) (acc : List (Bytes × ProduceRequest)) (reqs : List (Bytes × ProduceRequest)),
      (∀ r ∈ acc, r.2.acks = acks ∧ r.2.timeout = to ∧ r.2.header.clientId = c.cfg.clientId ∧ r.2.header.corr = corr ∧
        r.2.compression = c.cfg.compression ∧ r.2.header.apiKey = 0) →
      msgs.foldl (C20.produceStep c corr acks to) (some acc) = some reqs →
      ∀ r ∈ reqs, r.2.acks = acks ∧ r.2.timeout = to ∧ r.2.header.clientId = c.cfg.clientId ∧ r.2.header.corr = corr ∧
        r.2.compression = c.cfg.compression ∧ r.2.header.apiKey = 0 := by
    intro msgs
    induction msgs with
    | nil => intro acc reqs hacc h; simp only [List.foldl_nil, Option.some.injEq] at h; subst h; exact hacc
    | cons m ms ih =>
      intro acc reqs hacc h
      simp only [List.foldl_cons, C20.produceStep] at h
      cases hb : c.st.findBroker m.topic m.partition with
      | none => simp [hb, C20.foldl_none] at h
      | some host =>
        simp only [hb] at h
        refine ih _ reqs ?_ h
        exact upsert_pres (fun r => r.acks = acks ∧ r.timeout = to ∧ r.header.clientId = c.cfg.clientId ∧ r.header.corr = corr ∧
            r.compression = c.cfg.compression ∧ r.header.apiKey = 0) acc host
          (ProduceRequest.new acks to corr c.cfg.clientId c.cfg.compression) (fun r => r.add m.topic m.partition m.key m.value) hacc
          ⟨rfl, rfl, rfl, rfl, rfl, rfl⟩ (by intro a ha; exact ha)
  rw [C20.produceRequests_eq] at h
  exact key msgs [] reqs (by intro r hr; cases hr) h

/-- an unknown destination anywhere: the call fails with unknown-topic-or-partition and nothing is sent (from C20) -/
theorem C05_unknown (c : Client) (corr acks to : Int) (pre : List ProduceArg) (m : ProduceArg) (post : List ProduceArg)
    (h : c.st.findBroker m.topic m.partition = none) : produceRequests c corr acks to (pre ++ m :: post) = none :=
  C20.C20_produce_unknown c corr acks to pre m post h

/-- the producer's partitioner pass keeps the input order and, when every record finds a leader, assigns exactly as
    the eager pass does (the lazily consumed iterator makes no difference) -/
theorem C05_producer_order (st : ClientState) (topics : List (Bytes × Partitions)) :
    ∀ (recs : List Record) (cntr : Nat),
      (∀ m ∈ (partitionAll topics cntr recs).1, (st.findBroker m.topic m.partition).isSome) →
      partitionLazy st topics cntr recs = partitionAll topics cntr recs := by
  intro recs
  induction recs with
  | nil => intro cntr _; rfl
  | cons r rs ih =>
    intro cntr h
    simp only [partitionLazy, partitionAll] at h ⊢
    have h0 := h _ (List.mem_cons_self ..)
    simp only at h0
    have : (st.findBroker r.topic (partition cntr topics r.topic r.partition (toOption r.key)).1).isNone = false := by
      cases hh : st.findBroker r.topic (partition cntr topics r.topic r.partition (toOption r.key)).1 <;> simp_all
    simp only [this, Bool.false_eq_true, if_false]
    rw [ih _ (fun m hm => h m (List.mem_cons_of_mem _ hm))]

theorem C05_producer_topics_values (topics : List (Bytes × Partitions)) :
    ∀ (recs : List Record) (cntr : Nat),
      (partitionAll topics cntr recs).1.map (fun m => (m.topic, m.key, m.value)) =
        recs.map (fun r => (r.topic, toOption r.key, toOption r.value)) := by
  intro recs
  induction recs with
  | nil => intro _; rfl
  | cons r rs ih => intro cntr; simp [partitionAll, ih]

/-! ### non-vacuity -/
example :
    let st : ClientState := { brokers := [⟨1, [97]⟩, ⟨2, [98]⟩], topics := [([116], [0, 1])] }
    st.findBroker [116] 0 = some [97] ∧ st.findBroker [116] 1 = some [98] := by decide

end Kafka.Props.C05
