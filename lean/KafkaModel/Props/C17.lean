import KafkaModel.Model.Consumer
/-!
  C17 — Oversized messages are delivered by bounded retries or reported, never stall.
  The size logic of `process_fetch_responses` (consumer/mod.rs:340-392) as `processPartition` has it.
-/
namespace Kafka.Props.C17
open Kafka Kafka.Model

/-- the fetch size after one more empty answer (while the high watermark shows data) -/
def grow (lim b : Int) : Int := if b < lim then (if b + b > lim then lim else b + b) else b

/-- the book-keeping of an empty-but-behind partition changes its size to `grow lim size` (offset unchanged),
    queues it for a retry of its own unless it is the only partition — or reports the message as too large -/
theorem C17_step (normalMax : Int) (n : Nat) (single : Bool) (c : Consumer) (tr : Nat) (p : FetchPartition) (hw : Int) (fs : FetchState)
    (hd : p.data = .ok (hw, [])) (hf : assocGet c.fetchOffsets ⟨tr, p.partition⟩ = some fs) (hb : fs.offset < hw) :
    processPartition normalMax n single c tr p =
      if fs.maxBytes < c.retryLimit then
        let c' := { c with fetchOffsets := assocSet c.fetchOffsets ⟨tr, p.partition⟩ ⟨fs.offset, grow c.retryLimit fs.maxBytes⟩ }
        (.ok (if single then c' else { c' with retry := c'.retry ++ [⟨tr, p.partition⟩] }), false)
      else if n = 1 then (.err (.kafka 10), false)
      else (.ok (if single then c else { c with retry := c.retry ++ [⟨tr, p.partition⟩] }), false) := by
  simp only [processPartition, hd, hf, List.getLast?_nil, hb, if_true, grow]
  by_cases h1 : fs.maxBytes < c.retryLimit
  · simp only [h1, if_true]
  · simp only [h1, if_false]

/-- **never above the limit**: a grown size is at most the configured retry limit; every size is at most max(size, limit) -/
theorem C17_sizes (lim b : Int) : grow lim b ≤ max b lim ∧ (b < lim → grow lim b ≤ lim) := by
  unfold grow
  constructor
  · split
    · split <;> omega
    · omega
  · intro h; simp only [h, if_true]; split <;> omega

/-- growth is strict below the limit (for positive sizes): no stalling at one size -/
theorem C17_strict (lim b : Int) (hb : 0 < b) (hl : b < lim) : b < grow lim b := by
  unfold grow; simp only [hl, if_true]; split <;> omega

def growN (lim : Int) : Nat → Int → Int
  | 0, b => b
  | k+1, b => growN lim k (grow lim b)

theorem one_le_pow2 (k : Nat) : (1 : Int) ≤ 2 ^ k := by
  have : (1 : Nat) ≤ 2 ^ k := Nat.one_le_two_pow
  exact_mod_cast this

theorem le_mul_pow (a : Int) (k : Nat) (ha : 0 ≤ a) : a ≤ a * 2 ^ k := by
  have := Int.mul_le_mul_of_nonneg_left (one_le_pow2 k) ha
  simpa using this

theorem dbl_pow (b : Int) (k : Nat) : (b + b) * 2 ^ k = b * 2 ^ (k + 1) := by
  rw [Int.pow_succ, ← Int.two_mul, Int.mul_assoc, Int.mul_comm 2, Int.mul_assoc]

/-- closed form: after `k` empty answers the size is min(limit, base · 2ᵏ) -/
theorem C17_closed_form (lim : Int) : ∀ (k : Nat) (b : Int), 0 < b → b ≤ lim → growN lim k b = min lim (b * 2 ^ k) := by
  intro k
  induction k with
  | zero => intro b _ hl; simp [growN]; omega
  | succ k ih =>
    intro b hb hl
    simp only [growN]
    by_cases hlt : b < lim
    · by_cases h2 : b + b > lim
      · have hg : grow lim b = lim := by simp [grow, hlt, h2]
        rw [hg, ih lim (by omega) (Int.le_refl _)]
        have h1 := le_mul_pow lim k (by omega)
        have h3 : (b + b) ≤ (b + b) * 2 ^ k := le_mul_pow (b + b) k (by omega)
        rw [dbl_pow] at h3
        omega
      · have hg : grow lim b = b + b := by simp [grow, hlt, h2]
        rw [hg, ih (b + b) (by omega) (by omega), dbl_pow]
    · have : b = lim := by omega
      subst this
      have hg : grow b b = b := by simp [grow]
      rw [hg, ih b hb (Int.le_refl _)]
      have h1 := le_mul_pow b k (by omega)
      have h2 := le_mul_pow b (k + 1) (by omega)
      omega

/-- **delivered within a logarithmic number of retries**: once base · 2ᵏ reaches the entry size `s` (with s ≤ limit),
    the k-th retry asks for at least `s` bytes -/
theorem C17_deliver (lim s b : Int) (k : Nat) (hb : 0 < b) (hbl : b ≤ lim) (hs : s ≤ lim) (hk : s ≤ b * 2 ^ k) :
    s ≤ growN lim k b := by
  rw [C17_closed_form lim k b hb hbl]; omega

/-- **reported when it cannot fit**: once the size has reached the limit, a fetch of that partition alone that still
    returns nothing fails the poll with message-size-too-large -/
theorem C17_report (normalMax : Int) (single : Bool) (c : Consumer) (tr : Nat) (p : FetchPartition) (hw : Int) (fs : FetchState)
    (hd : p.data = .ok (hw, [])) (hf : assocGet c.fetchOffsets ⟨tr, p.partition⟩ = some fs) (hb : fs.offset < hw)
    (hlim : ¬ fs.maxBytes < c.retryLimit) : processPartition normalMax 1 single c tr p = (.err (.kafka 10), false) := by
  rw [C17_step normalMax 1 single c tr p hw fs hd hf hb]
  simp [hlim]

/-- retrying disabled (limit 0, or not above the normal size): the very first empty answer of a single-partition
    fetch is reported -/
theorem C17_disabled (normalMax : Int) (single : Bool) (c : Consumer) (tr : Nat) (p : FetchPartition) (hw : Int) (fs : FetchState)
    (hd : p.data = .ok (hw, [])) (hf : assocGet c.fetchOffsets ⟨tr, p.partition⟩ = some fs) (hb : fs.offset < hw)
    (h0 : c.retryLimit ≤ fs.maxBytes) : processPartition normalMax 1 single c tr p = (.err (.kafka 10), false) :=
  C17_report normalMax single c tr p hw fs hd hf hb (by omega)

/-- **back to the normal size** as soon as data arrives -/
theorem C17_reset (normalMax : Int) (n : Nat) (single : Bool) (c : Consumer) (tr : Nat) (p : FetchPartition)
    (hw : Int) (msgs : List Message) (last : Message) (fs : FetchState)
    (hd : p.data = .ok (hw, msgs)) (hl : msgs.getLast? = some last) (hf : assocGet c.fetchOffsets ⟨tr, p.partition⟩ = some fs) :
    ∃ c', processPartition normalMax n single c tr p = (.ok c', true) ∧
      assocGet c'.fetchOffsets ⟨tr, p.partition⟩ = some ⟨last.offset + 1, normalMax⟩ := by
  refine ⟨{ c with fetchOffsets := assocSet c.fetchOffsets ⟨tr, p.partition⟩ ⟨last.offset + 1, normalMax⟩ }, ?_, ?_⟩
  · simp [processPartition, hd, hf, hl]
  · simp only []
    induction c.fetchOffsets with
    | nil => simp [assocSet, assocGet]
    | cons x xs ih =>
      obtain ⟨k', v'⟩ := x
      by_cases h : k' = ⟨tr, p.partition⟩
      · simp [assocSet, assocGet, h]
      · simp only [assocSet, h, if_false]
        simp only [assocGet, List.find?, h, decide_false] at ih ⊢
        exact ih

/-- **fetched alone**: a partition queued for a retry is what the next poll asks for — only it, at its grown size -/
theorem C17_alone {σ} (env : Env σ) (w : WC σ) (tp : TP) (rest : List TP) (s : FetchState)
    (hq : w.cons.retry = tp :: rest) (hs : assocGet w.cons.fetchOffsets tp = some s) :
    poll env w = (do
      modCons fun c => { c with retry := rest }
      let resps ← liftClient (fetchMessages env [⟨w.cons.topicName tp.topicRef, tp.partition, s.offset, s.maxBytes⟩])
      processResponses 1 resps : CoM σ PollResult) w := by
  unfold poll
  simp only [M.bind_def, getCons, hq, hs]

/-! ### non-vacuity -/
example : growN 1000 3 100 = 800 := by decide
example : growN 1000 4 100 = 1000 := by decide
example : grow 0 100 = 100 := by decide

/-! ### the retry queue stays small: the others keep their turn -/

/-- the (topic, partition) keys a list of reply partitions stands for under the consumer's assignments -/
def tpsOf (c : Consumer) (parts : List (Bytes × FetchPartition)) : List TP :=
  parts.filterMap fun x => (topicRef c.assignments x.1).map fun tr => (⟨tr, x.2.partition⟩ : TP)

/-- the book-keeping of one partition leaves the assignments alone and touches the retry queue at most by appending
    that partition -/
theorem processPartition_retry (normalMax : Int) (n : Nat) (single : Bool) (c c' : Consumer) (tr : Nat) (p : FetchPartition) (got : Bool)
    (h : processPartition normalMax n single c tr p = (.ok c', got)) :
    c'.assignments = c.assignments ∧ (c'.retry = c.retry ∨ c'.retry = c.retry ++ [⟨tr, p.partition⟩]) := by
  unfold processPartition at h
  cases hd : p.data with
  | error code => simp [hd] at h
  | ok v =>
    obtain ⟨hw, msgs⟩ := v
    simp only [hd] at h
    cases hf : assocGet c.fetchOffsets (⟨tr, p.partition⟩ : TP) with
    | none => simp [hf] at h
    | some fs =>
      simp only [hf] at h
      cases hl : msgs.getLast? with
      | some last =>
        simp only [hl] at h
        have := (Prod.mk.inj h).1
        injection this with hc
        subst hc
        exact ⟨rfl, Or.inl rfl⟩
      | none =>
        simp only [hl] at h
        by_cases h1 : fs.offset < hw
        · simp only [h1, if_true] at h
          by_cases h2 : fs.maxBytes < c.retryLimit
          · simp only [h2, if_true] at h
            have := (Prod.mk.inj h).1
            injection this with hc
            subst hc
            cases single <;> simp
          · simp only [h2, if_false] at h
            by_cases h3 : n = 1
            · simp [h3] at h
            · simp only [h3, if_false] at h
              have := (Prod.mk.inj h).1
              injection this with hc
              subst hc
              cases single <;> simp
        · simp only [h1, if_false] at h
          have := (Prod.mk.inj h).1
          injection this with hc
          subst hc
          exact ⟨rfl, Or.inl rfl⟩

/-- over a whole reply: what is appended to the retry queue is a sub-list, in reply order, of the partitions the reply lists -/
theorem processAll_retry (normalMax : Int) (n : Nat) (single : Bool) :
    ∀ (parts : List (Bytes × FetchPartition)) (c : Consumer) (ne : Bool) (c' : Consumer) (ne' : Bool),
      processAll normalMax n single parts c ne = (.ok c', ne') →
      c'.assignments = c.assignments ∧ ∃ added, c'.retry = c.retry ++ added ∧ added.Sublist (tpsOf c parts) := by
  intro parts
  induction parts with
  | nil =>
    intro c ne c' ne' h
    simp only [processAll] at h
    have := (Prod.mk.inj h).1
    injection this with hc
    subst hc
    exact ⟨rfl, [], by simp, by simp [tpsOf]⟩
  | cons x r ih =>
    intro c ne c' ne' h
    obtain ⟨t, p⟩ := x
    simp only [processAll] at h
    cases htr : topicRef c.assignments t with
    | none => simp [htr] at h
    | some tr =>
      simp only [htr] at h
      cases hpp : processPartition normalMax n single c tr p with
      | mk o got =>
        cases o with
        | ok c1 =>
          simp only [hpp] at h
          obtain ⟨ha1, hr1⟩ := processPartition_retry normalMax n single c c1 tr p got hpp
          obtain ⟨ha2, added, hr2, hsub⟩ := ih c1 (ne || got) c' ne' h
          refine ⟨ha2.trans ha1, ?_⟩
          have htps : tpsOf c ((t, p) :: r) = ⟨tr, p.partition⟩ :: tpsOf c1 r := by
            simp [tpsOf, htr, ha1]
          rcases hr1 with hr1 | hr1
          · exact ⟨added, by rw [hr2, hr1], by rw [htps]; exact hsub.cons _⟩
          · exact ⟨⟨tr, p.partition⟩ :: added, by rw [hr2, hr1]; simp, by rw [htps]; exact hsub.cons₂ _⟩
        | err e => simp [hpp] at h
        | panic s => simp [hpp] at h
        | diverge => simp [hpp] at h

/-- **the retry queue never holds a partition twice and never more partitions than a reply can list**: with replies that
    list no partition twice and nothing that already waits, a queue without repetitions stays without repetitions, and grows
    by at most the number of partitions in the reply — so it drains within that many polls and the fetch of every partition
    comes round again -/
theorem C17_queue_bounded (normalMax : Int) (n : Nat) (single : Bool) (parts : List (Bytes × FetchPartition))
    (c c' : Consumer) (ne ne' : Bool) (h : processAll normalMax n single parts c ne = (.ok c', ne'))
    (hq : c.retry.Nodup) (hp : (tpsOf c parts).Nodup) (hdis : ∀ tp ∈ tpsOf c parts, tp ∉ c.retry) :
    c'.retry.Nodup ∧ c'.retry.length ≤ c.retry.length + parts.length := by
  obtain ⟨_, added, hr, hsub⟩ := processAll_retry normalMax n single parts c ne c' ne' h
  rw [hr]
  constructor
  · rw [List.nodup_append]
    refine ⟨hq, hsub.nodup hp, ?_⟩
    intro a ha b hb hab
    subst hab
    exact hdis a (hsub.subset hb) ha
  · have h1 := hsub.length_le
    have h2 : (tpsOf c parts).length ≤ parts.length := by unfold tpsOf; exact List.length_filterMap_le _ _
    simp only [List.length_append]; omega

/-! ### sizes stay positive -/

variable {σ : Type}

/-- every partition's fetch size is positive (a Fetch request with a size <= 0 can deliver nothing, and a size <= 0 never
    grows by doubling) -/
def Pos (c : Consumer) : Prop := ∀ e ∈ c.fetchOffsets, 0 < e.2.maxBytes

theorem assocSet_all {α β} [DecidableEq α] (P : β → Prop) (m : List (α × β)) (k : α) (v : β) (hm : ∀ e ∈ m, P e.2) (hv : P v) :
    ∀ e ∈ assocSet m k v, P e.2 := by
  induction m with
  | nil => intro e he; simp [assocSet] at he; rw [he]; exact hv
  | cons x xs ih =>
    obtain ⟨k', v'⟩ := x
    intro e he
    simp only [assocSet] at he
    split at he
    · rcases List.mem_cons.mp he with rfl | h
      · exact hv
      · exact hm e (List.mem_cons_of_mem _ h)
    · rcases List.mem_cons.mp he with rfl | h
      · exact hm _ List.mem_cons_self
      · exact ih (fun e he => hm e (List.mem_cons_of_mem _ he)) e h

theorem assocGet_mem {α β} [DecidableEq α] (m : List (α × β)) (k : α) (v : β) (h : assocGet m k = some v) : (k, v) ∈ m := by
  unfold assocGet at h
  cases hf : m.find? (·.1 = k) with
  | none => simp [hf] at h
  | some e =>
    simp [hf] at h
    have h1 := List.find?_some hf
    have h2 := List.mem_of_find?_eq_some hf
    simp at h1
    obtain ⟨a, b⟩ := e
    simp at h h1; subst h h1; exact h2

theorem processPartition_pos (nm : Int) (nq : Nat) (single : Bool) (c c' : Consumer) (tr : Nat) (p : FetchPartition) (got : Bool)
    (hnm : 0 < nm) (hpos : Pos c)
    (h : processPartition nm nq single c tr p = (.ok c', got)) : Pos c' := by
  unfold processPartition at h
  cases hd : p.data with
  | error code => rw [hd] at h; simp at h
  | ok v =>
    obtain ⟨hw, msgs⟩ := v
    rw [hd] at h
    simp only [] at h
    cases hfs : assocGet c.fetchOffsets ⟨tr, p.partition⟩ with
    | none => rw [hfs] at h; simp at h
    | some fs =>
      rw [hfs] at h
      simp only [] at h
      have hfpos : 0 < fs.maxBytes := hpos _ (assocGet_mem _ _ _ hfs)
      cases hl : msgs.getLast? with
      | some last =>
        rw [hl] at h
        simp only [Prod.mk.injEq, Outcome.ok.injEq] at h
        rw [← h.1]
        exact assocSet_all (fun (fs : FetchState) => 0 < fs.maxBytes) _ _ _ hpos hnm
      | none =>
        rw [hl] at h
        simp only [] at h
        by_cases h1 : fs.offset < hw
        · simp only [h1, if_true] at h
          by_cases h2 : fs.maxBytes < c.retryLimit
          · simp only [h2, if_true, Prod.mk.injEq, Outcome.ok.injEq] at h
            rw [← h.1]
            have hnew : 0 < (if fs.maxBytes + fs.maxBytes > c.retryLimit then c.retryLimit else fs.maxBytes + fs.maxBytes) := by
              split <;> omega
            split <;> exact assocSet_all (fun (fs : FetchState) => 0 < fs.maxBytes) _ _ _ hpos hnew
          · simp only [h2, if_false] at h
            by_cases h3 : nq = 1
            · simp [h3] at h
            · simp only [h3, if_false, Prod.mk.injEq, Outcome.ok.injEq] at h
              rw [← h.1]; split <;> exact hpos
        · simp only [h1, if_false, Prod.mk.injEq, Outcome.ok.injEq] at h
          rw [← h.1]; exact hpos

theorem processAll_pos (nm : Int) (nq : Nat) (single : Bool) (hnm : 0 < nm) :
    ∀ (parts : List (Bytes × FetchPartition)) (c c' : Consumer) (ne ne' : Bool), Pos c →
      processAll nm nq single parts c ne = (.ok c', ne') → Pos c' := by
  intro parts
  induction parts with
  | nil => intro c c' ne ne' hp h; simp only [processAll, Prod.mk.injEq, Outcome.ok.injEq] at h; rw [← h.1]; exact hp
  | cons x r ih =>
    intro c c' ne ne' hp h
    obtain ⟨t, p⟩ := x
    simp only [processAll] at h
    cases htr : topicRef c.assignments t with
    | none => rw [htr] at h; simp at h
    | some tr =>
      rw [htr] at h
      simp only [] at h
      rcases hpp : processPartition nm nq single c tr p with ⟨o, got⟩
      rw [hpp] at h
      cases o with
      | ok c1 => exact ih _ _ _ _ (processPartition_pos nm nq single c c1 tr p got hnm hp hpp) h
      | err e => simp at h
      | panic s => simp at h
      | diverge => simp at h

theorem processAllReached_pos (nm : Int) (nq : Nat) (single : Bool) (hnm : 0 < nm) :
    ∀ (parts : List (Bytes × FetchPartition)) (c : Consumer), Pos c → Pos (processAllReached nm nq single parts c) := by
  intro parts
  induction parts with
  | nil => intro c hp; exact hp
  | cons x r ih =>
    intro c hp
    obtain ⟨t, p⟩ := x
    simp only [processAllReached]
    cases htr : topicRef c.assignments t with
    | none => exact hp
    | some tr =>
      simp only []
      rcases hpp : processPartition nm nq single c tr p with ⟨o, got⟩
      cases o with
      | ok c1 => exact ih c1 (processPartition_pos nm nq single c c1 tr p got hnm hp hpp)
      | err e => exact hp
      | panic s => exact hp
      | diverge => exact hp

/-- **sizes stay positive**: with a positive configured fetch size, whatever the brokers answer, the book-keeping of a poll
    leaves every partition with a positive fetch size - so doubling always grows it (`C17_strict`) and the retry ladder of
    `C17_deliver` is the one that runs -/
theorem C17_sizes_stay_positive (nq : Nat) (resps : List FetchResponse) (w : WC σ)
    (hcfg : 0 < w.cons.client.cfg.fetchMaxBytes) (hp : Pos w.cons) : Pos (processResponses nq resps w).1.cons := by
  unfold processResponses
  simp only []
  split
  · exact hp
  · split
    · rename_i c' ne h; exact processAll_pos _ _ _ hcfg _ _ _ _ _ hp h
    · exact processAllReached_pos _ _ _ hcfg _ _ hp
    · exact hp
    · exact hp

/-- a seek moves the offset and nothing else: the size stays what it was -/
theorem C17_seek_keeps_size (t : Bytes) (p off : Int) (w : WC σ) (hp : Pos w.cons) : Pos (seek t p off w).1.cons := by
  unfold seek
  rw [M.bind_def]
  simp only [getCons]
  cases htr : topicRef w.cons.assignments t with
  | none => exact hp
  | some tr =>
    simp only []
    cases hfs : assocGet w.cons.fetchOffsets ⟨tr, p⟩ with
    | none => exact hp
    | some fs =>
      simp only [modCons, M.modify]
      exact assocSet_all (fun (fs : FetchState) => 0 < fs.maxBytes) _ _ _ hp (hp _ (assocGet_mem _ _ _ hfs))
/-! ### … over whole polls and histories: a fetch leaves the configuration alone -/

/-- a client operation that leaves the client's configuration alone -/
def KeepsCfg {α} (m : CM σ α) : Prop := ∀ w, (m w).1.client.cfg = w.client.cfg

theorem kc_bind {α β} (m : CM σ α) (f : α → CM σ β) (hm : KeepsCfg m) (hf : ∀ a, KeepsCfg (f a)) : KeepsCfg (m >>= f) := by
  intro w
  rw [M.bind_def]
  have h1 := hm w
  rcases hmw : m w with ⟨s', o⟩
  rw [hmw] at h1
  cases o with
  | ok a => exact (hf a s').trans h1
  | err e => exact h1
  | panic p => exact h1
  | diverge => exact h1

theorem kc_pure {α} (a : α) : KeepsCfg (pure a : CM σ α) := fun _ => rfl
theorem kc_fail {α} (e : Err) : KeepsCfg (M.fail e : CM σ α) := fun _ => rfl
theorem kc_panic {α} (s : String) : KeepsCfg (M.panic s : CM σ α) := fun _ => rfl
theorem kc_getClient : KeepsCfg (getClient : CM σ Client) := fun _ => rfl
theorem kc_get : KeepsCfg (M.get : CM σ (W σ)) := fun _ => rfl
theorem kc_nextCorr : KeepsCfg (nextCorr : CM σ Int) := fun _ => rfl

theorem kc_getConn (env : Env σ) (host : Bytes) : KeepsCfg (getConn env host) := by
  intro w
  unfold getConn
  split
  · split
    · simp only []; split <;> rfl
    · rfl
  · simp only []; split <;> rfl

theorem kc_sendRequest (env : Env σ) (host : Bytes) (p : Except Err Bytes) : KeepsCfg (sendRequest env host p) := by
  intro w
  unfold sendRequest
  split
  · rfl
  · simp only []; split <;> rfl

theorem kc_recvReply (env : Env σ) (host : Bytes) : KeepsCfg (recvReply env host) := by
  intro w
  unfold recvReply
  simp only []
  split <;> rfl

theorem kc_zSendReceive (env : Env σ) (v : Bool) (host : Bytes) (rq : FetchRequest) : KeepsCfg (zSendReceive env v host rq) := by
  unfold zSendReceive
  refine kc_bind _ _ (kc_getConn env host) fun _ => kc_bind _ _ (kc_sendRequest env host _) fun _ =>
    kc_bind _ _ (kc_recvReply env host) fun b => ?_
  split
  · exact kc_pure _
  · exact kc_fail _
  · exact kc_panic _

theorem kc_forHosts {α β} (env : Env σ) (f : Bytes → α → CM σ β) (hf : ∀ h a, KeepsCfg (f h a)) :
    ∀ (fuel : Nat) (reqs : List (Bytes × α)), KeepsCfg (forHosts env fuel reqs f) := by
  intro fuel
  induction fuel with
  | zero => intro reqs; exact kc_pure _
  | succ fuel ih =>
    intro reqs w
    unfold forHosts
    split
    · rfl
    · simp only []
      split
      · rfl
      · rename_i h r _
        exact kc_bind _ _ (hf h r) (fun b => kc_bind _ _ (ih _) fun bs => kc_pure _) w

/-- a fetch talks to brokers and book-keeps connections; the configuration is what it was -/
theorem kc_fetchMessages (env : Env σ) (input : List FetchArg) : KeepsCfg (fetchMessages env input) := by
  unfold fetchMessages
  exact kc_bind _ _ kc_nextCorr fun corr => kc_bind _ _ kc_getClient fun c =>
    kc_forHosts env _ (fun h a => kc_zSendReceive env _ h a) _ _

theorem processPartition_client (nm : Int) (nq : Nat) (single : Bool) (c c' : Consumer) (tr : Nat) (p : FetchPartition) (got : Bool)
    (h : processPartition nm nq single c tr p = (.ok c', got)) : c'.client = c.client := by
  unfold processPartition at h
  cases hd : p.data with
  | error code => rw [hd] at h; simp at h
  | ok v =>
    obtain ⟨hw, msgs⟩ := v
    rw [hd] at h
    simp only [] at h
    cases hfs : assocGet c.fetchOffsets ⟨tr, p.partition⟩ with
    | none => rw [hfs] at h; simp at h
    | some fs =>
      rw [hfs] at h
      simp only [] at h
      cases hl : msgs.getLast? with
      | some last =>
        rw [hl] at h
        simp only [Prod.mk.injEq, Outcome.ok.injEq] at h
        rw [← h.1]
      | none =>
        rw [hl] at h
        simp only [] at h
        by_cases h1 : fs.offset < hw
        · simp only [h1, if_true] at h
          by_cases h2 : fs.maxBytes < c.retryLimit
          · simp only [h2, if_true, Prod.mk.injEq, Outcome.ok.injEq] at h
            rw [← h.1]; split <;> rfl
          · simp only [h2, if_false] at h
            by_cases h3 : nq = 1
            · simp [h3] at h
            · simp only [h3, if_false, Prod.mk.injEq, Outcome.ok.injEq] at h
              rw [← h.1]; split <;> rfl
        · simp only [h1, if_false, Prod.mk.injEq, Outcome.ok.injEq] at h
          rw [← h.1]

theorem processAll_client (nm : Int) (nq : Nat) (single : Bool) :
    ∀ (parts : List (Bytes × FetchPartition)) (c c' : Consumer) (ne ne' : Bool),
      processAll nm nq single parts c ne = (.ok c', ne') → c'.client = c.client := by
  intro parts
  induction parts with
  | nil => intro c c' ne ne' h; simp only [processAll, Prod.mk.injEq, Outcome.ok.injEq] at h; rw [← h.1]
  | cons x r ih =>
    intro c c' ne ne' h
    obtain ⟨t, p⟩ := x
    simp only [processAll] at h
    cases htr : topicRef c.assignments t with
    | none => rw [htr] at h; simp at h
    | some tr =>
      rw [htr] at h
      simp only [] at h
      rcases hpp : processPartition nm nq single c tr p with ⟨o, got⟩
      rw [hpp] at h
      cases o with
      | ok c1 => exact (ih _ _ _ _ h).trans (processPartition_client nm nq single c c1 tr p got hpp)
      | err e => simp at h
      | panic s => simp at h
      | diverge => simp at h

theorem processAllReached_client (nm : Int) (nq : Nat) (single : Bool) :
    ∀ (parts : List (Bytes × FetchPartition)) (c : Consumer), (processAllReached nm nq single parts c).client = c.client := by
  intro parts
  induction parts with
  | nil => intro c; rfl
  | cons x r ih =>
    intro c
    obtain ⟨t, p⟩ := x
    simp only [processAllReached]
    cases htr : topicRef c.assignments t with
    | none => rfl
    | some tr =>
      simp only []
      rcases hpp : processPartition nm nq single c tr p with ⟨o, got⟩
      cases o with
      | ok c1 => exact (ih c1).trans (processPartition_client nm nq single c c1 tr p got hpp)
      | err e => rfl
      | panic s => rfl
      | diverge => rfl

theorem processResponses_client (nq : Nat) (resps : List FetchResponse) (w : WC σ) :
    (processResponses nq resps w).1.cons.client = w.cons.client := by
  unfold processResponses
  simp only []
  split
  · rfl
  · split
    · rename_i c' ne h; exact processAll_client _ _ _ _ _ _ _ _ h
    · exact processAllReached_client _ _ _ _ _
    · rfl
    · rfl

/-- what a poll keeps: positive sizes, and the configuration they are measured against -/
def Good (c : Consumer) : Prop := 0 < c.client.cfg.fetchMaxBytes ∧ Pos c

theorem lift_fetch_good (env : Env σ) (args : List FetchArg) (w : WC σ) (hg : Good w.cons) :
    Good (liftClient (fetchMessages env args) w).1.cons := by
  have hk := kc_fetchMessages env args ⟨w.world, w.cons.client⟩
  refine ⟨?_, hg.2⟩
  show 0 < ((fetchMessages env args ⟨w.world, w.cons.client⟩).1.client).cfg.fetchMaxBytes
  rw [hk]; exact hg.1

theorem process_good (nq : Nat) (resps : List FetchResponse) (w : WC σ) (hg : Good w.cons) :
    Good (processResponses nq resps w).1.cons := by
  refine ⟨?_, C17_sizes_stay_positive nq resps w hg.1 hg.2⟩
  rw [processResponses_client]; exact hg.1

theorem bind_good {α β} (m : CoM σ α) (f : α → CoM σ β) (hm : ∀ w, Good w.cons → Good (m w).1.cons)
    (hf : ∀ a w, Good w.cons → Good (f a w).1.cons) (w : WC σ) (hg : Good w.cons) : Good ((m >>= f) w).1.cons := by
  rw [M.bind_def]
  have h1 := hm w hg
  rcases hmw : m w with ⟨s', o⟩
  rw [hmw] at h1
  cases o with
  | ok a => exact hf a s' h1
  | err e => exact h1
  | panic p => exact h1
  | diverge => exact h1

/-- **a poll keeps every fetch size positive** - whatever the brokers answer, whether the poll is a regular one or a retry -/
theorem C17_poll_keeps_positive (env : Env σ) (w : WC σ) (hg : Good w.cons) : Good (poll env w).1.cons := by
  unfold poll
  refine bind_good _ _ (fun w hg => hg) (fun c => ?_) w hg
  cases hr : c.retry with
  | nil =>
    simp only []
    exact bind_good _ _ (fun w hg => lift_fetch_good env _ w hg) (fun r w hg => process_good _ _ w hg)
  | cons tp rest =>
    simp only []
    refine bind_good _ _ (fun w hg => hg) (fun _ => ?_)
    cases hfs : assocGet c.fetchOffsets tp with
    | none => exact fun w hg => hg
    | some fs =>
      simp only []
      exact bind_good _ _ (fun w hg => lift_fetch_good env _ w hg) (fun r w hg => process_good _ _ w hg)

/-- polls and seeks -/
inductive SOp | poll | seek (t : Bytes) (p off : Int)

def runS (env : Env σ) (w : WC σ) : SOp → WC σ
  | .poll => (poll env w).1
  | .seek t p off => (seek t p off w).1

/-- **over any history of polls and seeks**, from a consumer with a positive configured fetch size and positive sizes (what
    creation gives: `C07_assignment` puts the configured size on every partition): every Fetch request ever sent carries
    positive sizes, so an oversized entry is met by sizes that actually grow -/
theorem C17_history_positive (env : Env σ) (ops : List SOp) (w : WC σ) (hg : Good w.cons) :
    Good (ops.foldl (runS env) w).cons := by
  induction ops generalizing w with
  | nil => exact hg
  | cons op r ih =>
    apply ih
    cases op with
    | poll => exact C17_poll_keeps_positive env w hg
    | seek t p off =>
      refine ⟨?_, C17_seek_keeps_size t p off w hg.2⟩
      have : (seek t p off w).1.cons.client = w.cons.client := by
        unfold seek
        rw [M.bind_def]
        simp only [getCons]
        cases htr : topicRef w.cons.assignments t with
        | none => rfl
        | some tr =>
          simp only []
          cases hfs : assocGet w.cons.fetchOffsets ⟨tr, p⟩ with
          | none => rfl
          | some fs => rfl
      show 0 < (seek t p off w).1.cons.client.cfg.fetchMaxBytes
      rw [this]; exact hg.1
end Kafka.Props.C17
