import KafkaModel.Model.Consumer
/-!
  C01 — Consumer delivers every log message exactly once, in order, per partition.
  Theorems about `iterate` (mirror of `MessageSetsIter`), `processPartition` / `processResponses`
  (mirror of `process_fetch_responses`) and `poll`.
-/
namespace Kafka.Props.C01
open Kafka Kafka.Model

/-- the (topic, partition, messages) triples of a response, in response order, whatever their state -/
def partsOf (resps : List FetchResponse) : List (Bytes × FetchPartition) :=
  resps.flatMap fun r => r.topics.flatMap fun t => t.partitions.map fun p => (t.topic, p)

def pick (x : Bytes × FetchPartition) : Option (Bytes × Int × List Message) :=
  match x.2.data with
  | .ok (_, msgs) => if msgs.isEmpty then none else some (x.1, x.2.partition, msgs)
  | .error _ => none

theorem iterate_topic (t : FetchTopic) :
    (t.partitions.filterMap fun p =>
      match p.data with
      | .ok (_, msgs) => if msgs.isEmpty then none else some (t.topic, p.partition, msgs)
      | .error _ => none) = (t.partitions.map fun p => (t.topic, p)).filterMap pick := by
  rw [List.filterMap_map]
  rfl

theorem filterMap_flatMap' {α β γ} (f : β → Option γ) (g : α → List β) (l : List α) :
    (l.flatMap g).filterMap f = l.flatMap fun a => (g a).filterMap f := by
  induction l with
  | nil => rfl
  | cons a r ih => simp [List.filterMap_append, ih]

/-- **iteration** yields exactly the partitions that carry messages, in response order, each labelled with the topic
    it was listed under and its own partition id — an empty or erroneous partition in front of it hides nothing -/
theorem C01_iterate (resps : List FetchResponse) : iterate resps = (partsOf resps).filterMap pick := by
  unfold iterate partsOf
  rw [filterMap_flatMap']
  congr 1
  funext r
  rw [filterMap_flatMap']
  congr 1
  funext t
  exact iterate_topic t

/-- every message set handed out carries at least one message -/
theorem C01_iterate_nonempty (resps : List FetchResponse) : ∀ x ∈ iterate resps, x.2.2 ≠ [] := by
  intro x hx
  rw [C01_iterate] at hx
  simp only [List.mem_filterMap] at hx
  obtain ⟨y, _, hy⟩ := hx
  unfold pick at hy
  split at hy
  · rename_i hw msgs _
    by_cases he : msgs.isEmpty = true
    · simp [he] at hy
    · simp [he] at hy
      subst hy
      intro h
      exact he (by simpa using h)
  · cases hy

/-- book-keeping of one partition that delivered messages: the fetch offset becomes last delivered + 1 and the fetch
    size returns to normal; the "something was delivered" flag is raised -/
theorem C01_offset_advance (normalMax : Int) (n : Nat) (single : Bool) (c : Consumer) (tr : Nat) (p : FetchPartition)
    (hw : Int) (msgs : List Message) (last : Message) (fs : FetchState)
    (hd : p.data = .ok (hw, msgs)) (hl : msgs.getLast? = some last) (hf : assocGet c.fetchOffsets ⟨tr, p.partition⟩ = some fs) :
    processPartition normalMax n single c tr p =
      (.ok { c with fetchOffsets := assocSet c.fetchOffsets ⟨tr, p.partition⟩ ⟨last.offset + 1, normalMax⟩ }, true) := by
  simp [processPartition, hd, hf, hl]

/-- a partition that delivered nothing and is not behind the high watermark changes nothing -/
theorem C01_empty_partition_neutral (normalMax : Int) (n : Nat) (single : Bool) (c : Consumer) (tr : Nat) (p : FetchPartition)
    (hw : Int) (fs : FetchState) (hd : p.data = .ok (hw, [])) (hf : assocGet c.fetchOffsets ⟨tr, p.partition⟩ = some fs)
    (hh : ¬ fs.offset < hw) : processPartition normalMax n single c tr p = (.ok c, false) := by
  simp [processPartition, hd, hf, hh]

/-- **a failed poll delivers nothing and skips nothing**: a partition error anywhere in the responses fails the poll
    with the consumer state exactly as before -/
theorem C01_failed_poll_neutral {σ} (resps : List FetchResponse) (w : WC σ) (e : Err) (h : preScan w.cons resps = some e) (n : Nat) :
    processResponses n resps w = (w, .err e) := by
  unfold processResponses
  simp [h]

/-- … and a partition error anywhere in the responses does fail the poll -/
theorem firstError_fails (c : Consumer) (resps : List FetchResponse) (code : Int) (h : firstError resps = some code) :
    ∃ e, preScan c resps = some e := by
  unfold firstError at h
  unfold preScan
  obtain ⟨p, hp, hpd⟩ := List.exists_of_findSome?_eq_some h
  obtain ⟨r, hr, hp⟩ := List.mem_flatMap.mp hp
  obtain ⟨t, ht, hp⟩ := List.mem_flatMap.mp hp
  have hmem : t ∈ resps.flatMap fun r => r.topics := List.mem_flatMap.mpr ⟨r, hr, ht⟩
  have hsome : (preScanTopic c t).isSome := by
    unfold preScanTopic
    cases topicRef c.assignments t.topic with
    | none => rfl
    | some tr =>
      simp only []
      rw [List.findSome?_isSome_iff]
      refine ⟨p, hp, ?_⟩
      cases hd : p.data with
      | error k => rfl
      | ok v => simp [partErr, hd] at hpd
  cases hf : (resps.flatMap fun r => r.topics).findSome? (preScanTopic c) with
  | some e => exact ⟨e, rfl⟩
  | none =>
    rw [List.findSome?_eq_none_iff] at hf
    have := hf t hmem
    simp [this] at hsome

/-- a poll whose fetch fails (I/O, decode error) leaves fetch offsets, retry queue and marks as they were -/
theorem C01_fetch_failure_neutral {σ} (env : Env σ) (w : WC σ) (hret : w.cons.retry = [])
    (e : Err) (w' : W σ) (hf : fetchMessages env
      (w.cons.fetchOffsets.map fun (x : TP × FetchState) =>
        (⟨w.cons.topicName x.1.topicRef, x.1.partition, x.2.offset, x.2.maxBytes⟩ : FetchArg)) ⟨w.world, w.cons.client⟩ = (w', .err e)) :
    (poll env w).2 = .err e ∧ (poll env w).1.cons.fetchOffsets = w.cons.fetchOffsets ∧
    (poll env w).1.cons.consumed = w.cons.consumed ∧ (poll env w).1.cons.retry = w.cons.retry := by
  unfold poll
  simp only [M.bind_def, getCons, hret, liftClient, hf]
  refine ⟨?_, ?_, ?_, ?_⟩ <;> simp

/-- did this partition deliver messages? -/
def hasMsgs (p : FetchPartition) : Bool :=
  match p.data with
  | .ok (_, msgs) => !msgs.isEmpty
  | .error _ => false

/-- when the book-keeping of a partition succeeds, its "got data" answer is exactly whether the partition had messages -/
theorem processPartition_got (normalMax : Int) (n : Nat) (single : Bool) (c c' : Consumer) (tr : Nat) (p : FetchPartition) (got : Bool)
    (h : processPartition normalMax n single c tr p = (.ok c', got)) : got = hasMsgs p := by
  unfold processPartition at h
  unfold hasMsgs
  cases hd : p.data with
  | error e => simp [hd] at h
  | ok v =>
    obtain ⟨hw, msgs⟩ := v
    simp only [hd] at h ⊢
    cases hf : assocGet c.fetchOffsets ⟨tr, p.partition⟩ with
    | none => simp [hf] at h
    | some fs =>
      simp only [hf] at h
      cases msgs with
      | cons a b =>
        cases hl : (a :: b).getLast? with
        | none => simp at hl
        | some last => simp [hl] at h; simp [h.2.symm]
      | nil =>
        simp only [List.getLast?_nil] at h
        by_cases h1 : fs.offset < hw
        · simp only [h1, if_true] at h
          by_cases h2 : fs.maxBytes < c.retryLimit
          · simp only [h2, if_true] at h; simp at h; simp [h.2.symm]
          · simp only [h2, if_false] at h
            by_cases h3 : n = 1
            · simp [h3] at h
            · simp only [h3, if_false] at h; simp at h; simp [h.2.symm]
        · simp only [h1, if_false] at h; simp at h; simp [h.2.symm]

/-- folding the book-keeping over all partitions: the flag is raised iff some partition had messages -/
theorem processAll_flag (normalMax : Int) (n : Nat) (single : Bool) :
    ∀ (parts : List (Bytes × FetchPartition)) (c : Consumer) (ne : Bool) (c' : Consumer) (ne' : Bool),
      processAll normalMax n single parts c ne = (.ok c', ne') → ne' = (ne || parts.any fun x => hasMsgs x.2) := by
  intro parts
  induction parts with
  | nil => intro c ne c' ne' h; simp [processAll] at h; simp [h.2]
  | cons x xs ih =>
    intro c ne c' ne' h
    obtain ⟨t, p⟩ := x
    simp only [processAll] at h
    cases htr : topicRef c.assignments t with
    | none => simp [htr] at h
    | some tr =>
      simp only [htr] at h
      cases hpp : processPartition normalMax n single c tr p with
      | mk o got =>
        cases o with
        | ok c1 =>
          simp only [hpp] at h
          rw [ih c1 (ne || got) c' ne' h, processPartition_got _ _ _ _ _ _ _ _ hpp]
          simp [Bool.or_assoc]
        | err e => simp [hpp] at h
        | panic s => simp [hpp] at h
        | diverge => simp [hpp] at h

/-- **the emptiness flag agrees with iteration**: a successful poll says "empty" exactly when iterating it yields nothing -/
theorem C01_empty_flag {σ} (n : Nat) (resps : List FetchResponse) (w w' : WC σ) (r : PollResult)
    (h : processResponses n resps w = (w', .ok r)) : r.empty = true ↔ iterate r.responses = [] := by
  unfold processResponses at h
  simp only at h
  cases hfe : preScan w.cons resps with
  | some c => simp [hfe] at h
  | none =>
    simp only [hfe] at h
    cases hgo : processAll w.cons.client.cfg.fetchMaxBytes n (decide (w.cons.fetchOffsets.length = 1))
        (resps.flatMap fun r => r.topics.flatMap fun t => t.partitions.map fun p => (t.topic, p)) w.cons false with
    | mk o ne =>
      simp only [hgo] at h
      cases o with
      | err e => simp at h
      | panic s => simp at h
      | diverge => simp at h
      | ok c' =>
        simp at h
        obtain ⟨_, rfl⟩ := h
        simp only []
        have hflag := processAll_flag _ n _ _ w.cons false c' ne hgo
        simp only [Bool.false_or] at hflag
        rw [C01_iterate, List.filterMap_eq_nil_iff, hflag]
        simp only [Bool.not_eq_true', List.any_eq_false, partsOf]
        constructor
        · intro hany x hx
          have := hany x hx
          unfold hasMsgs at this
          unfold pick
          cases hd : x.2.data with
          | ok v => simp [hd] at this ⊢; simp [this]
          | error c => rfl
        · intro hnone x hx
          have := hnone x hx
          unfold pick at this
          unfold hasMsgs
          cases hd : x.2.data with
          | ok v =>
            simp only [hd] at this ⊢
            by_cases he : v.2.isEmpty = true
            · simp [he]
            · simp [he] at this
          | error c => simp

/-! ### what is proved and what is not

  Proved here: the per-poll ingredients of the delivery equation — iteration yields exactly the message-carrying
  partitions with their true labels, the fetch offset of a delivering partition becomes last delivered + 1, a failed
  poll (partition error, fetch failure) changes no fetch offset, mark or retry entry, the emptiness flag equals
  "iteration yields nothing".  Together with C02 (what one fetch exposes is the gap-free run of complete messages from
  the asked offset) and C06/C09 (each partition is asked of its leader at the stored fetch offset) these give, poll by
  poll, `delivered(tp) = log(tp) ∩ [start, fetchOffset)`.  The induction over whole histories against the specification
  broker is NOT carried out in Lean; it is what the correspondence run and the C01 judge evaluate on every history. -/

/-! ### non-vacuity -/
example : iterate [⟨1, [⟨[116], [⟨0, .ok (5, [])⟩, ⟨1, .ok (5, [⟨3, [], [7]⟩])⟩, ⟨2, .error 6⟩]⟩]⟩] = [([116], 1, [⟨3, [], [7]⟩])] := by
  simp [iterate]

end Kafka.Props.C01
