import KafkaModel.Model.Consumer
import KafkaModel.Props.C02
import KafkaModel.Spec.Broker
/-!
  C01 — Consumer delivers every log message exactly once, in order, per partition.
  Theorems about `iterate` (mirror of `MessageSetsIter`), `processPartition` / `processResponses`
  (mirror of `process_fetch_responses`) and `poll`.
-/
namespace Kafka.Props.C01
open Kafka Kafka.Model

/-- the (topic, partition, messages) triples of a response, in response order, whatever their state -/
def partsOf (resps : List FetchResponse) : List (Bytes × FetchPartition) :=
  resps.flatMap fun r => r.topics.flatMap fun t => t.partitions.map fun p => (t.topic, p)

def pick (x : Bytes × FetchPartition) : Option (Bytes × Int × List Message) :=
  match x.2.data with
  | .ok (_, msgs) => if msgs.isEmpty then none else some (x.1, x.2.partition, msgs)
  | .error _ => none

theorem iterate_topic (t : FetchTopic) :
    (t.partitions.filterMap fun p =>
      match p.data with
      | .ok (_, msgs) => if msgs.isEmpty then none else some (t.topic, p.partition, msgs)
      | .error _ => none) = (t.partitions.map fun p => (t.topic, p)).filterMap pick := by
  rw [List.filterMap_map]
  rfl

theorem filterMap_flatMap' {α β γ} (f : β → Option γ) (g : α → List β) (l : List α) :
    (l.flatMap g).filterMap f = l.flatMap fun a => (g a).filterMap f := by
  induction l with
  | nil => rfl
  | cons a r ih => simp [List.filterMap_append, ih]

/-- **iteration** yields exactly the partitions that carry messages, in response order, each labelled with the topic
    it was listed under and its own partition id — an empty or erroneous partition in front of it hides nothing -/
theorem C01_iterate (resps : List FetchResponse) : iterate resps = (partsOf resps).filterMap pick := by
  unfold iterate partsOf
  rw [filterMap_flatMap']
  congr 1
  funext r
  rw [filterMap_flatMap']
  congr 1
  funext t
  exact iterate_topic t

/-- every message set handed out carries at least one message -/
theorem C01_iterate_nonempty (resps : List FetchResponse) : ∀ x ∈ iterate resps, x.2.2 ≠ [] := by
  intro x hx
  rw [C01_iterate] at hx
  simp only [List.mem_filterMap] at hx
  obtain ⟨y, _, hy⟩ := hx
  unfold pick at hy
  split at hy
  · rename_i hw msgs _
    by_cases he : msgs.isEmpty = true
    · simp [he] at hy
    · simp [he] at hy
      subst hy
      intro h
      exact he (by simpa using h)
  · cases hy

/-- book-keeping of one partition that delivered messages: the fetch offset becomes last delivered + 1 and the fetch
    size returns to normal; the "something was delivered" flag is raised -/
theorem C01_offset_advance (normalMax : Int) (n : Nat) (single : Bool) (c : Consumer) (tr : Nat) (p : FetchPartition)
    (hw : Int) (msgs : List Message) (last : Message) (fs : FetchState)
    (hd : p.data = .ok (hw, msgs)) (hl : msgs.getLast? = some last) (hf : assocGet c.fetchOffsets ⟨tr, p.partition⟩ = some fs) :
    processPartition normalMax n single c tr p =
      (.ok { c with fetchOffsets := assocSet c.fetchOffsets ⟨tr, p.partition⟩ ⟨last.offset + 1, normalMax⟩ }, true) := by
  simp [processPartition, hd, hf, hl]

/-- a partition that delivered nothing and is not behind the high watermark changes nothing -/
theorem C01_empty_partition_neutral (normalMax : Int) (n : Nat) (single : Bool) (c : Consumer) (tr : Nat) (p : FetchPartition)
    (hw : Int) (fs : FetchState) (hd : p.data = .ok (hw, [])) (hf : assocGet c.fetchOffsets ⟨tr, p.partition⟩ = some fs)
    (hh : ¬ fs.offset < hw) : processPartition normalMax n single c tr p = (.ok c, false) := by
  simp [processPartition, hd, hf, hh]

/-- **a failed poll delivers nothing and skips nothing**: a partition error anywhere in the responses fails the poll
    with the consumer state exactly as before -/
theorem C01_failed_poll_neutral {σ} (resps : List FetchResponse) (w : WC σ) (e : Err) (h : preScan w.cons resps = some e) (n : Nat) :
    processResponses n resps w = (w, .err e) := by
  unfold processResponses
  simp [h]

/-- … and a partition error anywhere in the responses does fail the poll -/
theorem firstError_fails (c : Consumer) (resps : List FetchResponse) (code : Int) (h : firstError resps = some code) :
    ∃ e, preScan c resps = some e := by
  unfold firstError at h
  unfold preScan
  obtain ⟨p, hp, hpd⟩ := List.exists_of_findSome?_eq_some h
  obtain ⟨r, hr, hp⟩ := List.mem_flatMap.mp hp
  obtain ⟨t, ht, hp⟩ := List.mem_flatMap.mp hp
  have hmem : t ∈ resps.flatMap fun r => r.topics := List.mem_flatMap.mpr ⟨r, hr, ht⟩
  have hsome : (preScanTopic c t).isSome := by
    unfold preScanTopic
    cases topicRef c.assignments t.topic with
    | none => rfl
    | some tr =>
      simp only []
      rw [List.findSome?_isSome_iff]
      refine ⟨p, hp, ?_⟩
      cases hd : p.data with
      | error k => rfl
      | ok v => simp [partErr, hd] at hpd
  cases hf : (resps.flatMap fun r => r.topics).findSome? (preScanTopic c) with
  | some e => exact ⟨e, rfl⟩
  | none =>
    rw [List.findSome?_eq_none_iff] at hf
    have := hf t hmem
    simp [this] at hsome

/-- a poll whose fetch fails (I/O, decode error) leaves fetch offsets, retry queue and marks as they were -/
theorem C01_fetch_failure_neutral {σ} (env : Env σ) (w : WC σ) (hret : w.cons.retry = [])
    (e : Err) (w' : W σ) (hf : fetchMessages env
      (w.cons.fetchOffsets.map fun (x : TP × FetchState) =>
        (⟨w.cons.topicName x.1.topicRef, x.1.partition, x.2.offset, x.2.maxBytes⟩ : FetchArg)) ⟨w.world, w.cons.client⟩ = (w', .err e)) :
    (poll env w).2 = .err e ∧ (poll env w).1.cons.fetchOffsets = w.cons.fetchOffsets ∧
    (poll env w).1.cons.consumed = w.cons.consumed ∧ (poll env w).1.cons.retry = w.cons.retry := by
  unfold poll
  simp only [M.bind_def, getCons, hret, liftClient, hf]
  refine ⟨?_, ?_, ?_, ?_⟩ <;> simp

/-- did this partition deliver messages? -/
def hasMsgs (p : FetchPartition) : Bool :=
  match p.data with
  | .ok (_, msgs) => !msgs.isEmpty
  | .error _ => false

/-- when the book-keeping of a partition succeeds, its "got data" answer is exactly whether the partition had messages -/
theorem processPartition_got (normalMax : Int) (n : Nat) (single : Bool) (c c' : Consumer) (tr : Nat) (p : FetchPartition) (got : Bool)
    (h : processPartition normalMax n single c tr p = (.ok c', got)) : got = hasMsgs p := by
  unfold processPartition at h
  unfold hasMsgs
  cases hd : p.data with
  | error e => simp [hd] at h
  | ok v =>
    obtain ⟨hw, msgs⟩ := v
    simp only [hd] at h ⊢
    cases hf : assocGet c.fetchOffsets ⟨tr, p.partition⟩ with
    | none => simp [hf] at h
    | some fs =>
      simp only [hf] at h
      cases msgs with
      | cons a b =>
        cases hl : (a :: b).getLast? with
        | none => simp at hl
        | some last => simp [hl] at h; simp [h.2.symm]
      | nil =>
        simp only [List.getLast?_nil] at h
        by_cases h1 : fs.offset < hw
        · simp only [h1, if_true] at h
          by_cases h2 : fs.maxBytes < c.retryLimit
          · simp only [h2, if_true] at h; simp at h; simp [h.2.symm]
          · simp only [h2, if_false] at h
            by_cases h3 : n = 1
            · simp [h3] at h
            · simp only [h3, if_false] at h; simp at h; simp [h.2.symm]
        · simp only [h1, if_false] at h; simp at h; simp [h.2.symm]

/-- folding the book-keeping over all partitions: the flag is raised iff some partition had messages -/
theorem processAll_flag (normalMax : Int) (n : Nat) (single : Bool) :
    ∀ (parts : List (Bytes × FetchPartition)) (c : Consumer) (ne : Bool) (c' : Consumer) (ne' : Bool),
      processAll normalMax n single parts c ne = (.ok c', ne') → ne' = (ne || parts.any fun x => hasMsgs x.2) := by
  intro parts
  induction parts with
  | nil => intro c ne c' ne' h; simp [processAll] at h; simp [h.2]
  | cons x xs ih =>
    intro c ne c' ne' h
    obtain ⟨t, p⟩ := x
    simp only [processAll] at h
    cases htr : topicRef c.assignments t with
    | none => simp [htr] at h
    | some tr =>
      simp only [htr] at h
      cases hpp : processPartition normalMax n single c tr p with
      | mk o got =>
        cases o with
        | ok c1 =>
          simp only [hpp] at h
          rw [ih c1 (ne || got) c' ne' h, processPartition_got _ _ _ _ _ _ _ _ hpp]
          simp [Bool.or_assoc]
        | err e => simp [hpp] at h
        | panic s => simp [hpp] at h
        | diverge => simp [hpp] at h

/-- **the emptiness flag agrees with iteration**: a successful poll says "empty" exactly when iterating it yields nothing -/
theorem C01_empty_flag {σ} (n : Nat) (resps : List FetchResponse) (w w' : WC σ) (r : PollResult)
    (h : processResponses n resps w = (w', .ok r)) : r.empty = true ↔ iterate r.responses = [] := by
  unfold processResponses at h
  simp only at h
  cases hfe : preScan w.cons resps with
  | some c => simp [hfe] at h
  | none =>
    simp only [hfe] at h
    cases hgo : processAll w.cons.client.cfg.fetchMaxBytes n (decide (w.cons.fetchOffsets.length = 1))
        (resps.flatMap fun r => r.topics.flatMap fun t => t.partitions.map fun p => (t.topic, p)) w.cons false with
    | mk o ne =>
      simp only [hgo] at h
      cases o with
      | err e => simp at h
      | panic s => simp at h
      | diverge => simp at h
      | ok c' =>
        simp at h
        obtain ⟨_, rfl⟩ := h
        simp only []
        have hflag := processAll_flag _ n _ _ w.cons false c' ne hgo
        simp only [Bool.false_or] at hflag
        rw [C01_iterate, List.filterMap_eq_nil_iff, hflag]
        simp only [Bool.not_eq_true', List.any_eq_false, partsOf]
        constructor
        · intro hany x hx
          have := hany x hx
          unfold hasMsgs at this
          unfold pick
          cases hd : x.2.data with
          | ok v => simp [hd] at this ⊢; simp [this]
          | error c => rfl
        · intro hnone x hx
          have := hnone x hx
          unfold pick at this
          unfold hasMsgs
          cases hd : x.2.data with
          | ok v =>
            simp only [hd] at this ⊢
            by_cases he : v.2.isEmpty = true
            · simp [he]
            · simp [he] at this
          | error c => simp

/-! ### what is proved and what is not

  Proved here: the per-poll ingredients of the delivery equation — iteration yields exactly the message-carrying
  partitions with their true labels, the fetch offset of a delivering partition becomes last delivered + 1, a failed
  poll (partition error, fetch failure) changes no fetch offset, mark or retry entry, the emptiness flag equals
  "iteration yields nothing".  Together with C02 (what one fetch exposes is the gap-free run of complete messages from
  the asked offset) and C06/C09 (each partition is asked of its leader at the stored fetch offset) these give, poll by
  poll, `delivered(tp) = log(tp) ∩ [start, fetchOffset)`.  The induction over whole histories against the specification
  broker is NOT carried out in Lean; it is what the correspondence run and the C01 judge evaluate on every history. -/

/-! ### non-vacuity -/
example : iterate [⟨1, [⟨[116], [⟨0, .ok (5, [])⟩, ⟨1, .ok (5, [⟨3, [], [7]⟩])⟩, ⟨2, .error 6⟩]⟩]⟩] = [([116], 1, [⟨3, [], [7]⟩])] := by
  simp [iterate]

end Kafka.Props.C01

/-! ### whole histories: "delivered = the log between the start offset and the fetch offset"

  The per-poll facts above are put together over arbitrary histories of polls and appends for one partition.
  A log is a list of messages with strictly increasing offsets below its end offset `hw`; a poll's reply (after
  decoding: C02) is any gap-free prefix of the messages at or above the asked offset — possibly empty, possibly cut
  short; an append adds a message at or beyond the end offset.  `track` is the book-keeping `processPartition` performs
  (`processPartition_offset` below); what is handed out is the reply itself when it is non-empty (`C01_iterate`). -/
namespace Kafka.Props.C01
open Kafka Kafka.Model

/-- the fetch offset after a reply: one past the last message, unchanged when the reply is empty -/
def nextOffset (o : Int) (ms : List Message) : Int :=
  match ms.getLast? with
  | some l => l.offset + 1
  | none => o

theorem assocGet_assocSet_self {α β} [DecidableEq α] (m : List (α × β)) (k : α) (v : β) : assocGet (assocSet m k v) k = some v := by
  induction m with
  | nil => simp [assocSet, assocGet]
  | cons x r ih =>
    obtain ⟨k', v'⟩ := x
    simp only [assocSet]
    by_cases h : k' = k
    · simp [h, assocGet]
    · simp only [h, if_false]
      simp only [assocGet, List.find?_cons, h, decide_false] at ih ⊢
      exact ih

/-- **the model's book-keeping is `nextOffset`**: for a partition the consumer fetches, a successful `processPartition`
    leaves its fetch offset at `nextOffset` of the old one (whatever happens to the fetch size and the retry queue) -/
theorem processPartition_offset (normalMax : Int) (n : Nat) (single : Bool) (c c' : Consumer) (tr : Nat) (p : FetchPartition)
    (hw : Int) (ms : List Message) (fs : FetchState) (got : Bool)
    (hd : p.data = .ok (hw, ms)) (hf : assocGet c.fetchOffsets ⟨tr, p.partition⟩ = some fs)
    (h : processPartition normalMax n single c tr p = (.ok c', got)) :
    (assocGet c'.fetchOffsets ⟨tr, p.partition⟩).map (·.offset) = some (nextOffset fs.offset ms) := by
  unfold processPartition at h
  simp only [hd, hf] at h
  unfold nextOffset
  cases hl : ms.getLast? with
  | some last =>
    simp only [hl] at h
    simp at h
    obtain ⟨rfl, _⟩ := h
    simp [assocGet_assocSet_self]
  | none =>
    simp only [hl] at h
    split at h
    · split at h
      · simp at h
        obtain ⟨rfl, _⟩ := h
        split <;> simp [assocGet_assocSet_self]
      · split at h
        · simp at h
        · simp at h
          obtain ⟨rfl, _⟩ := h
          split <;> simp [hf]
    · simp at h
      obtain ⟨rfl, _⟩ := h
      simp [hf]

/-- strictly increasing offsets, all below `hw` -/
def LogOk (L : List Message) (hw : Int) : Prop :=
  L.Pairwise (fun a b => a.offset < b.offset) ∧ ∀ m ∈ L, m.offset < hw

/-- the messages of the log with offsets in `[a, b)` -/
def between (L : List Message) (a b : Int) : List Message := L.filter fun m => decide (a ≤ m.offset) && decide (m.offset < b)

/-- the messages at or above `o` -/
def avail (L : List Message) (o : Int) : List Message := L.filter fun m => decide (o ≤ m.offset)

theorem between_split (L : List Message) (a b c : Int) (hab : a ≤ b) (hbc : b ≤ c)
    (hs : L.Pairwise (fun x y => x.offset < y.offset)) : between L a b ++ between L b c = between L a c := by
  induction L with
  | nil => rfl
  | cons m r ih =>
    have hs' := (List.pairwise_cons.mp hs).2
    have hm := (List.pairwise_cons.mp hs).1
    unfold between at ih ⊢
    simp only [List.filter_cons]
    by_cases h1 : m.offset < b
    · -- `m` belongs to the first part, if anywhere
      have hb : ¬ (b ≤ m.offset) := by omega
      by_cases h0 : a ≤ m.offset
      · have hc : m.offset < c := by omega
        simp only [h0, h1, hb, hc, decide_true, decide_false, Bool.and_self, Bool.false_and, if_true]
        simp only [Bool.false_eq_true, if_false, List.cons_append]
        rw [ih hs']
      · simp only [h0, hb, decide_false, Bool.false_and, Bool.false_eq_true, if_false]
        exact ih hs'
    · -- `m` and everything after it is at or above `b`: the first part of the rest is empty
      have hr : r.filter (fun x => decide (a ≤ x.offset) && decide (x.offset < b)) = [] := by
        rw [List.filter_eq_nil_iff]
        intro x hx
        have := hm x hx
        simp
        intro _
        omega
      have h0 : a ≤ m.offset := by omega
      simp only [h1, decide_false, Bool.and_false, Bool.false_eq_true, if_false, hr, List.nil_append]
      have hb : b ≤ m.offset := by omega
      simp only [h0, hb, decide_true, Bool.true_and]
      have := ih hs'
      rw [hr, List.nil_append] at this
      by_cases hc : m.offset < c
      · simp only [hc, decide_true, if_true]; rw [this]
      · simp only [hc, decide_false, Bool.false_eq_true, if_false]; exact this

/-- a gap-free prefix of what is available from `o` is exactly the log between `o` and one past its last message -/
theorem prefix_is_between (L : List Message) (o : Int) (ms : List Message) (hs : L.Pairwise (fun x y => x.offset < y.offset))
    (hp : ms <+: avail L o) : ms = between L o (nextOffset o ms) := by
  induction L generalizing ms o with
  | nil =>
    simp [avail] at hp
    subst hp
    rfl
  | cons m r ih =>
    have hs' := (List.pairwise_cons.mp hs).2
    have hm := (List.pairwise_cons.mp hs).1
    unfold avail at hp
    simp only [List.filter_cons] at hp
    by_cases h0 : o ≤ m.offset
    · simp only [h0, decide_true, if_true] at hp
      cases ms with
      | nil =>
        -- nothing delivered: the interval [o, o) is empty
        unfold nextOffset between
        simp only [List.getLast?_nil]
        symm
        rw [List.filter_eq_nil_iff]
        intro y _
        by_cases h : o ≤ y.offset
        · have : ¬ y.offset < o := by omega
          simp [h, this]
        · simp [h]
      | cons x xs =>
        have hx : x = m := (List.cons_prefix_cons.mp hp).1
        subst hx
        have hxs : xs <+: avail r o := (List.cons_prefix_cons.mp hp).2
        -- everything in `r` is above `x`, so available-from-o and available-from-(x+1) agree on `r`
        have hav : avail r o = avail r (x.offset + 1) := by
          unfold avail
          apply List.filter_congr
          intro y hy
          have := hm y hy
          simp
          constructor <;> intro <;> omega
        rw [hav] at hxs
        have ihx := ih (x.offset + 1) xs hs' hxs
        -- the last message of x :: xs
        have hnext : nextOffset o (x :: xs) = nextOffset (x.offset + 1) xs := by
          unfold nextOffset
          cases xs with
          | nil => simp
          | cons y ys =>
            simp only [List.getLast?_cons_cons]
            cases hg : (y :: ys).getLast? with
            | some l => rfl
            | none => simp at hg
        rw [hnext]
        unfold between
        simp only [List.filter_cons]
        have hlt : x.offset < nextOffset (x.offset + 1) xs := by
          unfold nextOffset
          cases hl : xs.getLast? with
          | none => simp only []; omega
          | some l =>
            simp only []
            have hmem : l ∈ xs := List.mem_of_getLast? hl
            have : l ∈ r := by
              have := hxs.subset hmem
              exact (List.mem_filter.mp this).1
            have := hm l this
            omega
        simp only [h0, hlt, decide_true, Bool.and_self, if_true]
        congr 1
        refine ihx.trans ?_
        unfold between
        apply List.filter_congr
        intro y hy
        have := hm y hy
        by_cases h1 : y.offset < nextOffset (x.offset + 1) xs
        · have a1 : x.offset + 1 ≤ y.offset := by omega
          have a2 : o ≤ y.offset := by omega
          simp [h1, a1, a2]
        · simp [h1]
    · simp only [h0, decide_false, Bool.false_eq_true, if_false] at hp
      refine (ih o ms hs' hp).trans ?_
      unfold between
      simp only [List.filter_cons, h0, decide_false, Bool.false_and, Bool.false_eq_true, if_false]

/-- what happens to one partition: a poll with a conforming reply, or an append to the log -/
inductive Ev
  | poll (ms : List Message)
  | append (m : Message) (hw' : Int)

structure St where
  log : List Message
  hw : Int
  /-- the consumer's fetch offset -/
  o : Int
  /-- everything handed to the application so far, in order -/
  delivered : List Message

/-- the event is possible in this state: replies are gap-free prefixes of what is available from the asked offset; appended
    messages get offsets at or beyond the log end -/
def Ev.ok (s : St) : Ev → Prop
  | .poll ms => ms <+: avail s.log s.o
  | .append m hw' => s.hw ≤ m.offset ∧ m.offset < hw'

def step (s : St) : Ev → St
  | .poll ms => { s with o := nextOffset s.o ms, delivered := s.delivered ++ ms }
  | .append m hw' => { s with log := s.log ++ [m], hw := hw' }

/-- all events of a history are possible, each in the state it meets -/
def valid : St → List Ev → Prop
  | _, [] => True
  | s, e :: r => e.ok s ∧ valid (step s e) r

theorem nextOffset_mono (L : List Message) (hw o : Int) (ms : List Message) (hl : LogOk L hw) (ho : o ≤ hw) (hp : ms <+: avail L o) :
    o ≤ nextOffset o ms ∧ nextOffset o ms ≤ hw := by
  unfold nextOffset
  cases hg : ms.getLast? with
  | none => exact ⟨Int.le_refl _, ho⟩
  | some l =>
    have hmem : l ∈ avail L o := hp.subset (List.mem_of_getLast? hg)
    have h1 := (List.mem_filter.mp hmem)
    have h2 := hl.2 l h1.1
    simp at h1
    simp only []
    omega

/-- **C01 over whole histories**: from a consumer positioned at `start` with nothing delivered yet, after *any* history of
    polls (with any conforming replies: empty, cut short, or complete) and appends, what has been delivered is exactly the
    log between the start offset and the current fetch offset — every message once, in log order, none skipped — and
    the fetch offset never passes the log end -/
theorem C01_history (start : Int) : ∀ (evs : List Ev) (s : St), LogOk s.log s.hw → start ≤ s.o → s.o ≤ s.hw →
    s.delivered = between s.log start s.o → valid s evs →
    let s' := evs.foldl step s
    s'.delivered = between s'.log start s'.o ∧ LogOk s'.log s'.hw ∧ s'.o ≤ s'.hw ∧ s.o ≤ s'.o := by
  intro evs
  induction evs with
  | nil => intro s hl hs ho hd _; exact ⟨hd, hl, ho, Int.le_refl _⟩
  | cons e r ih =>
    intro s hl hs ho hd hv
    obtain ⟨hok, hv'⟩ := hv
    simp only [List.foldl_cons]
    cases e with
    | poll ms =>
      have hp : ms <+: avail s.log s.o := hok
      obtain ⟨hm1, hm2⟩ := nextOffset_mono s.log s.hw s.o ms hl ho hp
      have hstep : (step s (.poll ms)).delivered = between (step s (.poll ms)).log start (step s (.poll ms)).o := by
        simp only [step]
        rw [hd, prefix_is_between s.log s.o ms hl.1 hp]
        rw [← prefix_is_between s.log s.o ms hl.1 hp]
        rw [show between s.log start s.o ++ ms = between s.log start s.o ++ between s.log s.o (nextOffset s.o ms) from by
          rw [← prefix_is_between s.log s.o ms hl.1 hp]]
        exact between_split s.log start s.o _ hs hm1 hl.1
      obtain ⟨h1, h2, h3, h4⟩ := ih (step s (.poll ms)) hl (by simp only [step]; omega) (by simp only [step]; exact hm2) hstep hv'
      have h5 : s.o ≤ (step s (.poll ms)).o := hm1
      exact ⟨h1, h2, h3, Int.le_trans h5 h4⟩
    | append m hw' =>
      obtain ⟨ha1, ha2⟩ := hok
      have hl' : LogOk (s.log ++ [m]) hw' := by
        constructor
        · rw [List.pairwise_append]
          refine ⟨hl.1, by simp, ?_⟩
          intro a ha b hb
          simp at hb
          subst hb
          have := hl.2 a ha
          omega
        · intro x hx
          rcases List.mem_append.mp hx with hx | hx
          · have := hl.2 x hx; omega
          · simp at hx; subst hx; exact ha2
      have hstep : (step s (.append m hw')).delivered = between (step s (.append m hw')).log start (step s (.append m hw')).o := by
        simp only [step]
        rw [hd]
        unfold between
        rw [List.filter_append]
        have : [m].filter (fun x => decide (start ≤ x.offset) && decide (x.offset < s.o)) = [] := by
          simp
          intro _
          omega
        rw [this, List.append_nil]
      obtain ⟨h1, h2, h3, h4⟩ := ih (step s (.append m hw')) hl' (by simp only [step]; exact hs) (by simp only [step]; omega) hstep hv'
      exact ⟨h1, h2, h3, h4⟩

/-- corollary: **exactly once, in order** — the delivered messages are a sub-list of the log, so their offsets are strictly
    increasing (no message twice, none out of order) -/
theorem C01_history_once (start : Int) (evs : List Ev) (s : St) (hl : LogOk s.log s.hw) (hs : start ≤ s.o) (ho : s.o ≤ s.hw)
    (hd : s.delivered = between s.log start s.o) (hv : valid s evs) :
    (evs.foldl step s).delivered.Pairwise (fun a b => a.offset < b.offset) := by
  obtain ⟨h1, h2, _, _⟩ := C01_history start evs s hl hs ho hd hv
  rw [h1]
  exact List.Pairwise.sublist List.filter_sublist h2.1

/-! non-vacuity: a history with an empty reply, a cut reply and an append -/
example : valid ⟨[⟨0, [], [1]⟩, ⟨1, [], [2]⟩], 2, 0, []⟩
    [.poll [], .poll [⟨0, [], [1]⟩], .append ⟨5, [], [3]⟩ 6, .poll [⟨1, [], [2]⟩, ⟨5, [], [3]⟩]] := by
  simp [valid, Ev.ok, step, avail, nextOffset]

/-- **one poll of the model is one `step` of the history**: for a consumer that fetches partition `p` of topic `t`, a reply
    carrying `ms` for that partition is processed successfully, hands out exactly `ms` (nothing when it is empty) and leaves
    the partition's fetch offset at `nextOffset` — the two components of `step (.poll ms)` -/
theorem C01_poll_is_step {σ} (w : WC σ) (t : Bytes) (p : Int) (tr : Nat) (fs : FetchState) (corr hw : Int) (ms : List Message)
    (n : Nat) (ht : topicRef w.cons.assignments t = some tr) (hf : assocGet w.cons.fetchOffsets (⟨tr, p⟩ : TP) = some fs)
    (w' : WC σ) (r : PollResult)
    (h : processResponses n [⟨corr, [⟨t, [⟨p, .ok (hw, ms)⟩]⟩]⟩] w = (w', .ok r)) :
    iterate r.responses = (if ms.isEmpty then [] else [(t, p, ms)]) ∧
    (assocGet w'.cons.fetchOffsets (⟨tr, p⟩ : TP)).map (·.offset) = some (nextOffset fs.offset ms) := by
  unfold processResponses at h
  simp only [] at h
  have hps : preScan w.cons [⟨corr, [⟨t, [⟨p, .ok (hw, ms)⟩]⟩]⟩] = none := by
    simp [preScan, preScanTopic, ht, hf]
  simp only [hps, List.flatMap_cons, List.flatMap_nil, List.map_cons, List.map_nil, List.append_nil, processAll, ht] at h
  cases hpp : processPartition w.cons.client.cfg.fetchMaxBytes n (decide (w.cons.fetchOffsets.length = 1)) w.cons tr ⟨p, .ok (hw, ms)⟩ with
  | mk o got =>
    rw [hpp] at h
    cases o with
    | ok c' =>
      simp only [processAll] at h
      simp at h
      obtain ⟨rfl, rfl⟩ := h
      refine ⟨?_, ?_⟩
      · simp only [iterate, List.flatMap_cons, List.flatMap_nil, List.filterMap_cons, List.filterMap_nil, List.append_nil]
        by_cases he : ms.isEmpty = true <;> simp [he]
      · exact processPartition_offset _ _ _ w.cons c' tr ⟨p, .ok (hw, ms)⟩ hw ms fs got rfl hf hpp
    | err e => simp at h
    | panic s => simp at h
    | diverge => simp at h

end Kafka.Props.C01

/-! ### closing the loop for uncompressed logs: what the decoder yields from a conforming broker's bytes *is* a conforming reply -/
namespace Kafka.Props.C01
open Kafka Kafka.Spec Kafka.Model Kafka.Props.C02

theorem cutMsgs_prefix : ∀ (ms : List Msg) (t : Nat), cutMsgs ms t <+: ms := by
  intro ms
  induction ms with
  | nil => intro t; simp [cutMsgs]
  | cons m r ih =>
    intro t
    simp only [cutMsgs]
    split
    · exact (List.prefix_cons_inj m).mpr (ih _)
    · exact List.nil_prefix

/-- a broker serving an uncompressed log sends the encoded log from some entry on - skipping only entries below the asked
    offset - cut at any byte (`fetchBytes` of the specification broker: from the first entry at or above the offset, at most
    `max_bytes`).  What `fromSlice` exposes from these bytes (`C02_plain`) is a gap-free prefix of the messages available
    from the asked offset: exactly the hypothesis `Ev.ok` puts on a poll in `C01_history`. -/
theorem C01_plain_reply_conforms (ms : List Msg) (k t : Nat) (o : Int) (hk : ∀ m ∈ ms.take k, m.offset < o) :
    want (cutMsgs (ms.drop k) t) o <+: avail (ms.map asMessage) o := by
  have h1 : cutMsgs (ms.drop k) t <+: ms.drop k := cutMsgs_prefix _ _
  have h2 : want (cutMsgs (ms.drop k) t) o <+: want (ms.drop k) o := by
    unfold want
    exact (h1.filter _).map _
  have h3 : want (ms.drop k) o = avail (ms.map asMessage) o := by
    unfold want avail
    rw [List.filter_map]
    congr 1
    have hsplit : ms.filter ((fun m => decide (o ≤ m.offset)) ∘ asMessage)
        = (ms.take k).filter ((fun m => decide (o ≤ m.offset)) ∘ asMessage) ++ (ms.drop k).filter ((fun m => decide (o ≤ m.offset)) ∘ asMessage) := by
      rw [← List.filter_append, List.take_append_drop]
    rw [hsplit]
    have : (ms.take k).filter ((fun m => decide (o ≤ m.offset)) ∘ asMessage) = [] := by
      rw [List.filter_eq_nil_iff]
      intro m hm
      have hlt := hk m hm
      have : ¬ o ≤ m.offset := by omega
      simp [asMessage, this]
    rw [this, List.nil_append]
    apply List.filter_congr
    intro m _
    simp [asMessage]
    rfl
  rw [← h3]
  exact h2

/-- a partition log of uncompressed entries, one message each -/
def plainEntries (ms : List Msg) : List LogEntry := ms.map fun m => ⟨m.offset, m.offset, encMsg m⟩

/-- **the specification broker's answer for an uncompressed log** is the encoded log from some entry on — having skipped only
    messages below the asked offset — cut at `max_bytes`: the premise of `C01_plain_reply_conforms` -/
theorem C01_spec_fetch_plain (ps : PartState) (ms : List Msg) (h : ps.entries = plainEntries ms) (o mb : Int) :
    ∃ k, (∀ m ∈ ms.take k, m.offset < o) ∧ fetchBytes ps o mb = (encMsgs (ms.drop k)).take mb.toNat := by
  unfold fetchBytes
  rw [h]
  -- dropWhile over the mapped list is a drop of the original
  have key : ∀ (l : List Msg), ∃ k, (∀ m ∈ l.take k, m.offset < o) ∧
      (plainEntries l).dropWhile (fun e => decide (e.last < o)) = plainEntries (l.drop k) := by
    intro l
    induction l with
    | nil => exact ⟨0, by simp, by simp [plainEntries]⟩
    | cons m r ih =>
      by_cases hm : m.offset < o
      · obtain ⟨k, hk1, hk2⟩ := ih
        refine ⟨k + 1, ?_, ?_⟩
        · intro x hx
          simp only [List.take_succ_cons, List.mem_cons] at hx
          rcases hx with rfl | hx
          · exact hm
          · exact hk1 x hx
        · simp only [plainEntries, List.map_cons, List.dropWhile_cons, hm, decide_true, if_true, List.drop_succ_cons]
          exact hk2
      · refine ⟨0, by simp, ?_⟩
        simp only [plainEntries, List.map_cons, List.dropWhile_cons, hm, decide_false, Bool.false_eq_true, if_false, List.drop_zero]
  obtain ⟨k, hk1, hk2⟩ := key ms
  refine ⟨k, hk1, ?_⟩
  simp only []
  rw [hk2]
  congr 1
  unfold plainEntries encMsgs
  generalize ms.drop k = l
  induction l with
  | nil => rfl
  | cons m r ih => simp only [List.map_cons, List.flatMap_cons, ih]

/-- **end to end for an uncompressed partition log**: whatever the asked offset `o` and fetch size, what the model's decoder
    exposes from the specification broker's answer is a gap-free prefix of the messages available from `o` — so every poll
    of such a history is an `Ev.poll` permitted by `Ev.ok`, and `C01_history` applies to it -/
theorem C01_end_to_end_plain (cx : Codecs) (debug validate : Bool) (depth : Nat) (ps : PartState) (ms : List Msg)
    (h : ps.entries = plainEntries ms) (hok : ∀ m ∈ ms, msgOK m ∧ isPlain m) (o mb : Int) :
    ∃ out, fromSlice cx debug depth (ms.length + 1) (fetchBytes ps o mb) o validate [] = .ok out ∧
      out <+: avail (ms.map asMessage) o := by
  obtain ⟨k, hk1, hk2⟩ := C01_spec_fetch_plain ps ms h o mb
  rw [hk2]
  have hlen : (cutMsgs (ms.drop k) mb.toNat).length ≤ ms.length + 1 := by
    have := cutMsgs_length (ms.drop k) mb.toNat
    simp at this
    omega
  have := C02_plain cx debug depth o validate (ms.drop k) mb.toNat (ms.length + 1) []
    (fun m hm => hok m (List.mem_of_mem_drop hm)) hlen
  rw [this]
  exact ⟨want (cutMsgs (ms.drop k) mb.toNat) o, by simp, C01_plain_reply_conforms ms k mb.toNat o hk1⟩

/-- **a reply that answers what a single-partition fetch asked leaves nothing half done**: when the book-keeping loop
    stops with an error on a reply holding one partition, the consumer state reached is the state before the loop — the
    `MessageSizeTooLarge` report changes no fetch offset, size or retry entry -/
theorem C01_size_error_neutral_single (normalMax : Int) (n : Nat) (single : Bool) (c : Consumer) (t : Bytes) (p : FetchPartition)
    (e : Err) (h : (processAll normalMax n single [(t, p)] c false).1 = .err e) :
    processAllReached normalMax n single [(t, p)] c = c := by
  simp only [processAll, processAllReached] at h ⊢
  cases htr : topicRef c.assignments t with
  | none => simp
  | some tr =>
    simp only [htr] at h ⊢
    cases hpp : processPartition normalMax n single c tr p with
    | mk o got =>
      cases o with
      | ok c' => simp [hpp, processAll] at h
      | err e' => simp
      | panic s => simp
      | diverge => simp


end Kafka.Props.C01

/-! ## end to end for compressed and nested logs -/

namespace Kafka.Props.C01.Nested
open Kafka Kafka.Spec Kafka.Model Kafka.Props.C02 Kafka.Props.C02.Nested Kafka.Props.C01

/-- the highest offset an entry stands for, as the broker books it: a message's own offset, a wrapper's offset field -/
def lastOf : (d : Nat) → Entry d → Int
  | 0, m => m.offset
  | _+1, .inl m => m.offset
  | _+1, .inr (_, last, _) => last

/-- a wrapper's offset is at or above every offset inside it (Kafka: it *is* the last inner offset) -/
def lastBounds (d : Nat) (e : Entry d) : Prop := ∀ m ∈ flat d e, m.offset ≤ lastOf d e

/-- a partition log of (possibly compressed, possibly nested) entries as the specification broker stores it -/
def nestedEntries (comp : Int → Bytes → Bytes) (d : Nat) (es : List (Entry d)) : List LogEntry :=
  es.map fun e => ⟨lastOf d e, lastOf d e, wire comp d e⟩

theorem cut_prefix (comp : Int → Bytes → Bytes) (d : Nat) : ∀ (es : List (Entry d)) (t : Nat), cut comp d es t <+: es := by
  intro es
  induction es with
  | nil => intro t; simp [cut]
  | cons e r ih =>
    intro t
    simp only [cut]
    split
    · exact (List.prefix_cons_inj e).mpr (ih _)
    · exact List.nil_prefix

theorem flatMap_prefix {α β} (f : α → List β) {l1 l2 : List α} (h : l1 <+: l2) : l1.flatMap f <+: l2.flatMap f := by
  obtain ⟨t, rfl⟩ := h
  simp [List.flatMap_append]

/-- **the specification broker's answer for any such log**: the encoded entries from some entry on — having skipped only
    entries all of whose messages lie below the asked offset — cut at `max_bytes` -/
theorem spec_fetch_nested (comp : Int → Bytes → Bytes) (d : Nat) (ps : PartState) (es : List (Entry d))
    (h : ps.entries = nestedEntries comp d es) (hb : ∀ e ∈ es, lastBounds d e) (o mb : Int) :
    ∃ k, (∀ m ∈ (es.take k).flatMap (flat d), m.offset < o) ∧
      fetchBytes ps o mb = ((es.drop k).flatMap (wire comp d)).take mb.toNat := by
  unfold fetchBytes
  rw [h]
  have key : ∀ (l : List (Entry d)), (∀ e ∈ l, lastBounds d e) → ∃ k, (∀ m ∈ (l.take k).flatMap (flat d), m.offset < o) ∧
      (nestedEntries comp d l).dropWhile (fun e => decide (e.last < o)) = nestedEntries comp d (l.drop k) := by
    intro l
    induction l with
    | nil => intro _; exact ⟨0, by simp, by simp [nestedEntries]⟩
    | cons e r ih =>
      intro hl
      by_cases hm : lastOf d e < o
      · obtain ⟨k, hk1, hk2⟩ := ih (fun x hx => hl x (by simp [hx]))
        refine ⟨k + 1, ?_, ?_⟩
        · intro x hx
          simp only [List.take_succ_cons, List.flatMap_cons, List.mem_append] at hx
          rcases hx with hx | hx
          · have := hl e (by simp) x hx; omega
          · exact hk1 x hx
        · simp only [nestedEntries, List.map_cons, List.dropWhile_cons, hm, decide_true, if_true, List.drop_succ_cons]
          exact hk2
      · refine ⟨0, by simp, ?_⟩
        simp only [nestedEntries, List.map_cons, List.dropWhile_cons, hm, decide_false, Bool.false_eq_true, if_false, List.drop_zero]
  obtain ⟨k, hk1, hk2⟩ := key es hb
  refine ⟨k, hk1, ?_⟩
  simp only []
  rw [hk2]
  congr 1
  unfold nestedEntries
  generalize es.drop k = l
  induction l with
  | nil => rfl
  | cons m r ih => simp only [List.map_cons, List.flatMap_cons, ih]

/-- **end to end for compressed and nested partition logs**: whatever the asked offset and fetch size, what the model's
    decoder exposes from the specification broker's answer is a gap-free prefix of the messages available from the asked
    offset — every poll over such a log is an `Ev.poll` permitted by `Ev.ok`, and `C01_history` applies.  Relative to
    decompressors that undo the broker's compressors (`Inv`); nesting up to the depth the decoder admits. -/
theorem C01_end_to_end_nested (cx : Codecs) (comp : Int → Bytes → Bytes) (hinv : Inv cx comp) (debug validate : Bool)
    (d k : Nat) (ps : PartState) (es : List (Entry d)) (h : ps.entries = nestedEntries comp d es)
    (hok : ∀ e ∈ es, entryOK comp d e) (hb : ∀ e ∈ es, lastBounds d e) (o mb : Int) :
    ∃ out, fromSlice cx debug (d + k) (es.length + 1) (fetchBytes ps o mb) o validate [] = .ok out ∧
      out <+: avail ((es.flatMap (flat d)).map asMessage) o := by
  obtain ⟨j, hj1, hj2⟩ := spec_fetch_nested comp d ps es h hb o mb
  rw [hj2]
  have hlen : (cut comp d (es.drop j) mb.toNat).length ≤ es.length + 1 := by
    have := cut_length comp d (es.drop j) mb.toNat
    simp at this
    omega
  rw [C02_nested cx comp hinv debug o validate d k (es.drop j) mb.toNat (es.length + 1) []
    (fun e he => hok e (List.mem_of_mem_drop he)) hlen]
  refine ⟨want ((cut comp d (es.drop j) mb.toNat).flatMap (flat d)) o, by simp, ?_⟩
  -- what is exposed is a prefix of what the kept entries hold …
  have h1 : (cut comp d (es.drop j) mb.toNat).flatMap (flat d) <+: (es.drop j).flatMap (flat d) :=
    flatMap_prefix _ (cut_prefix comp d _ _)
  have h2 : want ((cut comp d (es.drop j) mb.toNat).flatMap (flat d)) o <+: want ((es.drop j).flatMap (flat d)) o := by
    unfold want
    exact (h1.filter _).map _
  -- … and the skipped entries hold nothing at or above the asked offset
  have h3 : want ((es.drop j).flatMap (flat d)) o = avail ((es.flatMap (flat d)).map asMessage) o := by
    unfold want avail
    rw [List.filter_map]
    congr 1
    have hsplit : es.flatMap (flat d) = (es.take j).flatMap (flat d) ++ (es.drop j).flatMap (flat d) := by
      rw [← List.flatMap_append, List.take_append_drop]
    rw [hsplit, List.filter_append]
    have : ((es.take j).flatMap (flat d)).filter ((fun m => decide (o ≤ m.offset)) ∘ asMessage) = [] := by
      rw [List.filter_eq_nil_iff]
      intro m hm
      have hlt := hj1 m hm
      have : ¬ o ≤ m.offset := by omega
      simp [asMessage, this]
    rw [this, List.nil_append]
    apply List.filter_congr
    intro m _
    simp [asMessage]
    rfl
  rw [← h3]
  exact h2

end Kafka.Props.C01.Nested
