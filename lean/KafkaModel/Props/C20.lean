import KafkaModel.Model.Client
/-!
  C20 — Only explicit metadata loads ever name a topic the client has not loaded.
  Every (topic, partition) placed in a fetch / offsets / list-offsets / produce request is one the loaded
  metadata knows (with a leader); produce, commit and group-offset fetch with an unknown entry fail
  locally with unknown-topic-or-partition and touch the network not at all.
-/
namespace Kafka.Props.C20
open Kafka Kafka.Model

/-- (topic, partition) is in the loaded metadata -/
def Known (st : ClientState) (t : Bytes) (p : Int) : Prop :=
  ∃ ps, assocGet st.topics t = some ps ∧ 0 ≤ p ∧ p.toNat < ps.length

theorem partIdx_some (ps : List Nat) (p : Int) : (partIdx ps p).isSome ↔ (0 ≤ p ∧ p.toNat < ps.length) := by
  unfold partIdx
  by_cases h : p < 0
  · simp [h]; omega
  · simp [h]
    intro _; omega

/-- the membership test used by commit and group-offset fetch is exact: topic *and* partition -/
theorem C20_contains (st : ClientState) (t : Bytes) (p : Int) : st.containsTopicPartition t p = true ↔ Known st t p := by
  unfold ClientState.containsTopicPartition Known
  cases h : assocGet st.topics t with
  | none => simp
  | some ps =>
    simp only [Option.some.injEq, exists_eq_left']
    exact partIdx_some ps p

theorem C20_find_known (st : ClientState) (t : Bytes) (p : Int) (h : st.findBroker t p ≠ none) : Known st t p := by
  unfold ClientState.findBroker at h
  unfold Known
  cases ht : assocGet st.topics t with
  | none => simp [ht] at h
  | some ps =>
    refine ⟨ps, rfl, ?_⟩
    simp only [ht] at h
    cases hp : partIdx ps p with
    | none => simp [hp] at h
    | some i => exact (partIdx_some ps p).mp (by simp [hp])

/-! ### fetch -/

def fetchMentions (reqs : List (Bytes × FetchRequest)) : List (Bytes × Int) :=
  reqs.flatMap fun r => r.2.topics.flatMap fun t => t.2.map fun p => (t.1, p.1)

theorem mem_insertPart (ps : List (Int × Int × Int)) (p off mb q : Int) (h : q ∈ (insertPart ps p off mb).map (·.1)) :
    q = p ∨ q ∈ ps.map (·.1) := by
  induction ps with
  | nil => simp [insertPart] at h; exact Or.inl h
  | cons x xs ih =>
    simp only [insertPart] at h
    split at h
    · rename_i heq
      simp at h
      rcases h with h | h
      · exact Or.inl h
      · right; simp; right; simpa using h
    · simp at h
      rcases h with h | h
      · right; simp; left; exact h
      · rcases ih (by simpa using h) with h' | h'
        · exact Or.inl h'
        · right; simp at h' ⊢; right; exact h'

theorem mem_insertTopicPart (ts : List (Bytes × List (Int × Int × Int))) (t : Bytes) (p off mb : Int) (x : Bytes × Int)
    (h : x ∈ (insertTopicPart ts t p off mb).flatMap fun tt => tt.2.map fun q => (tt.1, q.1)) :
    x = (t, p) ∨ x ∈ ts.flatMap fun tt => tt.2.map fun q => (tt.1, q.1) := by
  induction ts with
  | nil => simp [insertTopicPart] at h; exact Or.inl (by cases x; simp_all)
  | cons y ys ih =>
    obtain ⟨t', ps⟩ := y
    simp only [insertTopicPart] at h
    split at h
    · rename_i heq
      subst heq
      simp only [List.flatMap_cons, List.mem_append, List.mem_map] at h ⊢
      rcases h with ⟨q, hq, rfl⟩ | h
      · have := mem_insertPart ps p off mb q.1 (List.mem_map.mpr ⟨q, hq, rfl⟩)
        rcases this with h1 | h1
        · left; simp [h1]
        · right; left
          obtain ⟨q', hq', he⟩ := List.mem_map.mp h1
          exact ⟨q', hq', by simp [he]⟩
      · right; right; exact h
    · simp only [List.flatMap_cons, List.mem_append] at h ⊢
      rcases h with h | h
      · right; left; exact h
      · rcases ih h with h' | h'
        · exact Or.inl h'
        · right; right; exact h'

theorem mem_upsert_fetch (reqs : List (Bytes × FetchRequest)) (host : Bytes) (d : FetchRequest) (hd : d.topics = [])
    (t : Bytes) (p off mb : Int) (x : Bytes × Int)
    (h : x ∈ fetchMentions (upsert reqs host d (fun r => r.add t p off mb))) : x = (t, p) ∨ x ∈ fetchMentions reqs := by
  induction reqs with
  | nil =>
    simp only [upsert, fetchMentions, List.flatMap_cons, List.flatMap_nil, List.append_nil, FetchRequest.add, hd] at h
    have := mem_insertTopicPart [] t p off mb x h
    rcases this with h1 | h1
    · exact Or.inl h1
    · simp at h1
  | cons r rs ih =>
    obtain ⟨k, v⟩ := r
    simp only [upsert] at h
    split at h
    · simp only [fetchMentions, List.flatMap_cons, List.mem_append, FetchRequest.add] at h ⊢
      rcases h with h | h
      · rcases mem_insertTopicPart v.topics t p off mb x h with h' | h'
        · exact Or.inl h'
        · right; left; exact h'
      · right; right; exact h
    · simp only [fetchMentions, List.flatMap_cons, List.mem_append] at h ⊢
      rcases h with h | h
      · right; left; exact h
      · rcases ih h with h' | h'
        · exact Or.inl h'
        · right; right; exact h'

/-- **fetch**: every (topic, partition) named in any fetch request is in the loaded metadata (and has a leader);
    entries without one are silently left out -/
theorem C20_fetch_mentions (c : Client) (corr : Int) (input : List FetchArg) :
    ∀ x ∈ fetchMentions (fetchRequests c corr input), c.st.findBroker x.1 x.2 ≠ none ∧ Known c.st x.1 x.2 := by
  have key : ∀ (input : List FetchArg) (acc : List (Bytes × FetchRequest)),
      (∀ x ∈ fetchMentions acc, c.st.findBroker x.1 x.2 ≠ none) →
      ∀ x ∈ fetchMentions (input.foldl (fun reqs a =>
        match c.st.findBroker a.topic a.partition with
        | none => reqs
        | some host =>
          upsert reqs host (FetchRequest.new corr c.cfg.clientId c.cfg.fetchMaxWait c.cfg.fetchMinBytes)
            (fun r => r.add a.topic a.partition a.offset (if a.maxBytes > (0 : Int) then a.maxBytes else c.cfg.fetchMaxBytes))) acc),
        c.st.findBroker x.1 x.2 ≠ none := by
    intro input
    induction input with
    | nil => intro acc h; simpa using h
    | cons a as ih =>
      intro acc hacc
      simp only [List.foldl_cons]
      apply ih
      cases hb : c.st.findBroker a.topic a.partition with
      | none => simpa using hacc
      | some host =>
        intro x hx
        simp only at hx
        rcases mem_upsert_fetch acc host _ rfl a.topic a.partition _ _ x hx with h | h
        · subst h; simp [hb]
        · exact hacc x h
  intro x hx
  have := key input [] (by simp [fetchMentions]) x hx
  exact ⟨this, C20_find_known _ _ _ this⟩

/-! ### produce, commit, group-offset fetch: local failure, nothing sent -/

/-- the grouping step of `internal_produce_messages` -/
def produceStep (c : Client) (corr acks to : Int) (reqs : Option (List (Bytes × ProduceRequest))) (m : ProduceArg) :
    Option (List (Bytes × ProduceRequest)) :=
  match reqs with
  | none => none
  | some reqs =>
    match c.st.findBroker m.topic m.partition with
    | none => none
    | some host => some (upsert reqs host (ProduceRequest.new acks to corr c.cfg.clientId c.cfg.compression)
        (·.add m.topic m.partition m.key m.value))

theorem produceRequests_eq (c : Client) (corr acks to : Int) (msgs : List ProduceArg) :
    produceRequests c corr acks to msgs = msgs.foldl (produceStep c corr acks to) (some []) := rfl

theorem foldl_none (c : Client) (corr acks to : Int) (l : List ProduceArg) :
    l.foldl (produceStep c corr acks to) none = none := by
  induction l with
  | nil => rfl
  | cons x xs ih => simpa [produceStep] using ih

/-- an unknown destination anywhere in the batch makes the grouping pass fail … -/
theorem C20_produce_unknown (c : Client) (corr acks to : Int) (pre : List ProduceArg) (m : ProduceArg) (post : List ProduceArg)
    (h : c.st.findBroker m.topic m.partition = none) :
    produceRequests c corr acks to (pre ++ m :: post) = none := by
  rw [produceRequests_eq, List.foldl_append, List.foldl_cons]
  have : ∀ acc, produceStep c corr acks to acc m = none := by
    intro acc; cases acc <;> simp [produceStep, h]
  rw [this]
  exact foldl_none c corr acks to post

/-- … and the call returns unknown-topic-or-partition with the network untouched: no byte sent -/
theorem C20_produce_local_failure {σ} (env : Env σ) (acks to : Int) (msgs : List ProduceArg) (w : W σ)
    (h : ∀ c corr, c.st.topics = w.client.st.topics → c.st.brokers = w.client.st.brokers → produceRequests c corr acks to msgs = none) :
    (internalProduce env acks to msgs w).2 = .err (.kafka 3) ∧ (internalProduce env acks to msgs w).1.world = w.world := by
  unfold internalProduce
  simp only [M.bind_def, nextCorr, getClient]
  rw [h _ _ (by simp [ClientState.nextCorr]) (by simp [ClientState.nextCorr])]
  simp [M.fail]

theorem build_none (c : Client) (t : Bytes) (p o : Int) (post : List (Bytes × Int × Int))
    (hc : c.st.containsTopicPartition t p = false) :
    ∀ (l : List (Bytes × Int × Int)) (r : OffsetCommitRequest), commitOffsets.build c (l ++ (t, p, o) :: post) r = none := by
  intro l
  induction l with
  | nil => intro r; simp [commitOffsets.build, hc]
  | cons x xs ih =>
    intro r
    obtain ⟨a, b, cc⟩ := x
    simp only [List.cons_append, commitOffsets.build]
    split
    · exact ih _
    · rfl

theorem C20_commit_local_failure {σ} (env : Env σ) (group : Bytes) (pre : List (Bytes × Int × Int)) (t : Bytes) (p o : Int)
    (post : List (Bytes × Int × Int)) (w : W σ) (storage : Storage) (hs : w.client.cfg.storage = some storage)
    (hk : ¬ Known w.client.st t p) :
    (commitOffsets env group (pre ++ (t, p, o) :: post) w).2 = .err (.kafka 3) ∧
    (commitOffsets env group (pre ++ (t, p, o) :: post) w).1.world = w.world := by
  have hc : (w.client.st.containsTopicPartition t p) = false := by
    cases h : w.client.st.containsTopicPartition t p with
    | false => rfl
    | true => exact absurd ((C20_contains _ _ _).mp h) hk
  unfold commitOffsets
  simp only [M.bind_def, getClient, hs, nextCorr]
  rw [build_none _ t p o post (by simpa [ClientState.containsTopicPartition, ClientState.nextCorr] using hc)]
  simp [M.fail]

/-- after a reset everything is unknown -/
theorem C20_after_reset (st : ClientState) (t : Bytes) (p : Int) :
    st.clearMetadata.findBroker t p = none ∧ st.clearMetadata.containsTopicPartition t p = false := by
  simp [ClientState.clearMetadata, ClientState.findBroker, ClientState.containsTopicPartition, assocGet]

/-- offset look-ups only consider topics the metadata knows -/
theorem C20_offsets_unknown_topic (c : Client) (t : Bytes) (h : assocGet c.st.topics t = none) : c.st.ledPartitions t = none := by
  simp [ClientState.ledPartitions, h]

/-! ### non-vacuity -/
example : Known { topics := [([116], [0, 4294967295])], brokers := [⟨1, [98]⟩] } [116] 1 := ⟨_, rfl, by decide, by decide⟩
example : ¬ Known { topics := [([116], [0, 4294967295])], brokers := [⟨1, [98]⟩] } [116] 2 := by
  rintro ⟨ps, h, _, h2⟩; simp [assocGet] at h; subst h; simp at h2

/-! ### Offsets / ListOffsets requests name led partitions of loaded topics only -/

/-- the (topic, partition) pairs named in a list of per-topic entry lists -/
def entryMentions {β} (topics : List (Bytes × List β)) (pid : β → Int) : List (Bytes × Int) :=
  topics.flatMap fun tp => tp.2.map fun e => (tp.1, pid e)

theorem mem_addTopicEntry {β} (pid : β → Int) (topics : List (Bytes × List β)) (t : Bytes) (e : β) (x : Bytes × Int)
    (h : x ∈ entryMentions (addTopicEntry topics t e) pid) : x = (t, pid e) ∨ x ∈ entryMentions topics pid := by
  induction topics with
  | nil => simp [addTopicEntry, entryMentions] at h; exact Or.inl h
  | cons tp r ih =>
    obtain ⟨t', es⟩ := tp
    simp only [addTopicEntry] at h
    split at h
    · rename_i heq
      simp only [entryMentions, List.flatMap_cons, List.map_append, List.map_cons, List.map_nil, List.mem_append,
        List.mem_cons, List.not_mem_nil, or_false] at h ⊢
      rcases h with (h | h) | h
      · right; left; exact h
      · left; rw [h, heq]
      · right; right; exact h
    · simp only [entryMentions, List.flatMap_cons, List.mem_append] at h ⊢
      rcases h with h | h
      · right; left; exact h
      · rcases ih h with h' | h'
        · exact Or.inl h'
        · right; right; exact h'

/-- the pairs named in the Offsets requests of one call -/
def offsetMentions (reqs : List (Bytes × OffsetRequest)) : List (Bytes × Int) :=
  reqs.flatMap fun r => entryMentions r.2.topics (·.1)

theorem mem_upsert_offset (reqs : List (Bytes × OffsetRequest)) (host : Bytes) (d : OffsetRequest) (hd : d.topics = [])
    (t : Bytes) (p time : Int) (x : Bytes × Int)
    (h : x ∈ offsetMentions (upsert reqs host d (fun r => r.add t p time))) : x = (t, p) ∨ x ∈ offsetMentions reqs := by
  induction reqs with
  | nil =>
    simp only [upsert, offsetMentions, List.flatMap_cons, List.flatMap_nil, List.append_nil, OffsetRequest.add, hd] at h
    rcases mem_addTopicEntry (·.1) [] t (p, 1, time) x h with h1 | h1
    · exact Or.inl h1
    · simp [entryMentions] at h1
  | cons r rs ih =>
    obtain ⟨k, v⟩ := r
    simp only [upsert] at h
    split at h
    · simp only [offsetMentions, List.flatMap_cons, List.mem_append, OffsetRequest.add] at h ⊢
      rcases h with h | h
      · rcases mem_addTopicEntry (·.1) v.topics t (p, 1, time) x h with h' | h'
        · exact Or.inl h'
        · right; left; exact h'
      · right; right; exact h
    · simp only [offsetMentions, List.flatMap_cons, List.mem_append] at h ⊢
      rcases h with h | h
      · right; left; exact h
      · rcases ih h with h' | h'
        · exact Or.inl h'
        · right; right; exact h'

/-- **offsets** (`fetch_offsets`, and through it consumer creation): every (topic, partition) named in any Offsets request of
    a call is a led partition of a topic in the loaded metadata; topics that are not loaded are left out -/
theorem C20_offsets_mentions (c : Client) (corr : Int) (topics : List Bytes) (time : Int) :
    ∀ x ∈ offsetMentions (offsetRequests c corr topics time),
      ∃ ps host, c.st.ledPartitions x.1 = some ps ∧ (x.2, host) ∈ ps := by
  unfold offsetRequests
  have inner : ∀ (t : Bytes) (ps0 : List (Int × Bytes)) (ps : List (Int × Bytes)) (acc : List (Bytes × OffsetRequest)),
      (∀ y ∈ ps, y ∈ ps0) → c.st.ledPartitions t = some ps0 →
      (∀ x ∈ offsetMentions acc, ∃ ps host, c.st.ledPartitions x.1 = some ps ∧ (x.2, host) ∈ ps) →
      ∀ x ∈ offsetMentions (ps.foldl (fun reqs (y : Int × Bytes) =>
          upsert reqs y.2 (OffsetRequest.new corr c.cfg.clientId) (·.add t y.1 time)) acc),
        ∃ ps host, c.st.ledPartitions x.1 = some ps ∧ (x.2, host) ∈ ps := by
    intro t ps0 ps
    induction ps with
    | nil => intro acc _ _ hacc; simpa using hacc
    | cons y ys ih =>
      intro acc hsub hled hacc
      simp only [List.foldl_cons]
      apply ih _ (fun z hz => hsub z (List.mem_cons_of_mem _ hz)) hled
      intro x hx
      rcases mem_upsert_offset acc y.2 _ rfl t y.1 time x hx with h | h
      · subst h; exact ⟨ps0, y.2, hled, hsub y List.mem_cons_self⟩
      · exact hacc x h
  have outer : ∀ (topics : List Bytes) (acc : List (Bytes × OffsetRequest)),
      (∀ x ∈ offsetMentions acc, ∃ ps host, c.st.ledPartitions x.1 = some ps ∧ (x.2, host) ∈ ps) →
      ∀ x ∈ offsetMentions (topics.foldl (fun reqs t =>
          match c.st.ledPartitions t with
          | none => reqs
          | some ps => ps.foldl (fun reqs (y : Int × Bytes) =>
              upsert reqs y.2 (OffsetRequest.new corr c.cfg.clientId) (·.add t y.1 time)) reqs) acc),
        ∃ ps host, c.st.ledPartitions x.1 = some ps ∧ (x.2, host) ∈ ps := by
    intro topics
    induction topics with
    | nil => intro acc hacc; simpa using hacc
    | cons t ts ih =>
      intro acc hacc
      simp only [List.foldl_cons]
      apply ih
      cases hl : c.st.ledPartitions t with
      | none => simpa using hacc
      | some ps => exact inner t ps ps acc (fun y hy => hy) hl hacc
  exact outer topics [] (by simp [offsetMentions])
/-- the pairs named in the ListOffsets requests of one call -/
def listOffsetMentions (reqs : List (Bytes × ListOffsetsRequest)) : List (Bytes × Int) :=
  reqs.flatMap fun r => entryMentions r.2.topics (·.1)

theorem mem_upsert_list_offset (reqs : List (Bytes × ListOffsetsRequest)) (host : Bytes) (d : ListOffsetsRequest) (hd : d.topics = [])
    (t : Bytes) (p time : Int) (x : Bytes × Int)
    (h : x ∈ listOffsetMentions (upsert reqs host d (fun r => r.add t p time))) : x = (t, p) ∨ x ∈ listOffsetMentions reqs := by
  induction reqs with
  | nil =>
    simp only [upsert, listOffsetMentions, List.flatMap_cons, List.flatMap_nil, List.append_nil, ListOffsetsRequest.add, hd] at h
    rcases mem_addTopicEntry (·.1) [] t (p, time) x h with h1 | h1
    · exact Or.inl h1
    · simp [entryMentions] at h1
  | cons r rs ih =>
    obtain ⟨k, v⟩ := r
    simp only [upsert] at h
    split at h
    · simp only [listOffsetMentions, List.flatMap_cons, List.mem_append, ListOffsetsRequest.add] at h ⊢
      rcases h with h | h
      · rcases mem_addTopicEntry (·.1) v.topics t (p, time) x h with h' | h'
        · exact Or.inl h'
        · right; left; exact h'
      · right; right; exact h
    · simp only [listOffsetMentions, List.flatMap_cons, List.mem_append] at h ⊢
      rcases h with h | h
      · right; left; exact h
      · rcases ih h with h' | h'
        · exact Or.inl h'
        · right; right; exact h'

/-- **list offsets** (`list_offsets`): every (topic, partition) named in any ListOffsets request of
    a call is a led partition of a topic in the loaded metadata; topics that are not loaded are left out -/
theorem C20_list_offsets_mentions (c : Client) (corr : Int) (topics : List Bytes) (time : Int) :
    ∀ x ∈ listOffsetMentions (listOffsetRequests c corr topics time),
      ∃ ps host, c.st.ledPartitions x.1 = some ps ∧ (x.2, host) ∈ ps := by
  unfold listOffsetRequests
  have inner : ∀ (t : Bytes) (ps0 : List (Int × Bytes)) (ps : List (Int × Bytes)) (acc : List (Bytes × ListOffsetsRequest)),
      (∀ y ∈ ps, y ∈ ps0) → c.st.ledPartitions t = some ps0 →
      (∀ x ∈ listOffsetMentions acc, ∃ ps host, c.st.ledPartitions x.1 = some ps ∧ (x.2, host) ∈ ps) →
      ∀ x ∈ listOffsetMentions (ps.foldl (fun reqs (y : Int × Bytes) =>
          upsert reqs y.2 (ListOffsetsRequest.new corr c.cfg.clientId) (·.add t y.1 time)) acc),
        ∃ ps host, c.st.ledPartitions x.1 = some ps ∧ (x.2, host) ∈ ps := by
    intro t ps0 ps
    induction ps with
    | nil => intro acc _ _ hacc; simpa using hacc
    | cons y ys ih =>
      intro acc hsub hled hacc
      simp only [List.foldl_cons]
      apply ih _ (fun z hz => hsub z (List.mem_cons_of_mem _ hz)) hled
      intro x hx
      rcases mem_upsert_list_offset acc y.2 _ rfl t y.1 time x hx with h | h
      · subst h; exact ⟨ps0, y.2, hled, hsub y List.mem_cons_self⟩
      · exact hacc x h
  have outer : ∀ (topics : List Bytes) (acc : List (Bytes × ListOffsetsRequest)),
      (∀ x ∈ listOffsetMentions acc, ∃ ps host, c.st.ledPartitions x.1 = some ps ∧ (x.2, host) ∈ ps) →
      ∀ x ∈ listOffsetMentions (topics.foldl (fun reqs t =>
          match c.st.ledPartitions t with
          | none => reqs
          | some ps => ps.foldl (fun reqs (y : Int × Bytes) =>
              upsert reqs y.2 (ListOffsetsRequest.new corr c.cfg.clientId) (·.add t y.1 time)) reqs) acc),
        ∃ ps host, c.st.ledPartitions x.1 = some ps ∧ (x.2, host) ∈ ps := by
    intro topics
    induction topics with
    | nil => intro acc hacc; simpa using hacc
    | cons t ts ih =>
      intro acc hacc
      simp only [List.foldl_cons]
      apply ih
      cases hl : c.st.ledPartitions t with
      | none => simpa using hacc
      | some ps => exact inner t ps ps acc (fun y hy => hy) hl hacc
  exact outer topics [] (by simp [listOffsetMentions])
end Kafka.Props.C20
