import KafkaModel.Lemmas.SpecReq
import KafkaModel.Model.Client
import KafkaModel.Generated.ApiTable
/-!
  C09 — Every request on the wire is a well-formed Kafka v0 frame stating what was asked.
  For each request type the model's `ToByte` encoder is shown equal to the specification encoder of
  the request's abstract content, which the specification parser reads back exactly
  (`Spec.parseRequest_encRequest`), with the right API key / version and nothing left over; an
  unrepresentable string is an error and no frame; correlation ids strictly increase.
-/
namespace Kafka.Props.C09
open Kafka Kafka.Spec Kafka.Model

/-! ### primitives -/

theorem wStr_ok (s : Bytes) (h : strOK s) : wStr s = .ok (eStr s) := by
  unfold strOK at h
  simp [wStr, lenTo, h, bind, Except.bind, pure, Except.pure, eStr, eI16, wI16]

theorem wStr_err (s : Bytes) (h : ¬ strOK s) : wStr s = .error .codec := by
  unfold strOK at h
  simp [wStr, lenTo, h, bind, Except.bind]

theorem wAll_ok {α} (f : α → Except Err Bytes) (e : α → Bytes) (xs : List α) (h : ∀ x ∈ xs, f x = .ok (e x)) :
    wAll f xs = .ok (xs.flatMap e) := by
  induction xs with
  | nil => rfl
  | cons x xs ih =>
    simp only [wAll, h x (by simp), bind, Except.bind]
    rw [ih (fun y hy => h y (by simp [hy]))]
    simp [pure, Except.pure]

theorem wArr_ok {α} (f : α → Except Err Bytes) (e : α → Bytes) (xs : List α) (hl : lenOK xs)
    (h : ∀ x ∈ xs, f x = .ok (e x)) : wArr f xs = .ok (eArr e xs) := by
  unfold lenOK at hl
  simp [wArr, lenTo, hl, bind, Except.bind, wAll_ok f e xs h, pure, Except.pure, eArr, eI32, wI32]

theorem encI_wrapI (k : Nat) (hk : 0 < k) (x : Int) : encI k (wrapI k x) = encI k x := by
  unfold encI wrapI
  rw [toU_toS k hk _ (toU_lt k x)]

def absHeader (h : Header) : ReqHeader := ⟨h.apiKey, h.apiVersion, h.corr, some h.clientId⟩

theorem header_ok (h : Header) (hc : strOK h.clientId) : h.encode = .ok (encHeader (absHeader h)) := by
  simp [Header.encode, wStr_ok _ hc, bind, Except.bind, pure, Except.pure, encHeader, absHeader, eNStr, wI16, wI32, eI16, eI32]

/-- a client id that cannot be represented makes *every* request an encoding error: nothing is framed, nothing sent -/
theorem C09_unencodable_client_id (h : Header) (hc : ¬ strOK h.clientId) : h.encode = .error .codec := by
  simp [Header.encode, wStr_err _ hc, bind, Except.bind]

/-! ### metadata -/
def absMetadata (r : MetadataRequest) : Request := ⟨absHeader r.header, .metadata r.topics⟩

theorem C09_metadata (r : MetadataRequest) (hc : strOK r.header.clientId) (hl : lenOK r.topics)
    (ht : ∀ t ∈ r.topics, strOK t) : r.encode = .ok (encRequest (absMetadata r)) := by
  simp [MetadataRequest.encode, header_ok _ hc, wArr_ok wStr eStr r.topics hl (fun t h => wStr_ok t (ht t h)),
    bind, Except.bind, pure, Except.pure, encRequest, absMetadata, encBody]

theorem wAll_err {α} (f : α → Except Err Bytes) (xs : List α) (x : α) (hx : x ∈ xs) (e : Err) (h : f x = .error e) :
    ∃ e', wAll f xs = .error e' := by
  induction xs with
  | nil => cases hx
  | cons y ys ih =>
    simp only [wAll, bind, Except.bind]
    cases hy : f y with
    | error e' => exact ⟨e', rfl⟩
    | ok b =>
      have : x ∈ ys := by
        rcases List.mem_cons.mp hx with rfl | h'
        · rw [h] at hy; cases hy
        · exact h'
      obtain ⟨e', he'⟩ := ih this
      exact ⟨e', by simp [he']⟩

theorem wArr_err {α} (f : α → Except Err Bytes) (xs : List α) (x : α) (hx : x ∈ xs) (e : Err) (h : f x = .error e) :
    ∃ e', wArr f xs = .error e' := by
  unfold wArr
  cases lenTo 4 xs.length with
  | error e' => exact ⟨e', rfl⟩
  | ok l =>
    obtain ⟨e', he'⟩ := wAll_err f xs x hx e h
    exact ⟨e', by simp [bind, Except.bind, he']⟩

/-- a topic name that cannot be represented is an error, never a truncated or malformed frame -/
theorem C09_metadata_long_topic (r : MetadataRequest) (t : Bytes) (ht : t ∈ r.topics) (hl : ¬ strOK t) :
    ∃ e, frameOf r.encode = .error e := by
  unfold MetadataRequest.encode frameOf
  cases r.header.encode with
  | error e => exact ⟨e, rfl⟩
  | ok b =>
    obtain ⟨e, he⟩ := wArr_err wStr r.topics t ht .codec (wStr_err t hl)
    exact ⟨e, by simp [bind, Except.bind, he]⟩

/-! ### offsets v0 / list offsets v1 -/
def absOffsets (r : OffsetRequest) : Request :=
  ⟨absHeader r.header, .offsets r.replica (r.topics.map fun (t, ps) => (t, ps.map fun (p, mx, time) => ⟨p, time, mx⟩))⟩

theorem topics_ok {α β} (f : α → Except Err Bytes) (g : α → β) (e : β → Bytes)
    (ts : List (Bytes × List α)) (hl : lenOK ts)
    (h : ∀ t ∈ ts, strOK t.1 ∧ lenOK t.2 ∧ ∀ p ∈ t.2, f p = .ok (e (g p))) :
    wArr (fun (t : Bytes × List α) => do
      let n ← wStr t.1
      let ps ← wArr f t.2
      pure (n ++ ps)) ts = .ok (eArr (encTopic e) (ts.map fun t => (t.1, t.2.map g))) := by
  have := wArr_ok (fun (t : Bytes × List α) => do
      let n ← wStr t.1
      let ps ← wArr f t.2
      pure (n ++ ps)) (fun t => encTopic e (t.1, t.2.map g)) ts hl (by
    intro t ht
    obtain ⟨h1, h2, h3⟩ := h t ht
    have h4 : wArr f t.2 = .ok (eArr (fun p => e (g p)) t.2) := wArr_ok f _ t.2 h2 h3
    simp [wStr_ok _ h1, h4, bind, Except.bind, pure, Except.pure, encTopic, eArr, List.flatMap_map])
  rw [this]
  simp [eArr, List.flatMap_map]

theorem C09_offsets (r : OffsetRequest) (hv : r.header.apiVersion = 0) (hc : strOK r.header.clientId) (hl : lenOK r.topics)
    (ht : ∀ t ∈ r.topics, strOK t.1 ∧ lenOK t.2) : r.encode = .ok (encRequest (absOffsets r)) := by
  have := topics_ok (fun (p : Int × Int × Int) => (.ok (wI32 p.1 ++ wI64 p.2.2 ++ wI32 p.2.1) : Except Err Bytes))
    (fun p => (⟨p.1, p.2.2, p.2.1⟩ : OffsetPart)) (encOffsetPart 0) r.topics hl (by
      intro t h
      refine ⟨(ht t h).1, (ht t h).2, ?_⟩
      intro p _
      simp [encOffsetPart, wI32, wI64, eI32, eI64])
  unfold OffsetRequest.encode
  simp only [header_ok _ hc, bind, Except.bind, pure, Except.pure]
  simp only [bind, Except.bind, pure, Except.pure] at this
  rw [this]
  simp [encRequest, absOffsets, encBody, absHeader, hv, wI32, eI32]

def absListOffsets (r : ListOffsetsRequest) : Request :=
  ⟨absHeader r.header, .offsets r.replica (r.topics.map fun (t, ps) => (t, ps.map fun (p, time) => ⟨p, time, 0⟩))⟩

theorem C09_list_offsets (r : ListOffsetsRequest) (hv : r.header.apiVersion = 1) (hc : strOK r.header.clientId) (hl : lenOK r.topics)
    (ht : ∀ t ∈ r.topics, strOK t.1 ∧ lenOK t.2) : r.encode = .ok (encRequest (absListOffsets r)) := by
  have := topics_ok (fun (p : Int × Int) => (.ok (wI32 p.1 ++ wI64 p.2) : Except Err Bytes))
    (fun p => (⟨p.1, p.2, 0⟩ : OffsetPart)) (encOffsetPart 1) r.topics hl (by
      intro t h
      refine ⟨(ht t h).1, (ht t h).2, ?_⟩
      intro p _
      simp [encOffsetPart, wI32, wI64, eI32, eI64])
  unfold ListOffsetsRequest.encode
  simp only [header_ok _ hc, bind, Except.bind, pure, Except.pure]
  simp only [bind, Except.bind, pure, Except.pure] at this
  rw [this]
  simp [encRequest, absListOffsets, encBody, absHeader, hv, wI32, eI32]

/-! ### group coordinator, offset fetch, offset commit -/
def absGroupCoordinator (r : GroupCoordinatorRequest) : Request := ⟨absHeader r.header, .groupCoordinator r.group⟩

theorem C09_group_coordinator (r : GroupCoordinatorRequest) (hc : strOK r.header.clientId) (hg : strOK r.group) :
    r.encode = .ok (encRequest (absGroupCoordinator r)) := by
  simp [GroupCoordinatorRequest.encode, header_ok _ hc, wStr_ok _ hg, bind, Except.bind, pure, Except.pure,
    encRequest, absGroupCoordinator, encBody]

def absOffsetFetch (r : OffsetFetchRequest) : Request := ⟨absHeader r.header, .offsetFetch r.group r.topics⟩

theorem C09_offset_fetch (r : OffsetFetchRequest) (hc : strOK r.header.clientId) (hg : strOK r.group) (hl : lenOK r.topics)
    (ht : ∀ t ∈ r.topics, strOK t.1 ∧ lenOK t.2) : r.encode = .ok (encRequest (absOffsetFetch r)) := by
  have := topics_ok (fun (p : Int) => (.ok (wI32 p) : Except Err Bytes)) id eI32 r.topics hl (by
      intro t h
      exact ⟨(ht t h).1, (ht t h).2, fun p _ => by simp [wI32, eI32]⟩)
  unfold OffsetFetchRequest.encode
  simp only [header_ok _ hc, wStr_ok _ hg, bind, Except.bind, pure, Except.pure]
  simp only [bind, Except.bind, pure, Except.pure] at this
  rw [this]
  simp [encRequest, absOffsetFetch, encBody, absHeader]

def absOffsetCommit (r : OffsetCommitRequest) : Request :=
  let v := r.header.apiVersion
  ⟨absHeader r.header, .offsetCommit r.group (-1) [] (-1)
    (r.topics.map fun (t, ps) => (t, ps.map fun (p, off, md) => ⟨p, off, if v = 1 then -1 else 0, some md⟩))⟩

theorem C09_offset_commit (r : OffsetCommitRequest) (hv : r.header.apiVersion = 0 ∨ r.header.apiVersion = 1 ∨ r.header.apiVersion = 2)
    (hc : strOK r.header.clientId) (hg : strOK r.group) (hl : lenOK r.topics)
    (ht : ∀ t ∈ r.topics, strOK t.1 ∧ lenOK t.2 ∧ ∀ p ∈ t.2, strOK p.2.2) : r.encode = .ok (encRequest (absOffsetCommit r)) := by
  have hT := topics_ok (fun (p : Int × Int × Bytes) => (do
      let m ← wStr p.2.2
      pure (wI32 p.1 ++ wI64 p.2.1 ++ (if r.header.apiVersion = 1 then wI64 (-1) else []) ++ m) : Except Err Bytes))
    (fun p => (⟨p.1, p.2.1, if r.header.apiVersion = 1 then -1 else 0, some p.2.2⟩ : CommitPart))
    (encCommitPart r.header.apiVersion) r.topics hl (by
      intro t h
      refine ⟨(ht t h).1, (ht t h).2.1, ?_⟩
      intro p hp
      have := (ht t h).2.2 p hp
      simp only [wStr_ok _ this, bind, Except.bind, pure, Except.pure, encCommitPart, eNStr]
      by_cases h1 : r.header.apiVersion = 1 <;> simp [h1, wI32, wI64, eI32, eI64])
  unfold OffsetCommitRequest.encode
  simp only [header_ok _ hc, wStr_ok _ hg, wStr_ok [] (by simp [strOK]), bind, Except.bind, pure, Except.pure]
  simp only [bind, Except.bind, pure, Except.pure] at hT
  rw [hT]
  rcases hv with hv | hv | hv <;>
    simp [encRequest, absOffsetCommit, encBody, absHeader, hv, wI32, wI64, eI32, eI64, eStr, eI16, pure, Except.pure]

/-! ### fetch -/
def absFetch (r : FetchRequest) : Request :=
  ⟨absHeader r.header, .fetch r.replica r.maxWait r.minBytes
    (r.topics.map fun (t, ps) => (t, ps.map fun (p, off, mb) => ⟨p, off, mb⟩))⟩

/-- for every order in which the two hash maps happen to be iterated (= every list order) -/
theorem C09_fetch (r : FetchRequest) (hc : strOK r.header.clientId) (ht : ∀ t ∈ r.topics, strOK t.1) :
    r.encode = .ok (encRequest (absFetch r)) := by
  have hT : wAll (fun (x : Bytes × List (Int × Int × Int)) => do
      let n ← wStr x.1
      pure (n ++ wI32 (wrapI 4 x.2.length) ++ x.2.flatMap fun (p, off, mb) => wI32 p ++ wI64 off ++ wI32 mb)) r.topics
      = .ok (r.topics.flatMap fun t => encTopic encFetchPart (t.1, t.2.map fun (p, off, mb) => ⟨p, off, mb⟩)) := by
    apply wAll_ok
    intro t h
    simp only [wStr_ok _ (ht t h), bind, Except.bind, pure, Except.pure, encTopic, eArr, wI32, eI32]
    rw [encI_wrapI 4 (by decide)]
    simp [List.flatMap_map, encFetchPart, wI32, wI64, eI32, eI64]
  unfold FetchRequest.encode
  simp only [header_ok _ hc, bind, Except.bind, pure, Except.pure]
  simp only [bind, Except.bind, pure, Except.pure] at hT
  rw [hT]
  simp only [pure, Except.pure, encRequest, absFetch, encBody, eArr, wI32, eI32, List.length_map, List.flatMap_map]
  rw [encI_wrapI 4 (by decide)]
  simp

/-! ### produce -/

/-- the encoded (possibly wrapped) message set of every partition, when all of them encode -/
def partSets (comp : Nat → Bytes → Bytes) (c : Nat) :
    List (Int × List (Option Bytes × Option Bytes)) → Except Err (List (Int × Bytes))
  | [] => .ok []
  | (p, ms) :: r =>
    match encodePartitionSet comp c ms, partSets comp c r with
    | .ok s, .ok rest => .ok ((p, s) :: rest)
    | .error e, _ => .error e
    | _, .error e => .error e

def topicSets (comp : Nat → Bytes → Bytes) (c : Nat) :
    List (Bytes × List (Int × List (Option Bytes × Option Bytes))) → Except Err (List (Bytes × List (Int × Bytes)))
  | [] => .ok []
  | (t, ps) :: r =>
    match partSets comp c ps, topicSets comp c r with
    | .ok s, .ok rest => .ok ((t, s) :: rest)
    | .error e, _ => .error e
    | _, .error e => .error e

theorem wBytes_ok (s : Bytes) (h : s.length ≤ 2147483647) : wBytes s = .ok (eBytes s) := by
  simp [wBytes, lenTo, h, bind, Except.bind, pure, Except.pure, eBytes, wI32, eI32]

theorem parts_ok (comp : Nat → Bytes → Bytes) (c : Nat) :
    ∀ (ps : List (Int × List (Option Bytes × Option Bytes))) (sets : List (Int × Bytes)),
      partSets comp c ps = .ok sets → (∀ s ∈ sets, s.2.length ≤ 2147483647) →
      wAll (fun (x : Int × List (Option Bytes × Option Bytes)) => do
        let set ← encodePartitionSet comp c x.2
        let b ← wBytes set
        pure (wI32 x.1 ++ b)) ps = .ok (sets.flatMap encProducePart) ∧ sets.length = ps.length := by
  intro ps
  induction ps with
  | nil => intro sets h _; simp [partSets] at h; subst h; simp [wAll]
  | cons x xs ih =>
    intro sets h hfit
    obtain ⟨p, ms⟩ := x
    simp only [partSets] at h
    cases h1 : encodePartitionSet comp c ms with
    | error e => simp [h1] at h
    | ok s =>
      cases h2 : partSets comp c xs with
      | error e => simp [h1, h2] at h
      | ok rest =>
        simp [h1, h2] at h
        subst h
        have hs : s.length ≤ 2147483647 := hfit (p, s) (by simp)
        obtain ⟨ih1, ih2⟩ := ih rest h2 (fun y hy => hfit y (by simp [hy]))
        simp only [wAll, h1, bind, Except.bind, wBytes_ok s hs]
        simp only [bind, Except.bind] at ih1
        rw [ih1]
        simp [pure, Except.pure, encProducePart, eBytes, wI32, eI32, ih2]

/-- **C03/C09 (produce request)**: acks, time-out and, per topic and partition in first-seen order, exactly the
    encoded partition set — for any number of topics and partitions -/
theorem C09_produce (comp : Nat → Bytes → Bytes) (r : ProduceRequest) (sets : List (Bytes × List (Int × Bytes)))
    (hc : strOK r.header.clientId) (hl : lenOK r.topics) (ht : ∀ t ∈ r.topics, strOK t.1)
    (hs : topicSets comp r.compression r.topics = .ok sets)
    (hfit : ∀ t ∈ sets, ∀ s ∈ t.2, s.2.length ≤ 2147483647) :
    r.encode comp = .ok (encRequest ⟨absHeader r.header, .produce r.acks r.timeout sets⟩) := by
  have key : ∀ (ts : List (Bytes × List (Int × List (Option Bytes × Option Bytes)))) (sets : List (Bytes × List (Int × Bytes))),
      topicSets comp r.compression ts = .ok sets → (∀ t ∈ ts, strOK t.1) →
      (∀ t ∈ sets, ∀ s ∈ t.2, s.2.length ≤ 2147483647) →
      wAll (fun (x : Bytes × List (Int × List (Option Bytes × Option Bytes))) => do
        let n ← wStr x.1
        let body ← wAll (fun (y : Int × List (Option Bytes × Option Bytes)) => do
          let set ← encodePartitionSet comp r.compression y.2
          let b ← wBytes set
          pure (wI32 y.1 ++ b)) x.2
        pure (n ++ wI32 (wrapI 4 x.2.length) ++ body)) ts = .ok (sets.flatMap (encTopic encProducePart)) ∧ sets.length = ts.length := by
    intro ts
    induction ts with
    | nil => intro sets h _ _; simp [topicSets] at h; subst h; simp [wAll]
    | cons x xs ih =>
      intro sets h hstr hfit
      obtain ⟨t, ps⟩ := x
      simp only [topicSets] at h
      cases h1 : partSets comp r.compression ps with
      | error e => simp [h1] at h
      | ok s =>
        cases h2 : topicSets comp r.compression xs with
        | error e => simp [h1, h2] at h
        | ok rest =>
          simp [h1, h2] at h
          subst h
          obtain ⟨p1, p2⟩ := parts_ok comp r.compression ps s h1 (fun y hy => hfit (t, s) (by simp) y hy)
          obtain ⟨ih1, ih2⟩ := ih rest h2 (fun y hy => hstr y (by simp [hy])) (fun y hy => hfit y (by simp [hy]))
          simp only [wAll, wStr_ok _ (hstr (t, ps) (by simp)), bind, Except.bind]
          simp only [bind, Except.bind] at p1 ih1
          rw [p1, ih1]
          simp only [pure, Except.pure, encTopic, eArr, List.flatMap_cons, wI32, eI32]
          rw [encI_wrapI 4 (by decide), p2]
          simp [ih2]
  obtain ⟨k1, k2⟩ := key r.topics sets hs ht hfit
  unfold ProduceRequest.encode wArr
  unfold lenOK at hl
  simp only [header_ok _ hc, lenTo, hl, if_true, bind, Except.bind]
  simp only [bind, Except.bind] at k1
  rw [k1]
  simp [pure, Except.pure, encRequest, encBody, eArr, wI16, wI32, eI16, eI32, k2, absHeader]

/-! ### framing and correlation -/

/-- `__send_request`: the frame's length prefix is the payload length -/
theorem C09_frame (payload : Bytes) (h : payload.length ≤ 2147483647) :
    frameOf (.ok payload) = .ok (eI32 payload.length ++ payload) ∧
    parseFrame (eI32 payload.length ++ payload) = parseRequest payload := by
  constructor
  · simp only [frameOf, bind, Except.bind, pure, Except.pure, wI32, eI32]
    rw [encI_wrapI 4 (by decide)]
  · unfold parseFrame
    rw [show eI32 (payload.length : Int) = encI 4 payload.length from rfl, readI_append 4 (by decide) _ (inI_len4 _ h)]
    simp

/-- an encoding error means nothing is framed (and `sendRequest` hands nothing to the connection) -/
theorem C09_no_frame_on_error (e : Err) : frameOf (.error e) = .error e := rfl

/-- correlation ids: strictly increasing below the documented wrap at 2³⁰ -/
theorem C09_correlation (st : ClientState) (h0 : 0 ≤ st.correlation) (h : st.correlation < 1073741823) :
    st.nextCorr.2 = st.correlation + 1 ∧ st.nextCorr.1.correlation = st.correlation + 1 := by
  unfold ClientState.nextCorr
  have : (st.correlation + 1) % 1073741824 = st.correlation + 1 := by
    apply Int.emod_eq_of_lt <;> omega
  simp [this]

/-- the specification parser reads every model-encoded request back (composition with the grammar theorem) -/
theorem C09_parse_back (payload : Except Err Bytes) (req : Request) (h : payload = .ok (encRequest req)) (ok : reqOK req) :
    ∃ p, payload = .ok p ∧ parseRequest p = some req :=
  ⟨_, h, parseRequest_encRequest req ok⟩

/-! ### tables regenerated from the implementation on every run -/

/-- API key and version per kind of call, as the Kafka 0.8.2 / 0.9 protocol guide has them for the request versions this
    client speaks: Metadata 3/0, Offsets 2/0 (ListOffsets 2/1), Fetch 1/0, Produce 0/0, GroupCoordinator 10/0,
    OffsetCommit 8/0 into ZooKeeper and 8/1 into Kafka, OffsetFetch 9/0 from ZooKeeper and 9/1 from Kafka; a group call
    looks the coordinator up first unless it is remembered -/
def specApiTable : List (String × List (Int × Int)) := [
  ("metadata_all", [(3, 0)]),
  ("metadata_named", [(3, 0)]),
  ("offsets", [(2, 0)]),
  ("list_offsets", [(2, 1)]),
  ("fetch", [(1, 0)]),
  ("produce", [(0, 0)]),
  ("produce_noack", [(0, 0)]),
  ("commit_zookeeper", [(10, 0), (8, 0)]),
  ("group_fetch_zookeeper", [(9, 0)]),
  ("commit_kafka", [(10, 0), (8, 1)]),
  ("group_fetch_kafka", [(10, 0), (9, 1)])
]

/-- **what the crate in /repo put on the wire in this run** (one call of every kind, `kharness apitable`) carries exactly
    these keys and versions -/
theorem C09_api_table : Generated.observedApiTable = specApiTable := by decide

/-- the compression setting reaches the wire as the attribute the protocol assigns to the codec -/
theorem C09_codec_table : Generated.observedCodecTable = [(0, 0), (1, 1), (2, 2)] := by decide

/-! ### non-vacuity -/
example : reqOK (absMetadata (MetadataRequest.new 7 [99] [[116], [117, 118]])) := by
  refine ⟨⟨by decide, by decide, by decide, ?_⟩, ?_⟩
  · intro b hb; cases hb; simp [strOK, MetadataRequest.new]
  · refine ⟨rfl, rfl, by simp [lenOK, MetadataRequest.new], ?_⟩
    intro t ht; simp [MetadataRequest.new] at ht; rcases ht with rfl | rfl <;> simp [strOK]

end Kafka.Props.C09
