import KafkaModel.Lemmas.Spec
import KafkaModel.Model.Requests
/-!
  C03 — Produced message sets are valid Kafka v0 wire data for every payload and codec.
  The model's encoder (`Model.encodeMsg/encodeSet/encodePartitionSet`, mirror of produce.rs:155-242)
  is shown to produce exactly what the *specification's* strict parser (`Spec.parseMessageSet`:
  exact sizes, magic 0, CRC-32 over magic..value, null ↔ −1, nothing left over) reads back.
-/
namespace Kafka.Props.C03
open Kafka Kafka.Spec Kafka.Model

/-- a payload fits its 32-bit length field -/
def fitsOpt (b : Option Bytes) : Prop := ∀ x, b = some x → x.length ≤ 2147483647

def msgOK (m : Msg) : Prop :=
  inI 8 m.offset ∧ inI 1 m.attr ∧ fitsOpt m.key ∧ fitsOpt m.value ∧
  4 + (msgBody m.attr m.key m.value).length ≤ 2147483647

/-! ### the specification parser inverts the specification encoder -/

theorem crcField_unbe (body : Bytes) : unbe (crcField body) = (crc32 body).toNat := by
  unfold crcField
  rw [unbe_be]
  apply Nat.mod_eq_of_lt
  have := (crc32 body).toNat_lt
  simpa using this

theorem pMsg_encMsg (m : Msg) (h : msgOK m) (rest : Bytes) : pMsg (encMsg m ++ rest) = some (m, rest) := by
  obtain ⟨ho, ha, hk, hv, hsz⟩ := h
  unfold pMsg encMsg
  simp only [eI64, eI32, List.append_assoc]
  rw [readI_append 8 (by decide) _ ho]
  simp only []
  have hlen : inI 4 ((4 : Int) + ((msgBody m.attr m.key m.value).length : Int)) := by
    unfold inI; simp; omega
  rw [readI_append 4 (by decide) _ hlen]
  simp only []
  have hnn : ¬ ((4 : Int) + ((msgBody m.attr m.key m.value).length : Int) < 0) := by omega
  simp only [hnn, if_false]
  have hN : ((4 : Int) + ((msgBody m.attr m.key m.value).length : Int)).toNat
      = (crcField (msgBody m.attr m.key m.value) ++ msgBody m.attr m.key m.value).length := by
    simp [crcField]; omega
  rw [hN, ← List.append_assoc (crcField _), readN_append]
  simp only []
  have h4 : (4 : Nat) = (crcField (msgBody m.attr m.key m.value)).length := by simp [crcField]
  rw [h4, readN_append]
  simp only [crcField_unbe, ne_eq, not_true_eq_false, if_false]
  -- the body
  have hb : (do
        let magic ← pI8
        let attr ← pI8
        let k ← pNBytes
        let v ← pNBytes
        pure (magic, attr, k, v) : P _) (msgBody m.attr m.key m.value)
      = some (((0 : Int), m.attr, m.key, m.value), []) := by
    unfold msgBody
    simp only [bind_eq, pI8, eI8, List.append_assoc]
    rw [pI_append 1 (by decide) 0 (by decide)]
    simp only []
    rw [pI_append 1 (by decide) _ ha]
    simp only []
    rw [pNBytes_append _ hk]
    simp only []
    have := pNBytes_append m.value hv []
    simp only [List.append_nil] at this
    rw [this]
    rfl
  rw [hb]
  simp

theorem encMsg_length_pos (m : Msg) : 12 ≤ (encMsg m).length := by
  simp [encMsg, eI64, eI32, crcField]; omega

theorem pMsgsFuel_encMsgs (ms : List Msg) (h : ∀ m ∈ ms, msgOK m) :
    ∀ fuel, (encMsgs ms).length ≤ fuel → pMsgsFuel fuel (encMsgs ms) = some ms := by
  induction ms with
  | nil => intro fuel _; cases fuel <;> simp [encMsgs, pMsgsFuel]
  | cons m ms ih =>
    intro fuel hf
    have hm := h m (by simp)
    have hpos := encMsg_length_pos m
    have hne : (encMsgs (m :: ms)).isEmpty = false := by
      simp [encMsgs]; intro h0; simp [h0] at hpos
    have hl : (encMsgs (m :: ms)).length = (encMsg m).length + (encMsgs ms).length := by simp [encMsgs]
    cases fuel with
    | zero => omega
    | succ fuel =>
      simp only [pMsgsFuel, hne]
      have : encMsgs (m :: ms) = encMsg m ++ encMsgs ms := by simp [encMsgs]
      rw [this, pMsg_encMsg m hm]
      simp only [Bool.false_eq_true, if_false]
      rw [ih (fun x hx => h x (by simp [hx])) fuel (by omega)]

/-- **the specification's strict parser reads back every well-formed message list** -/
theorem parse_encMsgs (ms : List Msg) (h : ∀ m ∈ ms, msgOK m) : parseMessageSet (encMsgs ms) = some ms :=
  pMsgsFuel_encMsgs ms h _ (Nat.le_refl _)

/-! ### the model's encoder is the specification encoder -/

theorem encI_wrapI (k : Nat) (hk : 0 < k) (x : Int) : encI k (wrapI k x) = encI k x := by
  unfold encI wrapI
  rw [toU_toS k hk _ (toU_lt k x)]

theorem wOptBytes_eq (b : Option Bytes) (h : fitsOpt b) : wOptBytes b = .ok (eNBytes b) := by
  cases b with
  | none => rfl
  | some x =>
    have := h x rfl
    simp [wOptBytes, wBytes, lenTo, eNBytes, eBytes, eI32, wI32, this]
    rfl

theorem encodeMsg_eq (attr : Int) (k v : Option Bytes) (hk : fitsOpt k) (hv : fitsOpt v) :
    encodeMsg attr k v = .ok (encMsg ⟨0, attr, k, v⟩) := by
  unfold encodeMsg
  rw [wOptBytes_eq k hk, wOptBytes_eq v hv]
  simp only [bind, Except.bind, pure, Except.pure]
  congr 1
  simp only [encMsg, msgBody, wI64, wI32, wI8, eI64, eI32, eI8, crcField]
  rw [encI_wrapI 4 (by decide)]

theorem inI8_0 : inI 8 0 := by decide
theorem inI1_0 : inI 1 0 := by decide
theorem inI1_1 : inI 1 1 := by decide
theorem inI1_2 : inI 1 2 := by decide

def recOK (kv : Option Bytes × Option Bytes) : Prop := fitsOpt kv.1 ∧ fitsOpt kv.2

def asMsg (attr : Int) (kv : Option Bytes × Option Bytes) : Msg := ⟨0, attr, kv.1, kv.2⟩

theorem encodeSet_eq (ms : List (Option Bytes × Option Bytes)) (h : ∀ m ∈ ms, recOK m) :
    encodeSet ms = .ok (encMsgs (ms.map (asMsg 0))) := by
  unfold encodeSet
  induction ms with
  | nil => rfl
  | cons m ms ih =>
    obtain ⟨k, v⟩ := m
    have hm := h (k, v) (by simp)
    simp only [wAll, encodeMsg_eq 0 k v hm.1 hm.2, bind, Except.bind]
    rw [ih (fun x hx => h x (by simp [hx]))]
    simp [encMsgs, asMsg, pure, Except.pure]

/-- every message of the batch and the batch as a whole fit their 32-bit size fields -/
def setOK (attr : Int) (ms : List (Option Bytes × Option Bytes)) : Prop :=
  ∀ m ∈ ms, recOK m ∧ 4 + (msgBody attr m.1 m.2).length ≤ 2147483647

/-- **C03 (no compression)**: the partition data emitted for any batch of records parses, under the
    independent grammar, to exactly those records: offset 0, magic 0, attribute 0, keys and values
    byte-identical and in order, absent ones as null, all sizes and CRCs exact, nothing left over -/
theorem C03_plain (ms : List (Option Bytes × Option Bytes)) (h : setOK 0 ms) :
    ∃ bs, encodeSet ms = .ok bs ∧ parseMessageSet bs = some (ms.map (asMsg 0)) := by
  refine ⟨_, encodeSet_eq ms (fun m hm => (h m hm).1), ?_⟩
  apply parse_encMsgs
  intro m hm
  obtain ⟨kv, hkv, rfl⟩ := List.mem_map.mp hm
  have := h kv hkv
  exact ⟨inI8_0, inI1_0, this.1.1, this.1.2, this.2⟩

/-- **C03 (gzip / snappy)**: the partition data is one wrapper message: offset 0, magic 0, attribute =
    codec id, null key, value = the compressor's output on exactly the plain message set -/
theorem C03_wrapped (comp : Nat → Bytes → Bytes) (c : Nat) (hc : c = 1 ∨ c = 2)
    (ms : List (Option Bytes × Option Bytes)) (h : setOK 0 ms)
    (hfit : (comp c (encMsgs (ms.map (asMsg 0)))).length + 18 ≤ 2147483647) :
    ∃ bs, encodePartitionSet comp c ms = .ok bs ∧
      parseMessageSet bs = some [⟨0, (c : Int), none, some (comp c (encMsgs (ms.map (asMsg 0))))⟩] := by
  have hne : c ≠ 0 := by omega
  unfold encodePartitionSet
  rw [encodeSet_eq ms (fun m hm => (h m hm).1)]
  simp only [bind, Except.bind, hne, if_false]
  have hv : fitsOpt (some (comp c (encMsgs (ms.map (asMsg 0))))) := by
    intro x hx; cases hx; omega
  rw [encodeMsg_eq _ none _ (by intro x hx; cases hx) hv]
  refine ⟨_, rfl, ?_⟩
  have := parse_encMsgs [⟨0, (c : Int), none, some (comp c (encMsgs (ms.map (asMsg 0))))⟩] (by
    intro m hm
    simp at hm
    subst hm
    refine ⟨inI8_0, ?_, ?_, hv, ?_⟩
    · rcases hc with rfl | rfl
      · exact inI1_1
      · exact inI1_2
    · intro x hx; cases hx
    · simp [msgBody, eI8, eNBytes, eBytes, eI32]; omega)
  simpa [encMsgs] using this

/-- with a decompressor that inverts the compressor, the wrapper's value decompresses to exactly the
    plain set, which in turn parses to the records (composition of the two theorems above) -/
theorem C03_wrapped_inner (comp : Nat → Bytes → Bytes) (dec : Nat → Bytes → Option Bytes) (c : Nat)
    (hinv : ∀ b, dec c (comp c b) = some b) (ms : List (Option Bytes × Option Bytes)) (h : setOK 0 ms) :
    (dec c (comp c (encMsgs (ms.map (asMsg 0))))).bind parseMessageSet = some (ms.map (asMsg 0)) := by
  rw [hinv]
  simp only [Option.bind]
  apply parse_encMsgs
  intro m hm
  obtain ⟨kv, hkv, rfl⟩ := List.mem_map.mp hm
  have := h kv hkv
  exact ⟨inI8_0, inI1_0, this.1.1, this.1.2, this.2⟩

/-- oversized payloads are an encoding error, never a malformed set -/
theorem C03_too_long (attr : Int) (k : Bytes) (v : Option Bytes) (h : k.length > 2147483647) :
    encodeMsg attr (some k) v = .error .codec := by
  have : ¬ k.length ≤ 2147483647 := by omega
  simp [encodeMsg, wOptBytes, wBytes, lenTo, this, bind, Except.bind]

/-! ### non-vacuity -/
example : setOK 0 [(none, some [1, 2]), (some [], none), (some [7], some [])] := by
  intro m hm
  simp at hm
  rcases hm with rfl | rfl | rfl <;>
    exact ⟨⟨by intro x hx; cases hx <;> simp, by intro x hx; cases hx <;> simp⟩, by simp [msgBody, eI8, eNBytes, eBytes, eI32]⟩

end Kafka.Props.C03
