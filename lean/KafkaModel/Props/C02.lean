import KafkaModel.Lemmas.Fetch
import KafkaModel.Lemmas.ModelDec
import KafkaModel.Spec.MsgSet
/-!
  C02 — Fetch decoding yields a gap-free run of complete messages from the asked offset.
  `Model.fromSlice` (mirror of `MessageSet::from_slice`) on the first `t` bytes of any encoded sequence of
  plain messages and (gzip / snappy) wrappers, for every truncation point `t`, requested offset and CRC flag.
-/
namespace Kafka.Props.C02
open Kafka Kafka.Spec Kafka.Model

def isPlain (m : Msg) : Prop := (toU 1 m.attr) % 8 = 0

/-- the messages lying wholly inside the first `t` bytes -/
def cutMsgs : List Msg → Nat → List Msg
  | [], _ => []
  | m :: r, t => if (encMsg m).length ≤ t then m :: cutMsgs r (t - (encMsg m).length) else []

def asMessage (m : Msg) : Message := ⟨m.offset, m.key.getD [], m.value.getD []⟩

/-- what must be exposed: complete, at or above the requested offset, in log order, byte-identical (null = empty) -/
def want (ms : List Msg) (req : Int) : List Message := (ms.filter fun m => m.offset ≥ req).map asMessage

theorem encMsg_len_pos (m : Msg) : 12 ≤ (encMsg m).length := by
  simp [encMsg, eI64, eI32, crcField]; omega

theorem cutMsgs_length (ms : List Msg) (t : Nat) : (cutMsgs ms t).length ≤ ms.length := by
  induction ms generalizing t with
  | nil => simp [cutMsgs]
  | cons m r ih => simp only [cutMsgs]; split <;> simp; exact ih _

theorem cutMsgs_all (ms : List Msg) (t : Nat) (h : (encMsgs ms).length ≤ t) : cutMsgs ms t = ms := by
  induction ms generalizing t with
  | nil => rfl
  | cons m r ih =>
    have hl : (encMsgs (m :: r)).length = (encMsg m).length + (encMsgs r).length := by simp [encMsgs]
    simp only [cutMsgs]
    have : (encMsg m).length ≤ t := by omega
    simp only [this, if_true]
    rw [ih _ (by omega)]

/-- **uncompressed sets**: for every truncation point, exactly the complete messages at or above the requested offset
    are exposed — in order, byte-identical, never a partial one — and the cut tail is dropped silently (`.ok`) -/
theorem C02_plain (cx : Codecs) (debug : Bool) (depth : Nat) (req : Int) (validate : Bool) :
    ∀ (ms : List Msg) (t fuel : Nat) (acc : List Message),
      (∀ m ∈ ms, msgOK m ∧ isPlain m) → (cutMsgs ms t).length ≤ fuel →
      fromSlice cx debug depth fuel ((encMsgs ms).take t) req validate acc = .ok (acc ++ want (cutMsgs ms t) req) := by
  intro ms
  induction ms with
  | nil =>
    intro t fuel acc _ _
    cases fuel with
    | zero => rw [fromSlice]; simp [cutMsgs, want]
    | succ f => rw [fromSlice]; simp [encMsgs, cutMsgs, want]
  | cons m r ih =>
    intro t fuel acc hok hfuel
    obtain ⟨hm, hp⟩ := hok m (by simp)
    have henc : encMsgs (m :: r) = encMsg m ++ encMsgs r := by simp [encMsgs]
    rw [henc]
    by_cases hle : (encMsg m).length ≤ t
    · -- the entry is complete
      simp only [cutMsgs, hle, if_true] at hfuel ⊢
      cases fuel with
      | zero => simp at hfuel
      | succ f =>
        rw [List.take_append, List.take_of_length_le hle]
        rw [fromSlice]
        have hne : (encMsg m ++ List.take (t - (encMsg m).length) (encMsgs r)).isEmpty = false := by
          have := encMsg_len_pos m
          cases hh : encMsg m with
          | nil => simp [hh] at this
          | cons a b => simp
        simp only [hne, Bool.false_eq_true, if_false]
        rw [nextMessage_enc m hm validate]
        simp only [ne_eq, not_true_eq_false, and_false, if_false]
        unfold isPlain at hp
        simp only [hp, if_true]
        rw [ih _ f _ (fun x hx => hok x (by simp [hx])) (by simp at hfuel; omega)]
        simp only [want, List.filter_cons]
        by_cases hoff : m.offset ≥ req
        · simp [hoff, asMessage]
        · simp [hoff]
    · -- the entry is cut: nothing of it (nor anything after it) is exposed
      have hlt : t < (encMsg m).length := by omega
      simp only [cutMsgs, hle, if_false, want, List.filter_nil, List.map_nil, List.append_nil]
      rw [List.take_append_of_le_length (by omega)]
      cases fuel with
      | zero => rw [fromSlice]
      | succ f =>
        rw [fromSlice]
        by_cases h0 : t = 0
        · subst h0; simp
        · have hne : ((encMsg m).take t).isEmpty = false := by
            have := encMsg_len_pos m
            cases hh : encMsg m with
            | nil => simp [hh] at this
            | cons a b =>
              cases t with
              | zero => exact absurd rfl h0
              | succ n => simp
          simp only [hne, Bool.false_eq_true, if_false]
          rw [nextMessage_trunc m hm validate t hlt]

/-- the whole (untruncated) set: everything at or above the requested offset -/
theorem C02_plain_whole (cx : Codecs) (debug : Bool) (depth : Nat) (req : Int) (validate : Bool) (ms : List Msg)
    (hok : ∀ m ∈ ms, msgOK m ∧ isPlain m) :
    fromSlice cx debug depth ((encMsgs ms).length + 1) (encMsgs ms) req validate [] = .ok (want ms req) := by
  have := C02_plain cx debug depth req validate ms (encMsgs ms).length ((encMsgs ms).length + 1) [] hok (by
    have h1 := cutMsgs_length ms (encMsgs ms).length
    have h2 : ms.length ≤ (encMsgs ms).length := by
      induction ms with
      | nil => simp
      | cons m r ih =>
        have := encMsg_len_pos m
        have ih' := ih (fun x hx => hok x (by simp [hx])) (cutMsgs_length r _)
        simp only [encMsgs, List.flatMap_cons, List.length_append, List.length_cons] at ih' ⊢
        omega
    omega)
  rw [List.take_of_length_le (Nat.le_refl _), cutMsgs_all ms _ (Nat.le_refl _)] at this
  simpa using this

/-! ### wrappers -/

/-- a log entry as a broker stores it: a plain message, or a wrapper (codec 1 = gzip) holding plain messages -/
inductive Entry
  | plain (m : Msg)
  | gzip (last : Int) (inner : List Msg)

def wireE (comp : Bytes → Bytes) : Entry → Bytes
  | .plain m => encMsg m
  | .gzip last inner => encMsg ⟨last, 1, none, some (comp (encMsgs inner))⟩

def flatE : Entry → List Msg
  | .plain m => [m]
  | .gzip _ inner => inner

def entryOK (comp : Bytes → Bytes) : Entry → Prop
  | .plain m => msgOK m ∧ isPlain m
  | .gzip last inner => msgOK ⟨last, 1, none, some (comp (encMsgs inner))⟩ ∧ ∀ m ∈ inner, msgOK m ∧ isPlain m

/-- the entries lying wholly inside the first `t` bytes -/
def cutEntries (comp : Bytes → Bytes) : List Entry → Nat → List Entry
  | [], _ => []
  | e :: r, t => if (wireE comp e).length ≤ t then e :: cutEntries comp r (t - (wireE comp e).length) else []

theorem wire_len_pos (comp : Bytes → Bytes) (e : Entry) : 12 ≤ (wireE comp e).length := by
  cases e <;> exact encMsg_len_pos _

/-- **plain and gzip-compressed batches in any sequence, cut anywhere**: with a decompressor that inverts the broker's
    compressor, the messages of all complete entries at or above the requested offset are exposed, in log order,
    inner messages below the requested offset filtered out; a cut wrapper is dropped whole -/
theorem C02_decode (cx : Codecs) (comp : Bytes → Bytes) (hinv : ∀ b, cx.gunzip (comp b) = some b)
    (debug : Bool) (depth : Nat) (req : Int) (validate : Bool) :
    ∀ (es : List Entry) (t fuel : Nat) (acc : List Message),
      (∀ e ∈ es, entryOK comp e) → (cutEntries comp es t).length ≤ fuel →
      fromSlice cx debug (depth + 1) fuel ((es.flatMap (wireE comp)).take t) req validate acc =
        .ok (acc ++ want ((cutEntries comp es t).flatMap flatE) req) := by
  intro es
  induction es with
  | nil =>
    intro t fuel acc _ _
    cases fuel with
    | zero => rw [fromSlice]; simp [cutEntries, want]
    | succ f => rw [fromSlice]; simp [cutEntries, want]
  | cons e r ih =>
    intro t fuel acc hok hfuel
    have he := hok e (by simp)
    simp only [List.flatMap_cons]
    by_cases hle : (wireE comp e).length ≤ t
    · simp only [cutEntries, hle, if_true] at hfuel ⊢
      cases fuel with
      | zero => simp at hfuel
      | succ f =>
        rw [List.take_append, List.take_of_length_le hle]
        have hne : (wireE comp e ++ List.take (t - (wireE comp e).length) (r.flatMap (wireE comp))).isEmpty = false := by
          have := wire_len_pos comp e
          cases hh : wireE comp e with
          | nil => simp [hh] at this
          | cons a b => simp
        rw [fromSlice]
        simp only [hne, Bool.false_eq_true, if_false]
        have hrest := fun acc' => ih (t - (wireE comp e).length) f acc' (fun x hx => hok x (by simp [hx])) (by simp at hfuel; omega)
        cases e with
        | plain m =>
          obtain ⟨hm, hp⟩ := he
          simp only [wireE] at hrest ⊢
          rw [nextMessage_enc m hm validate]
          simp only [ne_eq, not_true_eq_false, and_false, if_false]
          unfold isPlain at hp
          simp only [hp, if_true]
          rw [hrest]
          simp only [want, flatE, List.flatMap_cons, List.singleton_append, List.filter_cons]
          by_cases hoff : m.offset ≥ req
          · simp [hoff, asMessage]
          · simp [hoff]
        | gzip last inner =>
          obtain ⟨hw, hin⟩ := he
          simp only [wireE] at hrest ⊢
          rw [nextMessage_enc _ hw validate]
          simp only [ne_eq, not_true_eq_false, and_false, if_false]
          have hc : toU 1 (1 : Int) % 8 = 1 := by decide
          simp only [hc, show ¬ ((1 : Nat) = 0) by decide, if_false, if_true, Option.getD_some, hinv]
          rw [C02_plain_whole cx debug depth req validate inner hin]
          simp only []
          rw [hrest]
          simp [want, flatE, List.filter_append, List.map_append, List.append_assoc]
    · have hlt : t < (wireE comp e).length := by omega
      simp only [cutEntries, hle, if_false, want, List.flatMap_nil, List.filter_nil, List.map_nil, List.append_nil]
      rw [List.take_append_of_le_length (by omega)]
      cases fuel with
      | zero => rw [fromSlice]
      | succ f =>
        rw [fromSlice]
        by_cases h0 : t = 0
        · subst h0; simp
        · have hne : ((wireE comp e).take t).isEmpty = false := by
            have := wire_len_pos comp e
            cases hh : wireE comp e with
            | nil => simp [hh] at this
            | cons a b =>
              cases t with
              | zero => exact absurd rfl h0
              | succ n => simp
          simp only [hne, Bool.false_eq_true, if_false]
          have htr : nextMessage validate ((wireE comp e).take t) = .error .eof := by
            cases e with
            | plain m => exact nextMessage_trunc m he.1 validate t hlt
            | gzip last inner => exact nextMessage_trunc _ he.1 validate t hlt
          rw [htr]

/-- consequences in the property's words: what is exposed is a prefix of the complete qualifying messages (here: all of
    them), every one at or above the requested offset -/
theorem C02_all_at_or_above (ms : List Msg) (req : Int) : ∀ x ∈ want ms req, x.offset ≥ req := by
  intro x hx
  simp only [want, List.mem_map, List.mem_filter, decide_eq_true_eq] at hx
  obtain ⟨m, ⟨_, hm⟩, rfl⟩ := hx
  exact hm

/-- non-empty whenever a complete qualifying message exists -/
theorem C02_nonempty (ms : List Msg) (req : Int) (m : Msg) (hm : m ∈ ms) (ho : m.offset ≥ req) : want ms req ≠ [] := by
  intro h
  have : asMessage m ∈ want ms req := by
    simp only [want, List.mem_map, List.mem_filter, decide_eq_true_eq]
    exact ⟨m, ⟨hm, ho⟩, rfl⟩
  rw [h] at this
  cases this

/-! ### the partition envelope: id, error code, high watermark, set -/

/-- the partition id and high watermark exposed are those sent; the set is decoded at the offset this partition was
    asked for (0 when the request is not known); a partition error code takes the data's place -/
theorem C02_partition_fields (cx : Codecs) (debug : Bool) (depth : Nat) (req : Option FetchRequest) (topic : Bytes)
    (validate : Bool) (pr : FetchPartResp) (rest : Bytes) (msgs : List Message)
    (hp : inI 4 pr.partition) (he : inI 2 pr.err) (hh : inI 8 pr.hw) (hs : pr.set.length ≤ 2147483647)
    (hdec : fromSlice cx debug depth (pr.set.length + 1) pr.set (requestedOffset req topic pr.partition) validate [] = .ok msgs) :
    readPartition cx debug depth req topic validate (encFetchPartResp pr ++ rest) =
      .ok (⟨pr.partition, match kafkaCode pr.err with | some c => .error c | none => .ok (pr.hw, msgs)⟩, rest) := by
  unfold readPartition encFetchPartResp
  simp only [eI32, eI16, eI64, List.append_assoc, bind, Except.bind]
  rw [zI_append 4 (by decide) _ hp]; simp only []
  rw [zI_append 2 (by decide) _ he]; simp only []
  rw [zI_append 8 (by decide) _ hh]; simp only []
  have := zBytes_append (some pr.set) (by intro x hx; cases hx; exact hs) rest
  simp only [eNBytes] at this
  rw [this]
  simp only [pure, Except.pure, Option.getD_some]
  rw [hdec]
  cases kafkaCode pr.err <;> rfl

/-! ### non-vacuity -/
example : msgOK ⟨5, 0, none, some [1, 2, 3]⟩ ∧ isPlain ⟨5, 0, none, some [1, 2, 3]⟩ := by
  refine ⟨⟨by decide, by decide, ?_, ?_, ?_⟩, ?_⟩
  · intro x hx; cases hx
  · intro x hx; cases hx; decide
  · simp [msgBody, eI8, eNBytes, eBytes, eI32]
  · unfold isPlain; decide

end Kafka.Props.C02

/-! ## any codec, any nesting depth -/

namespace Kafka.Props.C02.Nested
open Kafka Kafka.Spec Kafka.Model Kafka.Props.C02

/-- log entries nested at most `d` levels: a plain message, or a wrapper (gzip / snappy) around entries of the level below -/
@[reducible] def Entry : Nat → Type
  | 0 => Msg
  | d+1 => Msg ⊕ (Bool × Int × List (Entry d))

def cid (snappy : Bool) : Int := if snappy then 2 else 1

def wire (comp : Int → Bytes → Bytes) : (d : Nat) → Entry d → Bytes
  | 0, m => encMsg m
  | _+1, .inl m => encMsg m
  | d+1, .inr (c, last, inner) => encMsg ⟨last, cid c, none, some (comp (cid c) (inner.flatMap (wire comp d)))⟩

def flat : (d : Nat) → Entry d → List Msg
  | 0, m => [m]
  | _+1, .inl m => [m]
  | d+1, .inr (_, _, inner) => inner.flatMap (flat d)

def entryOK (comp : Int → Bytes → Bytes) : (d : Nat) → Entry d → Prop
  | 0, m => msgOK m ∧ isPlain m
  | _+1, .inl m => msgOK m ∧ isPlain m
  | d+1, .inr (c, last, inner) =>
      msgOK ⟨last, cid c, none, some (comp (cid c) (inner.flatMap (wire comp d)))⟩ ∧ ∀ e ∈ inner, entryOK comp d e

def cut (comp : Int → Bytes → Bytes) (d : Nat) : List (Entry d) → Nat → List (Entry d)
  | [], _ => []
  | e :: r, t => if (wire comp d e).length ≤ t then e :: cut comp d r (t - (wire comp d e).length) else []


/-- the decompressors undo the brokers' compressors (gzip: codec 1; snappy in xerial framing: codec 2) -/
structure Inv (cx : Codecs) (comp : Int → Bytes → Bytes) : Prop where
  gzip : ∀ b, cx.gunzip (comp 1 b) = some b
  snappy : ∀ b, ∃ s, validateStream (comp 2 b) = .ok s ∧ snappyChunks (uncompressTo cx) (s.length + 1) s [] = .ok b

theorem ne_of_len (w : Msg) (rest : Bytes) : (encMsg w ++ rest).isEmpty = false := by
  have := encMsg_len_pos w
  cases hh : encMsg w with
  | nil => simp [hh] at this
  | cons a b => simp

/-- one loop step over a complete plain message -/
theorem step_plain (cx : Codecs) (debug : Bool) (D f : Nat) (m : Msg) (hm : msgOK m) (hp : isPlain m) (rest : Bytes)
    (req : Int) (validate : Bool) (acc : List Message) :
    fromSlice cx debug D (f + 1) (encMsg m ++ rest) req validate acc =
      fromSlice cx debug D f rest req validate (acc ++ want [m] req) := by
  rw [fromSlice]
  simp only [ne_of_len m rest, Bool.false_eq_true, if_false]
  rw [nextMessage_enc m hm validate]
  unfold isPlain at hp
  simp only [hp, if_true]
  simp only [want, List.filter_cons, List.filter_nil]
  by_cases hoff : m.offset ≥ req
  · simp [hoff, asMessage]
  · simp [hoff]

/-- a cut entry ends the set silently -/
theorem step_cut (cx : Codecs) (debug : Bool) (D fuel : Nat) (w : Msg) (hw : msgOK w) (t : Nat) (ht : t < (encMsg w).length)
    (req : Int) (validate : Bool) (acc : List Message) :
    fromSlice cx debug D fuel ((encMsg w).take t) req validate acc = .ok acc := by
  cases fuel with
  | zero => rw [fromSlice]
  | succ f =>
    rw [fromSlice]
    by_cases h0 : t = 0
    · subst h0; simp
    · have hne : ((encMsg w).take t).isEmpty = false := by
        have := encMsg_len_pos w
        cases hh : encMsg w with
        | nil => simp [hh] at this
        | cons a b =>
          cases t with
          | zero => exact absurd rfl h0
          | succ n => simp
      simp only [hne, Bool.false_eq_true, if_false]
      rw [nextMessage_trunc w hw validate t ht]

/-- one loop step over a complete wrapper whose inner set decodes to `ms` -/
theorem step_wrap (cx : Codecs) (comp : Int → Bytes → Bytes) (hinv : Inv cx comp) (debug : Bool) (D f : Nat)
    (c : Bool) (last : Int) (ib : Bytes) (hw : msgOK ⟨last, cid c, none, some (comp (cid c) ib)⟩) (rest : Bytes)
    (req : Int) (validate : Bool) (acc ms : List Message)
    (hin : fromSlice cx debug D (ib.length + 1) ib req validate [] = .ok ms) :
    fromSlice cx debug (D + 1) (f + 1) (encMsg ⟨last, cid c, none, some (comp (cid c) ib)⟩ ++ rest) req validate acc =
      fromSlice cx debug (D + 1) f rest req validate (acc ++ ms) := by
  rw [fromSlice]
  simp only [ne_of_len _ rest, Bool.false_eq_true, if_false]
  rw [nextMessage_enc _ hw validate]
  cases c with
  | false =>
    have hc : toU 1 (cid false) % 8 = 1 := by decide
    simp only [hc, show ¬ ((1 : Nat) = 0) by decide, if_false, if_true, Option.getD_some]
    have : cid false = 1 := rfl
    rw [this, hinv.gzip]
    simp only [hin]
  | true =>
    have hc : toU 1 (cid true) % 8 = 2 := by decide
    simp only [hc, show ¬ ((2 : Nat) = 0) by decide, show ¬ ((2 : Nat) = 1) by decide, if_false, if_true, Option.getD_some]
    have : cid true = 2 := rfl
    rw [this]
    obtain ⟨s, hs1, hs2⟩ := hinv.snappy ib
    simp only [hs1, hs2, hin]


theorem wire_len_pos' (comp : Int → Bytes → Bytes) : (d : Nat) → (e : Entry d) → 12 ≤ (wire comp d e).length
  | 0, m => encMsg_len_pos m
  | _+1, .inl m => encMsg_len_pos m
  | _+1, .inr (_, _, _) => encMsg_len_pos _

theorem cut_length (comp : Int → Bytes → Bytes) (d : Nat) (es : List (Entry d)) (t : Nat) : (cut comp d es t).length ≤ es.length := by
  induction es generalizing t with
  | nil => simp [cut]
  | cons e r ih => simp only [cut]; split <;> simp; exact ih _

theorem cut_all (comp : Int → Bytes → Bytes) (d : Nat) (es : List (Entry d)) (t : Nat)
    (h : (es.flatMap (wire comp d)).length ≤ t) : cut comp d es t = es := by
  induction es generalizing t with
  | nil => rfl
  | cons e r ih =>
    have hl : ((e :: r).flatMap (wire comp d)).length = (wire comp d e).length + (r.flatMap (wire comp d)).length := by simp
    simp only [cut]
    have : (wire comp d e).length ≤ t := by omega
    simp only [this, if_true]
    rw [ih _ (by omega)]

theorem count_le_len (comp : Int → Bytes → Bytes) (d : Nat) (es : List (Entry d)) : es.length ≤ (es.flatMap (wire comp d)).length := by
  induction es with
  | nil => simp
  | cons e r ih =>
    have := wire_len_pos' comp d e
    simp only [List.flatMap_cons, List.length_append, List.length_cons]; omega

theorem flat_zero (m : Msg) : flat 0 m = [m] := rfl
theorem flat_inl (d : Nat) (m : Msg) : flat (d + 1) (Sum.inl m) = [m] := rfl
theorem flat_inr (d : Nat) (c : Bool) (last : Int) (inner : List (Entry d)) :
    flat (d + 1) (Sum.inr (c, last, inner)) = inner.flatMap (flat d) := rfl

/-- the first message an entry puts on the wire (the message itself, or the wrapper) is well-formed -/
def head (comp : Int → Bytes → Bytes) : (d : Nat) → Entry d → Msg
  | 0, m => m
  | _+1, .inl m => m
  | d+1, .inr (c, last, inner) => ⟨last, cid c, none, some (comp (cid c) (inner.flatMap (wire comp d)))⟩

theorem wire_head (comp : Int → Bytes → Bytes) : (d : Nat) → (e : Entry d) → wire comp d e = encMsg (head comp d e)
  | 0, _ => rfl
  | _+1, .inl _ => rfl
  | _+1, .inr (_, _, _) => rfl

theorem head_ok (comp : Int → Bytes → Bytes) : (d : Nat) → (e : Entry d) → entryOK comp d e → msgOK (head comp d e)
  | 0, _, h => h.1
  | _+1, .inl _, h => h.1
  | _+1, .inr (_, _, _), h => h.1

/-- **any sequence of plain messages and gzip / snappy wrappers, nested to any depth the decoder admits, cut anywhere**:
    with decompressors that undo the brokers' compressors, decoding the first `t` bytes returns exactly the messages of
    the entries lying wholly inside them - wrappers opened level by level - at or above the requested offset, in log
    order; a cut entry (plain or wrapper) ends the set silently.  `d` = nesting levels present, `d + k` = levels admitted. -/
theorem C02_nested (cx : Codecs) (comp : Int → Bytes → Bytes) (hinv : Inv cx comp) (debug : Bool) (req : Int) (validate : Bool) :
    ∀ (d k : Nat) (es : List (Entry d)) (t fuel : Nat) (acc : List Message),
      (∀ e ∈ es, entryOK comp d e) → (cut comp d es t).length ≤ fuel →
      fromSlice cx debug (d + k) fuel ((es.flatMap (wire comp d)).take t) req validate acc =
        .ok (acc ++ want ((cut comp d es t).flatMap (flat d)) req) := by
  intro d
  induction d with
  | zero =>
    intro k es
    induction es with
    | nil =>
      intro t fuel acc _ _
      cases fuel with
      | zero => rw [fromSlice]; simp [cut, want]
      | succ f => rw [fromSlice]; simp [cut, want]
    | cons e r ih =>
      intro t fuel acc hok hfuel
      have he := hok e (by simp)
      simp only [List.flatMap_cons]
      by_cases hle : (wire comp 0 e).length ≤ t
      · simp only [cut, hle, if_true] at hfuel ⊢
        cases fuel with
        | zero => simp at hfuel
        | succ f =>
          rw [List.take_append, List.take_of_length_le hle]
          show fromSlice cx debug (0 + k) (f + 1) (encMsg e ++ _) req validate acc = _
          rw [step_plain cx debug (0 + k) f e he.1 he.2]
          rw [ih _ f _ (fun x hx => hok x (by simp [hx])) (by simp at hfuel; omega)]
          (simp only [want, List.flatMap_cons, List.filter_append, List.map_append, List.append_assoc]; rfl)
      · have hlt : t < (wire comp 0 e).length := by omega
        simp only [cut, hle, if_false, want, List.flatMap_nil, List.filter_nil, List.map_nil, List.append_nil]
        rw [List.take_append_of_le_length (by omega)]
        exact step_cut cx debug (0 + k) fuel e he.1 t hlt req validate acc
  | succ d ihd =>
    intro k es
    induction es with
    | nil =>
      intro t fuel acc _ _
      cases fuel with
      | zero => rw [fromSlice]; simp [cut, want]
      | succ f => rw [fromSlice]; simp [cut, want]
    | cons e r ih =>
      intro t fuel acc hok hfuel
      have he := hok e (by simp)
      simp only [List.flatMap_cons]
      by_cases hle : (wire comp (d + 1) e).length ≤ t
      · simp only [cut, hle, if_true] at hfuel ⊢
        cases fuel with
        | zero => simp at hfuel
        | succ f =>
          rw [List.take_append, List.take_of_length_le hle]
          have hrest := fun acc' => ih (t - (wire comp (d + 1) e).length) f acc' (fun x hx => hok x (by simp [hx])) (by simp at hfuel; omega)
          match e, he, hrest with
          | .inl m, he, hrest =>
            show fromSlice cx debug (d + 1 + k) (f + 1) (encMsg m ++ _) req validate acc = _
            rw [step_plain cx debug (d + 1 + k) f m he.1 he.2]
            rw [hrest]
            (simp only [want, List.flatMap_cons, List.filter_append, List.map_append, List.append_assoc]; rfl)
          | .inr (c, last, inner), he, hrest =>
            have hD : d + 1 + k = (d + k) + 1 := by omega
            show fromSlice cx debug (d + 1 + k) (f + 1) (encMsg ⟨last, cid c, none, some (comp (cid c) (inner.flatMap (wire comp d)))⟩ ++ _) req validate acc = _
            rw [hD]
            have hinner := ihd k inner (inner.flatMap (wire comp d)).length ((inner.flatMap (wire comp d)).length + 1) [] he.2 (by
              have h1 := cut_length comp d inner (inner.flatMap (wire comp d)).length
              have h2 := count_le_len comp d inner
              omega)
            rw [List.take_of_length_le (Nat.le_refl _), cut_all comp d inner _ (Nat.le_refl _)] at hinner
            rw [step_wrap cx comp hinv debug (d + k) f c last _ he.1 _ req validate acc _ hinner]
            rw [← hD, hrest]
            (simp only [want, List.flatMap_cons, List.filter_append, List.map_append, List.append_assoc]; rfl)
      · have hlt : t < (wire comp (d + 1) e).length := by omega
        simp only [cut, hle, if_false, want, List.flatMap_nil, List.filter_nil, List.map_nil, List.append_nil]
        rw [List.take_append_of_le_length (by omega)]
        rw [wire_head] at hlt ⊢
        exact step_cut cx debug (d + 1 + k) fuel _ (head_ok comp (d + 1) e he) t hlt req validate acc


/-! ### xerial framing (snappy.rs): header, then (int32 length, block) per chunk -/

def frameBlock (c : Bytes) : Bytes := eI32 (c.length : Int) ++ c

def xerialFrame (blocks : List Bytes) : Bytes := snappyMagic ++ eI32 1 ++ eI32 1 ++ blocks.flatMap frameBlock

def blockOK (c : Bytes) : Prop := 0 < c.length ∧ c.length ≤ 2147483647

theorem validate_frame (blocks : List Bytes) : validateStream (xerialFrame blocks) = .ok (blocks.flatMap frameBlock) := by
  unfold validateStream xerialFrame
  have hlen : ¬ (snappyMagic ++ eI32 1 ++ eI32 1 ++ blocks.flatMap frameBlock).length < 8 := by
    simp [snappyMagic]
  simp only [hlen, if_false]
  have htake : (snappyMagic ++ eI32 1 ++ eI32 1 ++ blocks.flatMap frameBlock).take 8 = snappyMagic := by
    simp [snappyMagic, List.append_assoc]
  have hdrop : (snappyMagic ++ eI32 1 ++ eI32 1 ++ blocks.flatMap frameBlock).drop 8 = eI32 1 ++ (eI32 1 ++ blocks.flatMap frameBlock) := by
    simp [snappyMagic, List.append_assoc]
  simp only [htake, ne_eq, not_true_eq_false, if_false, hdrop]
  rw [show eI32 1 = encI 4 1 from rfl, readI_append 4 (by decide) 1 (by decide)]
  simp only [ne_eq, not_true_eq_false, if_false]
  rw [readI_append 4 (by decide) 1 (by decide)]
  simp

/-- the chunk loop over a well-formed frame: every block goes through the block decoder, the outputs are concatenated -/
theorem chunks_frame (unsnap : Bytes → Option Bytes) :
    ∀ (blocks : List Bytes) (outs : List Bytes) (fuel : Nat) (acc : Bytes),
      (∀ c ∈ blocks, blockOK c) → blocks.mapM unsnap = some outs → blocks.length ≤ fuel →
      snappyChunks unsnap fuel (blocks.flatMap frameBlock) acc = .ok (acc ++ outs.flatten) := by
  intro blocks
  induction blocks with
  | nil =>
    intro outs fuel acc _ hm _
    simp at hm; subst hm
    cases fuel <;> simp [snappyChunks]
  | cons c r ih =>
    intro outs fuel acc hok hm hfuel
    cases fuel with
    | zero => simp at hfuel
    | succ f =>
      obtain ⟨hpos, hle⟩ := hok c (by simp)
      simp only [List.mapM_cons, bind, Option.bind] at hm
      cases hu : unsnap c with
      | none => simp [hu] at hm
      | some d =>
        cases hr : r.mapM unsnap with
        | none => simp [hu, hr] at hm
        | some ds =>
          simp [hu, hr] at hm
          subst hm
          rw [snappyChunks]
          have hne : ((c :: r).flatMap frameBlock).isEmpty = false := by
            simp [frameBlock, eI32]
            intro h; have := congrArg List.length h; simp at this
          simp only [List.flatMap_cons, frameBlock, List.append_assoc] at hne ⊢
          simp only [hne, Bool.false_eq_true, if_false]
          rw [show eI32 (c.length : Int) = encI 4 (c.length : Int) from rfl,
            readI_append 4 (by decide) _ (by unfold inI; simp; omega)]
          have h1 : ¬ ((c.length : Int) ≤ 0) := by omega
          have h2 : ¬ ((c.length : Int).toNat > (c ++ r.flatMap frameBlock).length) := by simp
          simp only [h1, h2, if_false]
          have h3 : (c.length : Int).toNat = c.length := by simp
          rw [h3, List.take_left', List.drop_left', hu]
          · have := ih ds f (acc ++ d) (fun x hx => hok x (by simp [hx])) hr (by simp at hfuel; omega)
            simp only [this]; simp [List.append_assoc]
          · rfl
          · rfl


/-- the chunk loop's fuel in `fromSlice` (`s.length + 1`) always suffices: every framed block takes at least four bytes -/
theorem blocks_le_frame (blocks : List Bytes) : blocks.length ≤ (blocks.flatMap frameBlock).length := by
  induction blocks with
  | nil => simp
  | cons c r ih => simp only [List.flatMap_cons, List.length_append, List.length_cons, frameBlock, eI32, encI, be_length]; omega

/-- **xerial framing round trip** (`SnappyReader::read_to_end`): a stream of well-formed blocks is accepted and decodes to
    the concatenation of the block decoder's outputs -/
theorem C02_xerial (unsnap : Bytes → Option Bytes) (blocks outs : List Bytes) (hok : ∀ c ∈ blocks, blockOK c)
    (hdec : blocks.mapM unsnap = some outs) :
    ∃ s, validateStream (xerialFrame blocks) = .ok s ∧ snappyChunks unsnap (s.length + 1) s [] = .ok outs.flatten := by
  refine ⟨_, validate_frame blocks, ?_⟩
  have := chunks_frame unsnap blocks outs ((blocks.flatMap frameBlock).length + 1) [] hok hdec (by
    have := blocks_le_frame blocks; omega)
  simpa using this

/-! ### the hypotheses are satisfiable: identity codecs behind real framing -/

def chunksOf : Nat → Bytes → List Bytes
  | 0, _ => []
  | f+1, b => if b.isEmpty then [] else b.take 1000 :: chunksOf f (b.drop 1000)

theorem chunksOf_flatten : ∀ (f : Nat) (b : Bytes), b.length ≤ f → (chunksOf f b).flatten = b := by
  intro f
  induction f with
  | zero => intro b h; have : b = [] := List.eq_nil_of_length_eq_zero (by omega)
            subst this; rfl
  | succ f ih =>
    intro b h
    simp only [chunksOf]
    by_cases hb : b.isEmpty
    · simp [hb]; exact (List.isEmpty_iff.mp hb)
    · simp only [hb, Bool.false_eq_true, if_false, List.flatten_cons]
      have hpos : 0 < b.length := by
        cases b with
        | nil => simp at hb
        | cons _ _ => simp
      rw [ih (b.drop 1000) (by simp; omega), List.take_append_drop]

theorem chunksOf_ok : ∀ (f : Nat) (b : Bytes), ∀ c ∈ chunksOf f b, blockOK c := by
  intro f
  induction f with
  | zero => intro b c hc; simp [chunksOf] at hc
  | succ f ih =>
    intro b c hc
    simp only [chunksOf] at hc
    by_cases hb : b.isEmpty
    · simp [hb] at hc
    · simp only [hb, Bool.false_eq_true, if_false, List.mem_cons] at hc
      rcases hc with rfl | hc
      · have hpos : 0 < b.length := by
          cases b with
          | nil => simp at hb
          | cons _ _ => simp
        unfold blockOK; simp only [List.length_take]; omega
      · exact ih _ c hc

theorem mapM_some (l : List Bytes) : l.mapM (fun x => (some x : Option Bytes)) = some l := by
  induction l with
  | nil => rfl
  | cons a r ih => simp [List.mapM_cons, ih]

def idCodecs : Codecs := ⟨some, some, fun b => some b.length⟩
def idComp (c : Int) (b : Bytes) : Bytes := if c = 2 then xerialFrame (chunksOf b.length b) else b

theorem uncompressTo_id (c : Bytes) (h : blockOK c) : uncompressTo idCodecs c = some c := by
  unfold uncompressTo idCodecs
  have h1 : ¬ (c.length > 32 * c.length) := by omega
  have h2 : ¬ (c.length = 0) := by have := h.1; omega
  simp [h1, h2]

theorem mapM_uncompressTo_id : ∀ (l : List Bytes), (∀ c ∈ l, blockOK c) → l.mapM (uncompressTo idCodecs) = some l := by
  intro l
  induction l with
  | nil => intro _; rfl
  | cons a r ih =>
    intro h
    simp [List.mapM_cons, uncompressTo_id a (h a (by simp)), ih (fun c hc => h c (by simp [hc]))]

theorem idInv : Inv idCodecs idComp where
  gzip := fun b => by simp [idCodecs, idComp]
  snappy := fun b => by
    have := C02_xerial (uncompressTo idCodecs) (chunksOf b.length b) (chunksOf b.length b) (chunksOf_ok _ b)
      (mapM_uncompressTo_id _ (chunksOf_ok _ b))
    rw [chunksOf_flatten b.length b (Nat.le_refl _)] at this
    simpa [idComp] using this


/-! ### non-vacuity: a concrete two-level log entry -/
def mA : Msg := ⟨5, 0, none, some [1, 2, 3]⟩
def mB : Msg := ⟨7, 0, some [9], some []⟩
def mC : Msg := ⟨8, 0, none, none⟩
/-- snappy{ gzip{mA, mB}, mC } with the wrappers carrying the last inner offset -/
def exEntry : Entry 2 := .inr (true, 8, [.inr (false, 7, [mA, mB]), .inl mC])

theorem mOK (m : Msg) (h1 : inI 8 m.offset) (h2 : inI 1 m.attr) (hk : ∀ x, m.key = some x → x.length ≤ 100)
    (hv : ∀ x, m.value = some x → x.length ≤ 100000) : msgOK m := by
  refine ⟨h1, h2, fun x hx => by have := hk x hx; omega, fun x hx => by have := hv x hx; omega, ?_⟩
  cases hkk : m.key <;> cases hvv : m.value <;> simp [msgBody, eI8, eNBytes, eBytes, eI32, encI, be_length]
  · have := hv _ hvv; omega
  · have := hk _ hkk; omega
  · have := hk _ hkk; have := hv _ hvv; omega

set_option maxRecDepth 20000 in
example : entryOK idComp 2 exEntry := by
  refine ⟨mOK _ (by decide) (by decide) (by intro x hx; cases hx) (by intro x hx; cases hx; decide), ?_⟩
  intro e he
  simp only [List.mem_cons, List.mem_nil_iff, or_false] at he
  rcases he with rfl | rfl
  · refine ⟨mOK _ (by decide) (by decide) (by intro x hx; cases hx) (by intro x hx; cases hx; decide), ?_⟩
    intro e he
    simp only [List.mem_cons, List.mem_nil_iff, or_false] at he
    rcases he with rfl | rfl
    · exact ⟨mOK _ (by decide) (by decide) (by intro x hx; cases hx) (by intro x hx; cases hx; decide), by unfold isPlain; decide⟩
    · exact ⟨mOK _ (by decide) (by decide) (by intro x hx; cases hx; decide) (by intro x hx; cases hx; decide), by unfold isPlain; decide⟩
  · exact ⟨mOK _ (by decide) (by decide) (by intro x hx; cases hx) (by intro x hx; cases hx), by unfold isPlain; decide⟩

end Kafka.Props.C02.Nested

