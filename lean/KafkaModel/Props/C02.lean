import KafkaModel.Lemmas.Fetch
import KafkaModel.Lemmas.ModelDec
import KafkaModel.Spec.MsgSet
/-!
  C02 — Fetch decoding yields a gap-free run of complete messages from the asked offset.
  `Model.fromSlice` (mirror of `MessageSet::from_slice`) on the first `t` bytes of any encoded sequence of
  plain messages and (gzip / snappy) wrappers, for every truncation point `t`, requested offset and CRC flag.
-/
namespace Kafka.Props.C02
open Kafka Kafka.Spec Kafka.Model

def isPlain (m : Msg) : Prop := (toU 1 m.attr) % 8 = 0

/-- the messages lying wholly inside the first `t` bytes -/
def cutMsgs : List Msg → Nat → List Msg
  | [], _ => []
  | m :: r, t => if (encMsg m).length ≤ t then m :: cutMsgs r (t - (encMsg m).length) else []

def asMessage (m : Msg) : Message := ⟨m.offset, m.key.getD [], m.value.getD []⟩

/-- what must be exposed: complete, at or above the requested offset, in log order, byte-identical (null = empty) -/
def want (ms : List Msg) (req : Int) : List Message := (ms.filter fun m => m.offset ≥ req).map asMessage

theorem encMsg_len_pos (m : Msg) : 12 ≤ (encMsg m).length := by
  simp [encMsg, eI64, eI32, crcField]; omega

theorem cutMsgs_length (ms : List Msg) (t : Nat) : (cutMsgs ms t).length ≤ ms.length := by
  induction ms generalizing t with
  | nil => simp [cutMsgs]
  | cons m r ih => simp only [cutMsgs]; split <;> simp; exact ih _

theorem cutMsgs_all (ms : List Msg) (t : Nat) (h : (encMsgs ms).length ≤ t) : cutMsgs ms t = ms := by
  induction ms generalizing t with
  | nil => rfl
  | cons m r ih =>
    have hl : (encMsgs (m :: r)).length = (encMsg m).length + (encMsgs r).length := by simp [encMsgs]
    simp only [cutMsgs]
    have : (encMsg m).length ≤ t := by omega
    simp only [this, if_true]
    rw [ih _ (by omega)]

/-- **uncompressed sets**: for every truncation point, exactly the complete messages at or above the requested offset
    are exposed — in order, byte-identical, never a partial one — and the cut tail is dropped silently (`.ok`) -/
theorem C02_plain (cx : Codecs) (debug : Bool) (depth : Nat) (req : Int) (validate : Bool) :
    ∀ (ms : List Msg) (t fuel : Nat) (acc : List Message),
      (∀ m ∈ ms, msgOK m ∧ isPlain m) → (cutMsgs ms t).length ≤ fuel →
      fromSlice cx debug depth fuel ((encMsgs ms).take t) req validate acc = .ok (acc ++ want (cutMsgs ms t) req) := by
  intro ms
  induction ms with
  | nil =>
    intro t fuel acc _ _
    cases fuel with
    | zero => rw [fromSlice]; simp [cutMsgs, want]
    | succ f => rw [fromSlice]; simp [encMsgs, cutMsgs, want]
  | cons m r ih =>
    intro t fuel acc hok hfuel
    obtain ⟨hm, hp⟩ := hok m (by simp)
    have henc : encMsgs (m :: r) = encMsg m ++ encMsgs r := by simp [encMsgs]
    rw [henc]
    by_cases hle : (encMsg m).length ≤ t
    · -- the entry is complete
      simp only [cutMsgs, hle, if_true] at hfuel ⊢
      cases fuel with
      | zero => simp at hfuel
      | succ f =>
        rw [List.take_append, List.take_of_length_le hle]
        rw [fromSlice]
        have hne : (encMsg m ++ List.take (t - (encMsg m).length) (encMsgs r)).isEmpty = false := by
          have := encMsg_len_pos m
          cases hh : encMsg m with
          | nil => simp [hh] at this
          | cons a b => simp
        simp only [hne, Bool.false_eq_true, if_false]
        rw [nextMessage_enc m hm validate]
        simp only [ne_eq, not_true_eq_false, and_false, if_false]
        unfold isPlain at hp
        simp only [hp, if_true]
        rw [ih _ f _ (fun x hx => hok x (by simp [hx])) (by simp at hfuel; omega)]
        simp only [want, List.filter_cons]
        by_cases hoff : m.offset ≥ req
        · simp [hoff, asMessage]
        · simp [hoff]
    · -- the entry is cut: nothing of it (nor anything after it) is exposed
      have hlt : t < (encMsg m).length := by omega
      simp only [cutMsgs, hle, if_false, want, List.filter_nil, List.map_nil, List.append_nil]
      rw [List.take_append_of_le_length (by omega)]
      cases fuel with
      | zero => rw [fromSlice]
      | succ f =>
        rw [fromSlice]
        by_cases h0 : t = 0
        · subst h0; simp
        · have hne : ((encMsg m).take t).isEmpty = false := by
            have := encMsg_len_pos m
            cases hh : encMsg m with
            | nil => simp [hh] at this
            | cons a b =>
              cases t with
              | zero => exact absurd rfl h0
              | succ n => simp
          simp only [hne, Bool.false_eq_true, if_false]
          rw [nextMessage_trunc m hm validate t hlt]

/-- the whole (untruncated) set: everything at or above the requested offset -/
theorem C02_plain_whole (cx : Codecs) (debug : Bool) (depth : Nat) (req : Int) (validate : Bool) (ms : List Msg)
    (hok : ∀ m ∈ ms, msgOK m ∧ isPlain m) :
    fromSlice cx debug depth ((encMsgs ms).length + 1) (encMsgs ms) req validate [] = .ok (want ms req) := by
  have := C02_plain cx debug depth req validate ms (encMsgs ms).length ((encMsgs ms).length + 1) [] hok (by
    have h1 := cutMsgs_length ms (encMsgs ms).length
    have h2 : ms.length ≤ (encMsgs ms).length := by
      induction ms with
      | nil => simp
      | cons m r ih =>
        have := encMsg_len_pos m
        have ih' := ih (fun x hx => hok x (by simp [hx])) (cutMsgs_length r _)
        simp only [encMsgs, List.flatMap_cons, List.length_append, List.length_cons] at ih' ⊢
        omega
    omega)
  rw [List.take_of_length_le (Nat.le_refl _), cutMsgs_all ms _ (Nat.le_refl _)] at this
  simpa using this

/-! ### wrappers -/

/-- a log entry as a broker stores it: a plain message, or a wrapper (codec 1 = gzip) holding plain messages -/
inductive Entry
  | plain (m : Msg)
  | gzip (last : Int) (inner : List Msg)

def wireE (comp : Bytes → Bytes) : Entry → Bytes
  | .plain m => encMsg m
  | .gzip last inner => encMsg ⟨last, 1, none, some (comp (encMsgs inner))⟩

def flatE : Entry → List Msg
  | .plain m => [m]
  | .gzip _ inner => inner

def entryOK (comp : Bytes → Bytes) : Entry → Prop
  | .plain m => msgOK m ∧ isPlain m
  | .gzip last inner => msgOK ⟨last, 1, none, some (comp (encMsgs inner))⟩ ∧ ∀ m ∈ inner, msgOK m ∧ isPlain m

/-- the entries lying wholly inside the first `t` bytes -/
def cutEntries (comp : Bytes → Bytes) : List Entry → Nat → List Entry
  | [], _ => []
  | e :: r, t => if (wireE comp e).length ≤ t then e :: cutEntries comp r (t - (wireE comp e).length) else []

theorem wire_len_pos (comp : Bytes → Bytes) (e : Entry) : 12 ≤ (wireE comp e).length := by
  cases e <;> exact encMsg_len_pos _

/-- **plain and gzip-compressed batches in any sequence, cut anywhere**: with a decompressor that inverts the broker's
    compressor, the messages of all complete entries at or above the requested offset are exposed, in log order,
    inner messages below the requested offset filtered out; a cut wrapper is dropped whole -/
theorem C02_decode (cx : Codecs) (comp : Bytes → Bytes) (hinv : ∀ b, cx.gunzip (comp b) = some b)
    (debug : Bool) (depth : Nat) (req : Int) (validate : Bool) :
    ∀ (es : List Entry) (t fuel : Nat) (acc : List Message),
      (∀ e ∈ es, entryOK comp e) → (cutEntries comp es t).length ≤ fuel →
      fromSlice cx debug (depth + 1) fuel ((es.flatMap (wireE comp)).take t) req validate acc =
        .ok (acc ++ want ((cutEntries comp es t).flatMap flatE) req) := by
  intro es
  induction es with
  | nil =>
    intro t fuel acc _ _
    cases fuel with
    | zero => rw [fromSlice]; simp [cutEntries, want]
    | succ f => rw [fromSlice]; simp [cutEntries, want]
  | cons e r ih =>
    intro t fuel acc hok hfuel
    have he := hok e (by simp)
    simp only [List.flatMap_cons]
    by_cases hle : (wireE comp e).length ≤ t
    · simp only [cutEntries, hle, if_true] at hfuel ⊢
      cases fuel with
      | zero => simp at hfuel
      | succ f =>
        rw [List.take_append, List.take_of_length_le hle]
        have hne : (wireE comp e ++ List.take (t - (wireE comp e).length) (r.flatMap (wireE comp))).isEmpty = false := by
          have := wire_len_pos comp e
          cases hh : wireE comp e with
          | nil => simp [hh] at this
          | cons a b => simp
        rw [fromSlice]
        simp only [hne, Bool.false_eq_true, if_false]
        have hrest := fun acc' => ih (t - (wireE comp e).length) f acc' (fun x hx => hok x (by simp [hx])) (by simp at hfuel; omega)
        cases e with
        | plain m =>
          obtain ⟨hm, hp⟩ := he
          simp only [wireE] at hrest ⊢
          rw [nextMessage_enc m hm validate]
          simp only [ne_eq, not_true_eq_false, and_false, if_false]
          unfold isPlain at hp
          simp only [hp, if_true]
          rw [hrest]
          simp only [want, flatE, List.flatMap_cons, List.singleton_append, List.filter_cons]
          by_cases hoff : m.offset ≥ req
          · simp [hoff, asMessage]
          · simp [hoff]
        | gzip last inner =>
          obtain ⟨hw, hin⟩ := he
          simp only [wireE] at hrest ⊢
          rw [nextMessage_enc _ hw validate]
          simp only [ne_eq, not_true_eq_false, and_false, if_false]
          have hc : toU 1 (1 : Int) % 8 = 1 := by decide
          simp only [hc, show ¬ ((1 : Nat) = 0) by decide, if_false, if_true, Option.getD_some, hinv]
          rw [C02_plain_whole cx debug depth req validate inner hin]
          simp only []
          rw [hrest]
          simp [want, flatE, List.filter_append, List.map_append, List.append_assoc]
    · have hlt : t < (wireE comp e).length := by omega
      simp only [cutEntries, hle, if_false, want, List.flatMap_nil, List.filter_nil, List.map_nil, List.append_nil]
      rw [List.take_append_of_le_length (by omega)]
      cases fuel with
      | zero => rw [fromSlice]
      | succ f =>
        rw [fromSlice]
        by_cases h0 : t = 0
        · subst h0; simp
        · have hne : ((wireE comp e).take t).isEmpty = false := by
            have := wire_len_pos comp e
            cases hh : wireE comp e with
            | nil => simp [hh] at this
            | cons a b =>
              cases t with
              | zero => exact absurd rfl h0
              | succ n => simp
          simp only [hne, Bool.false_eq_true, if_false]
          have htr : nextMessage validate ((wireE comp e).take t) = .error .eof := by
            cases e with
            | plain m => exact nextMessage_trunc m he.1 validate t hlt
            | gzip last inner => exact nextMessage_trunc _ he.1 validate t hlt
          rw [htr]

/-- consequences in the property's words: what is exposed is a prefix of the complete qualifying messages (here: all of
    them), every one at or above the requested offset -/
theorem C02_all_at_or_above (ms : List Msg) (req : Int) : ∀ x ∈ want ms req, x.offset ≥ req := by
  intro x hx
  simp only [want, List.mem_map, List.mem_filter, decide_eq_true_eq] at hx
  obtain ⟨m, ⟨_, hm⟩, rfl⟩ := hx
  exact hm

/-- non-empty whenever a complete qualifying message exists -/
theorem C02_nonempty (ms : List Msg) (req : Int) (m : Msg) (hm : m ∈ ms) (ho : m.offset ≥ req) : want ms req ≠ [] := by
  intro h
  have : asMessage m ∈ want ms req := by
    simp only [want, List.mem_map, List.mem_filter, decide_eq_true_eq]
    exact ⟨m, ⟨hm, ho⟩, rfl⟩
  rw [h] at this
  cases this

/-! ### the partition envelope: id, error code, high watermark, set -/

/-- the partition id and high watermark exposed are those sent; the set is decoded at the offset this partition was
    asked for (0 when the request is not known); a partition error code takes the data's place -/
theorem C02_partition_fields (cx : Codecs) (debug : Bool) (depth : Nat) (req : Option FetchRequest) (topic : Bytes)
    (validate : Bool) (pr : FetchPartResp) (rest : Bytes) (msgs : List Message)
    (hp : inI 4 pr.partition) (he : inI 2 pr.err) (hh : inI 8 pr.hw) (hs : pr.set.length ≤ 2147483647)
    (hdec : fromSlice cx debug depth (pr.set.length + 1) pr.set (requestedOffset req topic pr.partition) validate [] = .ok msgs) :
    readPartition cx debug depth req topic validate (encFetchPartResp pr ++ rest) =
      .ok (⟨pr.partition, match kafkaCode pr.err with | some c => .error c | none => .ok (pr.hw, msgs)⟩, rest) := by
  unfold readPartition encFetchPartResp
  simp only [eI32, eI16, eI64, List.append_assoc, bind, Except.bind]
  rw [zI_append 4 (by decide) _ hp]; simp only []
  rw [zI_append 2 (by decide) _ he]; simp only []
  rw [zI_append 8 (by decide) _ hh]; simp only []
  have := zBytes_append (some pr.set) (by intro x hx; cases hx; exact hs) rest
  simp only [eNBytes] at this
  rw [this]
  simp only [pure, Except.pure, Option.getD_some]
  rw [hdec]
  cases kafkaCode pr.err <;> rfl

/-! ### non-vacuity -/
example : msgOK ⟨5, 0, none, some [1, 2, 3]⟩ ∧ isPlain ⟨5, 0, none, some [1, 2, 3]⟩ := by
  refine ⟨⟨by decide, by decide, ?_, ?_, ?_⟩, ?_⟩
  · intro x hx; cases hx
  · intro x hx; cases hx; decide
  · simp [msgBody, eI8, eNBytes, eBytes, eI32]
  · unfold isPlain; decide

end Kafka.Props.C02
