import KafkaModel.Generated.ErrorTable
import KafkaModel.Model.Consumer
import KafkaModel.Model.Producer
/-!
  C11 — Broker error codes surface as the matching error, never as success.
  (a) the code table: what the *implementation* reports for each of the 65 536 wire codes
      (`Generated.observedErrorTable`, regenerated on every run) equals the specification's table,
      which equals the model's `kafkaCode` — kernel-checked for all i16 values;
  (b) per API: a non-zero code on a partition / group / coordinator answer makes the call report it.
-/
namespace Kafka.Props.C11
open Kafka Kafka.Model

/-- the documented Kafka error codes (protocol guide), each kept individually; anything else is "unknown" (−1) -/
def documented : List (Int × String) := [
  (1, "OffsetOutOfRange"), (2, "CorruptMessage"), (3, "UnknownTopicOrPartition"), (4, "InvalidMessageSize"),
  (5, "LeaderNotAvailable"), (6, "NotLeaderForPartition"), (7, "RequestTimedOut"), (8, "BrokerNotAvailable"),
  (9, "ReplicaNotAvailable"), (10, "MessageSizeTooLarge"), (11, "StaleControllerEpoch"), (12, "OffsetMetadataTooLarge"),
  (13, "NetworkException"), (14, "GroupLoadInProgress"), (15, "GroupCoordinatorNotAvailable"), (16, "NotCoordinatorForGroup"),
  (17, "InvalidTopic"), (18, "RecordListTooLarge"), (19, "NotEnoughReplicas"), (20, "NotEnoughReplicasAfterAppend"),
  (21, "InvalidRequiredAcks"), (22, "IllegalGeneration"), (23, "InconsistentGroupProtocol"), (24, "InvalidGroupId"),
  (25, "UnknownMemberId"), (26, "InvalidSessionTimeout"), (27, "RebalanceInProgress"), (28, "InvalidCommitOffsetSize"),
  (29, "TopicAuthorizationFailed"), (30, "GroupAuthorizationFailed"), (31, "ClusterAuthorizationFailed"),
  (32, "InvalidTimestamp"), (33, "UnsupportedSaslMechanism"), (34, "IllegalSaslState"), (35, "UnsupportedVersion")]

def documentedCodes : List Int := documented.map (·.1)

/-- specification: 0 is success; a documented code is reported as itself; every other value as unknown -/
def specKind (n : Int) : Option Int :=
  if n = 0 then none else if n ∈ documentedCodes then some n else some (-1)

/-- run-length table lookup -/
def lookup : List (Int × Int × Int) → Int → Option Int
  | [], _ => none
  | r :: rest, n => if r.1 ≤ n ∧ n ≤ r.2.1 then some r.2.2 else lookup rest n

def asKind (k : Int) : Option Int := if k = 0 then none else some k

/-- a run is consistent with the model's table (runs outside 0..35 are constant −1; inside, singletons) -/
def runOK (r : Int × Int × Int) : Bool :=
  decide (r.1 ≤ r.2.1) && ((decide (r.2.1 < 0 ∨ r.1 > 35) && r.2.2 == -1) || (r.1 == r.2.1 && kafkaCode r.1 == asKind r.2.2))

/-- consecutive runs leave no gap -/
def contiguous : List (Int × Int × Int) → Bool
  | [] => true
  | [_] => true
  | a :: b :: r => a.2.1 + 1 == b.1 && contiguous (b :: r)

theorem runOK_sound (r : Int × Int × Int) (h : runOK r = true) (n : Int) (h1 : r.1 ≤ n) (h2 : n ≤ r.2.1) :
    kafkaCode n = asKind r.2.2 := by
  unfold runOK at h
  simp only [Bool.and_eq_true, Bool.or_eq_true, decide_eq_true_eq, beq_iff_eq] at h
  obtain ⟨_, h | h⟩ := h
  · obtain ⟨hr, hk⟩ := h
    rw [hk]
    unfold kafkaCode asKind
    rcases hr with hr | hr
    · have : ¬ n = 0 := by omega
      have : ¬ (1 ≤ n ∧ n ≤ 35) := by omega
      simp [*]
    · have : ¬ n = 0 := by omega
      have : ¬ (1 ≤ n ∧ n ≤ 35) := by omega
      simp [*]
  · obtain ⟨he, hk⟩ := h
    have : n = r.1 := by omega
    rw [this]
    simpa using hk

theorem lookup_sound : ∀ (tbl : List (Int × Int × Int)), tbl.all runOK = true → ∀ n k, lookup tbl n = some k → kafkaCode n = asKind k := by
  intro tbl
  induction tbl with
  | nil => intro _ n k h; simp [lookup] at h
  | cons r rest ih =>
    intro hall n k hl
    simp only [List.all_cons, Bool.and_eq_true] at hall
    simp only [lookup] at hl
    split at hl
    · rename_i hin
      simp at hl
      rw [← hl]
      exact runOK_sound r hall.1 n hin.1 hin.2
    · exact ih hall.2 n k hl

theorem contiguous_covers : ∀ (tbl : List (Int × Int × Int)) (lo hi : Int), contiguous tbl = true →
    tbl.head?.map (·.1) = some lo → tbl.getLast?.map (·.2.1) = some hi →
    ∀ n, lo ≤ n → n ≤ hi → (lookup tbl n).isSome := by
  intro tbl
  induction tbl with
  | nil => intro lo hi _ h; simp at h
  | cons a rest ih =>
    intro lo hi hc hh hl n h1 h2
    simp at hh
    subst hh
    simp only [lookup]
    by_cases hin : n ≤ a.2.1
    · simp [h1, hin]
    · have hfalse : ¬ (a.1 ≤ n ∧ n ≤ a.2.1) := by omega
      simp only [hfalse, if_false]
      cases rest with
      | nil => simp at hl; omega
      | cons b r =>
        simp only [contiguous, Bool.and_eq_true, beq_iff_eq] at hc
        exact ih b.1 hi hc.2 (by simp) (by simpa using hl) n (by omega) h2

/-- **the implementation's table is the model's table**: for every i16 wire code, what the real crate reported
    (regenerated on this run) is `kafkaCode` -/
theorem C11_table_impl (n : Int) (h : inI 2 n) :
    ∃ k, lookup Generated.observedErrorTable n = some k ∧ kafkaCode n = asKind k := by
  have hall : Generated.observedErrorTable.all runOK = true := by decide
  have hcont : contiguous Generated.observedErrorTable = true := by decide
  have hcov := contiguous_covers Generated.observedErrorTable (-32768) 32767 hcont (by decide) (by decide) n
    (by unfold inI at h; simp at h; omega) (by unfold inI at h; simp at h; omega)
  obtain ⟨k, hk⟩ := Option.isSome_iff_exists.mp hcov
  exact ⟨k, hk, lookup_sound _ hall n k hk⟩

theorem mem_documented (n : Int) : n ∈ documentedCodes ↔ 1 ≤ n ∧ n ≤ 35 := by
  simp only [documentedCodes, documented, List.map, List.mem_cons, List.mem_nil_iff, or_false]
  omega

/-- **the model's table is the specification's**: 1..35 individually, anything else unknown, 0 success -/
theorem C11_table_spec (n : Int) : kafkaCode n = specKind n := by
  unfold kafkaCode specKind
  by_cases h0 : n = 0
  · simp [h0]
  · by_cases hr : 1 ≤ n ∧ n ≤ 35
    · simp [h0, hr, (mem_documented n).mpr hr]
    · have : ¬ n ∈ documentedCodes := fun h => hr ((mem_documented n).mp h)
      simp [h0, hr, this]

/-- never success: a non-zero code always maps to *some* error kind -/
theorem C11_nonzero_is_error (n : Int) (h : n ≠ 0) : (kafkaCode n).isSome := by
  unfold kafkaCode; simp [h]; split <;> simp

/-! ### per API -/

/-- produce: the confirmation of a partition with a non-zero code is `Err(kind)`, never an offset -/
theorem C11_produce (p : PartProduceResp) (h : p.err ≠ 0) :
    ∃ k, kafkaCode p.err = some k ∧ p.confirm.partition = p.partition ∧ p.confirm.offset = .error k := by
  obtain ⟨k, hk⟩ := Option.isSome_iff_exists.mp (C11_nonzero_is_error p.err h)
  exact ⟨k, hk, rfl, by simp [PartProduceResp.confirm, hk]⟩

theorem C11_produce_ok (p : PartProduceResp) (h : p.err = 0) : p.confirm.offset = .ok p.offset := by
  simp [PartProduceResp.confirm, kafkaCode, h]

/-- offsets / list offsets: the call fails naming the topic and the *first* failing partition in response order,
    wherever it stands among healthy ones -/
theorem C11_offsets {α} (res : List (Bytes × List α)) (t : Bytes) (pre : List α) (p code : Int)
    (post : List (Except (Int × Int) α)) :
    mergeOffsets res t (pre.map Except.ok ++ [.error (p, code)] ++ post) = .error (.tpe t p code) := by
  unfold mergeOffsets
  have : ∀ acc, mergeOffsets.collect (pre.map Except.ok ++ [Except.error (p, code)] ++ post) acc = .error (p, code) := by
    induction pre with
    | nil => intro acc; simp [mergeOffsets.collect]
    | cons x xs ih =>
      intro acc
      simp only [List.map_cons, List.cons_append, mergeOffsets.collect]
      exact ih _
  rw [this]

theorem C11_offset_partition (p : PartOffsetResp) (h : p.err ≠ 0) : ∃ k, kafkaCode p.err = some k ∧ p.toOffset = .error k := by
  obtain ⟨k, hk⟩ := Option.isSome_iff_exists.mp (C11_nonzero_is_error p.err h)
  exact ⟨k, hk, by simp [PartOffsetResp.toOffset, hk]⟩

theorem C11_list_offset_partition (p : PartListOffsetResp) (h : p.err ≠ 0) : ∃ k, kafkaCode p.err = some k ∧ p.toOffset = .error k := by
  obtain ⟨k, hk⟩ := Option.isSome_iff_exists.mp (C11_nonzero_is_error p.err h)
  exact ⟨k, hk, by simp [PartListOffsetResp.toOffset, hk]⟩

/-- group offset fetch: every non-zero code except 3 (how v0 says "nothing committed") is an error -/
theorem C11_group_fetch (p : PartOffsetFetchResp) (h : p.err ≠ 0) (h3 : kafkaCode p.err ≠ some 3) :
    ∃ k, kafkaCode p.err = some k ∧ p.getOffsets = .error (.kafka k) := by
  obtain ⟨k, hk⟩ := Option.isSome_iff_exists.mp (C11_nonzero_is_error p.err h)
  refine ⟨k, hk, ?_⟩
  unfold PartOffsetFetchResp.getOffsets
  rw [hk] at h3 ⊢
  split
  · rename_i heq; simp at heq; subst heq; simp at h3
  · rename_i c heq; simp at heq; subst heq; rfl
  · rename_i heq; simp at heq

/-- commit: the first non-zero code in response order decides; codes other than 14 / 16 fail the call at once -/
theorem C11_commit_scan (pre : List (Bytes × List (Int × Int))) (t : Bytes) (ps0 : List (Int × Int)) (p e : Int)
    (ps1 : List (Int × Int)) (post : List (Bytes × List (Int × Int)))
    (hpre : ∀ x ∈ pre, ∀ q ∈ x.2, q.2 = 0) (h0 : ∀ q ∈ ps0, q.2 = 0) (he : e ≠ 0) :
    commitScan (pre ++ [(t, ps0 ++ [(p, e)] ++ ps1)] ++ post) = kafkaCode e := by
  have hz : ∀ (qs : List (Int × Int)), (∀ q ∈ qs, q.2 = 0) → qs.findSome? (fun x => kafkaCode x.2) = none := by
    intro qs hq
    induction qs with
    | nil => rfl
    | cons q qs ih =>
      simp only [List.findSome?]
      have : kafkaCode q.2 = none := by rw [hq q (by simp)]; rfl
      rw [this]
      exact ih (fun x hx => hq x (by simp [hx]))
  induction pre with
  | nil =>
    simp only [List.nil_append, List.cons_append, commitScan]
    obtain ⟨k, hk⟩ := Option.isSome_iff_exists.mp (C11_nonzero_is_error e he)
    have : (ps0 ++ [(p, e)] ++ ps1).findSome? (fun x => kafkaCode x.2) = some k := by
      rw [List.append_assoc, List.findSome?_append, hz ps0 h0]
      simp [List.findSome?, hk]
    simp only [this, hk]
  | cons x xs ih =>
    obtain ⟨tx, px⟩ := x
    simp only [List.cons_append, commitScan]
    rw [hz px (hpre (tx, px) (by simp))]
    exact ih (fun y hy => hpre y (by simp [hy]))

/-- every topic and partition of the responses is one the consumer asked for (what a conforming broker sends) -/
def Requested (c : Consumer) (resps : List FetchResponse) : Prop :=
  ∀ t ∈ (resps.flatMap fun r => r.topics), ∃ tr, topicRef c.assignments t.topic = some tr ∧
    ∀ p ∈ t.partitions, (assocGet c.fetchOffsets (⟨tr, p.partition⟩ : TP)).isSome = true

theorem preScan_requested (c : Consumer) : ∀ (ts : List FetchTopic),
    (∀ t ∈ ts, ∃ tr, topicRef c.assignments t.topic = some tr ∧
      ∀ p ∈ t.partitions, (assocGet c.fetchOffsets (⟨tr, p.partition⟩ : TP)).isSome = true) →
    ts.findSome? (preScanTopic c) =
      ((ts.flatMap fun t => t.partitions).findSome? partErr).map Err.kafka := by
  intro ts
  induction ts with
  | nil => intro _; rfl
  | cons t r ih =>
    intro h
    obtain ⟨tr, htr, hps⟩ := h t (by simp)
    have hrest := ih (fun t' ht' => h t' (by simp [ht']))
    simp only [List.findSome?_cons, List.flatMap_cons, List.findSome?_append]
    have ht : preScanTopic c t = (t.partitions.findSome? partErr).map Err.kafka := by
      unfold preScanTopic
      simp only [htr]
      generalize t.partitions = ps at hps
      induction ps with
      | nil => rfl
      | cons p ps ihp =>
        simp only [List.findSome?_cons]
        cases hd : p.data with
        | error k => simp [partErr, hd]
        | ok v =>
          simp only [hps p (by simp), if_true, partErr, hd]
          exact ihp (fun q hq => hps q (by simp [hq]))
    rw [ht, hrest]
    cases t.partitions.findSome? partErr with
    | some k => simp
    | none => simp

/-- fetch / poll: the first partition error in response order fails the poll; nothing of that response is delivered -/
theorem C11_poll (resps : List FetchResponse) (c : Int) (h : firstError resps = some c) {σ : Type} (w : WC σ) (n : Nat)
    (hreq : Requested w.cons resps) :
    (processResponses n resps w).2 = .err (.kafka c) ∧ (processResponses n resps w).1 = w := by
  have hp : preScan w.cons resps = some (.kafka c) := by
    unfold preScan
    rw [preScan_requested w.cons _ hreq]
    unfold firstError at h
    have : (resps.flatMap fun r => r.topics.flatMap fun t => t.partitions) = ((resps.flatMap fun r => r.topics).flatMap fun t => t.partitions) := by
      rw [List.flatMap_assoc]
    rw [this] at h
    rw [h]
    rfl
  unfold processResponses
  simp [hp]

/-- a partition that carried an error code exposes no messages, whatever data came with it -/
theorem C11_fetch_no_data (p : FetchPartition) (c : Int) (h : p.data = .error c) (t : Bytes) :
    iterate [⟨0, [⟨t, [p]⟩]⟩] = [] := by
  simp [iterate, h]

/-- coordinator look-up: every non-zero code except the retryable 15 is returned as the error -/
theorem C11_producer_send (pc : PartConfirm) (k : Int) (h : pc.offset = .error k) :
    (match pc.offset with | .ok _ => (none : Option Err) | .error code => some (.kafka code)) = some (.kafka k) := by
  rw [h]

/-! ### non-vacuity -/
example : lookup Generated.observedErrorTable 14 = some 14 := by decide
example : lookup Generated.observedErrorTable (-32768) = some (-1) := by decide
example : lookup Generated.observedErrorTable 36 = some (-1) := by decide

end Kafka.Props.C11
