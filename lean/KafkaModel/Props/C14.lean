import KafkaModel.Model.Client
/-!
  C14 — Retryable group errors are retried at most the configured number of times.
  `commitLoop`, `fetchGroupLoop` and the coordinator look-up are, by definition, `retrying max step`:
  the theorems characterise that policy for *every* sequence of attempt outcomes and every limit.
-/
namespace Kafka.Props.C14
open Kafka Kafka.Model

/-- an answer script: the verdict of each successive attempt -/
abbrev Script (α : Type) := List (Verdict α)

/-- an attempt that reads its verdict from the script (running dry counts as a fatal answer) -/
def scripted {α} : M (Script α) (Verdict α) := fun s =>
  match s with
  | v :: rest => (rest, .ok v)
  | [] => ([], .ok (.fail .io))

/-- specification of the policy on a script: walk while answers are retryable, at most `max 1 N` attempts;
    returns the unconsumed rest of the script and the result -/
def specRun {α} (N : Nat) : Nat → Script α → Script α × Outcome α
  | _, [] => ([], .err .io)
  | _, .done a :: rest => (rest, .ok a)
  | _, .fail e :: rest => (rest, .err e)
  | attempt, .retry c :: rest => if attempt < N then specRun N (attempt + 1) rest else (rest, .err (.kafka c))

theorem retrying_spec {α} (N : Nat) : ∀ (vs : Script α) (fuel attempt : Nat), 1 ≤ fuel → N + 1 ≤ fuel + attempt →
    retrying N scripted fuel attempt vs = specRun N attempt vs := by
  intro vs
  induction vs with
  | nil =>
    intro fuel attempt h1 _
    cases fuel with
    | zero => omega
    | succ f => simp [retrying, scripted, specRun]
  | cons v rest ih =>
    intro fuel attempt h1 h
    cases fuel with
    | zero => omega
    | succ f =>
      cases v with
      | done a => simp [retrying, scripted, specRun]
      | fail e => simp [retrying, scripted, specRun]
      | retry c =>
        simp only [retrying, scripted, specRun]
        by_cases hlt : attempt < N
        · simp only [hlt, if_true]
          exact ih f (attempt + 1) (by omega) (by omega)
        · simp [hlt]

/-- the three group operations start the policy with fuel `N+1` at attempt 1: it always reaches a verdict -/
theorem C14_policy {α} (N : Nat) (vs : Script α) : retrying N scripted (N + 1) 1 vs = specRun N 1 vs :=
  retrying_spec N vs (N + 1) 1 (by omega) (by omega)

/-- number of attempts the specification makes -/
def attempts {α} (N : Nat) : Nat → Script α → Nat
  | _, [] => 1
  | _, .done _ :: _ => 1
  | _, .fail _ :: _ => 1
  | attempt, .retry _ :: rest => if attempt < N then 1 + attempts N (attempt + 1) rest else 1

/-- exactly `attempts` answers are consumed … -/
theorem specRun_consumed {α} (N : Nat) : ∀ (vs : Script α) (attempt : Nat), attempts N attempt vs ≤ vs.length →
    (specRun N attempt vs).1 = vs.drop (attempts N attempt vs) := by
  intro vs
  induction vs with
  | nil => intro a h; simp [attempts] at h
  | cons v rest ih =>
    intro a h
    cases v with
    | done x => simp [specRun, attempts]
    | fail e => simp [specRun, attempts]
    | retry c =>
      simp only [specRun, attempts] at h ⊢
      by_cases hlt : a < N
      · simp only [hlt, if_true] at h ⊢
        rw [ih (a + 1) (by simp at h; omega)]
        rw [Nat.add_comm 1, List.drop_succ_cons]
      · simp [hlt]

/-- … and never more than the configured limit (at least one) -/
theorem C14_bound {α} (N : Nat) : ∀ (vs : Script α) (attempt : Nat), 1 ≤ attempt →
    attempts N attempt vs + attempt ≤ max N attempt + 1 := by
  intro vs
  induction vs with
  | nil => intro a _; simp [attempts]; omega
  | cons v rest ih =>
    intro a h1
    cases v with
    | done x => simp [attempts]; omega
    | fail e => simp [attempts]; omega
    | retry c =>
      simp only [attempts]
      by_cases hlt : a < N
      · simp only [hlt, if_true]
        have := ih (a + 1) (by omega)
        omega
      · simp [hlt]; omega

theorem C14_at_most_N {α} (N : Nat) (vs : Script α) : attempts N 1 vs ≤ max 1 N := by
  have := C14_bound N vs 1 (by omega)
  omega

/-- a success on any attempt within the limit yields success -/
theorem C14_success_within_limit {α} (N : Nat) (pre : List Int) (a : α) (rest : Script α) (h : pre.length < max 1 N) :
    (specRun N 1 (pre.map Verdict.retry ++ [.done a] ++ rest)).2 = .ok a := by
  have key : ∀ (pre : List Int) (attempt : Nat), attempt + pre.length ≤ max 1 N → 1 ≤ attempt →
      (specRun N attempt (pre.map Verdict.retry ++ [.done a] ++ rest)).2 = .ok a := by
    intro pre
    induction pre with
    | nil => intro k _ _; simp [specRun]
    | cons c cs ih =>
      intro k hle h1
      simp only [List.map_cons, List.cons_append, specRun]
      have : k < N := by simp at hle; omega
      simp only [this, if_true]
      exact ih (k + 1) (by simp at hle ⊢; omega) (by omega)
  exact key pre 1 (by omega) (by omega)

/-- the first non-retryable answer decides -/
theorem C14_first_other_answer {α} (N : Nat) (pre : List Int) (e : Err) (rest : Script α) (h : pre.length < max 1 N) :
    (specRun N 1 (pre.map Verdict.retry ++ [.fail e] ++ rest)).2 = .err e := by
  have key : ∀ (pre : List Int) (attempt : Nat), attempt + pre.length ≤ max 1 N → 1 ≤ attempt →
      (specRun N attempt (pre.map Verdict.retry ++ [Verdict.fail e] ++ rest)).2 = .err e := by
    intro pre
    induction pre with
    | nil => intro k _ _; simp [specRun]
    | cons c cs ih =>
      intro k hle h1
      simp only [List.map_cons, List.cons_append, specRun]
      have : k < N := by simp at hle; omega
      simp only [this, if_true]
      exact ih (k + 1) (by simp at hle ⊢; omega) (by omega)
  exact key pre 1 (by omega) (by omega)

/-- when every answer within the limit is retryable the call returns the *last* retryable code as its error -/
theorem C14_exhausted {α} (N : Nat) (codes : List Int) (last : Int) (rest : Script α) (h : codes.length + 1 = max 1 N) :
    (specRun N 1 (codes.map Verdict.retry ++ [.retry last] ++ rest)).2 = .err (.kafka last) := by
  have key : ∀ (codes : List Int) (attempt : Nat), attempt + codes.length = max 1 N → 1 ≤ attempt →
      (specRun N attempt (codes.map Verdict.retry ++ [Verdict.retry last] ++ rest)).2 = .err (.kafka last) := by
    intro codes
    induction codes with
    | nil =>
      intro k hle h1
      have : ¬ k < N := by simp at hle; omega
      simp [specRun, this]
    | cons c cs ih =>
      intro k hle h1
      simp only [List.map_cons, List.cons_append, specRun]
      have : k < N := by simp at hle; omega
      simp only [this, if_true]
      exact ih (k + 1) (by simp at hle ⊢; omega) (by omega)
  exact key codes 1 (by omega) (by omega)

/-- the policy itself never hangs: with the fuel the operations give it, `diverge` can only come from an attempt -/
theorem C14_terminates {α} (N : Nat) (vs : Script α) : ∀ s, retrying N scripted (N + 1) 1 vs ≠ (s, .diverge) := by
  intro s
  rw [C14_policy]
  have : ∀ (vs : Script α) (a : Nat) s, specRun N a vs ≠ (s, .diverge) := by
    intro vs
    induction vs with
    | nil => intro a s h; simp [specRun] at h
    | cons v rest ih =>
      intro a s
      cases v with
      | done x => intro h; simp [specRun] at h
      | fail e => intro h; simp [specRun] at h
      | retry c =>
        simp only [specRun]
        by_cases hlt : a < N
        · simp only [hlt, if_true]; exact ih (a + 1) s
        · intro h; simp [hlt] at h
  exact this vs 1 s

/-- the operations *are* this policy -/
theorem C14_commit_is_policy {σ} (env : Env σ) (req : OffsetCommitRequest) (N : Nat) :
    commitLoop env req N = retrying N (commitStep env req) (N + 1) 1 := rfl

theorem C14_group_fetch_is_policy {σ} (env : Env σ) (req : OffsetFetchRequest) (N : Nat) :
    fetchGroupLoop env req N = retrying N (fetchGroupStep env req) (N + 1) 1 := rfl

/-- 'not coordinator for group' forgets the cached coordinator, so the next attempt looks it up again … -/
theorem C14_relookup (coords : List (Bytes × Nat)) (g : Bytes) : assocGet (assocErase coords g) g = none := by
  induction coords with
  | nil => rfl
  | cons x xs ih =>
    obtain ⟨k, v⟩ := x
    by_cases h : k = g
    · simp only [assocErase, List.filter, h, ne_eq, not_true_eq_false, decide_false] at ih ⊢
      exact ih
    · simp only [assocErase, List.filter, h, ne_eq, not_false_eq_true, decide_true, assocGet, List.find?, decide_false] at ih ⊢
      exact ih

/-- … and with nothing cached the coordinator is not answered from the cache -/
theorem C14_no_cache (st : ClientState) (g : Bytes) (h : assocGet st.coords g = none) : st.groupCoordinator g = none := by
  simp [ClientState.groupCoordinator, h]

/-! ### non-vacuity: scripts over the answers of the property -/
example : (specRun 3 1 ([.retry 14, .retry 16, .done ()] : Script Unit)).2 = .ok () := by simp [specRun]
example : (specRun 2 1 ([.retry 14, .retry 16, .done ()] : Script Unit)).2 = .err (.kafka 16) := by simp [specRun]
example : (specRun 0 1 ([.retry 15, .done ()] : Script Unit)).2 = .err (.kafka 15) := by simp [specRun]
example : attempts 5 1 ([.retry 14, .retry 14, .retry 14, .retry 14, .retry 14, .retry 14, .done ()] : Script Unit) = 5 := by decide

/-! ### every attempt function: failed exchanges, panics and all -/

/-- any attempt - whatever it does: answers, failed exchanges, panics - with its invocations counted -/
def counted {ς α} (step : M ς (Verdict α)) : M (ς × Nat) (Verdict α) := fun sn =>
  match step sn.1 with
  | (s', r) => ((s', sn.2 + 1), r)

/-- **at most `max 1 N` attempts, for every attempt function**: however the attempts end (retryable or final answers,
    failed exchanges, panics), the loop invokes the attempt at most `max 1 (N + 1 - attempt)` more times -/
theorem C14_attempts_any_step {ς α} (N : Nat) (step : M ς (Verdict α)) : ∀ (fuel attempt : Nat) (s : ς) (n : Nat),
    (retrying N (counted step) fuel attempt (s, n)).1.2 ≤ n + max 1 (N + 1 - attempt) := by
  intro fuel
  induction fuel with
  | zero => intro attempt s n; simp [retrying, M.diverge]
  | succ fuel ih =>
    intro attempt s n
    simp only [retrying, counted]
    rcases hstep : step s with ⟨s', r⟩
    cases r with
    | ok v =>
      cases v with
      | done a => simp only []; omega
      | fail e => simp only []; omega
      | retry c =>
        simp only []
        split
        · rename_i hlt
          have := ih (attempt + 1) s' (n + 1)
          omega
        · simp only []; omega
    | err e => simp only []; omega
    | panic p => simp only []; omega
    | diverge => simp only []; omega

/-- a failed exchange (or any failure of the attempt itself) is final: no further attempt, whatever the limit -/
theorem C14_failed_attempt_final {ς α} (N : Nat) (step : M ς (Verdict α)) (fuel attempt : Nat) (s s' : ς) (e : Err)
    (h : step s = (s', .err e)) : retrying N step (fuel + 1) attempt s = (s', .err e) := by
  simp [retrying, h]

/-- … counted: exactly one invocation -/
theorem C14_failed_attempt_once {ς α} (N : Nat) (step : M ς (Verdict α)) (fuel attempt : Nat) (s s' : ς) (n : Nat) (e : Err)
    (h : step s = (s', .err e)) : retrying N (counted step) (fuel + 1) attempt (s, n) = ((s', n + 1), .err e) := by
  simp [retrying, counted, h]

end Kafka.Props.C14
