import KafkaModel.Model.Producer
/-!
  C12 — Default partitioner: explicit kept, keyed = XXH32(key) mod N, keyless rotates.
  Theorems about `Model.partition` / `Model.partitionAll` (the mirror of
  `DefaultPartitioner::partition` and of the partitioner pass of `Producer::send_all`).
-/
namespace Kafka.Props.C12
open Kafka Kafka.Model

/-- an explicit partition is kept, whatever the state, key, topic or metadata -/
theorem C12_explicit (cntr : Nat) (topics : List (Bytes × Partitions)) (t : Bytes) (p : Int) (key : Option Bytes)
    (h : p ≥ 0) : partition cntr topics t p key = (p, cntr) := by
  simp [partition, h]

/-- keyed, unassigned: XXH32(key, seed 0) mod the topic's *total* partition count —
    no dependence on the counter (send history) or on which partitions are available -/
theorem C12_keyed (cntr : Nat) (topics : List (Bytes × Partitions)) (t : Bytes) (p : Int) (k : Bytes) (ps : Partitions)
    (hp : p < 0) (ht : assocGet topics t = some ps) (hn : ps.numAll ≠ 0) :
    partition cntr topics t p (some k) = (wrapI 4 ((Xxh.xxh32 0 k).toNat % ps.numAll), cntr) := by
  have : ¬ p ≥ 0 := by omega
  simp [partition, this, ht, hn]

/-- for partition counts a broker can express (< 2³¹) the wrapped value is the plain remainder -/
theorem wrapI_small (n : Nat) (h : n < 2147483648) : wrapI 4 (n : Int) = (n : Int) := by
  unfold wrapI toU toS
  have h1 : ((n : Int) % ((2 ^ (8 * 4) : Nat) : Int)).toNat = n := by
    have : (n : Int) % ((2 ^ (8 * 4) : Nat) : Int) = (n : Int) := by
      apply Int.emod_eq_of_lt <;> simp <;> omega
    rw [this]; simp
  rw [h1]
  have : n < 2 ^ (8 * 4 - 1) := by simpa using h
  simp [this]

theorem C12_keyed_value (cntr : Nat) (topics : List (Bytes × Partitions)) (t : Bytes) (p : Int) (k : Bytes) (ps : Partitions)
    (hp : p < 0) (ht : assocGet topics t = some ps) (hn : ps.numAll ≠ 0) (hN : ps.numAll ≤ 2147483648) :
    (partition cntr topics t p (some k)).1 = (((Xxh.xxh32 0 k).toNat % ps.numAll : Nat) : Int) := by
  rw [C12_keyed cntr topics t p k ps hp ht hn]
  have : (Xxh.xxh32 0 k).toNat % ps.numAll < 2147483648 := by
    have := Nat.mod_lt (Xxh.xxh32 0 k).toNat (Nat.pos_of_ne_zero hn)
    omega
  simpa using wrapI_small _ this

/-- the keyed result is the same for any two counters and any two availability lists -/
theorem C12_keyed_pure (c1 c2 : Nat) (t : Bytes) (p : Int) (k : Bytes) (a1 a2 : List Int) (n : Nat)
    (rest1 rest2 : List (Bytes × Partitions)) (hp : p < 0) :
    (partition c1 ((t, ⟨a1, n⟩) :: rest1) t p (some k)).1 = (partition c2 ((t, ⟨a2, n⟩) :: rest2) t p (some k)).1 := by
  have : ¬ p ≥ 0 := by omega
  simp [partition, this, assocGet]
  split <;> rfl

/-- keyless, unassigned: a partition that has a leader in the producer's metadata -/
theorem C12_keyless_available (cntr : Nat) (topics : List (Bytes × Partitions)) (t : Bytes) (p : Int) (ps : Partitions)
    (hp : p < 0) (ht : assocGet topics t = some ps) (ha : ps.available ≠ []) :
    (partition cntr topics t p none).1 ∈ ps.available ∧ (partition cntr topics t p none).2 = (cntr + 1) % 4294967296 := by
  have h0 : ¬ p ≥ 0 := by omega
  have hlen : 0 < ps.available.length := List.length_pos_iff.mpr ha
  have hlt : cntr % ps.available.length < ps.available.length := Nat.mod_lt _ hlen
  simp [partition, h0, ht, ha]
  rw [List.getElem?_eq_getElem hlt]
  exact List.getElem_mem hlt

/-- unknown topic, no partitions at all, or nothing available: the record stays unassigned (negative),
    which `internal_produce_messages` then rejects as unknown-topic-or-partition -/
theorem C12_unknown (cntr : Nat) (topics : List (Bytes × Partitions)) (t : Bytes) (p : Int) (key : Option Bytes)
    (hp : p < 0) (ht : assocGet topics t = none) : partition cntr topics t p key = (p, cntr) := by
  have : ¬ p ≥ 0 := by omega
  simp [partition, this, ht]

theorem C12_nothing_available (cntr : Nat) (topics : List (Bytes × Partitions)) (t : Bytes) (p : Int) (n : Nat)
    (hp : p < 0) (ht : assocGet topics t = some ⟨[], n⟩) : partition cntr topics t p none = (p, cntr) := by
  have : ¬ p ≥ 0 := by omega
  simp [partition, this, ht]

theorem C12_no_partitions (cntr : Nat) (topics : List (Bytes × Partitions)) (t : Bytes) (p : Int) (k : Bytes) (a : List Int)
    (hp : p < 0) (ht : assocGet topics t = some ⟨a, 0⟩) : partition cntr topics t p (some k) = (p, cntr) := by
  have : ¬ p ≥ 0 := by omega
  simp [partition, this, ht]

/-- a negative partition with a findBroker that only accepts 0 ≤ p: rejected -/
theorem C12_unassigned_rejected (st : ClientState) (t : Bytes) (p : Int) (hp : p < 0) : st.findBroker t p = none := by
  unfold ClientState.findBroker partIdx
  split <;> simp [hp]

/-- the producer treats an empty key / value as absent -/
theorem C12_empty_absent : toOption [] = none := rfl
theorem C12_nonempty_present (b : UInt8) (bs : Bytes) : toOption (b :: bs) = some (b :: bs) := rfl

/-! ### rotation -/

/-- `k` keyless, unassigned records for topic `t` -/
def keylessRecs (t : Bytes) (vals : List Bytes) : List Record := vals.map fun v => ⟨t, -1, [], v⟩

theorem partitionAll_keyless (topics : List (Bytes × Partitions)) (t : Bytes) (ps : Partitions)
    (ht : assocGet topics t = some ps) (ha : ps.available ≠ []) :
    ∀ (vals : List Bytes) (cntr : Nat), cntr + vals.length ≤ 4294967296 →
      (partitionAll topics cntr (keylessRecs t vals)).1.map (·.partition) =
        (List.range vals.length).map fun i => ps.available[(cntr + i) % ps.available.length]! := by
  intro vals
  induction vals with
  | nil => intro cntr _; simp [keylessRecs, partitionAll]
  | cons v vs ih =>
    intro cntr hc
    have hc' : cntr + 1 + vs.length ≤ 4294967296 := by simp at hc; omega
    have hlt : cntr + 1 < 4294967296 ∨ vs.length = 0 := by simp at hc; omega
    simp only [keylessRecs, List.map_cons, partitionAll, toOption]
    have hpart : partition cntr topics t (-1) none =
        (ps.available[cntr % ps.available.length]!, (cntr + 1) % 4294967296) := by
      simp [partition, ht, ha]
    simp only [List.isEmpty_nil, if_true, hpart]
    rcases hlt with hlt | hz
    · have : (cntr + 1) % 4294967296 = cntr + 1 := Nat.mod_eq_of_lt hlt
      rw [this]
      have ih' := ih (cntr + 1) hc'
      simp only [keylessRecs] at ih'
      have hf : ∀ i, ps.available[(cntr + 1 + i) % ps.available.length]! =
          ps.available[(cntr + (i + 1)) % ps.available.length]! := by
        intro i; congr 2; omega
      simp only [List.length_cons]
      rw [ih', List.range_succ_eq_map]
      simp [hf]
    · have : vs = [] := List.eq_nil_of_length_eq_zero hz
      subst this
      simp [partitionAll]

theorem mod_inj_of_lt (n c i j : Nat) (hi : i < n) (hj : j < n) (h : (c + i) % n = (c + j) % n) : i = j := by
  rcases Nat.lt_or_ge i j with hlt | hge
  · have h1 := Nat.sub_mod_eq_zero_of_mod_eq h.symm
    have : c + j - (c + i) = j - i := by omega
    rw [this] at h1
    have : j - i < n := by omega
    have := Nat.mod_eq_of_lt this
    omega
  · have h1 := Nat.sub_mod_eq_zero_of_mod_eq h
    have : c + i - (c + j) = i - j := by omega
    rw [this] at h1
    have : i - j < n := by omega
    have := Nat.mod_eq_of_lt this
    omega

/-- **rotation**: consecutive keyless records for one topic — from any counter value reached by any
    preceding history, as long as the 32-bit counter does not wrap inside the run — visit pairwise
    distinct available partitions, i.e. every one of them before any repeats -/
theorem C12_rotation (topics : List (Bytes × Partitions)) (t : Bytes) (ps : Partitions)
    (ht : assocGet topics t = some ps) (hnd : ps.available.Nodup)
    (vals : List Bytes) (cntr : Nat) (hk : vals.length ≤ ps.available.length) (hw : cntr + vals.length ≤ 4294967296) :
    ((partitionAll topics cntr (keylessRecs t vals)).1.map (·.partition)).Nodup := by
  by_cases ha : ps.available = []
  · have : vals = [] := by
      simpa [ha] using hk
    subst this; simp [keylessRecs, partitionAll]
  rw [partitionAll_keyless topics t ps ht ha vals cntr hw]
  have hn : 0 < ps.available.length := List.length_pos_iff.mpr ha
  rw [List.nodup_iff_pairwise_ne, List.pairwise_map]
  apply List.Pairwise.imp_of_mem (R := fun a b => a ≠ b)
  · intro i j hi hj hne heq
    have hi' : i < ps.available.length := by have := List.mem_range.mp hi; omega
    have hj' : j < ps.available.length := by have := List.mem_range.mp hj; omega
    have h1 : (cntr + i) % ps.available.length < ps.available.length := Nat.mod_lt _ hn
    have h2 : (cntr + j) % ps.available.length < ps.available.length := Nat.mod_lt _ hn
    rw [getElem!_pos ps.available _ h1, getElem!_pos ps.available _ h2] at heq
    have := (List.getElem_inj hnd).mp heq
    exact hne (mod_inj_of_lt _ cntr i j hi' hj' this)
  · exact List.nodup_iff_pairwise_ne.mp List.nodup_range

/-- the counter is shared and 32 bits wide: at the wrap, with 3 available partitions, two successive
    keyless records get the same partition (2³² is not a multiple of 3).  Reachable only after 2³²−1
    keyless sends; see DESIGN.md (finding D21). -/
theorem C12_wrap_counterexample :
    let topics := [(([116] : Bytes), (⟨[0, 1, 2], 3⟩ : Partitions))]
    ((partitionAll topics 4294967295 (keylessRecs [116] [[1], [2]])).1.map (·.partition)) = [0, 0] := by
  decide

/-! ### non-vacuity: a concrete multi-topic state meets the hypotheses -/
example : assocGet [(([116] : Bytes), (⟨[0, 2], 3⟩ : Partitions)), ([117], ⟨[], 1⟩)] [116] = some ⟨[0, 2], 3⟩ := by decide
example : (partition 5 [(([116] : Bytes), (⟨[0, 2], 3⟩ : Partitions))] [116] (-1) none) = (2, 6) := by decide
example : ((partitionAll [(([116] : Bytes), (⟨[0, 2, 4], 5⟩ : Partitions))] 7 (keylessRecs [116] [[1], [2], [3]])).1.map (·.partition)) = [2, 4, 0] := by decide

end Kafka.Props.C12
