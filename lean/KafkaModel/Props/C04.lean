import KafkaModel.Lemmas.Crc
import KafkaModel.Props.C02
/-!
  C04 — With CRC validation on, corrupted messages are rejected, never delivered.
  (T1) the decoder consults the checksum of every entry it reaches — top level, wrapper, inner — before any field;
  (T2) what CRC-32/ISO-HDLC is guaranteed to detect (proved for messages of any length): every change confined to
       the checksum field, every change confined to one covered byte (all single-bit flips, all bursts within a byte).
-/
namespace Kafka.Props.C04
open Kafka Kafka.Spec Kafka.Model

/-- an entry as it lies on the wire: offset, size, a 4-byte checksum field and the covered body -/
def rawEntry (off : Int) (field body : Bytes) : Bytes := eI64 off ++ eI32 (4 + (body.length : Int)) ++ field ++ body

theorem zI4_field (field body : Bytes) (h : field.length = 4) : zI 4 (field ++ body) = .ok (decI field, body) := by
  unfold zI readI
  have := readN_append field body
  rw [h] at this
  rw [this]

/-- **reject**: with validation on, a message whose checksum field does not match the covered bytes is the
    corrupt-message error — decided before magic, attributes, key or value are looked at -/
theorem C04_reject_message (field body : Bytes) (hf : field.length = 4)
    (hbad : wrapI 4 ((crc32 body).toNat : Int) ≠ decI field) :
    protoMsg true (field ++ body) = .error (.kafka 2) := by
  unfold protoMsg
  simp only [bind, Except.bind, zI4_field field body hf]
  simp [hbad]

/-- **validation off**: the checksum field alone never matters — any two fields give the same result -/
theorem C04_off (f1 f2 body : Bytes) (h1 : f1.length = 4) (h2 : f2.length = 4) :
    protoMsg false (f1 ++ body) = protoMsg false (f2 ++ body) := by
  unfold protoMsg
  simp only [bind, Except.bind, zI4_field f1 body h1, zI4_field f2 body h2]
  simp

/-- the entry reader passes the verdict up: a reached entry with a wrong checksum fails `next_message` -/
theorem C04_reject_entry (off : Int) (field body rest : Bytes) (ho : inI 8 off) (hf : field.length = 4)
    (hsz : 4 + body.length ≤ 2147483647) (hbad : wrapI 4 ((crc32 body).toNat : Int) ≠ decI field) :
    nextMessage true (rawEntry off field body ++ rest) = .error (.kafka 2) := by
  unfold nextMessage rawEntry
  simp only [eI64, eI32, List.append_assoc, bind, Except.bind]
  rw [zI_append 8 (by decide) _ ho]
  simp only []
  unfold zBytes
  simp only [bind, Except.bind]
  have hlen : inI 4 ((4 : Int) + (body.length : Int)) := by unfold inI; simp; omega
  rw [zI_append 4 (by decide) _ hlen]
  simp only []
  have hpos : ¬ ((4 : Int) + (body.length : Int) ≤ 0) := by omega
  simp only [hpos, if_false]
  have hN : ((4 : Int) + (body.length : Int)).toNat = (field ++ body).length := by simp [hf]; omega
  rw [hN, ← List.append_assoc field, zRead_append]
  simp only []
  rw [C04_reject_message field body hf hbad]

/-- **the fetch fails**: a corrupt entry reached by the decoder — after any number of intact plain messages — makes
    decoding return the corrupt-message error; nothing is delivered -/
theorem C04_reject_set (cx : Codecs) (debug : Bool) (depth : Nat) (req : Int)
    (off : Int) (field body rest : Bytes) (ho : inI 8 off) (hf : field.length = 4)
    (hsz : 4 + body.length ≤ 2147483647) (hbad : wrapI 4 ((crc32 body).toNat : Int) ≠ decI field) :
    ∀ (pre : List Msg) (fuel : Nat) (acc : List Message), (∀ m ∈ pre, msgOK m ∧ C02.isPlain m) → pre.length < fuel →
      fromSlice cx debug depth fuel (encMsgs pre ++ (rawEntry off field body ++ rest)) req true acc = .err (.kafka 2) := by
  intro pre
  induction pre with
  | nil =>
    intro fuel acc _ hfuel
    cases fuel with
    | zero => omega
    | succ f =>
      rw [fromSlice]
      have hne : (encMsgs [] ++ (rawEntry off field body ++ rest)).isEmpty = false := by
        simp [encMsgs, rawEntry, eI64]
        intro h; have := congrArg List.length h; simp at this
      simp only [hne, Bool.false_eq_true, if_false]
      simp only [encMsgs, List.flatMap_nil, List.nil_append]
      rw [C04_reject_entry off field body rest ho hf hsz hbad]
  | cons m r ih =>
    intro fuel acc hok hfuel
    obtain ⟨hm, hp⟩ := hok m (by simp)
    cases fuel with
    | zero => omega
    | succ f =>
      have henc : encMsgs (m :: r) ++ (rawEntry off field body ++ rest) = encMsg m ++ (encMsgs r ++ (rawEntry off field body ++ rest)) := by
        simp [encMsgs]
      rw [henc, fromSlice]
      have hne : (encMsg m ++ (encMsgs r ++ (rawEntry off field body ++ rest))).isEmpty = false := by
        have := C02.encMsg_len_pos m
        cases hh : encMsg m with
        | nil => simp [hh] at this
        | cons a b => simp
      simp only [hne, Bool.false_eq_true, if_false]
      rw [nextMessage_enc m hm true]
      simp only [ne_eq, not_true_eq_false, and_false, if_false]
      unfold C02.isPlain at hp
      simp only [hp, if_true]
      exact ih f _ (fun x hx => hok x (by simp [hx])) (by simp at hfuel; omega)

theorem count_le_bytes (pre : List Msg) : pre.length ≤ (encMsgs pre).length := by
  induction pre with
  | nil => simp
  | cons m r ih =>
    have h12 := C02.encMsg_len_pos m
    have : (encMsgs (m :: r)).length = (encMsg m).length + (encMsgs r).length := by simp [encMsgs]
    rw [this]; simp only [List.length_cons]; omega

/-- **inside a wrapper whose own checksum is intact**: the validation flag travels into the decompressed set, so a
    corrupt inner message makes the whole fetch fail -/
theorem C04_reject_inner (cx : Codecs) (comp : Bytes → Bytes) (hinv : ∀ b, cx.gunzip (comp b) = some b)
    (debug : Bool) (depth : Nat) (req : Int) (last : Int) (pre : List Msg)
    (off : Int) (field body tail after : Bytes) (ho : inI 8 off) (hf : field.length = 4)
    (hsz : 4 + body.length ≤ 2147483647) (hbad : wrapI 4 ((crc32 body).toNat : Int) ≠ decI field)
    (hpre : ∀ m ∈ pre, msgOK m ∧ C02.isPlain m)
    (hw : msgOK ⟨last, 1, none, some (comp (encMsgs pre ++ (rawEntry off field body ++ tail)))⟩) (fuel : Nat) (acc : List Message) :
    fromSlice cx debug (depth + 1) (fuel + 1)
      (encMsg ⟨last, 1, none, some (comp (encMsgs pre ++ (rawEntry off field body ++ tail)))⟩ ++ after) req true acc = .err (.kafka 2) := by
  rw [fromSlice]
  have hne : (encMsg ⟨last, 1, none, some (comp (encMsgs pre ++ (rawEntry off field body ++ tail)))⟩ ++ after).isEmpty = false := by
    have := C02.encMsg_len_pos ⟨last, 1, none, some (comp (encMsgs pre ++ (rawEntry off field body ++ tail)))⟩
    cases hh : encMsg ⟨last, 1, none, some (comp (encMsgs pre ++ (rawEntry off field body ++ tail)))⟩ with
    | nil => simp [hh] at this
    | cons a b => simp
  simp only [hne, Bool.false_eq_true, if_false]
  rw [nextMessage_enc _ hw true]
  simp only [ne_eq, not_true_eq_false, and_false, if_false]
  have hc : toU 1 (1 : Int) % 8 = 1 := by decide
  simp only [hc, show ¬ ((1 : Nat) = 0) by decide, if_false, if_true, Option.getD_some, hinv]
  rw [C04_reject_set cx debug depth req off field body tail ho hf hsz hbad pre _ [] hpre (by
    have := count_le_bytes pre
    simp only [List.length_append]
    omega)]

/-! ### (T2) what the checksum detects -/

theorem decI_injective4 (a b : Bytes) (ha : a.length = 4) (hb : b.length = 4) (h : decI a = decI b) : a = b := by
  have ea := encI_decI a (by omega)
  have eb := encI_decI b (by omega)
  rw [ha] at ea; rw [hb] at eb
  rw [← ea, ← eb, h]

/-- any alteration of the checksum *field* (covered bytes intact) is detected: flips, bursts, anything -/
theorem C04_field_altered (body field' : Bytes) (hf : field'.length = 4) (hne : field' ≠ crcField body) :
    wrapI 4 ((crc32 body).toNat : Int) ≠ decI field' := by
  rw [crc_roundtrip]
  intro h
  exact hne (decI_injective4 _ _ hf (crcField_len body) h.symm)

/-- any alteration confined to ONE covered byte (field intact) is detected — every single-bit flip and every burst
    inside a byte, at any position, for messages of any length -/
theorem C04_one_byte_altered (pre post : Bytes) (x y : UInt8) (hxy : x ≠ y) :
    wrapI 4 ((crc32 (pre ++ y :: post)).toNat : Int) ≠ decI (crcField (pre ++ x :: post)) := by
  rw [crc_roundtrip]
  intro h
  have h2 := decI_injective4 _ _ (crcField_len _) (crcField_len _) h
  unfold crcField at h2
  have h3 : (crc32 (pre ++ y :: post)).toNat = (crc32 (pre ++ x :: post)).toNat := by
    have := congrArg unbe h2
    rw [unbe_be, unbe_be] at this
    have l1 : (crc32 (pre ++ y :: post)).toNat < 256 ^ 4 := by have := (crc32 (pre ++ y :: post)).toNat_lt; simpa using this
    have l2 : (crc32 (pre ++ x :: post)).toNat < 256 ^ 4 := by have := (crc32 (pre ++ x :: post)).toNat_lt; simpa using this
    rwa [Nat.mod_eq_of_lt l1, Nat.mod_eq_of_lt l2] at this
  exact crc32_one_byte pre post x y hxy (UInt32.toNat_inj.mp h3).symm

/-- put together: a message with one covered byte altered is rejected when validation is on -/
theorem C04_single_byte_rejected (pre post : Bytes) (x y : UInt8) (hxy : x ≠ y) :
    protoMsg true (crcField (pre ++ x :: post) ++ (pre ++ y :: post)) = .error (.kafka 2) :=
  C04_reject_message _ _ (crcField_len _) (C04_one_byte_altered pre post x y hxy)

/-! ### non-vacuity -/
example : (crcField [0, 0, 255, 255, 255, 255, 0, 0, 0, 1, 97]).length = 4 := crcField_len _
example : (1 : UInt8) ≠ 3 := by decide

end Kafka.Props.C04
