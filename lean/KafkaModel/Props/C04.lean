import KafkaModel.Lemmas.Crc
import KafkaModel.Lemmas.CrcOrder
import KafkaModel.Props.C02
/-!
  C04 — With CRC validation on, corrupted messages are rejected, never delivered.
  (T1) the decoder consults the checksum of every entry it reaches — top level, wrapper, inner — before any field;
  (T2) what CRC-32/ISO-HDLC is guaranteed to detect (proved for messages of any length): every change confined to
       the checksum field, every change confined to one covered byte (all single-bit flips, all bursts within a byte).
-/
namespace Kafka.Props.C04
open Kafka Kafka.Spec Kafka.Model

/-- an entry as it lies on the wire: offset, size, a 4-byte checksum field and the covered body -/
def rawEntry (off : Int) (field body : Bytes) : Bytes := eI64 off ++ eI32 (4 + (body.length : Int)) ++ field ++ body

theorem zI4_field (field body : Bytes) (h : field.length = 4) : zI 4 (field ++ body) = .ok (decI field, body) := by
  unfold zI readI
  have := readN_append field body
  rw [h] at this
  rw [this]

/-- **reject**: with validation on, a message whose checksum field does not match the covered bytes is the
    corrupt-message error — decided before magic, attributes, key or value are looked at -/
theorem C04_reject_message (field body : Bytes) (hf : field.length = 4)
    (hbad : wrapI 4 ((crc32 body).toNat : Int) ≠ decI field) :
    protoMsg true (field ++ body) = .error (.kafka 2) := by
  unfold protoMsg
  simp only [bind, Except.bind, zI4_field field body hf]
  simp [hbad]

/-- **validation off**: the checksum field alone never matters — any two fields give the same result -/
theorem C04_off (f1 f2 body : Bytes) (h1 : f1.length = 4) (h2 : f2.length = 4) :
    protoMsg false (f1 ++ body) = protoMsg false (f2 ++ body) := by
  unfold protoMsg
  simp only [bind, Except.bind, zI4_field f1 body h1, zI4_field f2 body h2]
  simp

/-- the entry reader passes the verdict up: a reached entry with a wrong checksum fails `next_message` -/
theorem C04_reject_entry (off : Int) (field body rest : Bytes) (ho : inI 8 off) (hf : field.length = 4)
    (hsz : 4 + body.length ≤ 2147483647) (hbad : wrapI 4 ((crc32 body).toNat : Int) ≠ decI field) :
    nextMessage true (rawEntry off field body ++ rest) = .error (.kafka 2) := by
  unfold nextMessage rawEntry
  simp only [eI64, eI32, List.append_assoc, bind, Except.bind]
  rw [zI_append 8 (by decide) _ ho]
  simp only []
  unfold zBytes
  simp only [bind, Except.bind]
  have hlen : inI 4 ((4 : Int) + (body.length : Int)) := by unfold inI; simp; omega
  rw [zI_append 4 (by decide) _ hlen]
  simp only []
  have hpos : ¬ ((4 : Int) + (body.length : Int) ≤ 0) := by omega
  simp only [hpos, if_false]
  have hN : ((4 : Int) + (body.length : Int)).toNat = (field ++ body).length := by simp [hf]; omega
  rw [hN, ← List.append_assoc field, zRead_append]
  simp only []
  rw [C04_reject_message field body hf hbad]

/-- **the fetch fails**: a corrupt entry reached by the decoder — after any number of intact plain messages — makes
    decoding return the corrupt-message error; nothing is delivered -/
theorem C04_reject_set (cx : Codecs) (debug : Bool) (depth : Nat) (req : Int)
    (off : Int) (field body rest : Bytes) (ho : inI 8 off) (hf : field.length = 4)
    (hsz : 4 + body.length ≤ 2147483647) (hbad : wrapI 4 ((crc32 body).toNat : Int) ≠ decI field) :
    ∀ (pre : List Msg) (fuel : Nat) (acc : List Message), (∀ m ∈ pre, msgOK m ∧ C02.isPlain m) → pre.length < fuel →
      fromSlice cx debug depth fuel (encMsgs pre ++ (rawEntry off field body ++ rest)) req true acc = .err (.kafka 2) := by
  intro pre
  induction pre with
  | nil =>
    intro fuel acc _ hfuel
    cases fuel with
    | zero => omega
    | succ f =>
      rw [fromSlice]
      have hne : (encMsgs [] ++ (rawEntry off field body ++ rest)).isEmpty = false := by
        simp [encMsgs, rawEntry, eI64]
        intro h; have := congrArg List.length h; simp at this
      simp only [hne, Bool.false_eq_true, if_false]
      simp only [encMsgs, List.flatMap_nil, List.nil_append]
      rw [C04_reject_entry off field body rest ho hf hsz hbad]
  | cons m r ih =>
    intro fuel acc hok hfuel
    obtain ⟨hm, hp⟩ := hok m (by simp)
    cases fuel with
    | zero => omega
    | succ f =>
      have henc : encMsgs (m :: r) ++ (rawEntry off field body ++ rest) = encMsg m ++ (encMsgs r ++ (rawEntry off field body ++ rest)) := by
        simp [encMsgs]
      rw [henc, fromSlice]
      have hne : (encMsg m ++ (encMsgs r ++ (rawEntry off field body ++ rest))).isEmpty = false := by
        have := C02.encMsg_len_pos m
        cases hh : encMsg m with
        | nil => simp [hh] at this
        | cons a b => simp
      simp only [hne, Bool.false_eq_true, if_false]
      rw [nextMessage_enc m hm true]
      simp only [ne_eq, not_true_eq_false, and_false, if_false]
      unfold C02.isPlain at hp
      simp only [hp, if_true]
      exact ih f _ (fun x hx => hok x (by simp [hx])) (by simp at hfuel; omega)

theorem count_le_bytes (pre : List Msg) : pre.length ≤ (encMsgs pre).length := by
  induction pre with
  | nil => simp
  | cons m r ih =>
    have h12 := C02.encMsg_len_pos m
    have : (encMsgs (m :: r)).length = (encMsg m).length + (encMsgs r).length := by simp [encMsgs]
    rw [this]; simp only [List.length_cons]; omega

/-- **inside a wrapper whose own checksum is intact**: the validation flag travels into the decompressed set, so a
    corrupt inner message makes the whole fetch fail -/
theorem C04_reject_inner (cx : Codecs) (comp : Bytes → Bytes) (hinv : ∀ b, cx.gunzip (comp b) = some b)
    (debug : Bool) (depth : Nat) (req : Int) (last : Int) (pre : List Msg)
    (off : Int) (field body tail after : Bytes) (ho : inI 8 off) (hf : field.length = 4)
    (hsz : 4 + body.length ≤ 2147483647) (hbad : wrapI 4 ((crc32 body).toNat : Int) ≠ decI field)
    (hpre : ∀ m ∈ pre, msgOK m ∧ C02.isPlain m)
    (hw : msgOK ⟨last, 1, none, some (comp (encMsgs pre ++ (rawEntry off field body ++ tail)))⟩) (fuel : Nat) (acc : List Message) :
    fromSlice cx debug (depth + 1) (fuel + 1)
      (encMsg ⟨last, 1, none, some (comp (encMsgs pre ++ (rawEntry off field body ++ tail)))⟩ ++ after) req true acc = .err (.kafka 2) := by
  rw [fromSlice]
  have hne : (encMsg ⟨last, 1, none, some (comp (encMsgs pre ++ (rawEntry off field body ++ tail)))⟩ ++ after).isEmpty = false := by
    have := C02.encMsg_len_pos ⟨last, 1, none, some (comp (encMsgs pre ++ (rawEntry off field body ++ tail)))⟩
    cases hh : encMsg ⟨last, 1, none, some (comp (encMsgs pre ++ (rawEntry off field body ++ tail)))⟩ with
    | nil => simp [hh] at this
    | cons a b => simp
  simp only [hne, Bool.false_eq_true, if_false]
  rw [nextMessage_enc _ hw true]
  simp only [ne_eq, not_true_eq_false, and_false, if_false]
  have hc : toU 1 (1 : Int) % 8 = 1 := by decide
  simp only [hc, show ¬ ((1 : Nat) = 0) by decide, if_false, if_true, Option.getD_some, hinv]
  rw [C04_reject_set cx debug depth req off field body tail ho hf hsz hbad pre _ [] hpre (by
    have := count_le_bytes pre
    simp only [List.length_append]
    omega)]

/-! ### (T2) what the checksum detects -/

theorem decI_injective4 (a b : Bytes) (ha : a.length = 4) (hb : b.length = 4) (h : decI a = decI b) : a = b := by
  have ea := encI_decI a (by omega)
  have eb := encI_decI b (by omega)
  rw [ha] at ea; rw [hb] at eb
  rw [← ea, ← eb, h]

/-- any alteration of the checksum *field* (covered bytes intact) is detected: flips, bursts, anything -/
theorem C04_field_altered (body field' : Bytes) (hf : field'.length = 4) (hne : field' ≠ crcField body) :
    wrapI 4 ((crc32 body).toNat : Int) ≠ decI field' := by
  rw [crc_roundtrip]
  intro h
  exact hne (decI_injective4 _ _ hf (crcField_len body) h.symm)

/-- any alteration confined to ONE covered byte (field intact) is detected — every single-bit flip and every burst
    inside a byte, at any position, for messages of any length -/
theorem C04_one_byte_altered (pre post : Bytes) (x y : UInt8) (hxy : x ≠ y) :
    wrapI 4 ((crc32 (pre ++ y :: post)).toNat : Int) ≠ decI (crcField (pre ++ x :: post)) := by
  rw [crc_roundtrip]
  intro h
  have h2 := decI_injective4 _ _ (crcField_len _) (crcField_len _) h
  unfold crcField at h2
  have h3 : (crc32 (pre ++ y :: post)).toNat = (crc32 (pre ++ x :: post)).toNat := by
    have := congrArg unbe h2
    rw [unbe_be, unbe_be] at this
    have l1 : (crc32 (pre ++ y :: post)).toNat < 256 ^ 4 := by have := (crc32 (pre ++ y :: post)).toNat_lt; simpa using this
    have l2 : (crc32 (pre ++ x :: post)).toNat < 256 ^ 4 := by have := (crc32 (pre ++ x :: post)).toNat_lt; simpa using this
    rwa [Nat.mod_eq_of_lt l1, Nat.mod_eq_of_lt l2] at this
  exact crc32_one_byte pre post x y hxy (UInt32.toNat_inj.mp h3).symm

/-- whatever changes the checksum of the covered bytes (field intact) is seen by the comparison the decoder makes -/
theorem crc_change_detected (body body' : Bytes) (h : crc32 body' ≠ crc32 body) :
    wrapI 4 ((crc32 body').toNat : Int) ≠ decI (crcField body) := by
  rw [crc_roundtrip]
  intro h1
  have h2 := decI_injective4 _ _ (crcField_len _) (crcField_len _) h1
  unfold crcField at h2
  have h3 : (crc32 body').toNat = (crc32 body).toNat := by
    have := congrArg unbe h2
    rw [unbe_be, unbe_be] at this
    have l1 : (crc32 body').toNat < 256 ^ 4 := by have := (crc32 body').toNat_lt; simpa using this
    have l2 : (crc32 body).toNat < 256 ^ 4 := by have := (crc32 body).toNat_lt; simpa using this
    rwa [Nat.mod_eq_of_lt l1, Nat.mod_eq_of_lt l2] at this
  exact h (UInt32.toNat_inj.mp h3)

/-- **every burst of at most 32 bits inside the covered bytes is detected** (field intact): `es` is the error pattern,
    XORed onto the bytes `xs` that follow `pre`; `Burst32 es` says it spans at most 32 consecutive bits in the order the
    checksum consumes them, starting at any bit of any byte (`burst32_of_bits`); messages of any length -/
theorem C04_burst32_altered (pre xs post es : Bytes) (hlen : es.length = xs.length) (hb : Burst32 es) (hne : ∃ e ∈ es, e ≠ 0) :
    wrapI 4 ((crc32 (pre ++ xorOnto xs es ++ post)).toNat : Int) ≠ decI (crcField (pre ++ xs ++ post)) :=
  crc_change_detected _ _ (crc32_burst pre xs post es hlen hb hne)

/-- … and the message is rejected when validation is on -/
theorem C04_burst32_rejected (pre xs post es : Bytes) (hlen : es.length = xs.length) (hb : Burst32 es) (hne : ∃ e ∈ es, e ≠ 0) :
    protoMsg true (crcField (pre ++ xs ++ post) ++ (pre ++ xorOnto xs es ++ post)) = .error (.kafka 2) :=
  C04_reject_message _ _ (crcField_len _) (C04_burst32_altered pre xs post es hlen hb hne)

/-- the bit-level reading: any non-zero pattern `B` of at most 32 bits, shifted to start at bit `a` of the first of five
    covered bytes, is rejected -/
theorem C04_burst32_bits_rejected (pre xs post : Bytes) (B a : Nat) (hB : B < 2 ^ 32) (hB0 : 0 < B) (ha : a < 8) (hx : xs.length = 5) :
    protoMsg true (crcField (pre ++ xs ++ post) ++ (pre ++ xorOnto xs (nle 5 (B * 2 ^ a)) ++ post)) = .error (.kafka 2) := by
  apply C04_burst32_rejected pre xs post _ (by rw [nle_length, hx]) (burst32_of_bits B a hB ha)
  -- a non-zero number has a non-zero byte
  apply Classical.byContradiction
  intro hall
  have hz : ∀ e ∈ nle 5 (B * 2 ^ a), e = 0 := by
    intro e he
    apply Classical.byContradiction
    intro hne; exact hall ⟨e, he, hne⟩
  have h0 : leNat (nle 5 (B * 2 ^ a)) = 0 := by
    have : ∀ (l : Bytes), (∀ e ∈ l, e = 0) → leNat l = 0 := by
      intro l; induction l with
      | nil => intro _; rfl
      | cons x r ih => intro h; simp only [leNat]; rw [h x (by simp), ih (fun e he => h e (by simp [he]))]; rfl
    exact this _ hz
  rw [leNat_nle] at h0
  have hlt : B * 2 ^ a < 256 ^ 5 := by
    have h1 : B * 2 ^ a < 2 ^ 32 * 2 ^ a := Nat.mul_lt_mul_of_pos_right hB (Nat.two_pow_pos a)
    have h2 : 2 ^ 32 * 2 ^ a ≤ 2 ^ 32 * 2 ^ 8 := Nat.mul_le_mul_left _ (Nat.pow_le_pow_right (by decide) (by omega))
    have h3 : (2:Nat) ^ 32 * 2 ^ 8 = 256 ^ 5 := by decide
    omega
  rw [Nat.mod_eq_of_lt hlt] at h0
  have : 0 < B * 2 ^ a := Nat.mul_pos hB0 (Nat.two_pow_pos a)
  omega

/-- **every double-bit flip in two different covered bytes is detected** (field intact): bit `a` of the byte after `pre`,
    bit `b` of the byte `m + 1` further on, anywhere in a message whose covered part is shorter than 2^32 - 1 bits (512 MiB;
    beyond that distance the checksum provably cannot tell: the register's period is 2^32 - 1).  Two bits in one byte are
    `C04_one_byte_altered`. -/
theorem C04_double_bit_altered (pre xs post : Bytes) (a b m : Nat) (ha : a < 8) (hb : b < 8) (hlen : xs.length = m + 2)
    (hspan : (m + 2) * 8 ≤ 4294967295) :
    wrapI 4 ((crc32 (pre ++ xorOnto xs (UInt8.ofNat (2 ^ a) :: (List.replicate m 0 ++ [UInt8.ofNat (2 ^ b)])) ++ post)).toNat : Int)
      ≠ decI (crcField (pre ++ xs ++ post)) :=
  crc_change_detected _ _ (CrcOrder.crc32_two_bits pre xs post a b m ha hb hlen hspan)

theorem C04_double_bit_rejected (pre xs post : Bytes) (a b m : Nat) (ha : a < 8) (hb : b < 8) (hlen : xs.length = m + 2)
    (hspan : (m + 2) * 8 ≤ 4294967295) :
    protoMsg true (crcField (pre ++ xs ++ post) ++
      (pre ++ xorOnto xs (UInt8.ofNat (2 ^ a) :: (List.replicate m 0 ++ [UInt8.ofNat (2 ^ b)])) ++ post)) = .error (.kafka 2) :=
  C04_reject_message _ _ (crcField_len _) (C04_double_bit_altered pre xs post a b m ha hb hlen hspan)

/-- put together: a message with one covered byte altered is rejected when validation is on -/
theorem C04_single_byte_rejected (pre post : Bytes) (x y : UInt8) (hxy : x ≠ y) :
    protoMsg true (crcField (pre ++ x :: post) ++ (pre ++ y :: post)) = .error (.kafka 2) :=
  C04_reject_message _ _ (crcField_len _) (C04_one_byte_altered pre post x y hxy)

/-! ### non-vacuity -/
example : (crcField [0, 0, 255, 255, 255, 255, 0, 0, 0, 1, 97]).length = 4 := crcField_len _
example : (1 : UInt8) ≠ 3 := by decide
-- a 32-bit burst starting at bit 3 of a byte: first and last bit set, over five bytes
example : Burst32 (nle 5 ((2 ^ 31 + 1) * 2 ^ 3)) := burst32_of_bits _ 3 (by decide) (by decide)
example : nle 5 ((2 ^ 31 + 1) * 2 ^ 3) = [8, 0, 0, 0, 4] := by decide
-- two flipped bits 1000 bytes apart: bit 3 of one byte, bit 6 of the byte 1000 further on
example : (998 + 2) * 8 ≤ 4294967295 := by decide

end Kafka.Props.C04
