import KafkaModel.Lemmas.ModelDec
import KafkaModel.Model.Client
/-!
  C10 — Every well-formed response is decoded to exactly the content the broker sent.
  For each API: the model's `FromByte` decoder applied to the specification's encoding of arbitrary
  well-formed content returns exactly that content (null string / null array read as empty), for any
  counts including zero; then the per-broker results are merged without loss, duplication or
  misattribution.
-/
namespace Kafka.Props.C10
open Kafka Kafka.Spec Kafka.Model

def lenOK {α} (xs : List α) : Prop := xs.length ≤ 2147483647

/-! ### metadata -/
def brokerOK (b : BrokerMeta) : Prop := inI 4 b.nodeId ∧ nameOK b.host ∧ inI 4 b.port
def partMetaOK (p : PartMeta) : Prop :=
  inI 2 p.err ∧ inI 4 p.id ∧ inI 4 p.leader ∧ lenOK p.replicas ∧ (∀ x ∈ p.replicas, inI 4 x) ∧ lenOK p.isr ∧ (∀ x ∈ p.isr, inI 4 x)
def topicMetaOK (t : TopicMeta) : Prop := inI 2 t.err ∧ nameOK t.name ∧ lenOK t.parts ∧ ∀ p ∈ t.parts, partMetaOK p

def imgBroker (b : BrokerMeta) : BrokerMd := ⟨b.nodeId, b.host, b.port⟩
def imgPart (p : PartMeta) : PartitionMd := ⟨p.err, p.id, p.leader, p.replicas, p.isr⟩
def imgTopic (t : TopicMeta) : TopicMd := ⟨t.err, t.name, t.parts.map imgPart⟩

theorem ints_append (xs : List Int) (hl : lenOK xs) (h : ∀ x ∈ xs, inI 4 x) (r : Bytes) :
    rVec (rI 4) (eArr eI32 xs ++ r) = .ok (xs, r) := by
  have := rVec_append (rI 4) eI32 id xs hl (fun x hx r => rI4_append x (h x hx) r) r
  simpa using this

theorem C10_metadata (corr : Int) (hc : inI 4 corr) (bs : List BrokerMeta) (ts : List TopicMeta)
    (hb : lenOK bs ∧ ∀ b ∈ bs, brokerOK b) (ht : lenOK ts ∧ ∀ t ∈ ts, topicMetaOK t) :
    rMetadataResponse (encResponse corr (.metadata bs ts)) = .ok (⟨corr, bs.map imgBroker, ts.map imgTopic⟩, []) := by
  unfold rMetadataResponse encResponse encRespBody
  simp only [bind, Except.bind]
  rw [rI4_append corr hc]
  simp only []
  rw [rVec_append rBrokerMd encBrokerMeta imgBroker bs hb.1 (by
    intro b hbm r
    obtain ⟨h1, h2, h3⟩ := hb.2 b hbm
    unfold rBrokerMd encBrokerMeta
    simp only [List.append_assoc, bind, Except.bind]
    rw [rI4_append _ h1]; simp only []
    rw [rString_append _ h2]; simp only []
    rw [rI4_append _ h3]; rfl)]
  simp only []
  have := rVec_append rTopicMd encTopicMeta imgTopic ts ht.1 (by
    intro t htm r
    obtain ⟨h1, h2, h3, h4⟩ := ht.2 t htm
    unfold rTopicMd encTopicMeta
    simp only [List.append_assoc, bind, Except.bind]
    rw [rI2_append _ h1]; simp only []
    rw [rString_append _ h2]; simp only []
    rw [rVec_append rPartitionMd encPartMeta imgPart t.parts h3 (by
      intro p hpm r
      obtain ⟨g1, g2, g3, g4, g5, g6, g7⟩ := h4 p hpm
      unfold rPartitionMd encPartMeta
      simp only [List.append_assoc, bind, Except.bind]
      rw [rI2_append _ g1]; simp only []
      rw [rI4_append _ g2]; simp only []
      rw [rI4_append _ g3]; simp only []
      rw [ints_append _ g4 g5]; simp only []
      rw [ints_append _ g6 g7]; rfl)]
    rfl) []
  simp only [List.append_nil] at this
  rw [this]
  rfl

/-! ### topic/partition shaped responses -/

theorem topics_append {α β} (p : Dec β) (e : α → Bytes) (g : α → β) (ok : α → Prop)
    (hrt : ∀ a, ok a → ∀ r, p (e a ++ r) = .ok (g a, r))
    (ts : List (Bytes × List α)) (hl : lenOK ts) (h : ∀ t ∈ ts, nameOK t.1 ∧ lenOK t.2 ∧ ∀ x ∈ t.2, ok x) (r : Bytes) :
    rVec (rTopicOf p) (eArr (encRespTopic e) ts ++ r)
      = .ok (ts.map fun t => (t.1, t.2.map g), r) := by
  apply rVec_append (rTopicOf p) (encRespTopic e) (fun t => (t.1, t.2.map g)) ts hl
  intro t ht r
  obtain ⟨h1, h2, h3⟩ := h t ht
  unfold rTopicOf encRespTopic
  simp only [List.append_assoc, bind, Except.bind]
  rw [rString_append _ h1]; simp only []
  rw [rVec_append p e g t.2 h2 (fun x hx => hrt x (h3 x hx))]
  rfl

/-- produce: per-partition offsets and error codes -/
theorem C10_produce (corr : Int) (hc : inI 4 corr) (ts : List (Bytes × List (Int × Int × Int))) (hl : lenOK ts)
    (h : ∀ t ∈ ts, nameOK t.1 ∧ lenOK t.2 ∧ ∀ x ∈ t.2, inI 4 x.1 ∧ inI 2 x.2.1 ∧ inI 8 x.2.2) :
    rProduceResponse (encResponse corr (.produce ts)) =
      .ok (⟨corr, ts.map fun t => (t.1, t.2.map fun x => ⟨x.1, x.2.1, x.2.2⟩)⟩, []) := by
  unfold rProduceResponse encResponse encRespBody
  simp only [bind, Except.bind]
  rw [rI4_append corr hc]; simp only []
  have := topics_append rPartProduceResp encProducePartResp
    (fun x => (⟨x.1, x.2.1, x.2.2⟩ : PartProduceResp)) (fun x => inI 4 x.1 ∧ inI 2 x.2.1 ∧ inI 8 x.2.2) (by
      intro a ⟨h1, h2, h3⟩ r
      unfold rPartProduceResp encProducePartResp
      simp only [List.append_assoc, bind, Except.bind]
      rw [rI4_append _ h1]; simp only []
      rw [rI2_append _ h2]; simp only []
      rw [rI8_append _ h3]; rfl) ts hl h []
  simp only [List.append_nil] at this
  rw [this]; rfl

/-- offsets (v0): partition, error, offset list -/
theorem C10_offsets (corr : Int) (hc : inI 4 corr) (ts : List (Bytes × List (Int × Int × List Int))) (hl : lenOK ts)
    (h : ∀ t ∈ ts, nameOK t.1 ∧ lenOK t.2 ∧ ∀ x ∈ t.2, inI 4 x.1 ∧ inI 2 x.2.1 ∧ lenOK x.2.2 ∧ ∀ o ∈ x.2.2, inI 8 o) :
    rOffsetResponse (encResponse corr (.offsets ts)) =
      .ok (⟨corr, ts.map fun t => (t.1, t.2.map fun x => ⟨x.1, x.2.1, x.2.2⟩)⟩, []) := by
  unfold rOffsetResponse encResponse encRespBody
  simp only [bind, Except.bind]
  rw [rI4_append corr hc]; simp only []
  have := topics_append rPartOffsetResp encOffsetPartResp
    (fun x => (⟨x.1, x.2.1, x.2.2⟩ : PartOffsetResp)) (fun x => inI 4 x.1 ∧ inI 2 x.2.1 ∧ lenOK x.2.2 ∧ ∀ o ∈ x.2.2, inI 8 o) (by
      intro a ⟨h1, h2, h3, h4⟩ r
      unfold rPartOffsetResp encOffsetPartResp
      simp only [List.append_assoc, bind, Except.bind]
      rw [rI4_append _ h1]; simp only []
      rw [rI2_append _ h2]; simp only []
      have := rVec_append (rI 8) eI64 id a.2.2 h3 (fun x hx r => rI8_append x (h4 x hx) r) r
      simp only [List.map_id] at this
      rw [this]; rfl) ts hl h []
  simp only [List.append_nil] at this
  rw [this]; rfl

/-- list offsets (v1): partition, error, timestamp, offset — in that wire order -/
theorem C10_list_offsets (corr : Int) (hc : inI 4 corr) (ts : List (Bytes × List (Int × Int × Int × Int))) (hl : lenOK ts)
    (h : ∀ t ∈ ts, nameOK t.1 ∧ lenOK t.2 ∧ ∀ x ∈ t.2, inI 4 x.1 ∧ inI 2 x.2.1 ∧ inI 8 x.2.2.1 ∧ inI 8 x.2.2.2) :
    rListOffsetsResponse (encResponse corr (.listOffsets ts)) =
      .ok (⟨corr, ts.map fun t => (t.1, t.2.map fun x => ⟨x.1, x.2.1, x.2.2.1, x.2.2.2⟩)⟩, []) := by
  unfold rListOffsetsResponse encResponse encRespBody
  simp only [bind, Except.bind]
  rw [rI4_append corr hc]; simp only []
  have := topics_append rPartListOffsetResp encListOffsetPartResp
    (fun x => (⟨x.1, x.2.1, x.2.2.1, x.2.2.2⟩ : PartListOffsetResp)) (fun x => inI 4 x.1 ∧ inI 2 x.2.1 ∧ inI 8 x.2.2.1 ∧ inI 8 x.2.2.2) (by
      intro a ⟨h1, h2, h3, h4⟩ r
      unfold rPartListOffsetResp encListOffsetPartResp
      simp only [List.append_assoc, bind, Except.bind]
      rw [rI4_append _ h1]; simp only []
      rw [rI2_append _ h2]; simp only []
      rw [rI8_append _ h3]; simp only []
      rw [rI8_append _ h4]; rfl) ts hl h []
  simp only [List.append_nil] at this
  rw [this]; rfl

/-- group coordinator: error, node id, host, port -/
theorem C10_coordinator (corr e n : Int) (host : Bytes) (port : Int) (hc : inI 4 corr) (he : inI 2 e) (hn : inI 4 n)
    (hh : nameOK host) (hp : inI 4 port) :
    rGroupCoordinatorResponse (encResponse corr (.groupCoordinator e n host port)) = .ok (⟨corr, e, n, host, port⟩, []) := by
  unfold rGroupCoordinatorResponse encResponse encRespBody
  simp only [List.append_assoc, bind, Except.bind]
  rw [rI4_append corr hc]; simp only []
  rw [rI2_append e he]; simp only []
  rw [rI4_append n hn]; simp only []
  rw [rString_append host hh]; simp only []
  have := rI4_append port hp []
  simp only [List.append_nil] at this
  rw [this]; rfl

/-- offset commit: partition, error -/
theorem C10_offset_commit (corr : Int) (hc : inI 4 corr) (ts : List (Bytes × List (Int × Int))) (hl : lenOK ts)
    (h : ∀ t ∈ ts, nameOK t.1 ∧ lenOK t.2 ∧ ∀ x ∈ t.2, inI 4 x.1 ∧ inI 2 x.2) :
    rOffsetCommitResponse (encResponse corr (.offsetCommit ts)) = .ok (⟨corr, ts⟩, []) := by
  unfold rOffsetCommitResponse encResponse encRespBody
  simp only [bind, Except.bind]
  rw [rI4_append corr hc]; simp only []
  have := topics_append rPartCommitResp encCommitPartResp id (fun x => inI 4 x.1 ∧ inI 2 x.2) (by
      intro a ⟨h1, h2⟩ r
      unfold rPartCommitResp encCommitPartResp
      simp only [List.append_assoc, bind, Except.bind]
      rw [rI4_append _ h1]; simp only []
      rw [rI2_append _ h2]; rfl) ts hl h []
  simp only [List.append_nil, List.map_id] at this
  rw [this]
  simp
  rfl

/-- offset fetch: partition, offset, metadata (null reads as empty), error -/
theorem C10_offset_fetch (corr : Int) (hc : inI 4 corr) (ts : List (Bytes × List (Int × Int × Option Bytes × Int))) (hl : lenOK ts)
    (h : ∀ t ∈ ts, nameOK t.1 ∧ lenOK t.2 ∧ ∀ x ∈ t.2, inI 4 x.1 ∧ inI 8 x.2.1 ∧ (∀ m, x.2.2.1 = some m → nameOK m) ∧ inI 2 x.2.2.2) :
    rOffsetFetchResponse (encResponse corr (.offsetFetch ts)) =
      .ok (⟨corr, ts.map fun t => (t.1, t.2.map fun x => ⟨x.1, x.2.1, x.2.2.1.getD [], x.2.2.2⟩)⟩, []) := by
  unfold rOffsetFetchResponse encResponse encRespBody
  simp only [bind, Except.bind]
  rw [rI4_append corr hc]; simp only []
  have := topics_append rPartOffsetFetchResp encOffsetFetchPartResp
    (fun x => (⟨x.1, x.2.1, x.2.2.1.getD [], x.2.2.2⟩ : PartOffsetFetchResp))
    (fun x => inI 4 x.1 ∧ inI 8 x.2.1 ∧ (∀ m, x.2.2.1 = some m → nameOK m) ∧ inI 2 x.2.2.2) (by
      intro a ⟨h1, h2, h3, h4⟩ r
      unfold rPartOffsetFetchResp encOffsetFetchPartResp
      simp only [List.append_assoc, bind, Except.bind]
      rw [rI4_append _ h1]; simp only []
      rw [rI8_append _ h2]; simp only []
      cases hm : a.2.2.1 with
      | none =>
        rw [rString_null]; simp only []
        rw [rI2_append _ h4]; rfl
      | some m =>
        simp only [eNStr]
        rw [rString_append m (h3 m hm)]; simp only []
        rw [rI2_append _ h4]; rfl) ts hl h []
  simp only [List.append_nil] at this
  rw [this]; rfl

/-! ### merging of per-broker results -/

/-- all partitions healthy: the response's offsets are appended to the topic's entry, nothing dropped -/
theorem collect_ok {α} (xs : List α) (acc : List α) :
    mergeOffsets.collect (xs.map (Except.ok (ε := Int × Int))) acc = .ok (acc ++ xs) := by
  induction xs generalizing acc with
  | nil => simp [mergeOffsets.collect]
  | cons x xs ih => simp [mergeOffsets.collect, ih]

theorem upsert_get_self {α} (m : List (Bytes × α)) (k : Bytes) (d : α) (f : α → α) :
    assocGet (upsert m k d f) k = some (f ((assocGet m k).getD d)) := by
  induction m with
  | nil => simp [upsert, assocGet]
  | cons x xs ih =>
    obtain ⟨k', v⟩ := x
    by_cases h : k' = k
    · simp [upsert, assocGet, h]
    · simp only [upsert, h, if_false]
      simp only [assocGet, List.find?, h, decide_false] at ih ⊢
      exact ih

theorem upsert_get_other {α} (m : List (Bytes × α)) (k k2 : Bytes) (d : α) (f : α → α) (hne : k2 ≠ k) :
    assocGet (upsert m k d f) k2 = assocGet m k2 := by
  induction m with
  | nil => simp [upsert, assocGet, Ne.symm hne]
  | cons x xs ih =>
    obtain ⟨k', v⟩ := x
    by_cases h : k' = k
    · subst h
      simp [upsert, assocGet, Ne.symm hne]
    · simp only [upsert, h, if_false]
      by_cases h2 : k' = k2
      · simp [assocGet, h2]
      · simp only [assocGet, List.find?, h2, decide_false] at ih ⊢
        exact ih

/-- **merge**: a healthy response topic extends exactly that topic's entry by exactly its partitions, in order;
    every other topic's entry is untouched (nothing dropped, duplicated or misattributed) -/
theorem C10_merge_ok {α} (res : List (Bytes × List α)) (t : Bytes) (xs : List α) :
    ∃ res', mergeOffsets res t (xs.map (Except.ok (ε := Int × Int))) = .ok res' ∧
      assocGet res' t = some ((assocGet res t).getD [] ++ xs) ∧ ∀ t2, t2 ≠ t → assocGet res' t2 = assocGet res t2 := by
  refine ⟨upsert res t [] (· ++ xs), ?_, upsert_get_self _ _ _ _, fun t2 h => upsert_get_other _ _ _ _ _ h⟩
  unfold mergeOffsets
  rw [collect_ok]
  simp

/-- group offsets: each topic's partitions are those sent; code 3 and −1 both mean "none" -/
theorem C10_group_offsets_none (p : PartOffsetFetchResp) (h : p.err = 3) : p.getOffsets = .ok (p.partition, -1) := by
  simp [PartOffsetFetchResp.getOffsets, kafkaCode, h]

theorem C10_group_offsets_some (p : PartOffsetFetchResp) (h : p.err = 0) : p.getOffsets = .ok (p.partition, p.offset) := by
  simp [PartOffsetFetchResp.getOffsets, kafkaCode, h]

/-- produce confirmations are exactly the per-partition results of the response, in order -/
theorem C10_confirms (r : ProduceResponse) :
    r.getResponse = r.topics.map fun t => ⟨t.1, t.2.map fun p => p.confirm⟩ := rfl

/-! ### non-vacuity -/
example : nameOK [116, 195, 164] := ⟨by decide, by decide⟩
example : brokerOK ⟨1, [98, 49], 9092⟩ := ⟨by decide, ⟨by decide, by decide⟩, by decide⟩

end Kafka.Props.C10
