import KafkaModel.Model.Consumer
import KafkaModel.Model.Producer
import KafkaModel.Model.Net
import KafkaModel.Lemmas.Safe
/-!
  C13 — No broker reply can crash the client: every call returns Ok or Err.

  The model carries explicit `panic` / `diverge` outcomes (Model/Client.lean `Outcome`, Model/Fetch.lean `SetRes`, `RespRes`,
  `ChunkRes`) at every place where the Rust code indexes, slices, unwraps, asserts, recurses or loops on data that came
  from the wire.  The theorems below say that none of these outcomes is reachable, for every reply, every state and every
  behaviour of the environment (stream, decompressors, hash-map order).  Allocation is not part of the value-level model;
  what can be said in it is stated in `C13_frame_*` and `C13_reserve_*`; the rest is observed (counting allocator).
-/
namespace Kafka.Props.C13
open Kafka Kafka.Model

/-! ### framing (`__get_response`) -/

/-- reads never invent bytes: what `read_exact` returns came out of the stream -/
theorem readExact_len : ∀ (fuel : Nat) (s : Stream) (n : Nat) (acc : Bytes) (s' : Stream) (out : Bytes),
    readExact fuel s n acc = (s', .ok out) → out.length + s'.incoming.length ≤ acc.length + s.incoming.length := by
  intro fuel
  induction fuel with
  | zero =>
    intro s n acc s' out h
    simp only [readExact] at h
    split at h
    · simp at h; obtain ⟨rfl, rfl⟩ := h; omega
    · simp at h
  | succ f ih =>
    intro s n acc s' out h
    simp only [readExact] at h
    split at h
    · simp at h; obtain ⟨rfl, rfl⟩ := h; omega
    · cases hr : s.read (n - acc.length) with
      | mk s1 r1 =>
        rw [hr] at h
        cases r1 with
        | error e => simp at h
        | ok got =>
          simp only at h
          split at h
          · simp at h
          · have := ih s1 n (acc ++ got) s' out h
            have hg : got.length + s1.incoming.length ≤ s.incoming.length := by
              unfold Stream.read at hr
              split at hr
              · split at hr
                · simp at hr; obtain ⟨rfl, rfl⟩ := hr; simp
                · simp at hr; obtain ⟨rfl, rfl⟩ := hr; simp [List.length_take, List.length_drop]; omega
              · simp at hr
              · simp at hr; obtain ⟨rfl, rfl⟩ := hr; simp
              · simp at hr; obtain ⟨rfl, rfl⟩ := hr; simp [List.length_take, List.length_drop]; omega
            simp at this
            omega

theorem readExact_ge : ∀ (fuel : Nat) (s : Stream) (n : Nat) (acc : Bytes) (s' : Stream) (out : Bytes),
    readExact fuel s n acc = (s', .ok out) → out.length ≥ n := by
  intro fuel
  induction fuel with
  | zero =>
    intro s n acc s' out h
    simp only [readExact] at h
    split at h
    · simp at h; obtain ⟨_, rfl⟩ := h; omega
    · simp at h
  | succ f ih =>
    intro s n acc s' out h
    simp only [readExact] at h
    split at h
    · simp at h; obtain ⟨_, rfl⟩ := h; assumption
    · cases hr : s.read (n - acc.length) with
      | mk s1 r1 =>
        rw [hr] at h
        cases r1 with
        | error e => simp at h
        | ok got =>
          simp only at h
          split at h
          · simp at h
          · exact ih _ _ _ _ _ h

/-- **a negative size is an error and nothing more is read** (it was `vec![0; size as usize]`: a capacity-overflow panic) -/
theorem C13_frame_negative (s s2 : Stream) (szb : Bytes) (h1 : readExact 5 s 4 [] = (s2, .ok szb)) (hneg : decI szb < 0) :
    getResponse s = (s2, .error .codec) := by
  unfold getResponse
  simp [h1, hneg]

/-- **the payload buffer is bounded by what arrived**, whatever size was announced: a reply that is returned is no longer
    than the bytes the stream held (the buffer grows with the data received; the announced size alone allocates nothing) -/
theorem C13_frame_bounded (s s' : Stream) (p : Bytes) (h : getResponse s = (s', .ok p)) :
    p.length + 4 ≤ s.incoming.length := by
  unfold getResponse at h
  cases h1 : readExact 5 s 4 [] with
  | mk s2 r2 =>
    rw [h1] at h
    cases r2 with
    | error e => simp at h
    | ok szb =>
      simp only at h
      split at h
      · simp at h
      · cases h3 : readExact ((decI szb).toNat + 1) s2 (decI szb).toNat [] with
        | mk s3 r3 =>
          rw [h3] at h
          cases r3 with
          | error e => simp at h
          | ok payload =>
            simp at h
            obtain ⟨_, rfl⟩ := h
            have a := readExact_len _ _ _ _ _ _ h1
            have b := readExact_len _ _ _ _ _ _ h3
            -- the four size bytes were really read
            have hl := readExact_ge _ _ _ _ _ _ h1
            simp at a b
            omega

/-! ### pre-allocation from counts read off the wire -/

/-- what `Vec::reserve` / `with_capacity` is asked for an announced count (codecs.rs `MAX_PREALLOC`, fetch.rs `array_of!`) -/
def reserveFor (count : Int) : Nat := min count.toNat 4096

/-- **no count makes the client reserve 1 GiB**: for any announced count and any element size up to 256 KiB -/
theorem C13_reserve_bounded (count : Int) (elemSize : Nat) (h : elemSize ≤ 262143) : reserveFor count * elemSize < 2 ^ 30 := by
  unfold reserveFor
  have : min count.toNat 4096 ≤ 4096 := Nat.min_le_right _ _
  calc min count.toNat 4096 * elemSize ≤ 4096 * 262143 := Nat.mul_le_mul this h
    _ < 2 ^ 30 := by decide

/-- **a snappy block cannot announce more than 32 times its own size** (`uncompress_to`): the bound the code checks before
    resizing the output buffer; with replies of at most 64 KiB that is at most 2 MiB per block -/
theorem C13_snappy_announce_bounded (announced srcLen : Nat) (hok : ¬ announced > srcLen * 32) (hsrc : srcLen ≤ 65536) :
    announced < 2 ^ 30 := by
  have : announced ≤ 65536 * 32 := Nat.le_trans (Nat.le_of_not_gt hok) (Nat.mul_le_mul_right _ hsrc)
  omega

/-! ### decoding a fetch reply -/

theorem snappyChunks_no_panic (u : Bytes → Option Bytes) : ∀ (fuel : Nat) (s acc : Bytes), snappyChunks u fuel s acc ≠ .panic := by
  intro fuel
  induction fuel with
  | zero => intro s acc; simp [snappyChunks]
  | succ f ih =>
    intro s acc
    simp only [snappyChunks]
    split
    · simp
    · split
      · simp
      · split
        · simp
        · split
          · simp
          · split
            · exact ih _ _
            · simp

/-- **decoding a message set never panics**, for every input, nesting and behaviour of the decompressors (the slice panic of
    the snappy reader, the debug assertion on trailing bytes and unbounded recursion are gone) -/
theorem C13_fromSlice_no_panic (cx : Codecs) (debug : Bool) :
    ∀ (depth fuel : Nat) (raw : Bytes) (req : Int) (validate : Bool) (acc : List Message) (site : String),
      fromSlice cx debug depth fuel raw req validate acc ≠ .panic site := by
  intro depth
  induction depth using Nat.strongRecOn with
  | _ depth ihd =>
    intro fuel
    induction fuel with
    | zero => intro raw req validate acc site; simp [fromSlice]
    | succ f ihf =>
      intro raw req validate acc site
      rw [fromSlice]
      split
      · simp
      · split
        · simp
        · simp
        · simp only []
          split
          · exact ihf _ _ _ _ _
          · split
            · simp
            · rename_i d
              split
              · rename_i r hr
                -- a failure of the decompression step is an error, never a panic
                intro hp
                subst hp
                revert hr
                split
                · split <;> simp
                · split
                  · split
                    · simp
                    · split
                      · simp
                      · rename_i hs; intro _; exact absurd hs (snappyChunks_no_panic _ _ _ _)
                      · simp
                  · simp
              · rename_i v _
                cases hin : fromSlice cx debug d (v.length + 1) v req validate [] with
                | ok ms => exact ihf _ _ _ _ _
                | err e => simp
                | panic p => exact absurd hin (ihd d (Nat.lt_succ_self _) _ _ _ _ _ _)

/-- **at the nesting limit nothing is decompressed**: with no level left, decoding does not depend on the decompressors at
    all — a compressed entry is refused before its payload is looked at (recursion depth ≤ `depth`, by construction of
    `fromSlice`: every recursive call on decompressed data is at `depth - 1`) -/
theorem C13_nesting_limit (cx cx' : Codecs) (debug : Bool) :
    ∀ (fuel : Nat) (raw : Bytes) (req : Int) (validate : Bool) (acc : List Message),
      fromSlice cx debug 0 fuel raw req validate acc = fromSlice cx' debug 0 fuel raw req validate acc := by
  intro fuel
  induction fuel with
  | zero => intro raw req validate acc; simp [fromSlice]
  | succ f ih =>
    intro raw req validate acc
    rw [fromSlice, fromSlice]
    split
    · rfl
    · split
      · rfl
      · rfl
      · simp only []
        split
        · exact ih _ _ _ _
        · rfl

theorem repE_no_inr {α} (p : Bytes → Except (Sum Err String) (α × Bytes)) (hp : ∀ bs s, p bs ≠ .error (.inr s)) :
    ∀ (n : Nat) (bs : Bytes) (s : String), repE p n bs ≠ .error (.inr s) := by
  intro n
  induction n with
  | zero => intro bs s; simp [repE]
  | succ k ih =>
    intro bs s
    simp only [repE]
    cases h : p bs with
    | error e => cases e with
      | inl e => simp
      | inr s' => exact absurd h (hp _ _)
    | ok x =>
      obtain ⟨a, r⟩ := x
      simp only []
      cases h2 : repE p k r with
      | error e => cases e with
        | inl e => simp
        | inr s' => exact absurd h2 (ih _ _)
      | ok y => simp

theorem readPartition_no_panic (cx : Codecs) (debug : Bool) (depth : Nat) (req : Option FetchRequest) (topic : Bytes) (validate : Bool)
    (bs : Bytes) (s : String) : readPartition cx debug depth req topic validate bs ≠ .error (.inr s) := by
  unfold readPartition
  split
  · simp
  · simp only []
    split
    · simp
    · rename_i hs; intro h; simp at h; subst h; exact absurd hs (C13_fromSlice_no_panic _ _ _ _ _ _ _ _ _)
    · simp

theorem readTopic_no_panic (cx : Codecs) (debug : Bool) (depth : Nat) (req : Option FetchRequest) (validate : Bool)
    (bs : Bytes) (s : String) : readTopic cx debug depth req validate bs ≠ .error (.inr s) := by
  unfold readTopic
  simp only [bind, Except.bind, liftZ]
  cases zStr bs with
  | error e => simp
  | ok x =>
    obtain ⟨name, r⟩ := x
    simp only []
    cases zArrayLen r with
    | error e => simp
    | ok y =>
      obtain ⟨n, r2⟩ := y
      simp only []
      cases h : repE (readPartition cx debug depth req name validate) n r2 with
      | error e => cases e with
        | inl e => simp
        | inr s' => exact absurd h (repE_no_inr _ (fun bs s => readPartition_no_panic _ _ _ _ _ _ bs s) _ _ _)
      | ok z => simp [pure, Except.pure]

/-- **decoding a fetch reply returns a response or an error**, for every byte string -/
theorem C13_fetch_decode_total (cx : Codecs) (debug : Bool) (depth : Nat) (req : Option FetchRequest) (validate : Bool)
    (bs : Bytes) (s : String) : parseFetchResponse cx debug depth req validate bs ≠ .panic s := by
  unfold parseFetchResponse
  split
  · simp
  · simp
  · rename_i s' h
    exfalso
    revert h
    simp only [bind, Except.bind, liftZ]
    cases zI 4 bs with
    | error e => simp
    | ok x =>
      obtain ⟨c, r⟩ := x
      simp only []
      cases zArrayLen r with
      | error e => simp
      | ok y =>
        obtain ⟨n, r2⟩ := y
        simp only []
        cases h : repE (readTopic cx debug depth req validate) n r2 with
        | error e => cases e with
          | inl e => simp
          | inr s'' => exact absurd h (repE_no_inr _ (fun bs s => readTopic_no_panic _ _ _ _ _ bs s) _ _ _)
        | ok z => simp [pure, Except.pure]

/-! ### state updates from replies -/

theorem syncParts_total (idx : List (Int × Nat)) : ∀ (parts : List PartitionMd) (ps : List Nat),
    ∃ ps', syncParts idx parts ps = some ps' := by
  intro parts
  induction parts with
  | nil => intro ps; exact ⟨ps, rfl⟩
  | cons p r ih =>
    intro ps
    simp only [syncParts]
    split
    · exact ih _
    · exact ih _

/-- **`update_metadata` accepts every metadata reply**: whatever partition ids, leaders, duplicates or counts it carries, the
    state update completes (an id that is no index of the partitions vector was an index panic) -/
theorem C13_update_metadata_total (st : ClientState) (md : MetadataResponse) : ∃ st', st.updateMetadata md = some st' := by
  unfold ClientState.updateMetadata
  simp only []
  have hgo : ∀ (idx : List (Int × Nat)) (tms : List TopicMd) (ts : List (Bytes × List Nat)),
      ∃ ts', ClientState.updateMetadata.go idx tms ts = some ts' := by
    intro idx tms
    induction tms with
    | nil => intro ts; exact ⟨ts, rfl⟩
    | cons t r ih =>
      intro ts
      simp only [ClientState.updateMetadata.go]
      split
      · rename_i hnone
        obtain ⟨ps', hps⟩ := syncParts_total idx t.partitions _
        rw [hps] at hnone
        cases hnone
      · exact ih _
  obtain ⟨ts', h⟩ := hgo (updateBrokers st.brokers md.brokers).2 md.topics st.topics
  rw [h]
  exact ⟨_, rfl⟩

/-! ### the consumer's book-keeping on fetch replies -/

theorem assocSet_keeps {α β} [DecidableEq α] (m : List (α × β)) (k k2 : α) (v : β)
    (h : (assocGet m k2).isSome = true) : (assocGet (assocSet m k v) k2).isSome = true := by
  induction m with
  | nil => simp [assocGet] at h
  | cons x r ih =>
    obtain ⟨k', v'⟩ := x
    simp only [assocSet]
    by_cases hk : k' = k
    · simp only [hk, if_true]
      by_cases h2 : k = k2
      · simp [assocGet, h2]
      · simp only [assocGet, List.find?_cons, hk] at h ⊢
        simp only [h2, decide_false] at h ⊢
        exact h
    · simp only [hk, if_false]
      by_cases h2 : k' = k2
      · simp [assocGet, h2]
      · simp only [assocGet, List.find?_cons, h2, decide_false] at h ⊢
        exact ih h

/-- the topic is assigned and the partition is one the consumer fetches -/
def Known (c : Consumer) (x : Bytes × FetchPartition) : Prop :=
  ∃ tr, topicRef c.assignments x.1 = some tr ∧ (assocGet c.fetchOffsets (⟨tr, x.2.partition⟩ : TP)).isSome = true

theorem processPartition_safe (normalMax : Int) (n : Nat) (single : Bool) (c : Consumer) (tr : Nat) (p : FetchPartition)
    (hk : (assocGet c.fetchOffsets (⟨tr, p.partition⟩ : TP)).isSome = true) :
    (∀ s, (processPartition normalMax n single c tr p).1 ≠ .panic s) ∧ (processPartition normalMax n single c tr p).1 ≠ .diverge ∧
    (∀ c', (processPartition normalMax n single c tr p).1 = .ok c' →
      c'.assignments = c.assignments ∧ ∀ tp, (assocGet c.fetchOffsets tp).isSome = true → (assocGet c'.fetchOffsets tp).isSome = true) := by
  unfold processPartition
  cases hd : p.data with
  | error code => simp
  | ok v =>
    obtain ⟨hw, msgs⟩ := v
    simp only []
    cases hf : assocGet c.fetchOffsets (⟨tr, p.partition⟩ : TP) with
    | none => simp [hf] at hk
    | some fs =>
      simp only []
      cases hl : msgs.getLast? with
      | some last =>
        simp only []
        refine ⟨by simp, by simp, ?_⟩
        intro c' hc
        simp at hc
        subst hc
        exact ⟨rfl, fun tp h => assocSet_keeps _ _ _ _ h⟩
      | none =>
        simp only []
        split
        · split
          · refine ⟨by simp, by simp, ?_⟩
            intro c' hc
            simp at hc
            subst hc
            split <;> exact ⟨rfl, fun tp h => assocSet_keeps _ _ _ _ h⟩
          · split
            · simp
            · refine ⟨by simp, by simp, ?_⟩
              intro c' hc
              simp at hc
              subst hc
              split <;> exact ⟨rfl, fun tp h => h⟩
        · refine ⟨by simp, by simp, ?_⟩
          intro c' hc
          simp at hc
          subst hc
          exact ⟨rfl, fun tp h => h⟩

theorem processAll_safe (normalMax : Int) (n : Nat) (single : Bool) :
    ∀ (parts : List (Bytes × FetchPartition)) (c : Consumer) (ne : Bool), (∀ x ∈ parts, Known c x) →
      (∀ s, (processAll normalMax n single parts c ne).1 ≠ .panic s) ∧ (processAll normalMax n single parts c ne).1 ≠ .diverge := by
  intro parts
  induction parts with
  | nil => intro c ne _; simp [processAll]
  | cons x r ih =>
    intro c ne hk
    obtain ⟨t, p⟩ := x
    obtain ⟨tr, htr, hfo⟩ := hk (t, p) (by simp)
    simp only [processAll, htr]
    obtain ⟨h1, h2, h3⟩ := processPartition_safe normalMax n single c tr p hfo
    cases hpp : processPartition normalMax n single c tr p with
    | mk o got =>
      rw [hpp] at h1 h2 h3
      cases o with
      | ok c' =>
        simp only []
        obtain ⟨ha, hf⟩ := h3 c' rfl
        apply ih
        intro y hy
        obtain ⟨tr', htr', hfo'⟩ := hk y (by simp [hy])
        exact ⟨tr', by rw [ha]; exact htr', hf _ hfo'⟩
      | err e => simp
      | panic s => exact absurd rfl (h1 s)
      | diverge => exact absurd rfl h2

theorem preScan_known (c : Consumer) (resps : List FetchResponse) (h : preScan c resps = none) :
    ∀ x ∈ (resps.flatMap fun r => r.topics.flatMap fun t => t.partitions.map fun p => (t.topic, p)), Known c x := by
  intro x hx
  obtain ⟨r, hr, hx⟩ := List.mem_flatMap.mp hx
  obtain ⟨t, ht, hx⟩ := List.mem_flatMap.mp hx
  obtain ⟨p, hp, rfl⟩ := List.mem_map.mp hx
  unfold preScan at h
  rw [List.findSome?_eq_none_iff] at h
  have ht' := h t (List.mem_flatMap.mpr ⟨r, hr, ht⟩)
  unfold preScanTopic at ht'
  cases htr : topicRef c.assignments t.topic with
  | none => simp [htr] at ht'
  | some tr =>
    simp only [htr] at ht'
    rw [List.findSome?_eq_none_iff] at ht'
    have hp' := ht' p hp
    refine ⟨tr, htr, ?_⟩
    cases hd : p.data with
    | error code => simp [hd] at hp'
    | ok v =>
      simp only [hd] at hp'
      by_cases hs : (assocGet c.fetchOffsets (⟨tr, p.partition⟩ : TP)).isSome = true
      · exact hs
      · simp [hs] at hp'

/-- **processing fetch replies never panics**: whatever topics, partitions, counts and data the replies carry — requested or
    not — `process_fetch_responses` returns the messages or an error (the two `expect`s are unreachable: what they guard
    is checked, and reported as an error, before any state is touched) -/
theorem C13_process_responses_total {σ} (n : Nat) (resps : List FetchResponse) (w : WC σ) :
    (∀ s, (processResponses n resps w).2 ≠ .panic s) ∧ (processResponses n resps w).2 ≠ .diverge := by
  unfold processResponses
  simp only []
  cases hps : preScan w.cons resps with
  | some e => simp
  | none =>
    simp only []
    obtain ⟨h1, h2⟩ := processAll_safe w.cons.client.cfg.fetchMaxBytes n (decide (w.cons.fetchOffsets.length = 1)) _ w.cons false
      (preScan_known w.cons resps hps)
    cases hgo : processAll w.cons.client.cfg.fetchMaxBytes n (decide (w.cons.fetchOffsets.length = 1))
        (resps.flatMap fun r => r.topics.flatMap fun t => t.partitions.map fun p => (t.topic, p)) w.cons false with
    | mk o ne =>
      rw [hgo] at h1 h2
      cases o with
      | ok c' => simp
      | err e => simp
      | panic s => exact absurd rfl (h1 s)
      | diverge => exact absurd rfl h2

/-! ### every client operation returns a value or an error

  `Safe m` (Lemmas/Safe.lean): from every state — any metadata, any pool, any configuration — and for every behaviour of
  the environment (what connecting, sending and *receiving* do: `env.recv` may return any bytes whatsoever as a reply, any
  number of times), the run of `m` ends in `ok` or `err`.  -/

theorem fetchMetadata_go_safe {σ} (env : Env σ) (topics : List Bytes) (corr : Int) (c : Client) :
    ∀ hosts : List Bytes, Safe (fetchMetadata.go env topics corr c hosts) := by
  intro hosts
  induction hosts with
  | nil => intro w; simp [fetchMetadata.go]; trivial
  | cons h r ih =>
    simp only [fetchMetadata.go]
    refine Safe.try_bind (Safe.getConn env h) fun o ho => ?_
    cases o with
    | ok u =>
      simp only []
      refine Safe.try_bind (Safe.sendRequest env h _) fun o2 ho2 => ?_
      cases o2 with
      | ok u2 => exact Safe.bind (Safe.recvReply env h) fun b => Safe.decodeWith _ b
      | err e => exact ih
      | panic p => exact absurd ho2 (by simp [Outcome.fine])
      | diverge => exact absurd ho2 (by simp [Outcome.fine])
    | err e => exact ih
    | panic p => exact absurd ho (by simp [Outcome.fine])
    | diverge => exact absurd ho (by simp [Outcome.fine])

theorem fetchMetadata_safe {σ} (env : Env σ) (topics : List Bytes) : Safe (fetchMetadata env topics) := by
  unfold fetchMetadata
  exact Safe.bind Safe.nextCorr fun corr => Safe.bind Safe.getClient fun c => fetchMetadata_go_safe env topics corr c _

/-- **load_metadata** (and with it client creation paths, `load_metadata_all`): every metadata reply is digested or refused -/
theorem C13_load_metadata {σ} (env : Env σ) (topics : List Bytes) : Safe (loadMetadata env topics) := by
  unfold loadMetadata
  refine Safe.bind (fetchMetadata_safe env topics) fun md => Safe.bind Safe.getClient fun c => ?_
  obtain ⟨st', h⟩ := C13_update_metadata_total c.st md
  rw [h]
  exact Safe.modState _

theorem C13_load_metadata_all {σ} (env : Env σ) : Safe (loadMetadataAll env) := by
  unfold loadMetadataAll
  exact Safe.bind (Safe.modState _) fun _ => C13_load_metadata env []

theorem fetchOffsets_go_safe {σ} (env : Env σ) :
    ∀ (fuel : Nat) (reqs : List (Bytes × OffsetRequest)) (res : List (Bytes × List (Int × Int))), Safe (fetchOffsets.go env fuel reqs res) := by
  intro fuel
  induction fuel with
  | zero => intro reqs res; unfold fetchOffsets.go; exact Safe.pure _
  | succ n ih =>
    intro reqs res
    simp only [fetchOffsets.go]
    split
    · exact Safe.pure _
    · refine Safe.bind Safe.get fun w => ?_
      split
      · exact Safe.pure _
      · exact Safe.bind (Safe.sendReceive env _ _ _) fun resp => Safe.bind (Safe.ofExcept _) fun res' => ih _ _

/-- **fetch_offsets** -/
theorem C13_fetch_offsets {σ} (env : Env σ) (topics : List Bytes) (time : Int) : Safe (fetchOffsets env topics time) := by
  unfold fetchOffsets
  exact Safe.bind Safe.nextCorr fun corr => Safe.bind Safe.getClient fun c => fetchOffsets_go_safe env _ _ _

theorem listOffsets_go_safe {σ} (env : Env σ) :
    ∀ (fuel : Nat) (reqs : List (Bytes × ListOffsetsRequest)) (res : List (Bytes × List (Int × Int × Int))), Safe (listOffsets.go env fuel reqs res) := by
  intro fuel
  induction fuel with
  | zero => intro reqs res; unfold listOffsets.go; exact Safe.pure _
  | succ n ih =>
    intro reqs res
    simp only [listOffsets.go]
    split
    · exact Safe.pure _
    · refine Safe.bind Safe.get fun w => ?_
      split
      · exact Safe.pure _
      · exact Safe.bind (Safe.sendReceive env _ _ _) fun resp => Safe.bind (Safe.ofExcept _) fun res' => ih _ _

/-- **list_offsets** -/
theorem C13_list_offsets {σ} (env : Env σ) (topics : List Bytes) (time : Int) : Safe (listOffsets env topics time) := by
  unfold listOffsets
  exact Safe.bind Safe.nextCorr fun corr => Safe.bind Safe.getClient fun c => listOffsets_go_safe env _ _ _

/-- **fetch_topic_offsets** -/
theorem C13_fetch_topic_offsets {σ} (env : Env σ) (topic : Bytes) (time : Int) : Safe (fetchTopicOffsets env topic time) := by
  unfold fetchTopicOffsets
  refine Safe.bind (C13_fetch_offsets env _ _) fun m => ?_
  simp only []
  split
  · exact Safe.fail _
  · exact Safe.pure _

theorem zSendReceive_safe {σ} (env : Env σ) (validate : Bool) (host : Bytes) (rq : FetchRequest) : Safe (zSendReceive env validate host rq) := by
  unfold zSendReceive
  refine Safe.bind (Safe.getConn env host) fun _ => Safe.bind (Safe.sendRequest env host _) fun _ =>
    Safe.bind (Safe.recvReply env host) fun b => ?_
  cases h : parseFetchResponse env.codecs env.debug env.depth (some rq) validate b with
  | ok r => exact Safe.pure _
  | err e => exact Safe.fail _
  | panic s => exact absurd h (C13_fetch_decode_total _ _ _ _ _ _ _)

/-- **fetch_messages**: whatever each broker answers -/
theorem C13_fetch_messages {σ} (env : Env σ) (input : List FetchArg) : Safe (fetchMessages env input) := by
  unfold fetchMessages
  exact Safe.bind Safe.nextCorr fun corr => Safe.bind Safe.getClient fun c =>
    Safe.forHosts env _ (fun h a => zSendReceive_safe env _ h a) _ _

/-- **produce_messages** (all acknowledgement modes) -/
theorem C13_produce_messages {σ} (env : Env σ) (acks : Int) (toSecs toNanos : Nat) (msgs : List ProduceArg) :
    Safe (produceMessages env acks toSecs toNanos msgs) := by
  unfold produceMessages
  refine Safe.bind (Safe.ofExcept _) fun to => ?_
  unfold internalProduce
  refine Safe.bind Safe.nextCorr fun corr => Safe.bind Safe.getClient fun c => ?_
  split
  · exact Safe.fail _
  · split
    · exact Safe.bind (Safe.forHosts env _ (fun h a => Safe.bind (Safe.getConn env h) fun _ => Safe.sendRequest env h _) _ _) fun _ => Safe.pure _
    · exact Safe.bind (Safe.forHosts env _ (fun h a => Safe.sendReceive env h _ _) _ _) fun rs => Safe.pure _

theorem coordinatorStep_safe {σ} (env : Env σ) (group : Bytes) (req : GroupCoordinatorRequest) : Safe (coordinatorStep env group req) := by
  unfold coordinatorStep
  refine Safe.bind Safe.get fun w => ?_
  split
  · exact Safe.fail _
  · rename_i host _
    simp only []
    split
    · refine Safe.bind ?_ fun _ => ?_
      · intro w'
        cases env.connect w'.world host with
        | mk wd ok => trivial
      refine Safe.bind (Safe.sendRequest env host _) fun _ => Safe.bind (Safe.recvReply env host) fun b =>
        Safe.bind (Safe.decodeWith _ b) fun r => ?_
      split
      · exact Safe.bind Safe.getClient fun c => Safe.bind (Safe.modState _) fun _ => Safe.pure _
      · exact Safe.pure _
      · exact Safe.pure _
    · refine Safe.bind (Safe.sendRequest env host _) fun _ => Safe.bind (Safe.recvReply env host) fun b =>
        Safe.bind (Safe.decodeWith _ b) fun r => ?_
      split
      · exact Safe.bind Safe.getClient fun c => Safe.bind (Safe.modState _) fun _ => Safe.pure _
      · exact Safe.pure _
      · exact Safe.pure _

theorem getGroupCoordinator_safe {σ} (env : Env σ) (group : Bytes) : Safe (getGroupCoordinator env group) := by
  unfold getGroupCoordinator
  refine Safe.bind Safe.getClient fun c => ?_
  split
  · exact Safe.pure _
  · exact Safe.bind Safe.nextCorr fun corr => Safe.retrying _ _ (coordinatorStep_safe env group _) _ _ (by omega) (by omega)

theorem commitStep_safe {σ} (env : Env σ) (req : OffsetCommitRequest) : Safe (commitStep env req) := by
  unfold commitStep
  refine Safe.bind (getGroupCoordinator_safe env _) fun host => Safe.bind (Safe.sendReceive env host _ _) fun resp => ?_
  split
  · exact Safe.pure _
  · exact Safe.pure _
  · exact Safe.bind (Safe.modState _) fun _ => Safe.pure _
  · exact Safe.pure _

/-- **commit_offsets**: any coordinator answer, any commit answer, any number of retryable codes — the call returns
    (termination of the retry loop included: `diverge` is excluded) -/
theorem C13_commit_offsets {σ} (env : Env σ) (group : Bytes) (offsets : List (Bytes × Int × Int)) :
    Safe (commitOffsets env group offsets) := by
  unfold commitOffsets
  refine Safe.bind Safe.getClient fun c => ?_
  split
  · exact Safe.fail _
  · refine Safe.bind Safe.nextCorr fun corr => ?_
    simp only []
    split
    · exact Safe.fail _
    · split
      · exact Safe.pure _
      · exact Safe.retrying _ _ (commitStep_safe env _) _ _ (by omega) (by omega)

theorem fetchGroupStep_safe {σ} (env : Env σ) (req : OffsetFetchRequest) : Safe (fetchGroupStep env req) := by
  unfold fetchGroupStep
  refine Safe.bind (getGroupCoordinator_safe env _) fun host => Safe.bind (Safe.sendReceive env host _ _) fun resp => ?_
  split
  · exact Safe.pure _
  · exact Safe.pure _
  · exact Safe.bind (Safe.modState _) fun _ => Safe.pure _
  · exact Safe.pure _

/-- **fetch_group_offsets** -/
theorem C13_fetch_group_offsets {σ} (env : Env σ) (group : Bytes) (parts : List (Bytes × Int)) :
    Safe (fetchGroupOffsets env group parts) := by
  unfold fetchGroupOffsets
  refine Safe.bind Safe.getClient fun c => ?_
  split
  · exact Safe.fail _
  · refine Safe.bind Safe.nextCorr fun corr => ?_
    simp only []
    split
    · exact Safe.fail _
    · exact Safe.retrying _ _ (fetchGroupStep_safe env _) _ _ (by omega) (by omega)

/-- **fetch_group_topic_offset** -/
theorem C13_fetch_group_topic_offset {σ} (env : Env σ) (group topic : Bytes) : Safe (fetchGroupTopicOffset env group topic) := by
  unfold fetchGroupTopicOffset
  refine Safe.bind Safe.getClient fun c => ?_
  split
  · exact Safe.fail _
  · refine Safe.bind Safe.nextCorr fun corr => ?_
    simp only []
    split
    · exact Safe.fail _
    · exact Safe.bind (Safe.retrying _ _ (fetchGroupStep_safe env _) _ _ (by omega) (by omega)) fun m => Safe.pure _

/-! ### the consumer and the producer -/

theorem liftClient_safe {σ α} {m : CM σ α} (hm : Safe m) : Safe (liftClient m : CoM σ α) := by
  intro w
  unfold liftClient
  have h := hm ⟨w.world, w.cons.client⟩
  cases hms : m ⟨w.world, w.cons.client⟩ with
  | mk w' o => rw [hms] at h; exact h

theorem processResponses_safe {σ} (n : Nat) (resps : List FetchResponse) : Safe (processResponses n resps : CoM σ PollResult) := by
  intro w
  obtain ⟨h1, h2⟩ := C13_process_responses_total n resps w
  cases h : (processResponses n resps w).2 with
  | ok r => trivial
  | err e => trivial
  | panic s => exact absurd h (h1 s)
  | diverge => exact absurd h h2

/-- **poll**: whatever the brokers answer to the consumer's fetches -/
theorem C13_poll {σ} (env : Env σ) : Safe (poll env : CoM σ PollResult) := by
  unfold poll
  refine Safe.bind (fun _ => trivial) fun c => ?_
  split
  · refine Safe.bind (Safe.modify _) fun _ => ?_
    split
    · exact Safe.fail _
    · exact Safe.bind (liftClient_safe (C13_fetch_messages env _)) fun resps => processResponses_safe _ _
  · exact Safe.bind (liftClient_safe (C13_fetch_messages env _)) fun resps => processResponses_safe _ _

/-- **commit_consumed** -/
theorem C13_commit_consumed {σ} (env : Env σ) : Safe (commitConsumed env : CoM σ Unit) := by
  unfold commitConsumed
  refine Safe.bind (fun _ => trivial) fun c => ?_
  split
  · exact Safe.fail _
  · exact Safe.bind (liftClient_safe (C13_commit_offsets env _ _)) fun _ => Safe.modify _

theorem loadState_ins_safe {σ} (as : List (Bytes × List Int)) :
    ∀ (tpos : List (Bytes × List (Int × Int))) (acc : List (TP × Consumed)), Safe (loadState.ins as tpos acc : CM σ _) := by
  intro tpos
  induction tpos with
  | nil => intro acc; unfold loadState.ins; exact Safe.pure _
  | cons x r ih =>
    intro acc
    obtain ⟨t, pos⟩ := x
    unfold loadState.ins
    split
    · exact ih _
    · exact ih _

theorem loadState_go_safe {σ} (as : List (Bytes × List Int)) (maxBytes : Int) (offsets : List (Bytes × List (Int × Int))) :
    ∀ (subs : List (Bytes × List Int)) (acc : List (TP × FetchState)), Safe (loadState.go as maxBytes offsets subs acc : CM σ _) := by
  intro subs
  induction subs with
  | nil => intro acc; unfold loadState.go; exact Safe.pure _
  | cons x r ih =>
    intro acc
    obtain ⟨t, ps⟩ := x
    unfold loadState.go
    split
    · exact Safe.fail _
    · exact ih _

theorem loadState_go2_safe {σ} (fallback : Fallback) (as : List (Bytes × List Int)) (consumed : List (TP × Consumed)) (maxBytes : Int)
    (latest earliest : List (Bytes × List (Int × Int))) :
    ∀ (xs : List (Bytes × Int)) (acc : List (TP × FetchState)), Safe (loadState.go2 fallback as consumed maxBytes latest earliest xs acc : CM σ _) := by
  intro xs
  induction xs with
  | nil => intro acc; unfold loadState.go2; exact Safe.pure _
  | cons x r ih =>
    intro acc
    obtain ⟨t, p⟩ := x
    unfold loadState.go2
    simp only []
    split
    · exact ih _
    · exact Safe.fail _

theorem loadState_safe {σ} (env : Env σ) (group : Bytes) (fallback : Fallback) (as subs : List (Bytes × List Int)) :
    Safe (loadState env group fallback as subs) := by
  unfold loadState
  refine Safe.bind ?_ fun consumed => Safe.bind Safe.getClient fun c => ?_
  · split
    · exact Safe.pure _
    · exact Safe.bind (C13_fetch_group_offsets env _ _) fun tpos => loadState_ins_safe _ _ _
  · simp only []
    split
    · exact Safe.bind (C13_fetch_offsets env _ _) fun o => Safe.bind (loadState_go_safe _ _ _ _ _) fun fo => Safe.pure _
    · exact Safe.bind (C13_fetch_offsets env _ _) fun l => Safe.bind (C13_fetch_offsets env _ _) fun e =>
        Safe.bind (loadState_go2_safe _ _ _ _ _ _ _ _) fun fo => Safe.pure _

theorem createState_safe {σ} (env : Env σ) (group : Bytes) (fallback : Fallback) (needMd : Bool) (as : List (Bytes × List Int)) :
    Safe (createState env group fallback needMd as) := by
  unfold createState
  refine Safe.bind ?_ fun _ => Safe.bind Safe.getClient fun c => Safe.bind (Safe.ofExcept _) fun ss => loadState_safe env _ _ _ _
  split
  · exact C13_load_metadata_all env
  · exact Safe.pure _

/-- **Consumer creation** (`Builder::create`: metadata load, partition resolution, committed offsets, start offsets) -/
theorem C13_consumer_create {σ} (env : Env σ) (b : ConsumerBuilder) : Safe (b.create env) := by
  intro world
  unfold ConsumerBuilder.create
  simp only []
  split
  · trivial
  · split
    · trivial
    · split
      · trivial
      · trivial
      · rename_i w s hms
        exact (Safe.not_panic (createState_safe env _ _ _ _) hms).elim
      · rename_i w hms
        exact (Safe.not_diverge (createState_safe env _ _ _ _) hms).elim

/-- **Producer creation** -/
theorem C13_producer_create {σ} (env : Env σ) (b : ProducerBuilder) : Safe (b.create env) := by
  intro world
  unfold ProducerBuilder.create
  simp only []
  split
  · trivial
  · split
    · trivial
    · trivial
    · rename_i w s hms
      refine (Safe.not_panic ?_ hms).elim
      split
      · simp only [Bool.false_eq_true, if_false]; exact Safe.pure _
      · simp only [if_true]; exact C13_load_metadata_all env
    · rename_i w hms
      refine (Safe.not_diverge ?_ hms).elim
      split
      · simp only [Bool.false_eq_true, if_false]; exact Safe.pure _
      · simp only [if_true]; exact C13_load_metadata_all env

/-- **Producer::send_all** -/
theorem C13_send_all {σ} (env : Env σ) (recs : List Record) : Safe (sendAll env recs) := by
  intro w
  unfold sendAll
  simp only []
  have h : Safe (internalProduce env w.prod.acks w.prod.ackTimeout
      (partitionLazy w.prod.client.st w.prod.partitions w.prod.cntr recs).1) := by
    -- `produce_messages` without the duration conversion
    unfold internalProduce
    refine Safe.bind Safe.nextCorr fun corr => Safe.bind Safe.getClient fun c => ?_
    split
    · exact Safe.fail _
    · split
      · exact Safe.bind (Safe.forHosts env _ (fun h a => Safe.bind (Safe.getConn env h) fun _ => Safe.sendRequest env h _) _ _) fun _ => Safe.pure _
      · exact Safe.bind (Safe.forHosts env _ (fun h a => Safe.sendReceive env h _ _) _ _) fun rs => Safe.pure _
  have := h ⟨w.world, w.prod.client⟩
  cases hms : internalProduce env w.prod.acks w.prod.ackTimeout
      (partitionLazy w.prod.client.st w.prod.partitions w.prod.cntr recs).1 ⟨w.world, w.prod.client⟩ with
  | mk w' o => rw [hms] at this; exact this

/-- **Producer::send**: any produce reply — no topic, several topics, no or several partitions — is a value or an error -/
theorem C13_send {σ} (env : Env σ) (r : Record) : Safe (send env r) := by
  unfold send
  refine Safe.bind (C13_send_all env [r]) fun rs => Safe.bind Safe.get fun w => ?_
  split
  · exact Safe.pure _
  · split
    · split
      · split
        · exact Safe.pure _
        · exact Safe.fail _
      · exact Safe.fail _
    · exact Safe.fail _

end Kafka.Props.C13
