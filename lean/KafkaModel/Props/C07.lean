import KafkaModel.Model.Consumer
/-!
  C07 — Consumer starts at the committed offset when valid, else at the fallback offset.
-/
namespace Kafka.Props.C07
open Kafka Kafka.Model

/-- specification: the committed offset if it lies within [earliest, latest], else the fallback position -/
def specStart (committed : Option Int) (e l : Int) (fb : Fallback) : Except Err Int :=
  match committed with
  | some c => if e ≤ c ∧ c ≤ l then .ok c else
      match fb with | .latest => .ok l | .earliest => .ok e | .byTime _ => .error (.kafka (-1))
  | none => match fb with | .latest => .ok l | .earliest => .ok e | .byTime _ => .error (.kafka (-1))

/-- what the coordinator reports ↦ what is committed: −1 is "nothing" -/
def committedOf (reported : Int) : Option Int := if reported ≠ -1 then some reported else none

/-- **start offset**: for every earliest / latest / committed combination — boundaries included — and every fallback -/
theorem C07_start (reported e l : Int) (fb : Fallback) :
    startOffset (consumedOf reported) e l fb = specStart (committedOf reported) e l fb := by
  unfold startOffset consumedOf specStart committedOf
  by_cases h : reported = -1
  · simp [h]; cases fb <;> rfl
  · simp only [ne_eq, h, not_false_eq_true, if_true]
    by_cases hin : e ≤ reported ∧ reported ≤ l
    · have : reported - 1 + 1 ≥ e ∧ reported - 1 < l := by omega
      simp only [this, hin, and_self, if_true]
      congr 1; omega
    · have : ¬ (reported - 1 + 1 ≥ e ∧ reported - 1 < l) := by omega
      simp only [this, hin, if_false]
      cases fb <;> rfl

/-- the boundaries named in the property -/
theorem C07_committed_eq_earliest (e l : Int) (h : e ≤ l) (hne : e ≠ -1) (fb : Fallback) :
    startOffset (consumedOf e) e l fb = .ok e := by
  rw [C07_start]; simp [specStart, committedOf, hne, h]

theorem C07_committed_eq_latest (e l : Int) (h : e ≤ l) (hne : l ≠ -1) (fb : Fallback) :
    startOffset (consumedOf l) e l fb = .ok l := by
  rw [C07_start]; simp [specStart, committedOf, hne, h]

theorem C07_committed_below (c e l : Int) (h : c < e) (hne : c ≠ -1) :
    startOffset (consumedOf c) e l .earliest = .ok e ∧ startOffset (consumedOf c) e l .latest = .ok l := by
  rw [C07_start, C07_start]
  have : ¬ (e ≤ c ∧ c ≤ l) := by omega
  simp [specStart, committedOf, hne, this]

theorem C07_committed_above (c e l : Int) (h : l < c) (hne : c ≠ -1) :
    startOffset (consumedOf c) e l .earliest = .ok e ∧ startOffset (consumedOf c) e l .latest = .ok l := by
  rw [C07_start, C07_start]
  have : ¬ (e ≤ c ∧ c ≤ l) := by omega
  simp [specStart, committedOf, hne, this]

/-- never anywhere else: a start offset is the committed offset, the earliest or the latest -/
theorem C07_nowhere_else (reported e l o : Int) (fb : Fallback) (h : startOffset (consumedOf reported) e l fb = .ok o) :
    o = reported ∨ o = e ∨ o = l := by
  rw [C07_start] at h
  unfold specStart committedOf at h
  split at h
  · split at h
    · rename_i c hc _; simp at h
      split at hc <;> simp at hc
      left; rw [← h, ← hc]
    · cases fb <;> simp at h <;> simp [h]
  · cases fb <;> simp at h <;> simp [h]

/-- with a by-time fallback and no valid commit no offset can be determined: creation fails -/
theorem C07_by_time_fails (reported e l t : Int) (h : reported = -1 ∨ reported < e ∨ l < reported) :
    startOffset (consumedOf reported) e l (.byTime t) = .error (.kafka (-1)) := by
  rw [C07_start]
  unfold specStart committedOf
  by_cases h1 : reported = -1
  · simp [h1]
  · have : ¬ (e ≤ reported ∧ reported ≤ l) := by omega
    simp [h1, this]

/-- protocol v0's way of saying "nothing committed" (code 3) reads as −1, i.e. none -/
theorem C07_no_commit_v0 (p : PartOffsetFetchResp) (h : p.err = 3) :
    p.getOffsets = .ok (p.partition, -1) ∧ consumedOf (-1) = none := by
  simp [PartOffsetFetchResp.getOffsets, kafkaCode, h, consumedOf]

/-! ### non-vacuity -/
example : startOffset (consumedOf 5) 5 9 .latest = .ok 5 := by simp [startOffset, consumedOf]
example : startOffset (consumedOf 4) 5 9 .latest = .ok 9 := by simp [startOffset, consumedOf]
example : startOffset (consumedOf 10) 5 9 .earliest = .ok 5 := by simp [startOffset, consumedOf]

/-! ## every assigned partition at once: the decision loops of `load_fetch_states` (consumer/state.rs:241-354) -/

theorem aget_set_self {α β} [DecidableEq α] (m : List (α × β)) (k : α) (v : β) : assocGet (assocSet m k v) k = some v := by
  induction m with
  | nil => simp [assocSet, assocGet]
  | cons x xs ih =>
    obtain ⟨k', v'⟩ := x
    by_cases h : k' = k
    · simp [assocSet, assocGet, h]
    · simp only [assocSet, h, if_false]
      simp only [assocGet, List.find?, h, decide_false] at ih ⊢
      exact ih

theorem aget_set_other {α β} [DecidableEq α] (m : List (α × β)) (k k2 : α) (v : β) (hne : k2 ≠ k) :
    assocGet (assocSet m k v) k2 = assocGet m k2 := by
  induction m with
  | nil => simp [assocSet, assocGet, Ne.symm hne]
  | cons x xs ih =>
    obtain ⟨k', v'⟩ := x
    by_cases h : k' = k
    · subst h; simp [assocSet, assocGet, Ne.symm hne]
    · simp only [assocSet, h, if_false]
      by_cases h2 : k' = k2
      · simp [assocGet, h2]
      · simp only [assocGet, List.find?, h2, decide_false] at ih ⊢
        exact ih

variable {σ : Type}

/-- the table key of an assigned partition -/
def keyOf (as : List (Bytes × List Int)) (tp : Bytes × Int) : TP := ⟨(topicRef as tp.1).getD 0, tp.2⟩

/-- what the broker reported for a partition in an Offsets reply (indexed), −1 when it said nothing -/
def reported (tbl : List (Bytes × List (Int × Int))) (tp : Bytes × Int) : Int :=
  ((assocGet tbl tp.1).bind (assocGet · tp.2)).getD (-1)

/-- the decision for one assigned partition, from the loaded commits and the two Offsets replies -/
def decide1 (fb : Fallback) (as : List (Bytes × List Int)) (consumed : List (TP × Consumed))
    (latest earliest : List (Bytes × List (Int × Int))) (tp : Bytes × Int) : Except Err Int :=
  startOffset ((assocGet consumed (keyOf as tp)).map (·.offset)) (reported earliest tp) (reported latest tp) fb

theorem C07_go2_ok (fb : Fallback) (as : List (Bytes × List Int)) (consumed : List (TP × Consumed)) (mb : Int)
    (latest earliest : List (Bytes × List (Int × Int))) :
    ∀ (tps : List (Bytes × Int)) (acc : List (TP × FetchState)) (w w' : W σ) (fo : List (TP × FetchState)),
      loadState.go2 fb as consumed mb latest earliest tps acc w = (w', Outcome.ok fo) →
      w' = w ∧ ∀ k, assocGet fo k =
        match tps.reverse.find? (fun tp => keyOf as tp = k) with
        | some tp => (match decide1 fb as consumed latest earliest tp with | .ok o => some ⟨o, mb⟩ | .error _ => none)
        | none => assocGet acc k := by
  intro tps
  induction tps with
  | nil =>
    intro acc w w' fo h
    simp only [loadState.go2, pure, Prod.mk.injEq, Outcome.ok.injEq] at h
    obtain ⟨h1, h2⟩ := h
    subst h1 h2
    simp
  | cons tp r ih =>
    intro acc w w' fo h
    obtain ⟨t, p⟩ := tp
    simp only [loadState.go2] at h
    change (match decide1 fb as consumed latest earliest (t, p) with
      | Except.ok o => loadState.go2 fb as consumed mb latest earliest r (assocSet acc (keyOf as (t, p)) ⟨o, mb⟩)
      | Except.error e => M.fail e) w = _ at h
    cases ho : decide1 fb as consumed latest earliest (t, p) with
    | ok o =>
      rw [ho] at h
      obtain ⟨hw, hk⟩ := ih _ _ _ _ h
      refine ⟨hw, fun k => ?_⟩
      rw [hk k, List.reverse_cons, List.find?_append]
      cases hf : r.reverse.find? (fun tp => keyOf as tp = k) with
      | some tp' => simp
      | none =>
        simp only [Option.none_or, List.find?_cons, List.find?_nil]
        by_cases hkey : keyOf as (t, p) = k
        · simp only [hkey, decide_true]
          rw [ho]; subst hkey
          exact aget_set_self _ _ _
        · simp only [hkey, decide_false]
          exact aget_set_other _ _ _ _ (Ne.symm hkey)
    | error e => rw [ho] at h; simp [M.fail] at h

/-- the loop never panics or diverges, and a failure is the failure of some assigned partition's decision -/
theorem C07_go2_err (fb : Fallback) (as : List (Bytes × List Int)) (consumed : List (TP × Consumed)) (mb : Int)
    (latest earliest : List (Bytes × List (Int × Int))) :
    ∀ (tps : List (Bytes × Int)) (acc : List (TP × FetchState)) (w : W σ),
      (∃ fo, loadState.go2 fb as consumed mb latest earliest tps acc w = (w, Outcome.ok fo)) ∨
      (∃ e, loadState.go2 fb as consumed mb latest earliest tps acc w = (w, Outcome.err e) ∧
        ∃ tp ∈ tps, decide1 fb as consumed latest earliest tp = .error e) := by
  intro tps
  induction tps with
  | nil => intro acc w; left; exact ⟨acc, rfl⟩
  | cons tp r ih =>
    intro acc w
    obtain ⟨t, p⟩ := tp
    simp only [loadState.go2]
    change (∃ fo, (match decide1 fb as consumed latest earliest (t, p) with
      | Except.ok o => loadState.go2 fb as consumed mb latest earliest r (assocSet acc (keyOf as (t, p)) ⟨o, mb⟩)
      | Except.error e => M.fail e) w = _) ∨ (∃ e, (match decide1 fb as consumed latest earliest (t, p) with
      | Except.ok o => loadState.go2 fb as consumed mb latest earliest r (assocSet acc (keyOf as (t, p)) ⟨o, mb⟩)
      | Except.error e => M.fail e) w = _ ∧ _)
    cases ho : decide1 fb as consumed latest earliest (t, p) with
    | ok o =>
      simp only []
      rcases ih (assocSet acc (keyOf as (t, p)) ⟨o, mb⟩) w with h | ⟨e, h, tp, hm, hd⟩
      · left; exact h
      · right; exact ⟨e, h, tp, List.mem_cons_of_mem _ hm, hd⟩
    | error e =>
      right; exact ⟨e, rfl, (t, p), List.mem_cons_self, ho⟩

/-- a successful load means every assigned partition's decision succeeded -/
theorem C07_go2_all_ok (fb : Fallback) (as : List (Bytes × List Int)) (consumed : List (TP × Consumed)) (mb : Int)
    (latest earliest : List (Bytes × List (Int × Int))) :
    ∀ (tps : List (Bytes × Int)) (acc : List (TP × FetchState)) (w w' : W σ) (fo : List (TP × FetchState)),
      loadState.go2 fb as consumed mb latest earliest tps acc w = (w', Outcome.ok fo) →
      ∀ tp ∈ tps, ∃ o, decide1 fb as consumed latest earliest tp = .ok o := by
  intro tps
  induction tps with
  | nil => intro acc w w' fo _ tp htp; cases htp
  | cons tp0 r ih =>
    intro acc w w' fo h tp htp
    obtain ⟨t, p⟩ := tp0
    simp only [loadState.go2] at h
    change (match decide1 fb as consumed latest earliest (t, p) with
      | Except.ok o => loadState.go2 fb as consumed mb latest earliest r (assocSet acc (keyOf as (t, p)) ⟨o, mb⟩)
      | Except.error e => M.fail e) w = _ at h
    cases ho : decide1 fb as consumed latest earliest (t, p) with
    | ok o =>
      rw [ho] at h
      rcases List.mem_cons.mp htp with rfl | hm
      · exact ⟨o, ho⟩
      · exact ih _ _ _ _ h tp hm
    | error e => rw [ho] at h; simp [M.fail] at h

theorem nodup_map_inj {α β} (f : α → β) : ∀ (l : List α), (l.map f).Nodup → ∀ x ∈ l, ∀ y ∈ l, f x = f y → x = y := by
  intro l
  induction l with
  | nil => intro _ x hx; cases hx
  | cons a l ih =>
    intro hnd x hx y hy hxy
    rw [List.map_cons, List.nodup_cons] at hnd
    rcases List.mem_cons.mp hx with rfl | hx' <;> rcases List.mem_cons.mp hy with rfl | hy'
    · rfl
    · exact absurd (hxy ▸ List.mem_map_of_mem hy') hnd.1
    · exact absurd (hxy ▸ List.mem_map_of_mem hx') hnd.1
    · exact ih hnd.2 x hx' y hy' hxy

theorem find_rev_nodup {α β} [DecidableEq β] (f : α → β) (l : List α) (hnd : (l.map f).Nodup) (x : α) (hx : x ∈ l) :
    l.reverse.find? (fun y => f y = f x) = some x := by
  have hmem : x ∈ l.reverse := List.mem_reverse.mpr hx
  cases hf : l.reverse.find? (fun y => f y = f x) with
  | none =>
    have := List.find?_eq_none.mp hf x hmem
    simp at this
  | some y =>
    have h1 := List.find?_some hf
    have h2 : y ∈ l := List.mem_reverse.mp (List.mem_of_find?_eq_some hf)
    simp only [decide_eq_true_eq] at h1
    rw [nodup_map_inj _ _ hnd _ h2 _ hx h1]

/-- **every assigned partition** (multi-topic, multi-partition): when the keys of the assigned partitions are pairwise
    distinct, a successful load leaves, for each of them, exactly the specified start offset and the configured fetch size;
    the world (wire) is untouched by the decision loop -/
theorem C07_assignment (fb : Fallback) (as : List (Bytes × List Int)) (consumed : List (TP × Consumed)) (mb : Int)
    (latest earliest : List (Bytes × List (Int × Int))) (tps : List (Bytes × Int)) (w w' : W σ) (fo : List (TP × FetchState))
    (hnd : (tps.map (keyOf as)).Nodup)
    (h : loadState.go2 fb as consumed mb latest earliest tps [] w = (w', Outcome.ok fo)) :
    w' = w ∧
    (∀ tp ∈ tps, ∀ c, (assocGet consumed (keyOf as tp)).map (·.offset) = consumedOf c →
      ∃ o, specStart (committedOf c) (reported earliest tp) (reported latest tp) fb = .ok o ∧
           assocGet fo (keyOf as tp) = some ⟨o, mb⟩) ∧
    (∀ k, (∀ tp ∈ tps, keyOf as tp ≠ k) → assocGet fo k = none) := by
  obtain ⟨hw, hk⟩ := C07_go2_ok fb as consumed mb latest earliest tps [] w w' fo h
  refine ⟨hw, ?_, ?_⟩
  · intro tp htp c hc
    have hfind := find_rev_nodup (keyOf as) tps hnd tp htp
    have hk' := hk (keyOf as tp)
    rw [hfind] at hk'
    obtain ⟨o, hd⟩ := C07_go2_all_ok fb as consumed mb latest earliest tps [] w w' fo h tp htp
    simp only [hd] at hk'
    refine ⟨o, ?_, hk'⟩
    rw [← C07_start, ← hc]; exact hd
  · intro k hk2
    have hfind : tps.reverse.find? (fun tp' => keyOf as tp' = k) = none := by
      apply List.find?_eq_none.mpr
      intro tp' hm; simp only [decide_eq_true_eq]; exact hk2 tp' (List.mem_reverse.mp hm)
    have := hk k
    rw [hfind] at this
    simpa [assocGet] using this

/-! ### no group, or nothing committed for any partition: every partition starts at the fallback position -/

theorem fold_fallback (tr : Nat) (mb : Int) (f : Int → Int) : ∀ (ps : List Int) (acc : List (TP × FetchState)) (k : TP),
    assocGet (ps.foldl (fun acc p => assocSet acc ⟨tr, p⟩ ⟨f p, mb⟩) acc) k =
      match ps.reverse.find? (fun p => (⟨tr, p⟩ : TP) = k) with
      | some p => some ⟨f p, mb⟩
      | none => assocGet acc k := by
  intro ps
  induction ps with
  | nil => intro acc k; simp
  | cons p r ih =>
    intro acc k
    rw [List.foldl_cons, ih, List.reverse_cons, List.find?_append]
    cases hf : r.reverse.find? (fun p => (⟨tr, p⟩ : TP) = k) with
    | some p' => simp
    | none =>
      simp only [Option.none_or, List.find?_cons, List.find?_nil]
      by_cases hkey : (⟨tr, p⟩ : TP) = k
      · simp only [hkey, decide_true]; subst hkey; exact aget_set_self _ _ _
      · simp only [hkey, decide_false]; exact aget_set_other _ _ _ _ (Ne.symm hkey)

/-- the group-less loop: a successful load leaves, for every assigned partition, the offset the broker reported for the
    fallback position (−1 when it reported none) and the configured fetch size, and nothing else -/
theorem C07_go_ok (as : List (Bytes × List Int)) (mb : Int) (offsets : List (Bytes × List (Int × Int))) :
    ∀ (subs : List (Bytes × List Int)) (acc : List (TP × FetchState)) (w w' : W σ) (fo : List (TP × FetchState)),
      loadState.go as mb offsets subs acc w = (w', Outcome.ok fo) →
      w' = w ∧ (∀ s ∈ subs, (assocGet offsets s.1).isSome) ∧ ∀ k, assocGet fo k =
        match (subs.flatMap fun s => s.2.map fun p => (s.1, p)).reverse.find? (fun tp => keyOf as tp = k) with
        | some tp => some ⟨reported offsets tp, mb⟩
        | none => assocGet acc k := by
  intro subs
  induction subs with
  | nil =>
    intro acc w w' fo h
    simp only [loadState.go, pure, Prod.mk.injEq, Outcome.ok.injEq] at h
    obtain ⟨h1, h2⟩ := h
    subst h1 h2
    simp
  | cons s r ih =>
    intro acc w w' fo h
    obtain ⟨t, ps⟩ := s
    simp only [loadState.go] at h
    cases ho : assocGet offsets t with
    | none => rw [ho] at h; simp [M.fail] at h
    | some offs =>
      rw [ho] at h
      obtain ⟨hw, hall, hk⟩ := ih _ _ _ _ h
      refine ⟨hw, ?_, fun k => ?_⟩
      · intro s hs
        rcases List.mem_cons.mp hs with rfl | hs'
        · simp [ho]
        · exact hall s hs'
      · rw [hk k, List.flatMap_cons, List.reverse_append, List.find?_append]
        cases hf : (r.flatMap fun s => s.2.map fun p => (s.1, p)).reverse.find? (fun tp => keyOf as tp = k) with
        | some tp' => simp
        | none =>
          simp only [Option.none_or]
          rw [fold_fallback, ← List.map_reverse, List.find?_map]
          have hfun : ((fun tp => decide (keyOf as tp = k)) ∘ fun p => (t, p))
              = fun p => decide ((⟨(topicRef as t).getD 0, p⟩ : TP) = k) := by
            funext p; simp only [Function.comp, keyOf]; congr
          rw [hfun]
          cases hf2 : ps.reverse.find? (fun p => decide ((⟨(topicRef as t).getD 0, p⟩ : TP) = k)) with
          | none => simp
          | some p => simp [reported, ho]

/-- **every assigned partition, nothing committed / no group**: each starts at what the broker reported for the fallback -/
theorem C07_assignment_fallback (as : List (Bytes × List Int)) (mb : Int) (offsets : List (Bytes × List (Int × Int)))
    (subs : List (Bytes × List Int)) (w w' : W σ) (fo : List (TP × FetchState))
    (hnd : ((subs.flatMap fun s => s.2.map fun p => (s.1, p)).map (keyOf as)).Nodup)
    (h : loadState.go as mb offsets subs [] w = (w', Outcome.ok fo)) :
    w' = w ∧
    (∀ s ∈ subs, ∀ p ∈ s.2, assocGet fo (keyOf as (s.1, p)) = some ⟨reported offsets (s.1, p), mb⟩) ∧
    (∀ k, (∀ s ∈ subs, ∀ p ∈ s.2, keyOf as (s.1, p) ≠ k) → assocGet fo k = none) := by
  obtain ⟨hw, _, hk⟩ := C07_go_ok as mb offsets subs [] w w' fo h
  refine ⟨hw, ?_, ?_⟩
  · intro s hs p hp
    have hmem : (s.1, p) ∈ subs.flatMap fun s => s.2.map fun p => (s.1, p) :=
      List.mem_flatMap.mpr ⟨s, hs, List.mem_map.mpr ⟨p, hp, rfl⟩⟩
    have hfind := find_rev_nodup (keyOf as) _ hnd _ hmem
    have := hk (keyOf as (s.1, p))
    rw [hfind] at this
    exact this
  · intro k hk2
    have hfind : (subs.flatMap fun s => s.2.map fun p => (s.1, p)).reverse.find? (fun tp' => keyOf as tp' = k) = none := by
      apply List.find?_eq_none.mpr
      intro tp' hm; simp only [decide_eq_true_eq]
      obtain ⟨s, hs, hm2⟩ := List.mem_flatMap.mp (List.mem_reverse.mp hm)
      obtain ⟨p, hp, rfl⟩ := List.mem_map.mp hm2
      exact hk2 s hs p hp
    have := hk k
    rw [hfind] at this
    simpa [assocGet] using this

/-! ### non-vacuity: a two-topic assignment with one commit inside the range, one outside, one absent -/
def exAs : List (Bytes × List Int) := [([97], [0, 1]), ([98], [0])]
def exTps : List (Bytes × Int) := [([97], 0), ([97], 1), ([98], 0)]
def exConsumed : List (TP × Consumed) := [(⟨0, 0⟩, ⟨4, false⟩), (⟨0, 1⟩, ⟨99, false⟩)]
def exLatest : List (Bytes × List (Int × Int)) := [([97], [(0, 9), (1, 9)]), ([98], [(0, 7)])]
def exEarliest : List (Bytes × List (Int × Int)) := [([97], [(0, 2), (1, 2)]), ([98], [(0, 3)])]
example : (exTps.map (keyOf exAs)).Nodup := by decide
example (w : W Unit) : loadState.go2 .earliest exAs exConsumed 1000 exLatest exEarliest exTps [] w
    = (w, Outcome.ok [(⟨0, 0⟩, ⟨5, 1000⟩), (⟨0, 1⟩, ⟨2, 1000⟩), (⟨1, 0⟩, ⟨3, 1000⟩)]) := by rfl
/-! ## from the coordinator's reply (`load_consumed_offsets`, consumer/state.rs:191-237) to the decision -/

/-- the reported commits that count: assigned topic, offset other than −1; as (key, reported offset) -/
def counted (as : List (Bytes × List Int)) (tpos : List (Bytes × List (Int × Int))) : List (TP × Int) :=
  tpos.flatMap fun s => match topicRef as s.1 with
    | none => []
    | some tr => s.2.filterMap fun po => if po.2 ≠ -1 then some (⟨tr, po.1⟩, po.2) else none

theorem fold_ins (tr : Nat) : ∀ (pos : List (Int × Int)) (acc : List (TP × Consumed)) (k : TP),
    assocGet (pos.foldl (fun acc (po : Int × Int) =>
        match consumedOf po.2 with
        | some co => assocSet acc ⟨tr, po.1⟩ ⟨co, false⟩
        | none => acc) acc) k =
      match (pos.filterMap fun po => if po.2 ≠ -1 then some ((⟨tr, po.1⟩ : TP), po.2) else none).reverse.find? (fun x => x.1 = k) with
      | some x => some ⟨x.2 - 1, false⟩
      | none => assocGet acc k := by
  intro pos
  induction pos with
  | nil => intro acc k; simp
  | cons po r ih =>
    intro acc k
    obtain ⟨p, o⟩ := po
    rw [List.foldl_cons, ih]
    by_cases ho : o = -1
    · subst ho; simp [consumedOf]
    · simp only [List.filterMap_cons, ne_eq, ho, not_false_eq_true, if_true, List.reverse_cons, List.find?_append]
      cases hf : (r.filterMap fun po => if po.2 ≠ -1 then some ((⟨tr, po.1⟩ : TP), po.2) else none).reverse.find? (fun x => x.1 = k) with
      | some x => simp
      | none =>
        simp only [ne_eq] at hf
        simp only [Option.none_or, List.find?_cons, List.find?_nil, consumedOf, ne_eq, ho, not_false_eq_true, if_true]
        by_cases hkey : (⟨tr, p⟩ : TP) = k
        · simp only [hkey, decide_true]; subst hkey; exact aget_set_self _ _ _
        · simp only [hkey, decide_false]; exact aget_set_other _ _ _ _ (Ne.symm hkey)


/-- `load_consumed_offsets`: the loaded table holds, key by key, the last counted report minus one, nothing else;
    offsets for topics that are not assigned and reports of −1 leave no trace; the loop never fails -/
theorem C07_ins_ok (as : List (Bytes × List Int)) :
    ∀ (tpos : List (Bytes × List (Int × Int))) (acc : List (TP × Consumed)) (w : W σ),
      ∃ consumed, loadState.ins as tpos acc w = (w, Outcome.ok consumed) ∧ ∀ k, assocGet consumed k =
        match (counted as tpos).reverse.find? (fun x => x.1 = k) with
        | some x => some ⟨x.2 - 1, false⟩
        | none => assocGet acc k := by
  intro tpos
  induction tpos with
  | nil => intro acc w; exact ⟨acc, rfl, fun k => by simp [counted]⟩
  | cons s r ih =>
    intro acc w
    obtain ⟨t, pos⟩ := s
    simp only [loadState.ins]
    cases htr : topicRef as t with
    | none =>
      obtain ⟨c, hc, hk⟩ := ih acc w
      refine ⟨c, hc, fun k => ?_⟩
      rw [hk k]; simp [counted, htr]
    | some tr =>
      obtain ⟨c, hc, hk⟩ := ih (pos.foldl (fun acc (po : Int × Int) =>
        match consumedOf po.2 with
        | some co => assocSet acc ⟨tr, po.1⟩ ⟨co, false⟩
        | none => acc) acc) w
      refine ⟨c, hc, fun k => ?_⟩
      rw [hk k]
      have hcnt : counted as ((t, pos) :: r) =
          (pos.filterMap fun po => if po.2 ≠ -1 then some ((⟨tr, po.1⟩ : TP), po.2) else none) ++ counted as r := by
        simp [counted, htr]
      rw [hcnt, List.reverse_append, List.find?_append]
      cases hf : (counted as r).reverse.find? (fun x => x.1 = k) with
      | some x => simp
      | none => simp only [Option.none_or]; exact fold_ins tr pos acc k

theorem counted_ne (as : List (Bytes × List Int)) (tpos : List (Bytes × List (Int × Int))) (x : TP × Int)
    (hx : x ∈ counted as tpos) : x.2 ≠ -1 := by
  unfold counted at hx
  obtain ⟨s, _, hx2⟩ := List.mem_flatMap.mp hx
  split at hx2
  · cases hx2
  · obtain ⟨po, _, hpo⟩ := List.mem_filterMap.mp hx2
    split at hpo
    · rename_i hne; simp at hpo; rw [← hpo]; exact hne
    · cases hpo

/-- what the coordinator said for a partition key, over the whole reply: the last counted report, −1 for none -/
def reportedCommit (as : List (Bytes × List Int)) (tpos : List (Bytes × List (Int × Int))) (k : TP) : Int :=
  match (counted as tpos).reverse.find? (fun x => x.1 = k) with
  | some x => x.2
  | none => -1

/-- from the coordinator's reply to the decision: **every assigned partition starts at the specified offset**, computed from
    the reply to the group-offset fetch (any shape: unassigned topics, −1 entries, repeated entries - last counts) and the
    two Offsets replies -/
theorem C07_create (fb : Fallback) (as : List (Bytes × List Int)) (tpos : List (Bytes × List (Int × Int))) (mb : Int)
    (latest earliest : List (Bytes × List (Int × Int))) (tps : List (Bytes × Int)) (w w1 w2 : W σ)
    (consumed : List (TP × Consumed)) (fo : List (TP × FetchState))
    (hnd : (tps.map (keyOf as)).Nodup)
    (h1 : loadState.ins as tpos [] w = (w1, Outcome.ok consumed))
    (h2 : loadState.go2 fb as consumed mb latest earliest tps [] w1 = (w2, Outcome.ok fo)) :
    w2 = w ∧ ∀ tp ∈ tps, ∃ o,
      specStart (committedOf (reportedCommit as tpos (keyOf as tp))) (reported earliest tp) (reported latest tp) fb = .ok o ∧
      assocGet fo (keyOf as tp) = some ⟨o, mb⟩ := by
  obtain ⟨c, hc, hk⟩ := C07_ins_ok as tpos [] w
  rw [hc] at h1
  simp only [Prod.mk.injEq, Outcome.ok.injEq] at h1
  obtain ⟨hw1, hcc⟩ := h1
  subst hw1 hcc
  obtain ⟨hw2, hall, _⟩ := C07_assignment fb as c mb latest earliest tps w w2 fo hnd h2
  refine ⟨hw2, fun tp htp => hall tp htp _ ?_⟩
  rw [hk (keyOf as tp)]
  unfold reportedCommit
  cases hf : (counted as tpos).reverse.find? (fun x => x.1 = keyOf as tp) with
  | none => simp [consumedOf, assocGet]
  | some x =>
    have hne := counted_ne as tpos x (List.mem_reverse.mp (List.mem_of_find?_eq_some hf))
    simp [consumedOf, hne]

example (w : W Unit) : ∃ c, loadState.ins exAs [([97], [(0, 5), (1, -1)]), ([99], [(0, 4)])] [] w = (w, Outcome.ok c) ∧
    reportedCommit exAs [([97], [(0, 5), (1, -1)]), ([99], [(0, 4)])] ⟨0, 0⟩ = 5 ∧
    reportedCommit exAs [([97], [(0, 5), (1, -1)]), ([99], [(0, 4)])] ⟨0, 1⟩ = -1 := ⟨_, rfl, by decide, by decide⟩
end Kafka.Props.C07
