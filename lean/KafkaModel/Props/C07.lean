import KafkaModel.Model.Consumer
/-!
  C07 — Consumer starts at the committed offset when valid, else at the fallback offset.
-/
namespace Kafka.Props.C07
open Kafka Kafka.Model

/-- specification: the committed offset if it lies within [earliest, latest], else the fallback position -/
def specStart (committed : Option Int) (e l : Int) (fb : Fallback) : Except Err Int :=
  match committed with
  | some c => if e ≤ c ∧ c ≤ l then .ok c else
      match fb with | .latest => .ok l | .earliest => .ok e | .byTime _ => .error (.kafka (-1))
  | none => match fb with | .latest => .ok l | .earliest => .ok e | .byTime _ => .error (.kafka (-1))

/-- what the coordinator reports ↦ what is committed: −1 is "nothing" -/
def committedOf (reported : Int) : Option Int := if reported ≠ -1 then some reported else none

/-- **start offset**: for every earliest / latest / committed combination — boundaries included — and every fallback -/
theorem C07_start (reported e l : Int) (fb : Fallback) :
    startOffset (consumedOf reported) e l fb = specStart (committedOf reported) e l fb := by
  unfold startOffset consumedOf specStart committedOf
  by_cases h : reported = -1
  · simp [h]; cases fb <;> rfl
  · simp only [ne_eq, h, not_false_eq_true, if_true]
    by_cases hin : e ≤ reported ∧ reported ≤ l
    · have : reported - 1 + 1 ≥ e ∧ reported - 1 < l := by omega
      simp only [this, hin, and_self, if_true]
      congr 1; omega
    · have : ¬ (reported - 1 + 1 ≥ e ∧ reported - 1 < l) := by omega
      simp only [this, hin, if_false]
      cases fb <;> rfl

/-- the boundaries named in the property -/
theorem C07_committed_eq_earliest (e l : Int) (h : e ≤ l) (hne : e ≠ -1) (fb : Fallback) :
    startOffset (consumedOf e) e l fb = .ok e := by
  rw [C07_start]; simp [specStart, committedOf, hne, h]

theorem C07_committed_eq_latest (e l : Int) (h : e ≤ l) (hne : l ≠ -1) (fb : Fallback) :
    startOffset (consumedOf l) e l fb = .ok l := by
  rw [C07_start]; simp [specStart, committedOf, hne, h]

theorem C07_committed_below (c e l : Int) (h : c < e) (hne : c ≠ -1) :
    startOffset (consumedOf c) e l .earliest = .ok e ∧ startOffset (consumedOf c) e l .latest = .ok l := by
  rw [C07_start, C07_start]
  have : ¬ (e ≤ c ∧ c ≤ l) := by omega
  simp [specStart, committedOf, hne, this]

theorem C07_committed_above (c e l : Int) (h : l < c) (hne : c ≠ -1) :
    startOffset (consumedOf c) e l .earliest = .ok e ∧ startOffset (consumedOf c) e l .latest = .ok l := by
  rw [C07_start, C07_start]
  have : ¬ (e ≤ c ∧ c ≤ l) := by omega
  simp [specStart, committedOf, hne, this]

/-- never anywhere else: a start offset is the committed offset, the earliest or the latest -/
theorem C07_nowhere_else (reported e l o : Int) (fb : Fallback) (h : startOffset (consumedOf reported) e l fb = .ok o) :
    o = reported ∨ o = e ∨ o = l := by
  rw [C07_start] at h
  unfold specStart committedOf at h
  split at h
  · split at h
    · rename_i c hc _; simp at h
      split at hc <;> simp at hc
      left; rw [← h, ← hc]
    · cases fb <;> simp at h <;> simp [h]
  · cases fb <;> simp at h <;> simp [h]

/-- with a by-time fallback and no valid commit no offset can be determined: creation fails -/
theorem C07_by_time_fails (reported e l t : Int) (h : reported = -1 ∨ reported < e ∨ l < reported) :
    startOffset (consumedOf reported) e l (.byTime t) = .error (.kafka (-1)) := by
  rw [C07_start]
  unfold specStart committedOf
  by_cases h1 : reported = -1
  · simp [h1]
  · have : ¬ (e ≤ reported ∧ reported ≤ l) := by omega
    simp [h1, this]

/-- protocol v0's way of saying "nothing committed" (code 3) reads as −1, i.e. none -/
theorem C07_no_commit_v0 (p : PartOffsetFetchResp) (h : p.err = 3) :
    p.getOffsets = .ok (p.partition, -1) ∧ consumedOf (-1) = none := by
  simp [PartOffsetFetchResp.getOffsets, kafkaCode, h, consumedOf]

/-! ### non-vacuity -/
example : startOffset (consumedOf 5) 5 9 .latest = .ok 5 := by simp [startOffset, consumedOf]
example : startOffset (consumedOf 4) 5 9 .latest = .ok 9 := by simp [startOffset, consumedOf]
example : startOffset (consumedOf 10) 5 9 .earliest = .ok 5 := by simp [startOffset, consumedOf]

end Kafka.Props.C07
