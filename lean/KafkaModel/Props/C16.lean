import KafkaModel.Model.Consumer
import KafkaModel.Model.Producer
import KafkaModel.Props.C07
/-!
  C16 — Every client, producer and consumer setting takes effect, in any builder order.
  Builders are lists of calls folded over the builder record (`ConsumerBuilder.apply`, `ProducerBuilder.apply`);
  `configure` is what `create` puts in force on the client.
-/
namespace Kafka.Props.C16
open Kafka Kafka.Model

/-! ### durations: rejected when they do not fit, never wrapped -/

theorem C16_duration (secs nanos : Nat) (m : Int) (h : toMillisI32 secs nanos = .ok m) :
    m = (secs * 1000 + nanos / 1000000 : Nat) ∧ m ≤ 2147483647 := by
  unfold toMillisI32 at h
  simp only at h
  split at h
  · simp at h
  · rename_i hle
    simp at h
    have hle' : min (min (secs * 1000) 18446744073709551615 + nanos / 1000000) 18446744073709551615 ≤ 2147483647 := by omega
    have h1 : min (secs * 1000) 18446744073709551615 + nanos / 1000000 ≤ 2147483647 := by omega
    have h2 : secs * 1000 ≤ 2147483647 := by omega
    subst h
    constructor
    · congr 1; omega
    · omega

theorem C16_duration_invalid (secs nanos : Nat) (h : secs * 1000 + nanos / 1000000 > 2147483647) :
    toMillisI32 secs nanos = .error .invalidDuration := by
  unfold toMillisI32
  have : min (min (secs * 1000) 18446744073709551615 + nanos / 1000000) 18446744073709551615 > 2147483647 := by omega
  simp [this]

/-! ### consumer builder -/

/-- which option a call sets (assignment calls are keyed by topic and treated in C19) -/
def ckey : CBOp → Option Nat
  | .group _ => some 0
  | .topic _ => none
  | .topicPartitions _ _ => none
  | .fallback _ => some 1
  | .fetchMaxWait _ _ => some 2
  | .fetchMinBytes _ => some 3
  | .fetchMaxBytes _ => some 4
  | .retryLimit _ => some 5
  | .crc _ => some 6
  | .storage _ => some 7
  | .idleTimeout _ => some 8
  | .clientId _ => some 9

/-- each call sets its own field … -/
theorem C16_consumer_set (b : ConsumerBuilder) :
    (∀ g, (b.apply (.group g)).group = g) ∧ (∀ f, (b.apply (.fallback f)).fallback = f) ∧
    (∀ s n, (b.apply (.fetchMaxWait s n)).fetchMaxWait = (s, n)) ∧ (∀ n, (b.apply (.fetchMinBytes n)).fetchMinBytes = n) ∧
    (∀ n, (b.apply (.fetchMaxBytes n)).fetchMaxBytes = n) ∧ (∀ n, (b.apply (.retryLimit n)).retryLimit = n) ∧
    (∀ v, (b.apply (.crc v)).crc = v) ∧ (∀ v, (b.apply (.storage v)).storage = v) ∧
    (∀ ms, (b.apply (.idleTimeout ms)).idleTimeoutMs = ms) ∧ (∀ id, (b.apply (.clientId id)).clientId = some id) := by
  refine ⟨?_, ?_, ?_, ?_, ?_, ?_, ?_, ?_, ?_, ?_⟩ <;> intros <;> rfl

/-- … and leaves every other field alone (no option is reset by an unrelated call) -/
theorem C16_consumer_frame (b : ConsumerBuilder) (op : CBOp) :
    (ckey op ≠ some 0 → (b.apply op).group = b.group) ∧ (ckey op ≠ some 1 → (b.apply op).fallback = b.fallback) ∧
    (ckey op ≠ some 2 → (b.apply op).fetchMaxWait = b.fetchMaxWait) ∧ (ckey op ≠ some 3 → (b.apply op).fetchMinBytes = b.fetchMinBytes) ∧
    (ckey op ≠ some 4 → (b.apply op).fetchMaxBytes = b.fetchMaxBytes) ∧ (ckey op ≠ some 5 → (b.apply op).retryLimit = b.retryLimit) ∧
    (ckey op ≠ some 6 → (b.apply op).crc = b.crc) ∧ (ckey op ≠ some 7 → (b.apply op).storage = b.storage) ∧
    (ckey op ≠ some 8 → (b.apply op).idleTimeoutMs = b.idleTimeoutMs) ∧ (ckey op ≠ some 9 → (b.apply op).clientId = b.clientId) ∧
    (ckey op ≠ none → (b.apply op).assignOps = b.assignOps) ∧ (b.apply op).client = b.client ∧ (b.apply op).hosts = b.hosts := by
  cases op <;> simp [ConsumerBuilder.apply, ckey]

/-- a projection untouched by every call of a list is untouched by the whole list -/
theorem foldl_frame {β} (π : ConsumerBuilder → β) (ops : List CBOp)
    (h : ∀ op ∈ ops, ∀ b, π (b.apply op) = π b) : ∀ b, π (ops.foldl ConsumerBuilder.apply b) = π b := by
  induction ops with
  | nil => intro b; rfl
  | cons op ops ih =>
    intro b
    simp only [List.foldl_cons]
    rw [ih (fun o ho => h o (by simp [ho])), h op (by simp)]

/-- **last call wins** (shown for CRC validation and client id; the other options are instances of `foldl_frame` likewise) -/
theorem C16_last_wins_crc (pre post : List CBOp) (v : Bool) (b : ConsumerBuilder) (hp : ∀ op ∈ post, ckey op ≠ some 6) :
    ((pre ++ [CBOp.crc v] ++ post).foldl ConsumerBuilder.apply b).crc = v := by
  rw [List.foldl_append, List.foldl_append]
  rw [foldl_frame (·.crc) post (fun op ho b => (C16_consumer_frame b op).2.2.2.2.2.2.1 (hp op ho))]
  rfl

theorem C16_last_wins_client_id (pre post : List CBOp) (id : Bytes) (b : ConsumerBuilder) (hp : ∀ op ∈ post, ckey op ≠ some 9) :
    ((pre ++ [CBOp.clientId id] ++ post).foldl ConsumerBuilder.apply b).clientId = some id := by
  rw [List.foldl_append, List.foldl_append]
  rw [foldl_frame (·.clientId) post (fun op ho b => (C16_consumer_frame b op).2.2.2.2.2.2.2.2.2.1 (hp op ho))]
  rfl

/-- an option never set keeps the default / the pre-configured client's value -/
theorem C16_default_kept (ops : List CBOp) (b : ConsumerBuilder) (h : ∀ op ∈ ops, ckey op ≠ some 6) :
    (ops.foldl ConsumerBuilder.apply b).crc = b.crc :=
  foldl_frame (·.crc) ops (fun op ho b => (C16_consumer_frame b op).2.2.2.2.2.2.1 (h op ho)) b

theorem consumer_comm (b : ConsumerBuilder) (x y : CBOp) (hx : ckey x ≠ none) (hy : ckey y ≠ none) (h : ckey x ≠ ckey y) :
    (b.apply x).apply y = (b.apply y).apply x := by
  cases x <;> cases y <;> simp_all [ConsumerBuilder.apply, ckey]

/-- **any order**: two sequences of option calls that are permutations of each other, no two different calls setting
    the same option, build the same builder -/
theorem C16_consumer_perm (l₁ l₂ : List CBOp) (p : l₁.Perm l₂) (hk : ∀ x ∈ l₁, ckey x ≠ none)
    (hd : ∀ x ∈ l₁, ∀ y ∈ l₁, ckey x = ckey y → x = y) (b : ConsumerBuilder) :
    l₁.foldl ConsumerBuilder.apply b = l₂.foldl ConsumerBuilder.apply b := by
  apply List.Perm.foldl_eq' p
  intro x hx y hy z
  by_cases hxy : ckey x = ckey y
  · rw [hd x hx y hy hxy]
  · exact consumer_comm z x y (hk x hx) (hk y hy) hxy

/-- **in force**: what `create` configures on the client is what the builder holds (CRC validation included) -/
theorem C16_configure (b : ConsumerBuilder) (cfg0 cfg : Config) (h : b.configure cfg0 = .ok cfg) :
    cfg.crcValidation = b.crc ∧ cfg.fetchMinBytes = b.fetchMinBytes ∧ cfg.fetchMaxBytes = b.fetchMaxBytes ∧
    cfg.storage = b.storage ∧ cfg.idleTimeoutMs = b.idleTimeoutMs ∧ cfg.clientId = b.clientId.getD cfg0.clientId ∧
    toMillisI32 b.fetchMaxWait.1 b.fetchMaxWait.2 = .ok cfg.fetchMaxWait ∧
    cfg.retryMax = cfg0.retryMax ∧ cfg.compression = cfg0.compression ∧ cfg.hosts = cfg0.hosts := by
  unfold ConsumerBuilder.configure at h
  split at h
  · simp at h
  · rename_i mw hmw
    simp at h
    subst h
    simp [hmw]

theorem C16_configure_invalid_duration (b : ConsumerBuilder) (cfg0 : Config)
    (h : b.fetchMaxWait.1 * 1000 + b.fetchMaxWait.2 / 1000000 > 2147483647) :
    b.configure cfg0 = .error .invalidDuration := by
  unfold ConsumerBuilder.configure
  rw [C16_duration_invalid _ _ h]

/-- built from a pre-configured client, the builder starts from that client's values -/
theorem C16_from_client (c : Client) :
    (ConsumerBuilder.new (some c) []).crc = c.cfg.crcValidation ∧ (ConsumerBuilder.new (some c) []).fetchMinBytes = c.cfg.fetchMinBytes ∧
    (ConsumerBuilder.new (some c) []).fetchMaxBytes = c.cfg.fetchMaxBytes ∧ (ConsumerBuilder.new (some c) []).storage = c.cfg.storage ∧
    (ConsumerBuilder.new (some c) []).idleTimeoutMs = c.cfg.idleTimeoutMs := by
  simp [ConsumerBuilder.new]

/-! ### producer builder -/

def pkey : PBOp → Nat
  | .compression _ => 0
  | .ackTimeout _ _ => 1
  | .idleTimeout _ => 2
  | .acks _ => 3
  | .clientId _ => 4
  | .partitioner _ => 5

/-- no producer option is reset by another call — in particular `with_partitioner` keeps the client id -/
theorem C16_producer_frame (b : ProducerBuilder) (op : PBOp) :
    (pkey op ≠ 0 → (b.apply op).compression = b.compression) ∧ (pkey op ≠ 1 → (b.apply op).ackTimeout = b.ackTimeout) ∧
    (pkey op ≠ 2 → (b.apply op).idleTimeoutMs = b.idleTimeoutMs) ∧ (pkey op ≠ 3 → (b.apply op).acks = b.acks) ∧
    (pkey op ≠ 4 → (b.apply op).clientId = b.clientId) ∧ (pkey op ≠ 5 → (b.apply op).cntr = b.cntr) ∧
    (b.apply op).client = b.client ∧ (b.apply op).hosts = b.hosts := by
  cases op <;> simp [ProducerBuilder.apply, pkey]

theorem C16_with_partitioner_keeps (b : ProducerBuilder) (n : Nat) :
    (b.apply (.partitioner n)).clientId = b.clientId ∧ (b.apply (.partitioner n)).compression = b.compression ∧
    (b.apply (.partitioner n)).acks = b.acks ∧ (b.apply (.partitioner n)).ackTimeout = b.ackTimeout := by
  simp [ProducerBuilder.apply]

theorem producer_comm (b : ProducerBuilder) (x y : PBOp) (h : pkey x ≠ pkey y) : (b.apply x).apply y = (b.apply y).apply x := by
  cases x <;> cases y <;> simp_all [ProducerBuilder.apply, pkey]

theorem C16_producer_perm (l₁ l₂ : List PBOp) (p : l₁.Perm l₂)
    (hd : ∀ x ∈ l₁, ∀ y ∈ l₁, pkey x = pkey y → x = y) (b : ProducerBuilder) :
    l₁.foldl ProducerBuilder.apply b = l₂.foldl ProducerBuilder.apply b := by
  apply List.Perm.foldl_eq' p
  intro x hx y hy z
  by_cases hxy : pkey x = pkey y
  · rw [hd x hx y hy hxy]
  · exact producer_comm z x y hxy

/-! ### non-vacuity -/
example : toMillisI32 540 123456789 = .ok 540123 := by simp [toMillisI32]
example : toMillisI32 2147483 648000000 = .error .invalidDuration := by simp [toMillisI32]
example : (([.crc false, .clientId [1], .group [2]] : List CBOp).foldl ConsumerBuilder.apply {}).crc = false := rfl

/-! ### the fetch size in force after delivery -/

/-- **the fetch size in force**: whenever a partition delivers messages - in a poll over one partition or over many, on a
    single-partition consumer or not - its next Fetch request carries the size given to the book-keeping (`normalMax`, which
    `processResponses` reads from the consumer's client at that moment), at the offset behind the last message -/
theorem C16_delivery_puts_size_in_force (nm : Int) (nq : Nat) (single : Bool) (c : Consumer) (tr : Nat) (p : FetchPartition)
    (hw : Int) (msgs : List Message) (last : Message) (fs : FetchState)
    (hd : p.data = .ok (hw, msgs)) (hl : msgs.getLast? = some last) (hfs : assocGet c.fetchOffsets ⟨tr, p.partition⟩ = some fs) :
    ∃ c', processPartition nm nq single c tr p = (.ok c', true) ∧
      assocGet c'.fetchOffsets ⟨tr, p.partition⟩ = some ⟨last.offset + 1, nm⟩ ∧
      ∀ k, k ≠ (⟨tr, p.partition⟩ : TP) → assocGet c'.fetchOffsets k = assocGet c.fetchOffsets k := by
  refine ⟨{ c with fetchOffsets := assocSet c.fetchOffsets ⟨tr, p.partition⟩ ⟨last.offset + 1, nm⟩ }, ?_, ?_, ?_⟩
  · simp [processPartition, hd, hfs, hl]
  · exact Kafka.Props.C07.aget_set_self _ _ _
  · intro k hk; exact Kafka.Props.C07.aget_set_other _ _ _ _ hk

/-- and the size the book-keeping is given is the client's current setting -/
theorem C16_bookkeeping_reads_client {σ} (nq : Nat) (resps : List FetchResponse) (w : WC σ) (c' : Consumer) (ne : Bool)
    (hp : preScan w.cons resps = none)
    (h : processAll w.cons.client.cfg.fetchMaxBytes nq (w.cons.fetchOffsets.length = 1)
          (resps.flatMap fun r => r.topics.flatMap fun t => t.partitions.map fun p => (t.topic, p)) w.cons false = (.ok c', ne)) :
    processResponses nq resps w = ({ w with cons := c' }, .ok ⟨resps, !ne⟩) := by
  unfold processResponses
  simp only [hp, h]
end Kafka.Props.C16
