import KafkaModel.Model.Net
import KafkaModel.Model.Producer
import KafkaModel.Lemmas.Wire
import KafkaModel.Spec.Proto
/-!
  C15 — An exchange is complete or fails; a reply is never credited to another request.
-/
namespace Kafka.Props.C15
open Kafka Kafka.Model Kafka.Spec

/-- whatever the stream does, one `write` call accepts a prefix of the buffer and reports its length honestly -/
theorem write_spec (s : Stream) (buf : Bytes) (s' : Stream) (n : Nat) (h : s.write buf = (s', .ok n)) :
    n ≤ buf.length ∧ s'.accepted = s.accepted ++ buf.take n := by
  unfold Stream.write at h
  split at h
  · simp at h; obtain ⟨rfl, rfl⟩ := h; simp
  · simp at h
  · simp at h
    obtain ⟨rfl, rfl⟩ := h
    exact ⟨Nat.min_le_right _ _, rfl⟩

theorem write_err (s : Stream) (buf : Bytes) (s' : Stream) (e : Err) (h : s.write buf = (s', .error e)) :
    s'.accepted = s.accepted := by
  unfold Stream.write at h
  split at h <;> simp at h
  obtain ⟨rfl, _⟩ := h; rfl

/-- **a send reports success only if the whole request was handed to the stream** — for every behaviour of the stream:
    on success exactly the frame has been accepted; on failure some (possibly empty) proper prefix of it -/
theorem C15_send_complete : ∀ (fuel : Nat) (s : Stream) (buf : Bytes) (s' : Stream),
    writeAll fuel s buf = (s', .ok ()) → s'.accepted = s.accepted ++ buf := by
  intro fuel
  induction fuel with
  | zero =>
    intro s buf s' h
    simp only [writeAll] at h
    split at h
    · rename_i he; simp at h; subst h; simp [List.isEmpty_iff.mp he]
    · simp at h
  | succ f ih =>
    intro s buf s' h
    simp only [writeAll] at h
    split at h
    · rename_i he; simp at h; subst h; simp [List.isEmpty_iff.mp he]
    · cases hw : s.write buf with
      | mk s1 r =>
        cases r with
        | error e => simp [hw] at h
        | ok n =>
          simp only [hw] at h
          split at h
          · simp at h
          · obtain ⟨hn, hacc⟩ := write_spec s buf s1 n hw
            rw [ih s1 (buf.drop n) s' h, hacc, List.append_assoc, List.take_append_drop]

theorem C15_send_failed_prefix : ∀ (fuel : Nat) (s : Stream) (buf : Bytes) (s' : Stream) (e : Err),
    writeAll fuel s buf = (s', .error e) → ∃ k, k ≤ buf.length ∧ s'.accepted = s.accepted ++ buf.take k := by
  intro fuel
  induction fuel with
  | zero =>
    intro s buf s' e h
    simp only [writeAll] at h
    split at h
    · simp at h
    · simp at h; exact ⟨0, Nat.zero_le _, by simp [h.1.symm]⟩
  | succ f ih =>
    intro s buf s' e h
    simp only [writeAll] at h
    split at h
    · simp at h
    · cases hw : s.write buf with
      | mk s1 r =>
        cases r with
        | error e1 =>
          simp [hw] at h
          exact ⟨0, Nat.zero_le _, by simp [← h.1, write_err s buf s1 e1 hw]⟩
        | ok n =>
          simp only [hw] at h
          obtain ⟨hn, hacc⟩ := write_spec s buf s1 n hw
          split at h
          · simp at h
            exact ⟨n, hn, by rw [← h.1]; exact hacc⟩
          · obtain ⟨k, hk, hk2⟩ := ih s1 (buf.drop n) s' e h
            refine ⟨n + k, by simp at hk; omega, ?_⟩
            rw [hk2, hacc, List.append_assoc]
            congr 1
            rw [List.take_add]

/-- the loop always comes back: with fuel `len + 1` it never runs dry before the buffer does (each accepting write
    takes at least one byte) — no hang for any script -/
theorem C15_send_total (s : Stream) (buf : Bytes) : ∃ s' r, writeAll (buf.length + 1) s buf = (s', r) := ⟨_, _, rfl⟩

/-- one `read` call hands over a prefix of what the peer sent, in order -/
theorem read_spec (s : Stream) (want : Nat) (s' : Stream) (got : Bytes) (h : s.read want = (s', .ok got)) :
    got ++ s'.incoming = s.incoming ∨ (got = [] ∧ s'.incoming = s.incoming) := by
  unfold Stream.read at h
  split at h
  · split at h
    · simp at h; right; obtain ⟨rfl, rfl⟩ := h; exact ⟨rfl, rfl⟩
    · simp at h; left; obtain ⟨rfl, rfl⟩ := h; simp
  · simp at h
  · simp at h; right; obtain ⟨rfl, rfl⟩ := h; exact ⟨rfl, rfl⟩
  · simp at h; left; obtain ⟨rfl, rfl⟩ := h; simp

theorem read_len (s : Stream) (want : Nat) (s' : Stream) (got : Bytes) (h : s.read want = (s', .ok got)) : got.length ≤ want := by
  unfold Stream.read at h
  split at h
  · split at h
    · simp at h; rw [h.2]; simp
    · simp at h; rw [← h.2, List.length_take]; exact Nat.min_le_left _ _
  · simp at h
  · simp at h; rw [h.2]; simp
  · simp at h
    rw [← h.2, List.length_take]
    exact Nat.le_trans (Nat.min_le_left _ _) (Nat.min_le_right _ _)

/-- **a reply is read whole or the call fails**: `read_exact n` succeeds only with exactly the next `n` bytes the peer
    sent, whatever the chunking; the rest stays in the stream untouched -/
theorem C15_read_exact : ∀ (fuel : Nat) (s : Stream) (n : Nat) (acc : Bytes) (s' : Stream) (bs : Bytes),
    readExact fuel s n acc = (s', .ok bs) → acc.length ≤ n → bs.length = n ∧ bs ++ s'.incoming = acc ++ s.incoming := by
  intro fuel
  induction fuel with
  | zero =>
    intro s n acc s' bs h _
    simp only [readExact] at h
    split at h
    · rename_i hl; simp at h; obtain ⟨rfl, rfl⟩ := h; exact ⟨hl, rfl⟩
    · simp at h
  | succ f ih =>
    intro s n acc s' bs h hle
    simp only [readExact] at h
    split at h
    · rename_i hge; simp at h; obtain ⟨rfl, rfl⟩ := h; exact ⟨by omega, rfl⟩
    · rename_i hlt
      cases hr : s.read (n - acc.length) with
      | mk s1 r =>
        cases r with
        | error e => simp [hr] at h
        | ok got =>
          simp only [hr] at h
          split at h
          · simp at h
          · rename_i hne
            have hgl : got.length ≤ n - acc.length := read_len s _ s1 got hr
            obtain ⟨h1, h2⟩ := ih s1 n (acc ++ got) s' bs h (by simp; omega)
            refine ⟨h1, ?_⟩
            rcases read_spec s _ s1 got hr with hs | ⟨hg, _⟩
            · rw [h2, List.append_assoc, hs]
            · simp [hg] at hne

/-- **exchange**: success means the whole frame went out and — when a reply is due — one whole reply (size prefix and
    exactly `size` bytes) came in; with acks disabled nothing is read -/
theorem C15_exchange (s : Stream) (frame : Bytes) (expect : Bool) (s' : Stream) (r : Option Bytes)
    (h : exchange s frame expect = (s', .ok r)) :
    (∃ mid : Stream, mid.accepted = s.accepted ++ frame ∧ s'.accepted = mid.accepted) ∧
    (expect = false → r = none ∧ s'.incoming = s.incoming) := by
  unfold exchange at h
  cases hw : writeAll (frame.length + 1) s frame with
  | mk s1 r1 =>
    cases r1 with
    | error e => simp [hw] at h
    | ok u =>
      have hacc := C15_send_complete _ s frame s1 hw
      simp only [hw] at h
      -- writes never touch what is waiting to be read, reads never touch what was accepted
      have hinc : ∀ (fuel : Nat) (a : Stream) (b : Bytes) (a' : Stream) (x : Except Err Unit), writeAll fuel a b = (a', x) → a'.incoming = a.incoming := by
        intro fuel
        induction fuel with
        | zero => intro a b a' x hh; simp only [writeAll] at hh; split at hh <;> simp at hh <;> simp [← hh.1]
        | succ f ih =>
          intro a b a' x hh
          simp only [writeAll] at hh
          split at hh
          · simp at hh; simp [← hh.1]
          · cases hw2 : a.write b with
            | mk a1 rr =>
              have hi : a1.incoming = a.incoming := by
                unfold Stream.write at hw2
                split at hw2 <;> simp at hw2 <;> simp [← hw2.1]
              cases rr with
              | error e => simp [hw2] at hh; simp [← hh.1, hi]
              | ok n =>
                simp only [hw2] at hh
                split at hh
                · simp at hh; simp [← hh.1, hi]
                · rw [ih _ _ _ _ hh, hi]
      have racc : ∀ (fuel : Nat) (a : Stream) (n : Nat) (acc : Bytes) (a' : Stream) (x : Except Err Bytes), readExact fuel a n acc = (a', x) → a'.accepted = a.accepted := by
        intro fuel
        induction fuel with
        | zero => intro a n acc a' x hh; simp only [readExact] at hh; split at hh <;> simp at hh <;> simp [← hh.1]
        | succ f ih =>
          intro a n acc a' x hh
          simp only [readExact] at hh
          split at hh
          · simp at hh; simp [← hh.1]
          · cases hr2 : a.read (n - acc.length) with
            | mk a1 rr =>
              have hi : a1.accepted = a.accepted := by
                unfold Stream.read at hr2
                split at hr2
                · split at hr2 <;> simp at hr2 <;> simp [← hr2.1]
                all_goals (simp at hr2; simp [← hr2.1])
              cases rr with
              | error e => simp [hr2] at hh; simp [← hh.1, hi]
              | ok got =>
                simp only [hr2] at hh
                split at hh
                · simp at hh; simp [← hh.1, hi]
                · rw [ih _ _ _ _ _ hh, hi]
      cases expect with
      | false =>
        simp at h
        obtain ⟨rfl, rfl⟩ := h
        exact ⟨⟨s1, hacc, rfl⟩, fun _ => ⟨rfl, hinc _ _ _ _ _ hw⟩⟩
      | true =>
        simp only [Bool.not_true, Bool.false_eq_true, if_false] at h
        refine ⟨⟨s1, hacc, ?_⟩, fun hh => by cases hh⟩
        have gacc : ∀ (a a' : Stream) (x : Except Err Bytes), getResponse a = (a', x) → a'.accepted = a.accepted := by
          intro a a' x hg
          unfold getResponse at hg
          cases hr1 : readExact 5 a 4 [] with
          | mk s2 r2 =>
            cases r2 with
            | error e => simp [hr1] at hg; rw [← hg.1, racc _ _ _ _ _ _ hr1]
            | ok szb =>
              simp only [hr1] at hg
              split at hg
              · simp at hg; rw [← hg.1, racc _ _ _ _ _ _ hr1]
              · cases hr3 : readExact ((decI szb).toNat + 1) s2 (decI szb).toNat [] with
                | mk s3 r3 =>
                  cases r3 with
                  | error e => simp [hr3] at hg; rw [← hg.1, racc _ _ _ _ _ _ hr3, racc _ _ _ _ _ _ hr1]
                  | ok payload => simp [hr3] at hg; rw [← hg.1, racc _ _ _ _ _ _ hr3, racc _ _ _ _ _ _ hr1]
        cases hg : getResponse s1 with
        | mk s3 r3 =>
          cases r3 with
          | error e => simp [hg] at h
          | ok payload =>
            simp [hg] at h
            rw [← h.1, gacc _ _ _ hg]

theorem getConn_recv {σ} (env : Env σ) (recv' : σ → Bytes → σ × Except Err Bytes) (host : Bytes) :
    getConn { env with recv := recv' } host = getConn env host := rfl

theorem sendRequest_recv {σ} (env : Env σ) (recv' : σ → Bytes → σ × Except Err Bytes) (host : Bytes) (p : Except Err Bytes) :
    sendRequest { env with recv := recv' } host p = sendRequest env host p := rfl

theorem forHosts_recv {σ α β} (env : Env σ) (recv' : σ → Bytes → σ × Except Err Bytes) (f : Bytes → α → CM σ β) :
    ∀ (fuel : Nat) (rs : List (Bytes × α)), forHosts { env with recv := recv' } fuel rs f = forHosts env fuel rs f := by
  intro fuel
  induction fuel with
  | zero => intro rs; rfl
  | succ n ih =>
    intro rs
    funext w
    simp only [forHosts]
    cases rs with
    | nil => rfl
    | cons r rest => simp only [ih]

/-- **no reply is awaited with acks disabled**: the produce path for acks = 0 never consults the stream's read side —
    two environments that differ only in what reading would do give the same run -/
theorem C15_noack {σ} (env : Env σ) (recv' : σ → Bytes → σ × Except Err Bytes) (to : Int) (msgs : List ProduceArg) (w : W σ) :
    internalProduce { env with recv := recv' } 0 to msgs w = internalProduce env 0 to msgs w := by
  unfold internalProduce
  simp only [M.bind_def, nextCorr, getClient]
  cases produceRequests _ _ 0 to msgs with
  | none => rfl
  | some reqs =>
    simp only [if_true, forHosts_recv, getConn_recv, sendRequest_recv]

/-- **a failed exchange poisons the connection, not the next call**: after any read or write failure the host is
    marked broken, and the next checkout replaces the connection instead of reusing it (its late reply dies with it) -/
theorem C15_failure_marks_broken {σ} (env : Env σ) (host : Bytes) (w : W σ) (wd : σ)
    (h : env.recv w.world host = (wd, .error .io)) : host ∈ (recvReply env host w).1.client.broken := by
  simp [recvReply, h]

theorem C15_broken_replaced {σ} (env : Env σ) (host : Bytes) (w : W σ) (hp : host ∈ w.client.conns) (hb : host ∈ w.client.broken)
    (wd : σ) (ok : Bool) (hc : env.connect w.world host = (wd, ok)) :
    (getConn env host w).1.world = wd ∧
    (ok = true → host ∉ (getConn env host w).1.client.broken ∧ (getConn env host w).2 = .ok ()) ∧
    (ok = false → (getConn env host w).2 = .err .io) := by
  unfold getConn
  simp only [hp, if_true, hb, or_true, hc]
  cases ok with
  | true => simp [List.mem_filter]
  | false => simp

/-! ### non-vacuity -/
example : (writeAll 4 { wscript := [.accept 1, .accept 0, .accept 5] } [1, 2, 3]).1.accepted = [1, 2, 3] := by decide
example : (writeAll 4 { wscript := [.accept 1, .fail] } [1, 2, 3]).1.accepted = [1] := by decide

/-! ### the other direction: a stream that only splits never makes a call fail -/

/-- a stream whose write side never fails (it may accept as little as one byte per call) -/
def BenignW (s : Stream) : Prop := ∀ a ∈ s.wscript, ∃ k, a = WAct.accept k
/-- a stream whose read side never fails or ends (it may hand over as little as one byte per call) -/
def BenignR (s : Stream) : Prop := ∀ a ∈ s.rscript, ∃ k, a = RAct.give k

theorem writeAll_benign : ∀ (fuel : Nat) (s : Stream) (buf : Bytes), BenignW s → buf.length ≤ fuel →
    ∃ s', writeAll fuel s buf = (s', .ok ()) ∧ s'.accepted = s.accepted ++ buf ∧ s'.incoming = s.incoming ∧
      s'.rscript = s.rscript ∧ BenignW s' := by
  intro fuel
  induction fuel with
  | zero =>
    intro s buf hb hl
    have : buf = [] := List.eq_nil_of_length_eq_zero (by omega)
    subst this
    exact ⟨s, by simp [writeAll], by simp, rfl, rfl, hb⟩
  | succ f ih =>
    intro s buf hb hl
    by_cases he : buf.isEmpty
    · have : buf = [] := List.isEmpty_iff.mp he
      subst this
      exact ⟨s, by simp [writeAll], by simp, rfl, rfl, hb⟩
    · have hpos : 0 < buf.length := by
        cases buf with
        | nil => simp at he
        | cons _ _ => simp
      simp only [writeAll, he, Bool.false_eq_true, if_false]
      cases hw : s.wscript with
      | nil =>
        have hwr : s.write buf = ({ s with accepted := s.accepted ++ buf }, .ok buf.length) := by simp [Stream.write, hw]
        rw [hwr]
        have hn : ¬ buf.length = 0 := by omega
        simp only [hn, if_false, List.drop_length]
        obtain ⟨s', h1, h2, h3, h4, h5⟩ := ih { s with accepted := s.accepted ++ buf } [] (by simpa [BenignW, hw] using hb) (by simp)
        exact ⟨s', h1, by simpa using h2, h3, h4, h5⟩
      | cons a r =>
        obtain ⟨k, rfl⟩ := hb a (by simp [hw])
        have hwr : s.write buf = ({ s with wscript := r, accepted := s.accepted ++ buf.take (min (max k 1) buf.length) }, .ok (min (max k 1) buf.length)) := by
          simp [Stream.write, hw]
        rw [hwr]
        have hn : ¬ min (max k 1) buf.length = 0 := by omega
        simp only [hn, if_false]
        obtain ⟨s', h1, h2, h3, h4, h5⟩ := ih { s with wscript := r, accepted := s.accepted ++ buf.take (min (max k 1) buf.length) }
          (buf.drop (min (max k 1) buf.length)) (by
            intro a ha; exact hb a (by simp [hw]; right; exact ha)) (by simp; omega)
        refine ⟨s', h1, ?_, h3, h4, h5⟩
        rw [h2]; simp [List.append_assoc]


theorem readExact_benign : ∀ (fuel : Nat) (s : Stream) (n : Nat) (acc : Bytes), BenignR s → acc.length ≤ n → n - acc.length ≤ fuel →
    n - acc.length ≤ s.incoming.length →
    ∃ s', readExact fuel s n acc = (s', .ok (acc ++ s.incoming.take (n - acc.length))) ∧
      s'.incoming = s.incoming.drop (n - acc.length) ∧ s'.accepted = s.accepted ∧ s'.wscript = s.wscript ∧ BenignR s' := by
  intro fuel
  induction fuel with
  | zero =>
    intro s n acc hb hle hf _
    have : acc.length = n := by omega
    refine ⟨s, ?_, ?_, rfl, rfl, hb⟩
    · simp [readExact, this]
    · simp [this]
  | succ f ih =>
    intro s n acc hb hle hf hin
    by_cases hdone : acc.length ≥ n
    · have : n - acc.length = 0 := by omega
      refine ⟨s, ?_, ?_, rfl, rfl, hb⟩
      · simp [readExact, hdone, this]
      · simp [this]
    · simp only [readExact, hdone, if_false]
      have hw : 0 < n - acc.length := by omega
      have hne : s.incoming.isEmpty = false := by
        cases hh : s.incoming with
        | nil => rw [hh] at hin; simp at hin; omega
        | cons _ _ => rfl
      -- what one read call hands over: `m` bytes, 1 ≤ m ≤ wanted
      have key : ∃ m r', 0 < m ∧ m ≤ n - acc.length ∧
          s.read (n - acc.length) = ({ s with rscript := r', incoming := s.incoming.drop m }, .ok (s.incoming.take m)) ∧
          (∀ a ∈ r', ∃ k, a = RAct.give k) := by
        cases hr : s.rscript with
        | nil =>
          refine ⟨n - acc.length, [], hw, Nat.le_refl _, ?_, by simp⟩
          simp [Stream.read, hr, hne]
        | cons a r =>
          obtain ⟨k, rfl⟩ := hb a (by simp [hr])
          refine ⟨min (max k 1) (n - acc.length), r, by omega, Nat.min_le_right _ _, ?_, fun a ha => hb a (by simp [hr]; right; exact ha)⟩
          simp [Stream.read, hr]
      obtain ⟨m, r', hm0, hmle, hread, hr'⟩ := key
      rw [hread]
      have hgot : (s.incoming.take m).isEmpty = false := by
        cases hh : s.incoming with
        | nil => rw [hh] at hne; simp at hne
        | cons x xs => cases m with
          | zero => omega
          | succ m => simp
      simp only [hgot, Bool.false_eq_true, if_false]
      have hlen : (s.incoming.take m).length = m := by simp; omega
      obtain ⟨s', h1, h2, h3, h4, h5⟩ := ih { s with rscript := r', incoming := s.incoming.drop m } n (acc ++ s.incoming.take m) hr'
        (by simp only [List.length_append, hlen]; omega) (by simp only [List.length_append, hlen]; omega)
        (by simp only [List.length_append, hlen, List.length_drop]; omega)
      refine ⟨s', ?_, ?_, h3, h4, h5⟩
      · rw [h1]
        simp only [List.length_append, hlen, List.append_assoc]
        congr 2
        have e : n - acc.length = m + (n - (acc.length + m)) := by omega
        rw [e, List.take_add]
      · rw [h2]
        simp only [List.length_append, hlen, List.drop_drop]
        congr 1; omega

/-- **chunking is transparent**: however a stream that does not fail splits the request into accepted writes and the reply
    into reads (down to one byte per call), the exchange succeeds with exactly the reply the peer sent, the whole request
    has been handed over, and what the peer sent after that reply is still there for the next call -/
theorem C15_chunking_transparent (s : Stream) (frame payload rest : Bytes) (hw : BenignW s) (hr : BenignR s)
    (hlen : payload.length ≤ 2147483647) (hin : s.incoming = eI32 (payload.length : Int) ++ payload ++ rest) :
    ∃ s', exchange s frame true = (s', .ok (some payload)) ∧ s'.accepted = s.accepted ++ frame ∧ s'.incoming = rest := by
  unfold exchange
  obtain ⟨s1, h1, ha1, hi1, hr1, _⟩ := writeAll_benign (frame.length + 1) s frame hw (by omega)
  rw [h1]
  simp only [Bool.not_true, Bool.false_eq_true, if_false]
  unfold getResponse
  have hb1 : BenignR s1 := by intro a ha; rw [hr1] at ha; exact hr a ha
  have hsz : (eI32 (payload.length : Int)).length = 4 := by simp [eI32, encI, be_length]
  obtain ⟨s2, h2, hi2, ha2, _, hb2⟩ := readExact_benign 5 s1 4 [] hb1 (by simp) (by simp) (by rw [hi1, hin]; simp [hsz])
  rw [h2]
  simp only [List.nil_append, List.length_nil, Nat.sub_zero]
  have htake : s1.incoming.take 4 = eI32 (payload.length : Int) := by
    rw [hi1, hin, List.append_assoc, ← hsz, List.take_left']; rfl
  have hdrop : s2.incoming = payload ++ rest := by
    simp only [List.length_nil, Nat.sub_zero] at hi2
    rw [hi2, hi1, hin, List.append_assoc, ← hsz, List.drop_left']; rfl
  rw [htake]
  have hdec : decI (eI32 (payload.length : Int)) = (payload.length : Int) :=
    decI_encI 4 (by decide) _ (by unfold inI; simp; omega)
  rw [hdec]
  have hneg : ¬ ((payload.length : Int) < 0) := by omega
  simp only [hneg, if_false, Int.toNat_natCast]
  obtain ⟨s3, h3, hi3, ha3, _, _⟩ := readExact_benign (payload.length + 1) s2 payload.length [] hb2 (by simp) (by simp) (by rw [hdrop]; simp)
  rw [h3]
  simp only [List.nil_append, List.length_nil, Nat.sub_zero] at hi3 ⊢
  refine ⟨s3, ?_, ?_, ?_⟩
  · rw [hdrop, List.take_left']; rfl
  · rw [ha3, ha2, ha1]
  · rw [hi3, hdrop, List.drop_left']; rfl

-- non-vacuity: one byte per write, one byte per read
example : BenignW { wscript := [.accept 1, .accept 1, .accept 2] } ∧ BenignR { rscript := [.give 1, .give 1, .give 3] } := by
  constructor <;> intro a ha <;> simp at ha <;> rcases ha with rfl | rfl | rfl <;> exact ⟨_, rfl⟩

end Kafka.Props.C15
