import KafkaModel.Model.Client
/-!
  C06 — Requests are routed by the latest loaded metadata, over any load history.
  Theorems about `ClientState.updateMetadata` / `updateBrokers` / `syncParts` / `findBroker` / `clearMetadata`
  (mirror of src/client/state.rs:253-352) and about the bootstrap loop of `fetchMetadata`.
-/
namespace Kafka.Props.C06
open Kafka Kafka.Model

/-! ### association-list facts -/

theorem assocGet_set_self {α β} [DecidableEq α] (m : List (α × β)) (k : α) (v : β) : assocGet (assocSet m k v) k = some v := by
  induction m with
  | nil => simp [assocSet, assocGet]
  | cons x xs ih =>
    obtain ⟨k', v'⟩ := x
    by_cases h : k' = k
    · simp [assocSet, assocGet, h]
    · simp only [assocSet, h, if_false]
      simp only [assocGet, List.find?, h, decide_false] at ih ⊢
      exact ih

theorem assocGet_set_other {α β} [DecidableEq α] (m : List (α × β)) (k k2 : α) (v : β) (hne : k2 ≠ k) :
    assocGet (assocSet m k v) k2 = assocGet m k2 := by
  induction m with
  | nil => simp [assocSet, assocGet, Ne.symm hne]
  | cons x xs ih =>
    obtain ⟨k', v'⟩ := x
    by_cases h : k' = k
    · subst h; simp [assocSet, assocGet, Ne.symm hne]
    · simp only [assocSet, h, if_false]
      by_cases h2 : k' = k2
      · simp [assocGet, h2]
      · simp only [assocGet, List.find?, h2, decide_false] at ih ⊢
        exact ih

/-! ### partitions: each listed partition is re-synced to the index of its leader, the rest untouched -/

/-- the broker index a partition entry resolves to -/
def leaderIdx (idx : List (Int × Nat)) (p : PartitionMd) : Nat := (assocGet idx p.leader).getD UNKNOWN

/-- the last entry of the response for partition `k`, if any -/
def lastFor (parts : List PartitionMd) (k : Nat) : Option PartitionMd := parts.reverse.find? fun p => p.id = (k : Int)

theorem syncParts_length (idx : List (Int × Nat)) : ∀ (parts : List PartitionMd) (ps ps' : List Nat),
    syncParts idx parts ps = some ps' → ps'.length = ps.length := by
  intro parts
  induction parts with
  | nil => intro ps ps' h; simp [syncParts] at h; subst h; rfl
  | cons p r ih =>
    intro ps ps' h
    simp only [syncParts] at h
    split at h
    · exact ih _ _ h
    · have := ih _ _ h
      simpa using this

/-- **sync**: after the loop, partition `k` points at the leader named by the *last* entry for `k` in the response,
    and keeps its previous reference if the response does not list it -/
theorem syncParts_spec (idx : List (Int × Nat)) : ∀ (parts : List PartitionMd) (ps ps' : List Nat) (k : Nat),
    syncParts idx parts ps = some ps' → k < ps.length →
    ps'[k]? = some (match lastFor parts k with | some p => leaderIdx idx p | none => ps[k]?.getD UNKNOWN) := by
  intro parts
  induction parts with
  | nil =>
    intro ps ps' k h hk
    simp [syncParts] at h; subst h
    simp [lastFor, hk]
  | cons p r ih =>
    intro ps ps' k h hk
    simp only [syncParts] at h
    split at h
    · -- an entry whose id is no index of the vector is ignored: it is not the entry for any `k` in range
      rename_i hout
      rw [ih _ _ k h hk]
      simp only [lastFor, List.reverse_cons, List.find?_append]
      cases hr : r.reverse.find? (fun q => decide (q.id = (k : Int))) with
      | some q => simp
      | none =>
        have hpk : ¬ p.id = (k : Int) := by omega
        simp [hpk]
    · rename_i hin
      have hlen : k < (ps.set p.id.toNat ((assocGet idx p.leader).getD UNKNOWN)).length := by simpa using hk
      rw [ih _ _ k h hlen]
      simp only [lastFor, List.reverse_cons, List.find?_append]
      cases hr : r.reverse.find? (fun q => decide (q.id = (k : Int))) with
      | some q => simp
      | none =>
        simp only [Option.none_or, List.find?_cons, List.find?_nil]
        by_cases hpk : p.id = (k : Int)
        · have : p.id.toNat = k := by omega
          simp [hpk, leaderIdx, this, List.getElem?_set, hk]
        · have : p.id.toNat ≠ k := by omega
          simp [hpk, List.getElem?_set, this]

/-- the loop never fails, whatever ids the response carries (it was an index panic, state.rs:305, for an id outside
    0..len-1 before the repair) -/
theorem syncParts_total (idx : List (Int × Nat)) : ∀ (parts : List PartitionMd) (ps : List Nat),
    ∃ ps', syncParts idx parts ps = some ps' := by
  intro parts
  induction parts with
  | nil => intro ps; exact ⟨ps, rfl⟩
  | cons p r ih =>
    intro ps
    simp only [syncParts]
    split
    · exact ih _
    · exact ih _

theorem syncParts_ok (idx : List (Int × Nat)) (parts : List PartitionMd) (ps : List Nat)
    (_ : ∀ p ∈ parts, 0 ≤ p.id ∧ p.id.toNat < ps.length) : ∃ ps', syncParts idx parts ps = some ps' :=
  syncParts_total idx parts ps

/-! ### brokers: indices are stable, addresses are the latest advertised -/

/-- **stable indices**: loading metadata never moves an already known broker to another index nor changes its
    node id — partitions of topics *not* mentioned in the response keep pointing at the same brokers -/
theorem brokers_stable (md : List BrokerMd) : ∀ (acc : List Broker × List (Int × Nat)) (i : Nat) (b : Broker),
    acc.1[i]? = some b → ∃ b', (md.foldl brokerStep acc).1[i]? = some b' ∧ b'.nodeId = b.nodeId := by
  induction md with
  | nil => intro acc i b h; exact ⟨b, h, rfl⟩
  | cons x xs ih =>
    intro acc i b h
    simp only [List.foldl_cons]
    have hlt : i < acc.1.length := (List.getElem?_eq_some_iff.mp h).1
    have step : ∃ b', (brokerStep acc x).1[i]? = some b' ∧ b'.nodeId = b.nodeId := by
      unfold brokerStep
      cases hx : assocGet acc.2 x.nodeId with
      | none =>
        refine ⟨b, ?_, rfl⟩
        simp only []
        rw [List.getElem?_append_left hlt]; exact h
      | some j =>
        simp only []
        by_cases hij : j = i
        · subst hij
          have heq : acc.1[j] = b := (List.getElem?_eq_some_iff.mp h).2
          exact ⟨⟨b.nodeId, hostPort x.host x.port⟩, by simp [List.getElem?_set, hlt, heq], rfl⟩
        · exact ⟨b, by simp [List.getElem?_set, hij, h], rfl⟩
    obtain ⟨b1, h1, h2⟩ := step
    obtain ⟨b2, h3, h4⟩ := ih _ i b1 h1
    exact ⟨b2, h3, h4.trans h2⟩

theorem C06_stable_indices (bs : List Broker) (md : List BrokerMd) (i : Nat) (b : Broker) (h : bs[i]? = some b) :
    ∃ b', (updateBrokers bs md).1[i]? = some b' ∧ b'.nodeId = b.nodeId :=
  brokers_stable md (bs, brokerIndex bs) i b h

/-- a known broker advertised again gets the advertised address (moved brokers are followed) -/
theorem C06_address_updated (acc : List Broker × List (Int × Nat)) (x : BrokerMd) (j : Nat) (b : Broker)
    (hx : assocGet acc.2 x.nodeId = some j) (hb : acc.1[j]? = some b) :
    (brokerStep acc x).1[j]? = some ⟨b.nodeId, hostPort x.host x.port⟩ := by
  have hlt : j < acc.1.length := (List.getElem?_eq_some_iff.mp hb).1
  have heq : acc.1[j] = b := (List.getElem?_eq_some_iff.mp hb).2
  simp [brokerStep, hx, List.getElem?_set, hlt, heq]

/-- a broker not known before is appended (no index shifts) and indexed -/
theorem C06_new_broker (acc : List Broker × List (Int × Nat)) (x : BrokerMd) (hx : assocGet acc.2 x.nodeId = none) :
    (brokerStep acc x).1 = acc.1 ++ [⟨x.nodeId, hostPort x.host x.port⟩] ∧
    assocGet (brokerStep acc x).2 x.nodeId = some acc.1.length := by
  simp [brokerStep, hx, assocGet_set_self]

/-! ### the index map built by `update_brokers` is sound -/

/-- every entry of the node-id ↦ index map points at a broker with that node id -/
def IdxOK (acc : List Broker × List (Int × Nat)) : Prop :=
  ∀ n i, assocGet acc.2 n = some i → ∃ b, acc.1[i]? = some b ∧ b.nodeId = n

theorem brokerStep_idxok (acc : List Broker × List (Int × Nat)) (x : BrokerMd) (h : IdxOK acc) : IdxOK (brokerStep acc x) := by
  intro n i hn
  unfold brokerStep at hn ⊢
  cases hx : assocGet acc.2 x.nodeId with
  | some j =>
    simp only [hx] at hn ⊢
    obtain ⟨b, hb, hbn⟩ := h n i hn
    have hlt : i < acc.1.length := (List.getElem?_eq_some_iff.mp hb).1
    by_cases hij : j = i
    · subst hij
      have heq : acc.1[j] = b := (List.getElem?_eq_some_iff.mp hb).2
      exact ⟨⟨b.nodeId, hostPort x.host x.port⟩, by simp [List.getElem?_set, hlt, heq], hbn⟩
    · exact ⟨b, by simp [List.getElem?_set, hij, hb], hbn⟩
  | none =>
    simp only [hx] at hn ⊢
    by_cases hnx : n = x.nodeId
    · subst hnx
      rw [assocGet_set_self] at hn
      simp at hn
      subst hn
      exact ⟨⟨x.nodeId, hostPort x.host x.port⟩, by simp, rfl⟩
    · rw [assocGet_set_other _ _ _ _ hnx] at hn
      obtain ⟨b, hb, hbn⟩ := h n i hn
      have hlt : i < acc.1.length := (List.getElem?_eq_some_iff.mp hb).1
      exact ⟨b, by rw [List.getElem?_append_left hlt]; exact hb, hbn⟩

theorem foldl_idxok (md : List BrokerMd) : ∀ acc, IdxOK acc → IdxOK (md.foldl brokerStep acc) := by
  induction md with
  | nil => intro acc h; exact h
  | cons x xs ih => intro acc h; exact ih _ (brokerStep_idxok acc x h)

theorem brokerIndex_snoc (bs : List Broker) (b : Broker) :
    brokerIndex (bs ++ [b]) = assocSet (brokerIndex bs) b.nodeId bs.length := by
  unfold brokerIndex
  have : (List.range (bs ++ [b]).length).zip (bs ++ [b]) = (List.range bs.length).zip bs ++ [(bs.length, b)] := by
    simp only [List.length_append, List.length_cons, List.length_nil, List.range_succ]
    rw [List.zip_append (by simp)]
    simp
  rw [this, List.foldl_append]
  rfl

theorem brokerIndex_idxok : ∀ (n : Nat) (bs : List Broker), bs.length = n → IdxOK (bs, brokerIndex bs) := by
  intro n
  induction n with
  | zero =>
    intro bs h
    have : bs = [] := List.eq_nil_of_length_eq_zero h
    subst this
    intro n i h; simp [brokerIndex, assocGet] at h
  | succ m ih =>
    intro bs hlen
    rcases List.eq_nil_or_concat bs with h0 | ⟨init, b, hb⟩
    · subst h0; simp at hlen
    · rw [List.concat_eq_append] at hb
      subst hb
      have hil : init.length = m := by simp at hlen; exact hlen
      intro n i hn
      rw [brokerIndex_snoc] at hn
      by_cases hnb : n = b.nodeId
      · subst hnb
        rw [assocGet_set_self] at hn
        simp at hn; subst hn
        exact ⟨b, by simp, rfl⟩
      · rw [assocGet_set_other _ _ _ _ hnb] at hn
        obtain ⟨b', hb', hbn⟩ := ih init hil n i hn
        have hlt : i < init.length := (List.getElem?_eq_some_iff.mp hb').1
        exact ⟨b', by simp only []; rw [List.getElem?_append_left hlt]; exact hb', hbn⟩

/-- **leader references are sound**: whatever index `update_brokers` hands out for a node id holds a broker with that id -/
theorem C06_index_sound (bs : List Broker) (md : List BrokerMd) : IdxOK (updateBrokers bs md) :=
  foldl_idxok md _ (brokerIndex_idxok bs.length bs rfl)

/-! ### topics: the latest response mentioning a topic decides it, other topics are untouched -/

/-- what `update_metadata` stores for one topic entry of the response, given what was there before -/
def topicUpdate (idx : List (Int × Nat)) (old : Option (List Nat)) (t : TopicMd) : Option (List Nat) :=
  syncParts idx t.partitions (match old with
    | some ps => resize ps t.partitions.length
    | none => List.replicate t.partitions.length UNKNOWN)

theorem go_untouched (idx : List (Int × Nat)) : ∀ (tms : List TopicMd) (ts ts' : List (Bytes × List Nat)) (t : Bytes),
    ClientState.updateMetadata.go idx tms ts = some ts' → (∀ tm ∈ tms, tm.topic ≠ t) → assocGet ts' t = assocGet ts t := by
  intro tms
  induction tms with
  | nil => intro ts ts' t h _; simp [ClientState.updateMetadata.go] at h; subst h; rfl
  | cons tm r ih =>
    intro ts ts' t h hne
    simp only [ClientState.updateMetadata.go] at h
    split at h
    · simp at h
    · rename_i ps' _
      rw [ih _ _ t h (fun x hx => hne x (by simp [hx]))]
      exact assocGet_set_other _ _ _ _ (Ne.symm (hne tm (by simp)))

/-- **latest mention wins, nothing else changes**: for a response whose topic names are distinct, each listed topic
    ends up with exactly `topicUpdate` of its previous entry; topics not listed keep their entry -/
theorem C06_topics (idx : List (Int × Nat)) : ∀ (tms : List TopicMd) (ts ts' : List (Bytes × List Nat)),
    ClientState.updateMetadata.go idx tms ts = some ts' → (tms.map (·.topic)).Nodup →
    ∀ tm ∈ tms, assocGet ts' tm.topic = topicUpdate idx (assocGet ts tm.topic) tm := by
  intro tms
  induction tms with
  | nil => intro ts ts' _ _ tm h; cases h
  | cons x r ih =>
    intro ts ts' h hnd tm hmem
    simp only [ClientState.updateMetadata.go] at h
    simp only [List.map_cons, List.nodup_cons] at hnd
    split at h
    · simp at h
    · rename_i ps' hs
      rcases List.mem_cons.mp hmem with rfl | hin
      · -- the entry itself: later entries have other names
        rw [go_untouched idx r _ _ tm.topic h (by
          intro y hy heq
          exact hnd.1 (List.mem_map.mpr ⟨y, hy, heq⟩))]
        rw [assocGet_set_self]
        unfold topicUpdate
        rw [← hs]
        cases assocGet ts tm.topic <;> rfl
      · have hne : tm.topic ≠ x.topic := by
          intro heq
          exact hnd.1 (List.mem_map.mpr ⟨tm, hin, heq⟩)
        rw [ih _ _ h hnd.2 tm hin, assocGet_set_other _ _ _ _ hne]

/-- **routing by the latest metadata**: after a load, partition `k` of a listed topic is routed to the address of the
    broker whose node id the response names as leader (its last entry for `k`) -/
theorem C06_route (st st' : ClientState) (md : MetadataResponse) (tm : TopicMd) (k : Nat) (p : PartitionMd) (i : Nat)
    (h : st.updateMetadata md = some st') (hnd : (md.topics.map (·.topic)).Nodup) (hmem : tm ∈ md.topics)
    (hk : k < tm.partitions.length) (hp : lastFor tm.partitions k = some p)
    (hi : assocGet (updateBrokers st.brokers md.brokers).2 p.leader = some i) :
    ∃ b, st'.brokers[i]? = some b ∧ b.nodeId = p.leader ∧ st'.findBroker tm.topic (k : Int) = some b.host := by
  unfold ClientState.updateMetadata at h
  simp only at h
  split at h
  · rename_i ts' hgo
    simp at h
    subst h
    obtain ⟨b, hb, hbn⟩ := C06_index_sound st.brokers md.brokers p.leader i hi
    refine ⟨b, hb, hbn, ?_⟩
    have htop := C06_topics _ md.topics st.topics ts' hgo hnd tm hmem
    unfold topicUpdate at htop
    cases hs : syncParts (updateBrokers st.brokers md.brokers).2 tm.partitions
        (match assocGet st.topics tm.topic with
          | some ps => resize ps tm.partitions.length
          | none => List.replicate tm.partitions.length UNKNOWN) with
    | none =>
      -- impossible: the fold succeeded, so this entry's sync succeeded
      rw [hs] at htop
      exfalso
      -- assocGet of the final map is `none` although the topic was inserted: contradiction via `go`
      have : ∀ (tms : List TopicMd) (ts ts' : List (Bytes × List Nat)), ClientState.updateMetadata.go
          (updateBrokers st.brokers md.brokers).2 tms ts = some ts' → ∀ x ∈ tms, (assocGet ts' x.topic).isSome := by
        intro tms
        induction tms with
        | nil => intro _ _ _ x hx; cases hx
        | cons y r ih =>
          intro ts ts'' hg x hx
          simp only [ClientState.updateMetadata.go] at hg
          split at hg
          · simp at hg
          · rcases List.mem_cons.mp hx with rfl | hin
            · by_cases hex : ∃ z ∈ r, z.topic = x.topic
              · obtain ⟨z, hz, hzt⟩ := hex
                rw [← hzt]; exact ih _ _ hg z hz
              · rw [go_untouched _ r _ _ x.topic hg (fun z hz hzt => hex ⟨z, hz, hzt⟩), assocGet_set_self]; rfl
            · exact ih _ _ hg x hin
      have := this md.topics st.topics ts' hgo tm hmem
      rw [htop] at this
      cases this
    | some ps' =>
      rw [hs] at htop
      have hlen : ps'.length = tm.partitions.length := by
        rw [syncParts_length _ _ _ _ hs]
        cases assocGet st.topics tm.topic with
        | none => simp
        | some ps => simp only [resize]; split <;> simp <;> omega
      have hk' : k < (match assocGet st.topics tm.topic with
          | some ps => resize ps tm.partitions.length
          | none => List.replicate tm.partitions.length UNKNOWN).length := by
        rw [← syncParts_length _ _ _ _ hs, hlen]; exact hk
      have hget := syncParts_spec _ tm.partitions _ ps' k hs hk'
      rw [hp] at hget
      simp only [leaderIdx, hi, Option.getD_some] at hget
      have hnn : ¬ ((k : Int) < 0) := by omega
      simp [ClientState.findBroker, htop, partIdx, hnn, hget, hb]
  · simp at h

/-! ### look-up and reset -/

/-- `find_broker`: the leader's *current* address, through the stable index -/
theorem C06_find (st : ClientState) (t : Bytes) (p : Int) (ps : List Nat) (i : Nat) (b : Broker)
    (ht : assocGet st.topics t = some ps) (hp : 0 ≤ p) (hi : ps[p.toNat]? = some i) (hb : st.brokers[i]? = some b) :
    st.findBroker t p = some b.host := by
  have : ¬ p < 0 := by omega
  simp [ClientState.findBroker, ht, partIdx, this, hi, hb]

/-- a partition without a leader (reference = UNKNOWN, i.e. beyond any broker list a client can hold) is unavailable -/
theorem C06_leaderless (st : ClientState) (t : Bytes) (p : Int) (ps : List Nat)
    (ht : assocGet st.topics t = some ps) (hp : 0 ≤ p) (hi : ps[p.toNat]? = some UNKNOWN) (hsz : st.brokers.length ≤ UNKNOWN) :
    st.findBroker t p = none := by
  have : ¬ p < 0 := by omega
  have hb : st.brokers[UNKNOWN]? = none := by simp [List.getElem?_eq_none_iff]; exact hsz
  simp [ClientState.findBroker, ht, partIdx, this, hi, hb]

/-- everything is forgotten on reset -/
theorem C06_reset (st : ClientState) (t : Bytes) (p : Int) :
    st.clearMetadata.findBroker t p = none ∧ st.clearMetadata.topics = [] ∧ st.clearMetadata.brokers = [] := by
  simp [ClientState.clearMetadata, ClientState.findBroker, assocGet]

/-! ### bootstrap hosts -/

/-- scripted reachability: `none` = cannot connect / send fails; `some r` = this host answers with payload `r` -/
def bootEnv (answer : Bytes → Option Bytes) : Env Unit where
  connect := fun _ h => ((), (answer h).isSome)
  send := fun _ _ _ => ((), .ok ())
  recv := fun _ h => ((), match answer h with | some r => .ok r | none => .error .io)
  pick := fun _ c => c.head?
  codecs := ⟨fun _ => none, fun _ => none, fun _ => none⟩
  comp := fun _ b => b

theorem getConn_unreachable (answer : Bytes → Option Bytes) (h : Bytes) (w : W Unit) (ha : answer h = none) (hc : h ∉ w.client.conns) :
    getConn (bootEnv answer) h w = (w, .err .io) := by
  simp [getConn, hc, bootEnv, ha]

/-- an unreachable bootstrap host is skipped: the loop goes on with the remaining hosts, state unchanged -/
theorem go_skip (answer : Bytes → Option Bytes) (topics : List Bytes) (corr : Int) (c : Client) (h : Bytes) (rest : List Bytes)
    (w : W Unit) (ha : answer h = none) (hc : h ∉ w.client.conns) :
    fetchMetadata.go (bootEnv answer) topics corr c (h :: rest) w = fetchMetadata.go (bootEnv answer) topics corr c rest w := by
  simp only [fetchMetadata.go, M.bind_def, M.try, getConn_unreachable answer h w ha hc]

/-- **bootstrap**: no-host-reachable is returned when no bootstrap host can be reached … -/
theorem C06_bootstrap_none (answer : Bytes → Option Bytes) (topics : List Bytes) (corr : Int) (c : Client) :
    ∀ (hosts : List Bytes) (w : W Unit), (∀ h ∈ hosts, answer h = none) → (∀ h ∈ hosts, h ∉ w.client.conns) →
      fetchMetadata.go (bootEnv answer) topics corr c hosts w = (w, .err .noHost) := by
  intro hosts
  induction hosts with
  | nil => intro w _ _; rfl
  | cons h rest ih =>
    intro w ha hc
    rw [go_skip answer topics corr c h rest w (ha h (by simp)) (hc h (by simp))]
    exact ih w (fun x hx => ha x (by simp [hx])) (fun x hx => hc x (by simp [hx]))

/-- … and otherwise the answer of the *first* reachable host is used: unreachable hosts in front of it are skipped -/
theorem C06_bootstrap_first (answer : Bytes → Option Bytes) (topics : List Bytes) (corr : Int) (c : Client) (first : Bytes)
    (post : List Bytes) :
    ∀ (pre : List Bytes) (w : W Unit), (∀ h ∈ pre, answer h = none) → (∀ h ∈ pre, h ∉ w.client.conns) →
      fetchMetadata.go (bootEnv answer) topics corr c (pre ++ first :: post) w =
      fetchMetadata.go (bootEnv answer) topics corr c (first :: post) w := by
  intro pre
  induction pre with
  | nil => intro w _ _; rfl
  | cons h rest ih =>
    intro w ha hc
    simp only [List.cons_append]
    rw [go_skip answer topics corr c h _ w (ha h (by simp)) (hc h (by simp))]
    exact ih w (fun x hx => ha x (by simp [hx])) (fun x hx => hc x (by simp [hx]))

/-! ### non-vacuity -/
example : syncParts [(1, 0), (2, 1)] [⟨0, 1, 2, [], []⟩, ⟨0, 0, 1, [], []⟩] [UNKNOWN, UNKNOWN] = some [0, 1] := by decide
example : lastFor [⟨0, 1, 2, [], []⟩, ⟨0, 0, 1, [], []⟩] 1 = some ⟨0, 1, 2, [], []⟩ := by decide

/-! ### led partitions keep their ids -/

theorem mem_range_zip {α} (ps : List α) (i : Nat) (b : α) :
    (i, b) ∈ (List.range ps.length).zip ps ↔ ps[i]? = some b := by
  constructor
  · intro h
    obtain ⟨k, hk⟩ := List.mem_iff_getElem?.mp h
    rw [List.getElem?_zip_eq_some] at hk
    obtain ⟨h1, h2⟩ := hk
    have : k = i := by
      rw [List.getElem?_range] at h1
      · simpa using h1
      · have := (List.getElem?_eq_some_iff.mp h2).1; exact this
    subst this; exact h2
  · intro h
    apply List.mem_iff_getElem?.mpr
    refine ⟨i, ?_⟩
    rw [List.getElem?_zip_eq_some]
    have hlt := (List.getElem?_eq_some_iff.mp h).1
    exact ⟨by rw [List.getElem?_range hlt], h⟩

/-- **what is asked where** (`fetch_offsets`, `list_offsets`, the producer's view): the led partitions of a known topic are
    exactly its partitions whose leader is a known broker, each under its *own* id and with its *own* leader's host;
    a partition without a leader is absent and does not shift the ids behind it -/
theorem C06_led_partitions (s : ClientState) (t : Bytes) (ps : List Nat) (h : assocGet s.topics t = some ps) (i : Nat) (host : Bytes) :
    (((i : Nat) : Int), host) ∈ (s.ledPartitions t).getD [] ↔
      ∃ b br, ps[i]? = some b ∧ s.brokers[b]? = some br ∧ br.host = host := by
  simp only [ClientState.ledPartitions, h, Option.map_some, Option.getD_some, List.mem_filterMap]
  constructor
  · rintro ⟨⟨j, b⟩, hm, hf⟩
    cases hb : s.brokers[b]? with
    | none => simp [hb] at hf
    | some br =>
      simp only [hb, Option.map_some, Option.some.injEq, Prod.mk.injEq] at hf
      have hj : j = i := by have := hf.1; omega
      subst hj
      exact ⟨b, br, (mem_range_zip ps j b).mp hm, hb, hf.2⟩
  · rintro ⟨b, br, hp, hb, hh⟩
    exact ⟨(i, b), (mem_range_zip ps i b).mpr hp, by simp [hb, hh]⟩
/-! ### the partition count follows the latest response, also downwards -/

theorem resize_length (ps : List Nat) (m : Nat) : (resize ps m).length = m := by
  unfold resize
  split
  · simp; omega
  · simp; omega

/-- **the partition count is the latest one**: after a load, every listed topic has exactly as many partitions as the response
    lists for it - whether the topic is new to the client, grew, or *shrank* (re-created with fewer partitions); partitions
    beyond the new count are gone from the view, with their leaders -/
theorem C06_partition_count (idx : List (Int × Nat)) (tms : List TopicMd) (ts ts' : List (Bytes × List Nat))
    (h : ClientState.updateMetadata.go idx tms ts = some ts') (hnd : (tms.map (·.topic)).Nodup) (tm : TopicMd) (hmem : tm ∈ tms) :
    ∃ ps', assocGet ts' tm.topic = some ps' ∧ ps'.length = tm.partitions.length := by
  have hu := C06_topics idx tms ts ts' h hnd tm hmem
  cases hold : assocGet ts tm.topic with
  | none =>
    rw [hold] at hu
    unfold topicUpdate at hu
    simp only [] at hu
    obtain ⟨ps', hs⟩ := syncParts_total idx tm.partitions (List.replicate tm.partitions.length UNKNOWN)
    refine ⟨ps', hu.trans hs, ?_⟩
    rw [syncParts_length idx _ _ _ hs]; simp
  | some ps =>
    rw [hold] at hu
    unfold topicUpdate at hu
    simp only [] at hu
    obtain ⟨ps', hs⟩ := syncParts_total idx tm.partitions (resize ps tm.partitions.length)
    refine ⟨ps', hu.trans hs, ?_⟩
    rw [syncParts_length idx _ _ _ hs]; exact resize_length ps _
end Kafka.Props.C06
