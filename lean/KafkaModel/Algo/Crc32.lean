import KafkaModel.Wire
/-! CRC-32/ISO-HDLC (the checksum of Kafka v0 messages; `crc::CRC_32_ISO_HDLC` in the Rust crate):
    reflected polynomial 0xEDB88320, init and xor-out 0xFFFFFFFF. Bit-at-a-time, no table. -/
namespace Kafka

def crcPoly : UInt32 := 0xEDB88320

def crcBit (s : UInt32) : UInt32 :=
  if s &&& 1 == 1 then (s >>> 1) ^^^ crcPoly else s >>> 1

def crcBits : Nat → UInt32 → UInt32
  | 0, s => s
  | n+1, s => crcBits n (crcBit s)

def crcByte (s : UInt32) (b : UInt8) : UInt32 := crcBits 8 (s ^^^ b.toUInt32)

/-- the raw register after feeding `bs` starting from `s` -/
def crcReg (s : UInt32) (bs : Bytes) : UInt32 := bs.foldl crcByte s

def crc32 (bs : Bytes) : UInt32 := crcReg 0xFFFFFFFF bs ^^^ 0xFFFFFFFF

end Kafka
