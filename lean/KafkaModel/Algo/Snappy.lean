import KafkaModel.Wire
/-! Raw snappy block format (decoder; literal-only encoder) and the xerial stream framing
    used by Kafka 0.8 brokers/clients (`org.xerial.snappy.SnappyOutputStream`). Independent of the `snap` crate. -/
namespace Kafka.Snappy

/-- little-endian base-128 varint -/
def varint : Nat → Bytes → Nat → Nat → Option (Nat × Bytes)
  | 0, _, _, _ => none
  | fuel+1, bs, shift, acc =>
    match bs with
    | [] => none
    | b :: r =>
      let acc := acc + (b.toNat % 128) * 2 ^ shift
      if b.toNat < 128 then some (acc, r) else varint fuel r (shift + 7) acc

def encVarint : Nat → Nat → Bytes
  | 0, _ => [0]
  | fuel+1, n => if n < 128 then [UInt8.ofNat n] else UInt8.ofNat (128 + n % 128) :: encVarint fuel (n / 128)

def leN (bs : Bytes) : Nat := bs.foldr (fun b a => a * 256 + b.toNat) 0

def copyLoop (out : Array UInt8) (off : Nat) : Nat → Array UInt8
  | 0 => out
  | n+1 => copyLoop (out.push out[out.size - off]!) off n

/-- element loop; `fuel` bounds the number of elements (≤ input length) -/
def elems : Nat → Bytes → Array UInt8 → Option (Array UInt8)
  | 0, bs, out => if bs.isEmpty then some out else none
  | fuel+1, bs, out =>
    match bs with
    | [] => some out
    | tag :: r =>
      let t := tag.toNat
      match t % 4 with
      | 0 =>
        let l := t / 4
        if l < 60 then
          if l + 1 ≤ r.length then elems fuel (r.drop (l + 1)) (out ++ (r.take (l + 1)).toArray) else none
        else
          let nb := l - 59
          if nb ≤ r.length then
            let len := leN (r.take nb) + 1
            let r := r.drop nb
            if len ≤ r.length then elems fuel (r.drop len) (out ++ (r.take len).toArray) else none
          else none
      | 1 =>
        match r with
        | b :: r' =>
          let len := 4 + (t / 4) % 8
          let off := (t / 32) * 256 + b.toNat
          if off = 0 ∨ off > out.size then none else elems fuel r' (copyLoop out off len)
        | [] => none
      | 2 =>
        match r with
        | b0 :: b1 :: r' =>
          let len := t / 4 + 1
          let off := b0.toNat + 256 * b1.toNat
          if off = 0 ∨ off > out.size then none else elems fuel r' (copyLoop out off len)
        | _ => none
      | _ =>
        match r with
        | b0 :: b1 :: b2 :: b3 :: r' =>
          let len := t / 4 + 1
          let off := leN [b0, b1, b2, b3]
          if off = 0 ∨ off > out.size then none else elems fuel r' (copyLoop out off len)
        | _ => none

/-- decode one raw snappy block -/
def rawDecode (bs : Bytes) : Option Bytes :=
  match varint 10 bs 0 0 with
  | none => none
  | some (n, r) =>
    match elems (r.length + 1) r #[] with
    | some out => if out.size = n then some out.toList else none
    | none => none

/-- literal-only encoder: valid snappy, no compression (chunks literals at 60 bytes … we use the 2-byte length form) -/
def litChunks : Nat → Bytes → Bytes
  | 0, _ => []
  | fuel+1, bs =>
    if bs.isEmpty then [] else
    let c := bs.take 65536
    let l := c.length - 1
    (if l < 60 then [UInt8.ofNat (l * 4)]
     else if l < 256 then [UInt8.ofNat (60 * 4), UInt8.ofNat l]
     else [UInt8.ofNat (61 * 4), UInt8.ofNat (l % 256), UInt8.ofNat (l / 256)]) ++ c ++ litChunks fuel (bs.drop 65536)

def rawEncode (bs : Bytes) : Bytes := encVarint 10 bs.length ++ litChunks (bs.length + 1) bs

def xerialMagic : Bytes := [0x82, 0x53, 0x4e, 0x41, 0x50, 0x50, 0x59, 0x00]
def xerialHeader : Bytes := xerialMagic ++ be 4 1 ++ be 4 1

def splitEvery (n : Nat) : Nat → Bytes → List Bytes
  | 0, _ => []
  | fuel+1, bs => if bs.isEmpty then [] else bs.take n :: splitEvery n fuel (bs.drop n)

/-- xerial frame: header, then (int32 length, raw block) per chunk of `chunk` input bytes -/
def xerialEncode (chunk : Nat) (bs : Bytes) : Bytes :=
  xerialHeader ++ (splitEvery (max chunk 1) (bs.length + 1) bs).flatMap fun c =>
    let e := rawEncode c
    be 4 e.length ++ e

def xerialChunks : Nat → Bytes → Option Bytes
  | 0, bs => if bs.isEmpty then some [] else none
  | fuel+1, bs =>
    if bs.isEmpty then some [] else
    match readI 4 bs with
    | none => none
    | some (n, r) =>
      if n ≤ 0 then none else
      match readN n.toNat r with
      | none => none
      | some (c, r') =>
        match rawDecode c, xerialChunks fuel r' with
        | some d, some t => some (d ++ t)
        | _, _ => none

/-- decode a xerial-framed stream -/
def xerialDecode (bs : Bytes) : Option Bytes :=
  match readN 16 bs with
  | none => none
  | some (h, r) => if h = xerialHeader then xerialChunks (r.length + 1) r else none

end Kafka.Snappy
