import KafkaModel.Wire
/-! XXH32 (the hash behind the default partitioner: `twox_hash::XxHash32`, seed 0). -/
namespace Kafka.Xxh

def P1 : UInt32 := 2654435761
def P2 : UInt32 := 2246822519
def P3 : UInt32 := 3266489917
def P4 : UInt32 := 668265263
def P5 : UInt32 := 374761393

def rotl (x : UInt32) (r : UInt32) : UInt32 := (x <<< r) ||| (x >>> (32 - r))

def le32 (a b c d : UInt8) : UInt32 :=
  a.toUInt32 ||| (b.toUInt32 <<< 8) ||| (c.toUInt32 <<< 16) ||| (d.toUInt32 <<< 24)

def round (acc inp : UInt32) : UInt32 := rotl (acc + inp * P2) 13 * P1

structure Acc where
  v1 : UInt32
  v2 : UInt32
  v3 : UInt32
  v4 : UInt32

/-- consume 16-byte stripes; returns the accumulators and the unconsumed tail (< 16 bytes) -/
def stripes : Nat → Acc → Bytes → Acc × Bytes
  | 0, a, bs => (a, bs)
  | n+1, a, bs =>
    match bs with
    | a0::a1::a2::a3::b0::b1::b2::b3::c0::c1::c2::c3::d0::d1::d2::d3::r =>
      stripes n { v1 := round a.v1 (le32 a0 a1 a2 a3), v2 := round a.v2 (le32 b0 b1 b2 b3),
                  v3 := round a.v3 (le32 c0 c1 c2 c3), v4 := round a.v4 (le32 d0 d1 d2 d3) } r
    | _ => (a, bs)

def tail4 : Nat → UInt32 → Bytes → UInt32 × Bytes
  | 0, h, bs => (h, bs)
  | n+1, h, bs =>
    match bs with
    | a::b::c::d::r => tail4 n (rotl (h + le32 a b c d * P3) 17 * P4) r
    | _ => (h, bs)

def tail1 (h : UInt32) (bs : Bytes) : UInt32 :=
  bs.foldl (fun h b => rotl (h + b.toUInt32 * P5) 11 * P1) h

def avalanche (h : UInt32) : UInt32 :=
  let h := h ^^^ (h >>> 15)
  let h := h * P2
  let h := h ^^^ (h >>> 13)
  let h := h * P3
  h ^^^ (h >>> 16)

def xxh32 (seed : UInt32) (bs : Bytes) : UInt32 :=
  let len := bs.length
  let (h, rest) :=
    if len ≥ 16 then
      let (a, rest) := stripes len { v1 := seed + P1 + P2, v2 := seed + P2, v3 := seed, v4 := seed - P1 } bs
      (rotl a.v1 1 + rotl a.v2 7 + rotl a.v3 12 + rotl a.v4 18, rest)
    else (seed + P5, bs)
  let h := h + UInt32.ofNat len
  let (h, rest) := tail4 4 h rest
  avalanche (tail1 h rest)

end Kafka.Xxh
