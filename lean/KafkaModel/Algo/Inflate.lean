import KafkaModel.Wire
import KafkaModel.Algo.Crc32
/-! DEFLATE (RFC 1951) decoder and gzip (RFC 1952) member parser, plus a stored-block gzip encoder.
    Independent of `flate2`; used by executables only (never inside a theorem). -/
namespace Kafka.Inflate

structure St where
  inp : Array UInt8
  pos : Nat := 0        -- byte position
  bitbuf : Nat := 0
  bitcnt : Nat := 0
  out : Array UInt8 := #[]

abbrev M := StateT St (Except String)

def bits (need : Nat) : M Nat := do
  let mut s ← get
  let mut val := s.bitbuf
  let mut cnt := s.bitcnt
  let mut pos := s.pos
  -- at most 3 bytes are needed for ≤ 16 bits
  for _ in [0:4] do
    if cnt < need then
      if pos ≥ s.inp.size then throw "eof"
      val := val + (s.inp[pos]!).toNat * 2 ^ cnt
      pos := pos + 1
      cnt := cnt + 8
  set { s with pos := pos, bitbuf := val / 2 ^ need, bitcnt := cnt - need }
  return val % 2 ^ need

structure Huff where
  count : Array Nat    -- per length 0..15
  symbol : Array Nat

def construct (lengths : Array Nat) : Huff := Id.run do
  let mut count := Array.replicate 16 0
  for l in lengths do count := count.modify l (· + 1)
  let mut offs := Array.replicate 16 0
  for len in [1:15] do offs := offs.set! (len + 1) (offs[len]! + count[len]!)
  let mut symbol := Array.replicate lengths.size 0
  for sym in [0:lengths.size] do
    let l := lengths[sym]!
    if l ≠ 0 then
      symbol := symbol.set! offs[l]! sym
      offs := offs.modify l (· + 1)
  return ⟨count, symbol⟩

/-- is the code over-subscribed / incomplete?  returns `left` as in puff.c (negative = over-subscribed) -/
def leftOver (h : Huff) : Int := Id.run do
  let mut left : Int := 1
  for len in [1:16] do
    left := left * 2 - h.count[len]!
    if left < 0 then return left
  return left

def decodeSym (h : Huff) : M Nat := do
  let mut code := 0
  let mut first := 0
  let mut index := 0
  for len in [1:16] do
    let b ← bits 1
    code := code + b
    let count := h.count[len]!
    if code < first + count then
      return h.symbol[index + (code - first)]!
    index := index + count
    first := (first + count) * 2
    code := code * 2
  throw "bad code"

def lbase : Array Nat := #[3,4,5,6,7,8,9,10,11,13,15,17,19,23,27,31,35,43,51,59,67,83,99,115,131,163,195,227,258]
def lext : Array Nat := #[0,0,0,0,0,0,0,0,1,1,1,1,2,2,2,2,3,3,3,3,4,4,4,4,5,5,5,5,0]
def dbase : Array Nat := #[1,2,3,4,5,7,9,13,17,25,33,49,65,97,129,193,257,385,513,769,1025,1537,2049,3073,4097,6145,8193,12289,16385,24577]
def dext : Array Nat := #[0,0,0,0,1,1,2,2,3,3,4,4,5,5,6,6,7,7,8,8,9,9,10,10,11,11,12,12,13,13]

partial def codes (lencode distcode : Huff) : M Unit := do
  let sym ← decodeSym lencode
  if sym < 256 then
    modify fun s => { s with out := s.out.push (UInt8.ofNat sym) }
    codes lencode distcode
  else if sym = 256 then return ()
  else
    let sym := sym - 257
    if sym ≥ 29 then throw "bad length symbol"
    let len := lbase[sym]! + (← bits lext[sym]!)
    let ds ← decodeSym distcode
    if ds ≥ 30 then throw "bad distance symbol"
    let dist := dbase[ds]! + (← bits dext[ds]!)
    let s ← get
    -- A distance reaching before the start of the output is invalid DEFLATE (zlib rejects it).  The decoder behind the
    -- crate (flate2 / miniz_oxide, streaming through a zero-initialised 32 KiB window) reads zeros there instead; since
    -- this decoder stands in for the crate's when the model is executed, it does the same.  The gzip trailer (CRC-32 and
    -- length of the output) is still checked afterwards.
    let mut out := s.out
    for _ in [0:len] do out := out.push (if dist > out.size then 0 else out[out.size - dist]!)
    set { s with out := out }
    codes lencode distcode

def fixedLen : Huff := construct
  ((Array.replicate 144 8) ++ (Array.replicate 112 9) ++ (Array.replicate 24 7) ++ (Array.replicate 8 8))
def fixedDist : Huff := construct (Array.replicate 30 5)

def order : Array Nat := #[16,17,18,0,8,7,9,6,10,5,11,4,12,3,13,2,14,1,15]

partial def readLengths (lencode : Huff) (total : Nat) (acc : Array Nat) : M (Array Nat) := do
  if acc.size ≥ total then return acc
  let sym ← decodeSym lencode
  if sym < 16 then readLengths lencode total (acc.push sym)
  else
    let (v, rep) ←
      if sym = 16 then do
        if acc.size = 0 then throw "no last length"
        pure (acc[acc.size - 1]!, 3 + (← bits 2))
      else if sym = 17 then do pure (0, 3 + (← bits 3))
      else do pure (0, 11 + (← bits 7))
    if acc.size + rep > total then throw "too many lengths"
    readLengths lencode total (acc ++ Array.replicate rep v)

def dynamic : M Unit := do
  let nlen := (← bits 5) + 257
  let ndist := (← bits 5) + 1
  let ncode := (← bits 4) + 4
  if nlen > 286 ∨ ndist > 30 then throw "bad counts"
  let mut lengths := Array.replicate 19 0
  for i in [0:ncode] do
    lengths := lengths.set! order[i]! (← bits 3)
  let lc := construct lengths
  if leftOver lc ≠ 0 then throw "incomplete code-length code"
  let ls ← readLengths lc (nlen + ndist) #[]
  if ls[256]! = 0 then throw "no end-of-block"
  let lencode := construct (ls.extract 0 nlen)
  let ll := leftOver lencode
  if ll < 0 ∨ (ll > 0 ∧ nlen - lencode.count[0]! ≠ 1) then throw "bad literal/length code"
  let distcode := construct (ls.extract nlen (nlen + ndist))
  let dl := leftOver distcode
  if dl < 0 ∨ (dl > 0 ∧ ndist - distcode.count[0]! ≠ 1) then throw "bad distance code"
  codes lencode distcode

def stored : M Unit := do
  let s ← get
  -- discard leftover bits of the current byte
  let pos := s.pos
  if pos + 4 > s.inp.size then throw "eof"
  let len := (s.inp[pos]!).toNat + 256 * (s.inp[pos+1]!).toNat
  let nlen := (s.inp[pos+2]!).toNat + 256 * (s.inp[pos+3]!).toNat
  if len + nlen ≠ 65535 then throw "stored length mismatch"
  if pos + 4 + len > s.inp.size then throw "eof"
  set { s with pos := pos + 4 + len, bitbuf := 0, bitcnt := 0, out := s.out ++ s.inp.extract (pos + 4) (pos + 4 + len) }

partial def blocks : M Unit := do
  let last ← bits 1
  let ty ← bits 2
  match ty with
  | 0 => stored
  | 1 => codes fixedLen fixedDist
  | 2 => dynamic
  | _ => throw "bad block type"
  if last = 1 then return () else blocks

/-- raw DEFLATE: returns the output and the number of input bytes consumed -/
def inflateRaw (inp : Bytes) : Except String (Bytes × Nat) :=
  match (blocks.run { inp := inp.toArray }) with
  | .ok ((), s) => .ok (s.out.toList, s.pos)
  | .error e => .error e

def le (bs : Bytes) : Nat := bs.foldr (fun b a => a * 256 + b.toNat) 0

def dropZ : Bytes → Option Bytes
  | [] => none
  | b :: r => if b = 0 then some r else dropZ r

/-- one gzip member: header, deflate stream, CRC-32 and ISIZE trailer (both checked) -/
def gunzip (bs : Bytes) : Except String Bytes := do
  match bs with
  | 0x1f :: 0x8b :: 8 :: flg :: _ :: _ :: _ :: _ :: _ :: _ :: r =>
    let f := flg.toNat
    -- RFC 1952: "must give an error indication if any reserved bit is non-zero" (flate2 does)
    if f / 32 ≠ 0 then throw "reserved flag bits"
    let r ← (if f / 4 % 2 = 1 then
        match r with
        | a :: b :: r' => if a.toNat + 256 * b.toNat ≤ r'.length then pure (r'.drop (a.toNat + 256 * b.toNat)) else throw "eof"
        | _ => throw "eof"
      else pure r : Except String Bytes)
    let r ← (if f / 8 % 2 = 1 then (match dropZ r with | some r => pure r | none => throw "eof") else pure r : Except String Bytes)
    let r ← (if f / 16 % 2 = 1 then (match dropZ r with | some r => pure r | none => throw "eof") else pure r : Except String Bytes)
    -- FHCRC: the low 16 bits of the CRC-32 of the header read so far, checked (as flate2 does)
    let r ← (if f / 2 % 2 = 1 then
        (match r with
         | a :: b :: r' =>
           if a.toNat + 256 * b.toNat = (crc32 (bs.take (bs.length - r.length))).toNat % 65536 then pure r' else throw "header crc mismatch"
         | _ => throw "eof")
      else pure r : Except String Bytes)
    let (out, used) ← inflateRaw r
    let t := r.drop used
    if t.length < 8 then throw "eof in trailer"
    if le (t.take 4) ≠ (crc32 out).toNat then throw "crc mismatch"
    if le ((t.drop 4).take 4) ≠ out.length % 2 ^ 32 then throw "isize mismatch"
    pure out
  | _ => throw "bad gzip header"

def leBytes (k n : Nat) : Bytes := (be k n).reverse

def storedBlocks : Nat → Bytes → Bytes
  | 0, _ => []
  | fuel+1, bs =>
    let c := bs.take 65535
    let r := bs.drop 65535
    let final : UInt8 := if r.isEmpty then 1 else 0
    (final :: leBytes 2 c.length ++ leBytes 2 (65535 - c.length) ++ c) ++ (if r.isEmpty then [] else storedBlocks fuel r)

/-- gzip member made of stored blocks (valid, uncompressed) -/
def gzipStored (bs : Bytes) : Bytes :=
  [0x1f, 0x8b, 8, 0, 0, 0, 0, 0, 0, 255] ++ storedBlocks (bs.length + 1) bs ++
  leBytes 4 (crc32 bs).toNat ++ leBytes 4 (bs.length % 2 ^ 32)

end Kafka.Inflate
