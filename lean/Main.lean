import KafkaModel.Driver
import KafkaModel.Replay
import KafkaModel.Judge
open Kafka Kafka.Spec Kafka.Driver

structure Sess where
  cluster : Cluster := {}
  trace : Array String := #[]

def splitToks (line : String) : List String :=
  (line.trimAscii.toString.splitOn " ").filter (· ≠ "")

def stepLine (s : Sess) (line : String) : Sess × List String :=
  let toks := splitToks line
  let s := { s with trace := s.trace.push line }
  match toks with
  | ["REQ", host, frame] =>
    match fromHex host, fromHex frame with
    | some h, some f =>
      let (c, out) := serveReq s.cluster h f
      ({ s with cluster := c, trace := s.trace.push out }, [out])
    | _, _ => (s, ["BAD hex"])
  | "OP" :: _ => (s, [])
  | "RESULT" :: _ => (s, [])
  | "NOTE" :: _ => (s, [])
  | "CONNECT" :: _ => (s, [])
  | "IO" :: _ => (s, [])
  | "RAW" :: _ => (s, [])
  | ["PING"] => (s, ["PONG"])
  | ["DUMP"] => (s, [toString (repr s.cluster), "ENDDUMP"])
  | "END" :: props =>
    let ms := Kafka.Replay.replayLines true s.trace.toList
    let js := props.flatMap fun p => (Kafka.Judge.judge p s.trace.toList).map (s!"JUDGE {p} " ++ ·)
    ({ cluster := {}, trace := #[] }, ms.map ("MISMATCH " ++ ·) ++ js ++ [s!"DONE {ms.length + js.length}"])
  | [] => (s, [])
  | _ =>
    match setup s.cluster toks with
    | some c => ({ s with cluster := c }, ["OK"])
    | none => (s, ["ERR bad-command " ++ line.trimAscii.toString])

partial def serveLoop (hin hout : IO.FS.Stream) (s : Sess) : IO Unit := do
  let line ← hin.getLine
  if line.isEmpty then return ()
  let (s', outs) := stepLine s line
  for o in outs do hout.putStrLn o
  hout.flush
  serveLoop hin hout s'

def main (args : List String) : IO UInt32 := do
  match args with
  | ["serve"] =>
    serveLoop (← IO.getStdin) (← IO.getStdout) {}
    return 0
  | "replay" :: file :: props =>
    let lines := (← IO.FS.lines file).toList
    let ms := Kafka.Replay.replayLines true lines
    for m in ms do IO.println ("MISMATCH " ++ m)
    let js := props.flatMap fun p => (Kafka.Judge.judge p lines).map (s!"JUDGE {p} " ++ ·)
    for j in js do IO.println j
    IO.println s!"DONE {ms.length + js.length}"
    return (if ms.isEmpty && js.isEmpty then 0 else 1)
  | _ =>
    IO.eprintln "usage: kmodel serve | replay <trace>"
    return 2
