import Lean
import KafkaModel.Props.CXX
/- Audit: prints, for every theorem declared in namespace `Kafka.Props.CXX`, the axioms it depends on.
   (generated per property by bin/check from Audit/Template.lean) -/
open Lean Elab Command in
#eval show CommandElabM Unit from do
  let env ← getEnv
  let pre := `Kafka.Props.CXX
  let mut names : Array Name := #[]
  for (n, ci) in env.constants.map₁.toList do
    if pre.isPrefixOf n && !n.isInternalDetail then
      match ci with
      | .thmInfo _ => names := names.push n
      | _ => pure ()
  for n in names.qsort (fun a b => a.toString < b.toString) do
    let axs ← liftCoreM (collectAxioms n)
    logInfo m!"THEOREM {n} AXIOMS {axs.toList}"
