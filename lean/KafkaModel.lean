import KafkaModel.Wire
