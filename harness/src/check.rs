//! `kharness check <prop>`: generate scenarios for a property, run each on the real crate against the
//! Lean specification broker, collect model-vs-implementation mismatches and judge verdicts.
use std::collections::{BTreeMap, HashSet};

use crate::exec::Session;
use crate::gen::{self, Dist};
use crate::rng::Rng;
use crate::transport;

pub struct Failure {
    pub kind: &'static str, // "mismatch" | "judge"
    pub scenario: Vec<String>,
    pub lines: Vec<String>,
}

pub struct Report {
    pub evaluations: u64,
    pub distinct: HashSet<u64>,
    pub samples: Vec<Vec<String>>,
    pub dist: Dist,
    pub failures: Vec<Failure>,
    pub ops: u64,
    pub requests: u64,
}

fn fnv(s: &str) -> u64 {
    let mut hsh: u64 = 0xcbf29ce484222325;
    for b in s.bytes() {
        hsh ^= b as u64;
        hsh = hsh.wrapping_mul(0x100000001b3);
    }
    hsh
}

pub type Gen = fn(&mut Rng, &mut Dist, u64) -> Vec<String>;

pub fn generator(prop: &str) -> Option<Gen> {
    match prop {
        "C12" => Some(gen::gen_c12),
        "C03" => Some(gen::gen_c03),
        "C09" => Some(gen::gen_c09),
        "C10" => Some(gen::gen_c10),
        "C11" => Some(gen::gen_c11),
        "C14" => Some(gen::gen_c14),
        "C20" => Some(gen::gen_c20),
        "C16" => Some(gen::gen_c16),
        "C07" => Some(gen::gen_c07),
        "C19" => Some(gen::gen_c19),
        "C05" => Some(gen::gen_c05),
        "C06" => Some(gen::gen_c06),
        "C02" => Some(gen::gen_c02),
        "C04" => Some(gen::gen_c04),
        "C01" => Some(gen::gen_c01),
        "C08" => Some(gen::gen_c08),
        "C17" => Some(gen::gen_c17),
        "C15" => Some(gen::gen_c15),
        "C18" => Some(gen::gen_c18),
        "C13" => Some(gen::gen_c13),
        _ => None,
    }
}

pub fn budget(prop: &str, tier: &str) -> u64 {
    let quick = match prop {
        "C11" => 400,
        "C16" => 400,
        "C07" => 400,
        "C19" => 300,
        "C05" => 300,
        "C06" => 300,
        "C02" => 300,
        "C04" => 900,
        "C01" => 200,
        "C08" => 300,
        "C17" => 300,
        "C15" => 500,
        "C18" => 300,
        "C13" => 600,
        "C14" => 3 * 6 * 155 + 200,
        _ => 150,
    };
    // change-directed effort: when /repo's sources differ from the tree the framework was last validated against, the
    // orchestrator asks for a multiple of the quick budget (more exploration only; never a different verdict rule)
    let mult: u64 = std::env::var("KH_BUDGET_MULT").ok().and_then(|s| s.parse().ok()).unwrap_or(1).max(1);
    if tier == "thorough" {
        quick * 20
    } else {
        quick * mult
    }
}

/// runs one scenario; returns (mismatch lines, judge lines, number of ops, number of requests, nontrivial?)
pub fn run_scenario(world: &transport::Shared, prop: &str, lines: &[String]) -> (Vec<String>, Vec<String>, u64, u64, String) {
    {
        let mut w = world.borrow_mut();
        w.faults = transport::Faults { max_requests_per_op: 64, ..Default::default() };
        w.sends = 0;
        w.recvs = 0;
        w.reads = 0;
        w.partial.clear();
        w.req_index = 0;
        w.raw_replies.clear();
    }
    let mut sess = Session::new(world.clone());
    for l in lines {
        sess.line(l);
    }
    let verdict = world.borrow_mut().lean.end(prop);
    let trace = world.borrow_mut().lean.take_trace();
    let nreq = trace.iter().filter(|l| l.starts_with("REQ ")).count() as u64;
    let nops = sess.results.len() as u64;
    let mut sig: String = sess.results.iter().map(|(o, r)| format!("{}=>{};", o.split(' ').take(2).collect::<Vec<_>>().join(" "), r)).collect();
    // what went over the wire is part of a case's identity
    let reqs: String = trace.iter().filter(|l| l.starts_with("REQ ")).map(|l| l.as_str()).collect::<Vec<_>>().join("|");
    sig.push_str(&format!("#{:x}", fnv(&reqs)));
    // … and so is the broker-side set-up (logs, faults) the scenario ran against
    let setup: String = lines.iter().filter(|l| !l.starts_with("OP ")).map(|l| l.as_str()).collect::<Vec<_>>().join("|");
    sig.push_str(&format!("#{:x}", fnv(&setup)));
    let mut mm = Vec::new();
    let mut jj = Vec::new();
    for v in verdict {
        if v.starts_with("MISMATCH") {
            mm.push(v);
        } else if v.starts_with("JUDGE") {
            jj.push(v);
        }
    }
    (mm, jj, nops, nreq, sig)
}

thread_local! {
    /// the world of the running check, for generators that need a first pass through the real client (C13)
    pub static GEN_WORLD: std::cell::RefCell<Option<transport::Shared>> = std::cell::RefCell::new(None);
}

/// run a scenario for its trace only
pub fn trace_scenario(lines: &[String]) -> Vec<String> {
    let world = GEN_WORLD.with(|w| w.borrow().clone()).expect("no world");
    {
        let mut w = world.borrow_mut();
        w.faults = transport::Faults { max_requests_per_op: 64, ..Default::default() };
        w.sends = 0;
        w.recvs = 0;
        w.reads = 0;
        w.partial.clear();
        w.req_index = 0;
        w.raw_replies.clear();
    }
    let mut sess = Session::new(world.clone());
    for l in lines {
        sess.line(l);
    }
    drop(sess);
    let _ = world.borrow_mut().lean.end("");
    let t = world.borrow_mut().lean.take_trace();
    t
}

/// the crate's thin public wrappers get their share of the calls: a third of the single-partition fetches go through
/// `fetch_messages_for_partition`, a third of the single-offset commits through `commit_offset`, a fifth of the polls are
/// followed by `consume_messageset` on everything delivered (chosen by a hash of the line, so the generators' random
/// streams are not disturbed)
fn via_wrapper(prop: &str, pos: usize, line: &str, dist: &mut BTreeMap<String, u64>) -> String {
    let toks: Vec<&str> = line.split(' ').collect();
    let hsh = fnv(&format!("{}#{}", line, pos));
    let out = match toks.as_slice() {
        ["OP", tgt, "fetch_messages", t, p, o, m] if hsh % 3 == 0 => format!("OP {} fetch_for_partition {} {} {} {}", tgt, t, p, o, m),
        ["OP", tgt, "commit_offsets", g, t, p, o] if hsh % 3 == 0 => format!("OP {} commit_offset {} {} {} {}", tgt, g, t, p, o),
        ["OP", "poll"] if hsh % 5 == 0 && (prop == "C08" || prop == "C01" || prop == "C19") => "OP poll_mark".to_string(),
        _ => line.to_string(),
    };
    if out != line {
        *dist.entry("via-thin-wrapper".to_string()).or_insert(0) += 1;
    }
    out
}

/// histories of the *other* properties' generators, judged with this property's statement (a judge states a property of
/// every history, not only of the ones its own generator makes): `per` scenarios from each foreign generator
pub fn foreign_scenarios(prop: &str, per: u64, seed: u64, dist: &mut BTreeMap<String, u64>) -> Vec<Vec<String>> {
    foreign_scenarios_tagged(prop, per, seed, dist).into_iter().map(|(_, s)| s).collect()
}

pub fn foreign_scenarios_tagged(prop: &str, per: u64, seed: u64, dist: &mut BTreeMap<String, u64>) -> Vec<(String, Vec<String>)> {
    let everything = ["C01", "C02", "C03", "C04", "C05", "C06", "C07", "C08", "C09", "C10", "C11", "C12", "C14", "C15", "C16", "C17", "C18", "C19", "C20"];
    // KH_CROSS_ALL (edit-time, `kharness cross`): every generator, to find out which pairs are sound
    let all: Vec<&str> = if std::env::var("KH_CROSS_ALL").is_ok() { everything.to_vec() } else { crate::cross::foreign_generators(prop).to_vec() };
    let mut out = Vec::new();
    let mut rng = Rng::new(seed ^ 0x5eed_f0e1);
    for g in all.iter() {
        if *g == prop {
            continue;
        }
        let gen = generator(g).unwrap();
        for i in 0..per {
            let mut r = rng.fork();
            let mut scratch = Dist::new();
            // indices past the generators' exhaustive / fixed prefixes
            let sc = gen(&mut r, &mut scratch, 100_000 + i);
            if sc.len() > 400 {
                continue;
            }
            *dist.entry(format!("foreign-history-{}", g)).or_insert(0) += 1;
            out.push((g.to_string(), sc));
        }
    }
    out
}

pub fn run(prop: &str, tier: &str, seed: u64, corpus: &[Vec<String>]) -> Report {
    let gen = generator(prop).expect("no generator for property");
    let n = budget(prop, tier);
    let world = transport::new_world();
    GEN_WORLD.with(|w| *w.borrow_mut() = Some(world.clone()));
    let mut rep = Report {
        evaluations: 0,
        distinct: HashSet::new(),
        samples: Vec::new(),
        dist: BTreeMap::new(),
        failures: Vec::new(),
        ops: 0,
        requests: 0,
    };
    let mut rng = Rng::new(seed);
    let mut scenarios: Vec<Vec<String>> = corpus.to_vec();
    for i in 0..n {
        let mut r = rng.fork();
        let sc = gen(&mut r, &mut rep.dist, i);
        scenarios.push(sc.into_iter().enumerate().map(|(k, l)| via_wrapper(prop, k, &l, &mut rep.dist)).collect());
    }
    // the foreign phase: histories of the other properties' generators under this property's judge.  Only judged failures
    // count there; a model/implementation difference on a foreign history is the subject of that history's own property.
    let own = scenarios.len();
    let per: u64 = match tier {
        "thorough" => 60,
        _ => 4 * std::env::var("KH_BUDGET_MULT").ok().and_then(|s| s.parse::<u64>().ok()).unwrap_or(1).max(1),
    };
    if std::env::var("KH_NO_FOREIGN").is_err() {
        scenarios.extend(foreign_scenarios(prop, per, seed, &mut rep.dist));
    }
    let running = std::env::var("KH_RUNNING_FILE").ok();
    for (si, sc) in scenarios.into_iter().enumerate() {
        let foreign = si >= own;
        if let Some(f) = &running {
            // should the process die inside this scenario (stack overflow, abort, watchdog), this file is the replay
            let _ = std::fs::write(f, sc.join("\n") + "\n");
        }
        let (mm, jj, nops, nreq, sig) = run_scenario(&world, prop, &sc);
        rep.evaluations += 1;
        rep.ops += nops;
        rep.requests += nreq;
        if nreq > 0 {
            rep.distinct.insert(fnv(&sig));
        }
        if rep.samples.len() < 2 {
            rep.samples.push(sc.clone());
        }
        if !jj.is_empty() {
            rep.failures.push(Failure { kind: "judge", scenario: sc.clone(), lines: jj });
        }
        if !mm.is_empty() && !foreign {
            rep.failures.push(Failure { kind: "mismatch", scenario: sc, lines: mm });
        }
        if rep.failures.len() > 40 {
            break;
        }
    }
    if let Some(f) = &running {
        let _ = std::fs::remove_file(f);
    }
    rep
}

fn jstr(s: &str) -> String {
    let mut o = String::from("\"");
    for c in s.chars() {
        match c {
            '"' => o.push_str("\\\""),
            '\\' => o.push_str("\\\\"),
            '\n' => o.push_str("\\n"),
            c if (c as u32) < 0x20 => o.push_str(&format!("\\u{:04x}", c as u32)),
            c => o.push(c),
        }
    }
    o.push('"');
    o
}

fn jlist(xs: &[String]) -> String {
    format!("[{}]", xs.iter().map(|x| jstr(x)).collect::<Vec<_>>().join(","))
}

pub fn report_json(prop: &str, rep: &Report) -> String {
    let fails: Vec<String> = rep
        .failures
        .iter()
        .map(|f| format!("{{\"kind\":{},\"scenario\":{},\"lines\":{}}}", jstr(f.kind), jlist(&f.scenario), jlist(&f.lines)))
        .collect();
    let samples: Vec<String> = rep.samples.iter().map(|s| jlist(s)).collect();
    let dist: Vec<String> = rep.dist.iter().map(|(k, v)| format!("{}:{}", jstr(k), v)).collect();
    format!(
        "{{\"property\":{},\"evaluations\":{},\"distinct_nontrivial\":{},\"ops\":{},\"requests\":{},\"samples\":[{}],\"distribution\":{{{}}},\"failures\":[{}]}}",
        jstr(prop),
        rep.evaluations,
        rep.distinct.len(),
        rep.ops,
        rep.requests,
        samples.join(","),
        dist.join(","),
        fails.join(",")
    )
}
