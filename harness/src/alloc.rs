//! Counting allocator: remembers the largest single request since the last reset.  It is also deliberately unfriendly to
//! dangling pointers, within what any allocator may do: freed blocks are overwritten with 0xDD before they are released, and
//! `realloc` always moves the block (the old one is poisoned and freed) - so a view into a buffer that was dropped, shrunk
//! or grown shows garbage at once instead of "the old bytes, still there".  Requests of 1 GiB or more are served
//! from a lazily committed anonymous mapping, so that a hostile length field which makes the crate ask for 100 GiB is
//! *observed* instead of killing the harness.
use std::alloc::{GlobalAlloc, Layout, System};
use std::sync::atomic::{AtomicUsize, Ordering};

pub const BIG: usize = 1 << 30;
/// blocks up to this size are poisoned when freed (larger ones would cost too much time)
const POISON_MAX: usize = 8 << 20;

static MAX_REQ: AtomicUsize = AtomicUsize::new(0);

pub struct Counting;

fn note(n: usize) {
    MAX_REQ.fetch_max(n, Ordering::Relaxed);
}

pub fn reset() {
    MAX_REQ.store(0, Ordering::Relaxed);
}

pub fn max_request() -> usize {
    MAX_REQ.load(Ordering::Relaxed)
}

unsafe fn big_alloc(size: usize) -> *mut u8 {
    let p = libc::mmap(
        std::ptr::null_mut(),
        size,
        libc::PROT_READ | libc::PROT_WRITE,
        libc::MAP_PRIVATE | libc::MAP_ANONYMOUS | libc::MAP_NORESERVE,
        -1,
        0,
    );
    if p == libc::MAP_FAILED {
        std::ptr::null_mut()
    } else {
        p as *mut u8
    }
}

unsafe impl GlobalAlloc for Counting {
    unsafe fn alloc(&self, layout: Layout) -> *mut u8 {
        note(layout.size());
        if layout.size() >= BIG {
            big_alloc(layout.size())
        } else {
            System.alloc(layout)
        }
    }
    unsafe fn alloc_zeroed(&self, layout: Layout) -> *mut u8 {
        note(layout.size());
        if layout.size() >= BIG {
            big_alloc(layout.size())
        } else {
            System.alloc_zeroed(layout)
        }
    }
    unsafe fn dealloc(&self, ptr: *mut u8, layout: Layout) {
        if layout.size() >= BIG {
            libc::munmap(ptr as *mut libc::c_void, layout.size());
        } else {
            if layout.size() <= POISON_MAX {
                std::ptr::write_bytes(ptr, 0xDD, layout.size());
            }
            System.dealloc(ptr, layout)
        }
    }
    unsafe fn realloc(&self, ptr: *mut u8, layout: Layout, new_size: usize) -> *mut u8 {
        note(new_size);
        if layout.size() >= BIG || new_size >= BIG {
            let nl = Layout::from_size_align_unchecked(new_size, layout.align());
            let np = self.alloc(nl);
            if !np.is_null() {
                std::ptr::copy_nonoverlapping(ptr, np, layout.size().min(new_size));
                self.dealloc(ptr, layout);
            }
            np
        } else {
            // always move: allocate, copy, poison and free the old block
            let nl = Layout::from_size_align_unchecked(new_size, layout.align());
            let np = System.alloc(nl);
            if !np.is_null() {
                std::ptr::copy_nonoverlapping(ptr, np, layout.size().min(new_size));
                self.dealloc(ptr, layout);
            }
            np
        }
    }
}
