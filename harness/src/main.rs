mod canon;
mod exec;
mod lean;
mod rng;
mod transport;

use std::io::BufRead;

fn main() {
    let args: Vec<String> = std::env::args().collect();
    match args.get(1).map(|s| s.as_str()) {
        Some("run") => {
            // run a scenario file: prints the trace and the mismatches
            let world = transport::new_world();
            let mut sess = exec::Session::new(world.clone());
            let f = std::fs::File::open(&args[2]).expect("scenario file");
            for l in std::io::BufReader::new(f).lines() {
                sess.line(&l.unwrap());
            }
            let ms = world.borrow_mut().lean.end();
            for l in world.borrow_mut().lean.take_trace() {
                println!("{}", l);
            }
            for m in &ms {
                println!("{}", m);
            }
            std::process::exit(if ms.is_empty() { 0 } else { 1 });
        }
        _ => {
            eprintln!("usage: kharness run <scenario>");
            std::process::exit(2);
        }
    }
}
