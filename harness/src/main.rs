mod alloc;
mod canon;
mod check;
mod cross;
mod exec;
mod gen;
mod hostile;
mod lean;
mod rng;
mod tables;
mod transport;

use std::io::BufRead;

#[global_allocator]
static GLOBAL: alloc::Counting = alloc::Counting;

/// operations run on a thread with the default stack of a spawned Rust thread (2 MiB): a library must not need more than
/// what a thread gets by default for a 64 KiB reply
const STACK: usize = 2 << 20;

fn main() {
    // watchdog: an operation that runs for more than KH_OP_TIMEOUT seconds (default 60) counts as "loops forever"
    let limit: u64 = std::env::var("KH_OP_TIMEOUT").ok().and_then(|s| s.parse().ok()).unwrap_or(60);
    std::thread::spawn(move || loop {
        std::thread::sleep(std::time::Duration::from_millis(500));
        let t = exec::OP_STARTED.load(std::sync::atomic::Ordering::Relaxed);
        if t != 0 && exec::now_ms().saturating_sub(t) > limit * 1000 {
            eprintln!("watchdog: operation exceeded {} s", limit);
            std::process::exit(98);
        }
    });
    let h = std::thread::Builder::new().stack_size(STACK).spawn(real_main).unwrap();
    match h.join() {
        Ok(code) => std::process::exit(code),
        Err(_) => std::process::exit(101),
    }
}

fn real_main() -> i32 {
    let args: Vec<String> = std::env::args().collect();
    match args.get(1).map(|s| s.as_str()) {
        Some("run") => {
            // run a scenario file: prints the trace and the mismatches
            exec::install_panic_hook();
            let world = transport::new_world();
            let mut sess = exec::Session::new(world.clone());
            let f = std::fs::File::open(&args[2]).expect("scenario file");
            for l in std::io::BufReader::new(f).lines() {
                sess.line(&l.unwrap());
            }
            let props = args.get(3).cloned().unwrap_or_default();
            let ms = world.borrow_mut().lean.end(&props);
            for l in world.borrow_mut().lean.take_trace() {
                println!("{}", l);
            }
            for m in &ms {
                println!("{}", m);
            }
            return if ms.is_empty() { 0 } else { 1 };
        }
        Some("dump") => {
            // kharness dump <prop> <seed> <n> <dir>: write the first n generated scenarios as files
            let prop = &args[2];
            let seed: u64 = args[3].parse().unwrap();
            let n: u64 = args[4].parse().unwrap();
            let gen = check::generator(prop).expect("no generator");
            exec::install_panic_hook();
            let world = transport::new_world();
            check::GEN_WORLD.with(|w| *w.borrow_mut() = Some(world.clone()));
            let mut rng = rng::Rng::new(seed);
            let mut dist = std::collections::BTreeMap::new();
            std::fs::create_dir_all(&args[5]).unwrap();
            for i in 0..n {
                let mut r = rng.fork();
                let sc = gen(&mut r, &mut dist, i);
                std::fs::write(format!("{}/{:04}.txt", args[5], i), sc.join("\n") + "\n").unwrap();
            }
        }
        Some("bomb") => {
            // kharness bomb [MiB]: the nested decompression bomb, observed on the real client
            let mib: usize = args.get(2).and_then(|s| s.parse().ok()).unwrap_or(1100);
            let (n, biggest, text) = tables::bomb(mib);
            println!("BOMB reply_bytes={} largest_allocation_request={} result={}", n, biggest, text);
        }
        Some("bigframe") => {
            // kharness bigframe <n>...: replies of n bytes read by the real client, each followed by another call
            for a in &args[2..] {
                let n: usize = a.parse().unwrap();
                let (first, second) = tables::bigframe(n);
                println!("BIGFRAME n={} first={} | second={}", n, first, second);
            }
        }
        Some("errtable") => {
            print!("{}", tables::error_table_lean());
        }
        Some("cross") => {
            // kharness cross <prop> <per-generator> <seed>: this property's judge over the other generators' histories
            let prop = &args[2];
            let per: u64 = args[3].parse().unwrap();
            let seed: u64 = args.get(4).and_then(|s| s.parse().ok()).unwrap_or(1);
            exec::install_panic_hook();
            let world = transport::new_world();
            check::GEN_WORLD.with(|w| *w.borrow_mut() = Some(world.clone()));
            let mut dist = std::collections::BTreeMap::new();
            if std::env::var("KH_WL").is_err() {
                std::env::set_var("KH_CROSS_ALL", "1");
            }
            let scs = check::foreign_scenarios_tagged(prop, per, seed, &mut dist);
            let mut nj = 0;
            let mut nm = 0;
            let mut by: std::collections::BTreeMap<String, u64> = std::collections::BTreeMap::new();
            let only = std::env::var("KH_ONLY").ok();
            for (g, sc) in scs {
                if let Some(o) = &only {
                    if &g != o {
                        continue;
                    }
                }
                let (mm, jj, _, _, _) = check::run_scenario(&world, prop, &sc);
                if !mm.is_empty() {
                    nm += 1;
                    println!("MISMATCHING [{}] {}", g, mm[0].chars().take(400).collect::<String>());
                    if std::env::var("KH_SHOW").is_ok() {
                        for l in &sc {
                            println!("    {}", l.chars().take(200).collect::<String>());
                        }
                    }
                }
                by.entry(g.clone()).or_insert(0);
                if !jj.is_empty() {
                    nj += 1;
                    *by.entry(g.clone()).or_insert(0) += 1;
                    println!("JUDGED [{}] {}", g, jj[0].chars().take(300).collect::<String>());
                    if std::env::var("KH_SHOW").is_ok() {
                        for l in &sc {
                            println!("    {}", l.chars().take(200).collect::<String>());
                        }
                    }
                }
            }
            println!("cross {}: judged {} mismatching {} | {}", prop, nj, nm, by.iter().map(|(k, v)| format!("{}:{}", k, v)).collect::<Vec<_>>().join(" "));
        }
        Some("apitable") => {
            exec::install_panic_hook();
            print!("{}", tables::api_table_lean());
        }
        Some("check") => {
            // kharness check <prop> <tier> <seed> [corpus-dir]
            let prop = &args[2];
            let tier = args.get(3).map(|s| s.as_str()).unwrap_or("quick");
            let seed: u64 = args.get(4).and_then(|s| s.parse().ok()).unwrap_or(1);
            let mut corpus: Vec<Vec<String>> = Vec::new();
            if let Some(dir) = args.get(5) {
                if let Ok(rd) = std::fs::read_dir(dir) {
                    let mut files: Vec<_> = rd.filter_map(|e| e.ok()).map(|e| e.path()).collect();
                    files.sort();
                    for f in files {
                        if let Ok(txt) = std::fs::read_to_string(&f) {
                            corpus.push(txt.lines().map(|l| l.to_string()).collect());
                        }
                    }
                }
            }
            // panics inside the crate are expected outcomes in some scenarios: keep stderr quiet
            exec::install_panic_hook();
            let rep = check::run(prop, tier, seed, &corpus);
            println!("{}", check::report_json(prop, &rep));
        }
        _ => {
            eprintln!("usage: kharness run <scenario> [props] | check <prop> <tier> <seed> [corpus-dir]");
            return 2;
        }
    }
    0
}
