mod canon;
mod check;
mod exec;
mod gen;
mod lean;
mod rng;
mod tables;
mod transport;

use std::io::BufRead;

fn main() {
    let args: Vec<String> = std::env::args().collect();
    match args.get(1).map(|s| s.as_str()) {
        Some("run") => {
            // run a scenario file: prints the trace and the mismatches
            let world = transport::new_world();
            let mut sess = exec::Session::new(world.clone());
            let f = std::fs::File::open(&args[2]).expect("scenario file");
            for l in std::io::BufReader::new(f).lines() {
                sess.line(&l.unwrap());
            }
            let props = args.get(3).cloned().unwrap_or_default();
            let ms = world.borrow_mut().lean.end(&props);
            for l in world.borrow_mut().lean.take_trace() {
                println!("{}", l);
            }
            for m in &ms {
                println!("{}", m);
            }
            std::process::exit(if ms.is_empty() { 0 } else { 1 });
        }
        Some("dump") => {
            // kharness dump <prop> <seed> <n> <dir>: write the first n generated scenarios as files
            let prop = &args[2];
            let seed: u64 = args[3].parse().unwrap();
            let n: u64 = args[4].parse().unwrap();
            let gen = check::generator(prop).expect("no generator");
            let mut rng = rng::Rng::new(seed);
            let mut dist = std::collections::BTreeMap::new();
            std::fs::create_dir_all(&args[5]).unwrap();
            for i in 0..n {
                let mut r = rng.fork();
                let sc = gen(&mut r, &mut dist, i);
                std::fs::write(format!("{}/{:04}.txt", args[5], i), sc.join("\n") + "\n").unwrap();
            }
        }
        Some("errtable") => {
            print!("{}", tables::error_table_lean());
        }
        Some("check") => {
            // kharness check <prop> <tier> <seed> [corpus-dir]
            let prop = &args[2];
            let tier = args.get(3).map(|s| s.as_str()).unwrap_or("quick");
            let seed: u64 = args.get(4).and_then(|s| s.parse().ok()).unwrap_or(1);
            let mut corpus: Vec<Vec<String>> = Vec::new();
            if let Some(dir) = args.get(5) {
                if let Ok(rd) = std::fs::read_dir(dir) {
                    let mut files: Vec<_> = rd.filter_map(|e| e.ok()).map(|e| e.path()).collect();
                    files.sort();
                    for f in files {
                        if let Ok(txt) = std::fs::read_to_string(&f) {
                            corpus.push(txt.lines().map(|l| l.to_string()).collect());
                        }
                    }
                }
            }
            // panics inside the crate are expected outcomes in some scenarios: keep stderr quiet
            std::panic::set_hook(Box::new(|_| {}));
            let rep = check::run(prop, tier, seed, &corpus);
            println!("{}", check::report_json(prop, &rep));
        }
        _ => {
            eprintln!("usage: kharness run <scenario> [props] | check <prop> <tier> <seed> [corpus-dir]");
            std::process::exit(2);
        }
    }
}
