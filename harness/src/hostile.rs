//! Hostile replies (C13): structural walk of valid v0 responses, and the mutations built on it.
//! A mutation turns (api key, valid payload) into the raw bytes the "broker" writes to the stream.
use crate::gen::{raw_msg, real_wrapper};
use crate::rng::Rng;

#[derive(Clone, Copy, Debug, PartialEq)]
pub enum Kind {
    Corr,
    Count,
    StrLen,
    BytesLen,
    SetSize,
    MsgSize,
    PartId,
    NodeId,
    ErrCode,
    Offset,
    Port,
    Crc,
    Magic,
    Attr,
}

#[derive(Clone, Debug)]
pub struct Field {
    pub pos: usize,
    pub width: usize,
    pub kind: Kind,
}

/// an array: position of its count field and the spans of its elements
#[derive(Clone, Debug)]
pub struct Array {
    pub count_pos: usize,
    pub elems: Vec<(usize, usize)>,
}

#[derive(Default, Debug)]
pub struct Walk {
    pub fields: Vec<Field>,
    pub arrays: Vec<Array>,
    /// spans of string contents (topic names, hosts)
    pub strings: Vec<(usize, usize)>,
    /// (start, end) of message sets
    pub sets: Vec<(usize, usize)>,
    /// first topic name and partition id seen (for rebuilding fetch replies)
    pub first_topic: Option<Vec<u8>>,
    pub first_partition: Option<i32>,
}

struct Cur<'a> {
    b: &'a [u8],
    p: usize,
    w: Walk,
}

impl<'a> Cur<'a> {
    fn int(&mut self, width: usize, kind: Kind) -> Option<i64> {
        if self.p + width > self.b.len() {
            return None;
        }
        let mut v: i64 = 0;
        for i in 0..width {
            v = (v << 8) | self.b[self.p + i] as i64;
        }
        let bits = 8 * width as u32;
        if bits < 64 && v >= 1i64 << (bits - 1) {
            v -= 1i64 << bits;
        }
        self.w.fields.push(Field { pos: self.p, width, kind });
        self.p += width;
        Some(v)
    }
    fn string(&mut self) -> Option<Vec<u8>> {
        let n = self.int(2, Kind::StrLen)?;
        if n <= 0 {
            return Some(vec![]);
        }
        let n = n as usize;
        if self.p + n > self.b.len() {
            return None;
        }
        self.w.strings.push((self.p, self.p + n));
        let s = self.b[self.p..self.p + n].to_vec();
        self.p += n;
        Some(s)
    }
    fn array<F: FnMut(&mut Cur<'a>) -> Option<()>>(&mut self, mut f: F) -> Option<()> {
        let count_pos = self.p;
        let n = self.int(4, Kind::Count)?;
        let mut elems = Vec::new();
        for _ in 0..n.max(0) {
            let s = self.p;
            f(self)?;
            elems.push((s, self.p));
        }
        self.w.arrays.push(Array { count_pos, elems });
        Some(())
    }
    fn message_set(&mut self, end: usize) {
        while self.p + 12 <= end {
            let _ = self.int(8, Kind::Offset);
            let sz = match self.int(4, Kind::MsgSize) {
                Some(s) => s,
                None => return,
            };
            if sz < 14 || self.p + sz as usize > end {
                return;
            }
            let mend = self.p + sz as usize;
            let _ = self.int(4, Kind::Crc);
            let _ = self.int(1, Kind::Magic);
            let _ = self.int(1, Kind::Attr);
            for _ in 0..2 {
                match self.int(4, Kind::BytesLen) {
                    Some(n) if n > 0 => self.p += n as usize,
                    Some(_) => {}
                    None => return,
                }
                if self.p > mend {
                    return;
                }
            }
            self.p = mend;
        }
    }
}

pub fn walk(api: i16, payload: &[u8]) -> Walk {
    let mut c = Cur { b: payload, p: 0, w: Walk::default() };
    let _ = (|| -> Option<()> {
        c.int(4, Kind::Corr)?;
        match api {
            3 => {
                c.array(|c| {
                    c.int(4, Kind::NodeId)?;
                    c.string()?;
                    c.int(4, Kind::Port)?;
                    Some(())
                })?;
                c.array(|c| {
                    c.int(2, Kind::ErrCode)?;
                    let t = c.string()?;
                    if c.w.first_topic.is_none() {
                        c.w.first_topic = Some(t);
                    }
                    c.array(|c| {
                        c.int(2, Kind::ErrCode)?;
                        c.int(4, Kind::PartId)?;
                        c.int(4, Kind::NodeId)?;
                        c.array(|c| c.int(4, Kind::NodeId).map(|_| ()))?;
                        c.array(|c| c.int(4, Kind::NodeId).map(|_| ()))?;
                        Some(())
                    })
                })?;
            }
            10 => {
                c.int(2, Kind::ErrCode)?;
                c.int(4, Kind::NodeId)?;
                c.string()?;
                c.int(4, Kind::Port)?;
            }
            0 | 1 | 2 | 8 | 9 => {
                c.array(|c| {
                    let t = c.string()?;
                    if c.w.first_topic.is_none() {
                        c.w.first_topic = Some(t);
                    }
                    c.array(|c| {
                        let p = c.int(4, Kind::PartId)?;
                        if c.w.first_partition.is_none() {
                            c.w.first_partition = Some(p as i32);
                        }
                        match api {
                            0 => {
                                c.int(2, Kind::ErrCode)?;
                                c.int(8, Kind::Offset)?;
                            }
                            1 => {
                                c.int(2, Kind::ErrCode)?;
                                c.int(8, Kind::Offset)?;
                                let n = c.int(4, Kind::SetSize)?;
                                let end = (c.p + n.max(0) as usize).min(c.b.len());
                                let start = c.p;
                                c.message_set(end);
                                c.w.sets.push((start, end));
                                c.p = end;
                            }
                            2 => {
                                c.int(2, Kind::ErrCode)?;
                                c.array(|c| c.int(8, Kind::Offset).map(|_| ()))?;
                            }
                            8 => {
                                c.int(2, Kind::ErrCode)?;
                            }
                            _ => {
                                c.int(8, Kind::Offset)?;
                                c.string()?;
                                c.int(2, Kind::ErrCode)?;
                            }
                        }
                        Some(())
                    })
                })?;
            }
            _ => {}
        }
        Some(())
    })();
    c.w
}

pub fn frame(payload: &[u8]) -> Vec<u8> {
    let mut v = (payload.len() as i32).to_be_bytes().to_vec();
    v.extend_from_slice(payload);
    v
}

fn put(buf: &mut [u8], pos: usize, width: usize, v: i64) {
    for i in 0..width {
        buf[pos + i] = (v >> (8 * (width - 1 - i))) as u8;
    }
}

fn get(buf: &[u8], pos: usize, width: usize) -> i64 {
    let mut v: i64 = 0;
    for i in 0..width {
        v = (v << 8) | buf[pos + i] as i64;
    }
    let bits = 8 * width as u32;
    if bits < 64 && v >= 1i64 << (bits - 1) {
        v -= 1i64 << bits;
    }
    v
}

/// the boundary values of the property, relative to `len`
pub fn boundary(len: i64) -> Vec<i64> {
    vec![-1, 0, 1, len.wrapping_sub(1), len, len.wrapping_add(1), (1 << 15) - 1, (1i64 << 31) - 1, -(1i64 << 31)]
}

/// a message set whose single wrapper is nested `levels` deep; every level adds about 50 bytes (gzip without compression,
/// or one snappy chunk), so that 1200 levels fit a 64 KiB reply
pub fn nested_set(rng: &mut Rng, levels: usize, codec_mix: bool) -> Vec<u8> {
    use std::io::Write;
    let mut set = raw_msg(0, 0, None, Some(b"x"), 0);
    for _ in 0..levels {
        if set.len() > 70_000 {
            break;
        }
        let snappy = codec_mix && rng.chance(1, 2);
        let payload = if snappy {
            let mut buf = vec![0; snap::raw::max_compress_len(set.len())];
            let n = snap::raw::Encoder::new().compress(&set, &mut buf).unwrap();
            let mut out = vec![0x82, b'S', b'N', b'A', b'P', b'P', b'Y', 0, 0, 0, 0, 1, 0, 0, 0, 1];
            out.extend((n as i32).to_be_bytes());
            out.extend(&buf[..n]);
            out
        } else {
            let mut e = flate2::write::GzEncoder::new(Vec::new(), flate2::Compression::none());
            e.write_all(&set).unwrap();
            e.finish().unwrap()
        };
        set = raw_msg(0, if snappy { 2 } else { 1 }, None, Some(&payload), 0);
    }
    set
}

fn snappy_stream(chunks: &[(i32, Vec<u8>)]) -> Vec<u8> {
    let mut out = vec![0x82, b'S', b'N', b'A', b'P', b'P', b'Y', 0, 0, 0, 0, 1, 0, 0, 0, 1];
    for (n, c) in chunks {
        out.extend(n.to_be_bytes());
        out.extend(c);
    }
    out
}

fn varint(mut n: u64) -> Vec<u8> {
    let mut v = Vec::new();
    while n >= 0x80 {
        v.push((n as u8 & 0x7f) | 0x80);
        n >>= 7;
    }
    v.push(n as u8);
    v
}

/// hostile compressed payloads: the value of a wrapper message (codec in the attribute byte)
pub fn hostile_compressed(rng: &mut Rng, which: u64) -> (u8, Vec<u8>, &'static str) {
    let inner = raw_msg(5, 0, Some(b"k"), Some(b"hello hello hello hello"), 0);
    match which % 16 {
        0 => {
            // snappy block announcing 4 GiB - 1 of output
            let mut blk = varint(0xFFFF_FFFF);
            blk.extend([0x00, b'a']);
            (2, snappy_stream(&[(blk.len() as i32, blk)]), "snappy-decompress-len-4GiB")
        }
        1 => {
            let mut blk = varint(1 << 30);
            blk.extend([0x00, b'a']);
            (2, snappy_stream(&[(blk.len() as i32, blk)]), "snappy-decompress-len-1GiB")
        }
        2 => {
            // chunk length beyond the remaining input
            // (most of them by 1..4 bytes - less than a length field -, the rest by up to 1000)
            let blk = vec![1u8, 0x00, b'a'];
            let r = rng.below(1000) as i32;
            let over = [1, 2, 3, 4, 1, 4, 5, 1 + r][(r % 8) as usize];
            (2, snappy_stream(&[(blk.len() as i32 + over, blk)]), "snappy-chunk-beyond-input")
        }
        3 => (2, snappy_stream(&[(i32::MAX, vec![1, 0, b'a'])]), "snappy-chunk-2^31-1"),
        4 => (2, snappy_stream(&[(-(1 + rng.below(5) as i32), vec![1, 0, b'a'])]), "snappy-chunk-negative"),
        5 => (2, snappy_stream(&[(0, vec![])]), "snappy-chunk-zero"),
        6 => {
            let mut s = snappy_stream(&[]);
            let cut = rng.below(s.len() as u64 + 1) as usize;
            s.truncate(cut);
            (2, s, "snappy-header-truncated")
        }
        7 => {
            let mut s = snappy_stream(&[(3, vec![1, 0, b'a'])]);
            let i = rng.below(16) as usize;
            s[i] ^= 1 << rng.below(8);
            (2, s, "snappy-header-bitflip")
        }
        8 => {
            // valid framing, chunk with a copy reaching before the start of the output
            let blk = vec![5u8, 0x01 | (1 << 2), 0x10];
            (2, snappy_stream(&[(blk.len() as i32, blk)]), "snappy-bad-copy")
        }
        9 => {
            // trailing 1-3 bytes after the last chunk (no room for a chunk length)
            let blk = {
                let mut b = varint(inner.len() as u64);
                b.push(((inner.len() - 1) as u8) << 2);
                b.extend(&inner);
                b
            };
            let mut s = snappy_stream(&[(blk.len() as i32, blk)]);
            s.extend(vec![0u8; 1 + rng.below(3) as usize]);
            (2, s, "snappy-trailing-bytes")
        }
        10 => {
            let mut g = real_wrapper(rng, 1, 5, &inner);
            // keep only the value: strip the wrapper header again (26 bytes)
            g.drain(..26);
            let cut = rng.below(g.len() as u64) as usize;
            g.truncate(cut);
            (1, g, "gzip-truncated")
        }
        11 => {
            let mut g = real_wrapper(rng, 1, 5, &inner);
            g.drain(..26);
            let i = rng.below(g.len() as u64) as usize;
            g[i] ^= 1 << rng.below(8);
            (1, g, "gzip-bitflip")
        }
        12 => (1, rng.rbytes(0, 64), "gzip-random"),
        13 => {
            // a modest bomb: 4 MiB of zeros in a few KiB
            let zeros = vec![0u8; 48 << 10];
            let mut g = real_wrapper(rng, 1, 5, &zeros);
            g.drain(..26);
            (1, g, "gzip-48KiB-of-zeros")
        }
        14 => (3 + rng.below(5) as u8, rng.rbytes(0, 32), "unknown-codec"),
        _ => {
            let zeros = vec![0u8; 40 << 10];
            let mut g = real_wrapper(rng, 2, 5, &zeros);
            g.drain(..26);
            (2, g, "snappy-40KiB-of-zeros")
        }
    }
}

/// a fetch reply (payload) for one topic / partition around the given message set
pub fn fetch_payload(corr: &[u8], topic: &[u8], partition: i32, hw: i64, set: &[u8]) -> Vec<u8> {
    let mut r = corr.to_vec();
    r.extend(1i32.to_be_bytes());
    r.extend((topic.len() as i16).to_be_bytes());
    r.extend(topic);
    r.extend(1i32.to_be_bytes());
    r.extend(partition.to_be_bytes());
    r.extend(0i16.to_be_bytes());
    r.extend(hw.to_be_bytes());
    r.extend((set.len() as i32).to_be_bytes());
    r.extend(set);
    r
}

/// number of systematic (field x boundary value) mutants of a reply
pub fn systematic_count(api: i16, payload: &[u8]) -> usize {
    (walk(api, payload).fields.len() + 1) * 9
}

/// the i-th systematic mutant: field (or the frame size, last) x boundary value
pub fn systematic(api: i16, payload: &[u8], i: usize) -> (Vec<u8>, String) {
    let w = walk(api, payload);
    let fi = i / 9;
    let vi = i % 9;
    if fi >= w.fields.len() {
        let v = boundary(payload.len() as i64)[vi];
        let mut raw = (v as i32).to_be_bytes().to_vec();
        raw.extend_from_slice(payload);
        return (raw, format!("frame-size={}", v));
    }
    let f = &w.fields[fi];
    let cur = get(payload, f.pos, f.width);
    let v = boundary(cur)[vi];
    let mut p = payload.to_vec();
    put(&mut p, f.pos, f.width, v);
    (frame(&p), format!("{:?}@{}={}", f.kind, f.pos, v))
}

/// one random mutant of a valid reply: (raw stream bytes, label)
pub fn mutate(rng: &mut Rng, api: i16, payload: &[u8]) -> (Vec<u8>, String) {
    let w = walk(api, payload);
    let kind = rng.below(if api == 1 { 14 } else { 11 });
    match kind {
        0 | 1 | 2 => {
            let n = systematic_count(api, payload);
            let i = rng.below(n as u64) as usize;
            let (raw, l) = systematic(api, payload, i);
            let k = l.split('@').next().unwrap_or("").split('=').next().unwrap_or("").to_string();
            (raw, format!("field-{}", k))
        }
        3 => {
            // bit flip anywhere in the stream (size prefix included)
            let mut raw = frame(payload);
            let i = rng.below(raw.len() as u64) as usize;
            raw[i] ^= 1 << rng.below(8);
            (raw, (if i < 4 { "bitflip-size" } else { "bitflip-payload" }).into())
        }
        4 => {
            // truncation with a consistent size
            let k = rng.below(payload.len() as u64 + 1) as usize;
            (frame(&payload[..k]), "truncate-consistent".into())
        }
        5 => {
            // the stream ends early
            let mut raw = frame(payload);
            let k = rng.below(raw.len() as u64) as usize;
            raw.truncate(k);
            (raw, "truncate-stream".into())
        }
        6 => {
            let n = match rng.below(4) {
                0 => rng.below(8) as usize,
                1 => rng.below(64) as usize,
                2 => rng.below(600) as usize,
                _ => rng.below(65536) as usize,
            };
            let mut p = rng.bytes(n);
            if rng.chance(1, 2) && p.len() >= 4 && payload.len() >= 4 {
                p[..4].copy_from_slice(&payload[..4]);
            }
            (frame(&p), "random-bytes".into())
        }
        7 => {
            // inconsistent with the request: another topic name / partition id / node id
            let mut p = payload.to_vec();
            let cands: Vec<&Field> = w.fields.iter().filter(|f| matches!(f.kind, Kind::PartId | Kind::NodeId | Kind::ErrCode)).collect();
            if !w.strings.is_empty() && (cands.is_empty() || rng.chance(1, 3)) {
                let (s, e) = *rng.pick(&w.strings);
                let i = s + rng.below((e - s) as u64) as usize;
                p[i] = p[i].wrapping_add(1 + rng.below(3) as u8);
                (frame(&p), "other-name".into())
            } else if !cands.is_empty() {
                let f = (*rng.pick(&cands)).clone();
                let cur = get(&p, f.pos, f.width);
                let v = *rng.pick(&[cur + 1, cur + 2, cur + 100, cur - 1, -1, 1 << 20, i32::MAX as i64, i32::MIN as i64, 7, 0]);
                put(&mut p, f.pos, f.width, v);
                (frame(&p), format!("other-{:?}", f.kind))
            } else {
                (frame(&p), "unchanged".into())
            }
        }
        8 => {
            // duplicate / drop / swap elements of an array, count kept consistent
            let arrs: Vec<&Array> = w.arrays.iter().filter(|a| !a.elems.is_empty()).collect();
            if arrs.is_empty() {
                return (frame(payload), "unchanged".into());
            }
            let a = (*rng.pick(&arrs)).clone();
            let n = a.elems.len();
            let i = rng.below(n as u64) as usize;
            let (s, e) = a.elems[i];
            let mut p = payload.to_vec();
            match rng.below(3) {
                0 => {
                    let dup = payload[s..e].to_vec();
                    p.splice(e..e, dup);
                    put(&mut p, a.count_pos, 4, n as i64 + 1);
                    // (enclosing set sizes are not adjusted: only arrays outside message sets are walked)
                    (frame(&p), "element-duplicated".into())
                }
                1 => {
                    p.drain(s..e);
                    put(&mut p, a.count_pos, 4, n as i64 - 1);
                    (frame(&p), "element-dropped".into())
                }
                _ => {
                    let j = rng.below(n as u64) as usize;
                    let (s2, e2) = a.elems[j];
                    if i != j && (e - s) == (e2 - s2) {
                        let x = payload[s..e].to_vec();
                        let y = payload[s2..e2].to_vec();
                        p[s..e].copy_from_slice(&y);
                        p[s2..e2].copy_from_slice(&x);
                    }
                    (frame(&p), "elements-swapped".into())
                }
            }
        }
        9 => {
            // count changed without changing the content
            let arrs: Vec<&Array> = w.arrays.iter().collect();
            if arrs.is_empty() {
                return (frame(payload), "unchanged".into());
            }
            let a = (*rng.pick(&arrs)).clone();
            let mut p = payload.to_vec();
            let n = a.elems.len() as i64;
            put(&mut p, a.count_pos, 4, *rng.pick(&[n + 1, n - 1, n * 2 + 1, 1 << 16, 1 << 24, 1 << 28]));
            (frame(&p), "count-only".into())
        }
        10 => {
            // the reply of a different API (same correlation id) or an empty reply
            let mut p = payload[..4.min(payload.len())].to_vec();
            p.extend(rng.rbytes(0, 24));
            (frame(&p), "short-garbage-after-corr".into())
        }
        11 | 12 => {
            let which = rng.next();
            let (codec, value, label) = hostile_compressed(rng, which);
            let set = raw_msg(5, codec, None, Some(&value), 0);
            let corr = &payload[..4.min(payload.len())];
            let t = w.first_topic.clone().unwrap_or_default();
            let p = fetch_payload(corr, &t, w.first_partition.unwrap_or(0), 100, &set);
            (frame(&p), format!("compressed-{}", label))
        }
        _ => {
            let levels = *rng.pick(&[2usize, 15, 16, 17, 18, 40, 200, 700, 1200]);
            let mix = rng.chance(1, 2);
            let set = nested_set(rng, levels, mix);
            let corr = &payload[..4.min(payload.len())];
            let t = w.first_topic.clone().unwrap_or_default();
            let p = fetch_payload(corr, &t, w.first_partition.unwrap_or(0), 100, &set);
            if p.len() > 65000 {
                return (frame(payload), "unchanged".into());
            }
            (frame(&p), format!("nested-{}", levels))
        }
    }
}
