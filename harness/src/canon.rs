//! Canonical text forms of results (mirrors lean/KafkaModel/Replay.lean).
use std::collections::HashMap;

use kafka::client::fetch::Response;
use kafka::client::{KafkaClient, ProduceConfirm};
use kafka::consumer::MessageSets;
use kafka::error::{Error, KafkaCode};

use crate::lean::hex;

pub fn code(c: KafkaCode) -> i32 {
    c as i32
}

pub fn err_str(e: &Error) -> String {
    match e {
        Error::Io(_) => "Io".into(),
        Error::Ssl(_) => "Ssl".into(),
        Error::InvalidSnappy(_) => "InvalidSnappy".into(),
        Error::Kafka(c) => format!("Kafka({})", code(*c)),
        Error::TopicPartitionError { topic_name, partition_id, error_code } => {
            format!("TPE({},{},{})", hex(topic_name.as_bytes()), partition_id, code(*error_code))
        }
        Error::UnsupportedProtocol => "UnsupportedProtocol".into(),
        Error::UnsupportedCompression => "UnsupportedCompression".into(),
        Error::UnexpectedEOF => "EOF".into(),
        Error::CodecError => "Codec".into(),
        Error::StringDecodeError => "StrDecode".into(),
        Error::NoHostReachable => "NoHost".into(),
        Error::NoTopicsAssigned => "NoTopics".into(),
        Error::InvalidDuration => "InvalidDuration".into(),
        Error::ArcSelf(inner) => err_str(inner),
        Error::UnsetOffsetStorage => "UnsetStorage".into(),
        Error::UnsetGroupId => "UnsetGroup".into(),
    }
}

pub fn res<T>(r: Result<T, Error>, f: impl FnOnce(T) -> String) -> String {
    match r {
        Ok(v) => f(v),
        Err(e) => format!("err {}", err_str(&e)),
    }
}

pub fn fmt_offsets(m: HashMap<String, Vec<(i32, i64)>>) -> String {
    let mut ts: Vec<_> = m.into_iter().collect();
    ts.sort_by(|a, b| a.0.as_bytes().cmp(b.0.as_bytes()));
    let mut s = String::from("ok");
    for (t, mut ps) in ts {
        ps.sort();
        s.push_str(&format!(
            " {}={}",
            hex(t.as_bytes()),
            ps.iter().map(|(p, o)| format!("{}:{}", p, o)).collect::<Vec<_>>().join(",")
        ));
    }
    s
}

pub fn fmt_list_offsets(m: HashMap<String, Vec<(i32, i64, i64)>>) -> String {
    let mut ts: Vec<_> = m.into_iter().collect();
    ts.sort_by(|a, b| a.0.as_bytes().cmp(b.0.as_bytes()));
    let mut s = String::from("ok");
    for (t, mut ps) in ts {
        ps.sort_by_key(|x| (x.0, x.1));
        s.push_str(&format!(
            " {}={}",
            hex(t.as_bytes()),
            ps.iter().map(|(p, o, tm)| format!("{}:{}:{}", p, o, tm)).collect::<Vec<_>>().join(",")
        ));
    }
    s
}

fn fmt_msgs(ms: &[kafka::client::fetch::Message<'_>]) -> String {
    format!(
        "[{}]",
        ms.iter().map(|m| format!("{}:{}:{}", m.offset, hex(m.key), hex(m.value))).collect::<Vec<_>>().join(",")
    )
}

pub fn fmt_fetch(rs: &[Response]) -> String {
    let mut parts: Vec<(Vec<u8>, i32, String)> = Vec::new();
    for r in rs {
        for t in r.topics() {
            for p in t.partitions() {
                let d = match p.data() {
                    Err(e) => match &*e {
                        Error::Kafka(c) => format!("E{}", code(*c)),
                        other => format!("E?{}", err_str(other)),
                    },
                    Ok(d) => format!("{}{}", d.highwatermark_offset(), fmt_msgs(d.messages())),
                };
                parts.push((t.topic().as_bytes().to_vec(), p.partition(), d));
            }
        }
    }
    parts.sort_by(|a, b| (&a.0, a.1).cmp(&(&b.0, b.1)));
    let mut s = String::from("ok");
    for (t, p, d) in parts {
        s.push_str(&format!(" {}/{}={}", hex(&t), p, d));
    }
    s
}

pub fn fmt_confirms(mut cs: Vec<ProduceConfirm>) -> String {
    cs.sort_by(|a, b| {
        let ka = (a.topic.as_bytes(), a.partition_confirms.first().map(|p| p.partition).unwrap_or(0));
        let kb = (b.topic.as_bytes(), b.partition_confirms.first().map(|p| p.partition).unwrap_or(0));
        ka.cmp(&kb)
    });
    let mut s = String::from("ok");
    for c in cs {
        s.push_str(&format!(
            " {}={}",
            hex(c.topic.as_bytes()),
            c.partition_confirms
                .iter()
                .map(|pc| match pc.offset {
                    Ok(o) => format!("{}:{}", pc.partition, o),
                    Err(e) => format!("{}:E{}", pc.partition, code(e)),
                })
                .collect::<Vec<_>>()
                .join(",")
        ));
    }
    s
}

pub fn fmt_poll(ms: &MessageSets) -> String {
    let mut it: Vec<(Vec<u8>, i32, String)> = Vec::new();
    for set in ms.iter() {
        it.push((set.topic().as_bytes().to_vec(), set.partition(), fmt_msgs(set.messages())));
    }
    it.sort_by(|a, b| (&a.0, a.1).cmp(&(&b.0, b.1)));
    let mut s = format!("ok empty={}", if ms.is_empty() { 1 } else { 0 });
    for (t, p, m) in it {
        s.push_str(&format!(" {}/{}={}", hex(&t), p, m));
    }
    s
}

pub fn fmt_subs(m: HashMap<String, Vec<i32>>) -> String {
    let mut ts: Vec<_> = m.into_iter().collect();
    ts.sort_by(|a, b| a.0.as_bytes().cmp(b.0.as_bytes()));
    let mut s = String::from("ok");
    for (t, mut ps) in ts {
        ps.sort();
        s.push_str(&format!(" {}={}", hex(t.as_bytes()), ps.iter().map(|p| p.to_string()).collect::<Vec<_>>().join(",")));
    }
    s
}

pub fn fmt_topics(c: &KafkaClient) -> String {
    let mut ts: Vec<(Vec<u8>, String)> = Vec::new();
    for t in c.topics() {
        let ps: Vec<String> = t
            .partitions()
            .iter()
            .map(|p| match p.leader() {
                Some(b) => format!("{}:{}@{}", p.id(), b.id(), hex(b.host().as_bytes())),
                None => format!("{}:~", p.id()),
            })
            .collect();
        ts.push((t.name().as_bytes().to_vec(), ps.join(",")));
    }
    ts.sort();
    let mut s = String::from("ok");
    for (t, ps) in ts {
        s.push_str(&format!(" {}={}", hex(&t), ps));
    }
    s
}

pub fn fmt_config(c: &KafkaClient) -> String {
    use kafka::client::{Compression, GroupOffsetStorage};
    let comp = match c.compression() {
        Compression::NONE => 0,
        Compression::GZIP => 1,
        Compression::SNAPPY => 2,
    };
    let storage = match c.group_offset_storage() {
        None => "none",
        Some(GroupOffsetStorage::Zookeeper) => "zk",
        Some(GroupOffsetStorage::Kafka) => "kafka",
    };
    format!(
        "ok client_id={} compression={} maxwait_ms={} minbytes={} maxbytes={} crc={} storage={} backoff_ms={} retry={} idle_ms={}",
        hex(c.client_id().as_bytes()),
        comp,
        c.fetch_max_wait_time().as_millis(),
        c.fetch_min_bytes(),
        c.fetch_max_bytes_per_partition(),
        if c.fetch_crc_validation() { 1 } else { 0 },
        storage,
        c.retry_backoff_time().as_millis(),
        c.retry_max_attempts(),
        c.connection_idle_timeout().as_millis()
    )
}
