//! Interpreter of scenario lines against the *real* crate (mirrors `runOp` in Replay.lean).
use std::panic::{catch_unwind, AssertUnwindSafe};
use std::time::Duration;

use kafka::client::{
    CommitOffset, Compression, FetchGroupOffset, FetchOffset, FetchPartition, GroupOffsetStorage, KafkaClient,
    ProduceMessage, RequiredAcks,
};
use kafka::consumer::Consumer;
use kafka::producer::{DefaultPartitioner, Producer, Record};

use crate::canon::*;
use crate::lean::unhex;
use crate::transport::Shared;

/// a fetch or poll result kept alive, with a copy of everything it exposed when it was first read
pub enum KeptVal {
    Fetch(Vec<kafka::client::fetch::Response>),
    Poll(kafka::consumer::MessageSets),
}

pub struct Kept {
    pub val: Box<KeptVal>,
    pub snapshot: String,
}

fn read_kept(v: &KeptVal) -> String {
    match v {
        KeptVal::Fetch(rs) => fmt_fetch(rs),
        KeptVal::Poll(ms) => fmt_poll(ms),
    }
}

/// allocation churn: many blocks of many sizes, filled with a pattern and freed in a scattered order, so that freed
/// memory of earlier results is likely to be handed out again and overwritten
fn churn(rounds: usize, seed: u64) {
    let mut x = seed | 1;
    let mut next = || {
        x ^= x << 13;
        x ^= x >> 7;
        x ^= x << 17;
        x
    };
    for _ in 0..rounds {
        let mut blocks: Vec<Vec<u8>> = Vec::new();
        for _ in 0..200 {
            let sz = match next() % 6 {
                0 => 8 + (next() % 64) as usize,
                1 => 64 + (next() % 256) as usize,
                2 => 16 + (next() % 128) as usize,
                3 => 512 + (next() % 4096) as usize,
                4 => 1 + (next() % 32) as usize,
                _ => 84,
            };
            blocks.push(vec![0xD5u8; sz]);
        }
        while !blocks.is_empty() {
            let i = (next() % blocks.len() as u64) as usize;
            let b = blocks.swap_remove(i);
            std::hint::black_box(&b);
            drop(b);
        }
    }
}

thread_local! {
    /// where the last panic happened (file:line message), filled by the panic hook
    pub static PANIC_AT: std::cell::RefCell<Option<String>> = std::cell::RefCell::new(None);
}
/// wall-clock start of the running operation in ms since the epoch (0 = none), for the watchdog
pub static OP_STARTED: std::sync::atomic::AtomicU64 = std::sync::atomic::AtomicU64::new(0);

pub fn thread_cpu_ms() -> u64 {
    let mut ts = libc::timespec { tv_sec: 0, tv_nsec: 0 };
    unsafe { libc::clock_gettime(libc::CLOCK_THREAD_CPUTIME_ID, &mut ts) };
    ts.tv_sec as u64 * 1000 + ts.tv_nsec as u64 / 1_000_000
}

pub fn now_ms() -> u64 {
    std::time::SystemTime::now().duration_since(std::time::UNIX_EPOCH).unwrap().as_millis() as u64
}

pub fn install_panic_hook() {
    std::panic::set_hook(Box::new(|info| {
        let loc = info.location().map(|l| format!("{}:{}", l.file(), l.line())).unwrap_or_default();
        // stable names: the crate's files relative to its root, the standard library without the toolchain hash
        let loc = if let Some(rest) = loc.strip_prefix("/rustc/") {
            format!("rust/{}", rest.splitn(2, '/').nth(1).unwrap_or(rest))
        } else if let Some(i) = loc.find("/src/") {
            loc[i + 1..].to_string()
        } else {
            loc
        };
        let msg = if let Some(s) = info.payload().downcast_ref::<&str>() {
            s.to_string()
        } else if let Some(s) = info.payload().downcast_ref::<String>() {
            s.clone()
        } else {
            String::new()
        };
        let short: String = msg.chars().take(60).collect();
        if OP_STARTED.load(std::sync::atomic::Ordering::Relaxed) == 0 {
            // not inside an operation of the crate: a harness bug, say so
            eprintln!("harness panic at {}: {}", loc, msg);
        }
        PANIC_AT.with(|p| *p.borrow_mut() = Some(format!("{} {}", loc, short)));
    }));
}

pub struct Session {
    pub kept: Vec<Option<Kept>>,
    pub world: Shared,
    pub client: Option<KafkaClient>,
    pub cons: Option<Consumer>,
    pub prod: Option<Producer>,
    pub results: Vec<(String, String)>,
}

fn s(b: &str) -> String {
    String::from_utf8(unhex(b)).unwrap_or_else(|e| unsafe { String::from_utf8_unchecked(e.into_bytes()) })
}

fn time_of(t: i64) -> FetchOffset {
    match t {
        -2 => FetchOffset::Earliest,
        -1 => FetchOffset::Latest,
        n => FetchOffset::ByTime(n),
    }
}

fn storage_of(v: &str) -> Option<GroupOffsetStorage> {
    match v {
        "zk" => Some(GroupOffsetStorage::Zookeeper),
        "kafka" => Some(GroupOffsetStorage::Kafka),
        _ => None,
    }
}

fn compression_of(v: &str) -> Compression {
    match v {
        "1" => Compression::GZIP,
        "2" => Compression::SNAPPY,
        _ => Compression::NONE,
    }
}

fn acks_of(v: i64) -> RequiredAcks {
    match v {
        0 => RequiredAcks::None,
        1 => RequiredAcks::One,
        _ => RequiredAcks::All,
    }
}

fn dur(secs: &str, nanos: &str) -> Duration {
    Duration::new(secs.parse().unwrap(), nanos.parse().unwrap())
}

fn hosts_of(v: &str) -> Vec<String> {
    if v.is_empty() {
        vec![]
    } else {
        v.split(',').map(s).collect()
    }
}

fn opt_bytes(v: &str) -> Option<Vec<u8>> {
    if v == "~" {
        None
    } else {
        Some(unhex(v))
    }
}

impl Session {
    pub fn new(world: Shared) -> Session {
        Session { kept: Vec::new(), world, client: None, cons: None, prod: None, results: Vec::new() }
    }

    fn target(&mut self, tgt: &str) -> Option<&mut KafkaClient> {
        match tgt {
            "c" => self.client.as_mut(),
            "k" => self.cons.as_mut().map(|k| k.client_mut()),
            "p" => self.prod.as_mut().map(|p| p.client_mut()),
            _ => None,
        }
    }

    /// executes one `OP …` line (without the OP prefix); logs OP / RESULT to the trace
    pub fn op(&mut self, line: &str) -> String {
        {
            let mut w = self.world.borrow_mut();
            w.reqs_this_op = 0;
            w.frames.clear();
            w.lean.log(&format!("OP {}", line));
        }
        crate::alloc::reset();
        PANIC_AT.with(|p| p.borrow_mut().take());
        let cpu0 = thread_cpu_ms();
        OP_STARTED.store(now_ms(), std::sync::atomic::Ordering::Relaxed);
        let r = match catch_unwind(AssertUnwindSafe(|| self.op_inner(line))) {
            Ok(r) => r,
            Err(_) => "panic".to_string(),
        };
        OP_STARTED.store(0, std::sync::atomic::Ordering::Relaxed);
        // a single allocation request of 1 GiB or more is an outcome of its own (C13), whatever the call returned
        let biggest = crate::alloc::max_request();
        let r = if biggest >= crate::alloc::BIG { "bigalloc".to_string() } else { r };
        {
            let mut w = self.world.borrow_mut();
            if biggest >= crate::alloc::BIG {
                w.lean.log(&format!("NOTE alloc-request {}", biggest));
            }
            if let Some(at) = PANIC_AT.with(|p| p.borrow_mut().take()) {
                w.lean.log(&format!("NOTE panic-at {}", at.replace(' ', "_")));
            }
            // CPU time, not wall time: retry back-off sleeps are bounded waits, not runaway computation
            let ms = thread_cpu_ms().saturating_sub(cpu0);
            if ms > 3000 {
                w.lean.log(&format!("NOTE slow-op {}", ms));
            }
        }
        {
            let mut w = self.world.borrow_mut();
            let parts: Vec<(String, usize)> = w.partial.drain(..).collect();
            for (host, n) in parts {
                w.lean.log(&format!("NOTE partial-frame {} {}", crate::lean::hex(host.as_bytes()), n));
            }
        }
        self.world.borrow_mut().lean.log(&format!("RESULT {}", r));
        self.results.push((line.to_string(), r.clone()));
        r
    }

    fn op_inner(&mut self, line: &str) -> String {
        let toks: Vec<&str> = line.split(' ').filter(|t| !t.is_empty()).collect();
        // operations on an object that does not exist (its creation failed earlier in the scenario)
        let needs = match toks.as_slice() {
            ["c", ..] => Some(self.client.is_some()),
            ["k", ..] | ["poll"] | ["poll_keep"] | ["poll_mark"] | ["seek", ..] | ["consume", ..] | ["commit"] | ["subscriptions"] | ["last_consumed", ..]
            | ["consumer_into_client"] => Some(self.cons.is_some()),
            ["p", ..] | ["send_all", ..] | ["send", ..] | ["producer_into_client"] => Some(self.prod.is_some()),
            ["consumer_create", "client", ..] | ["producer_create", "client", ..] => Some(self.client.is_some()),
            _ => None,
        };
        if needs == Some(false) {
            return "noobj".into();
        }
        match toks.as_slice() {
            ["client_new", hosts] => {
                self.client = Some(KafkaClient::new(hosts_of(hosts)));
                "ok".into()
            }
            ["client_new"] => {
                self.client = Some(KafkaClient::new(vec![]));
                "ok".into()
            }
            [tgt, "set", opt, vals @ ..] => {
                let c = self.target(tgt).expect("no such target");
                match (*opt, vals) {
                    ("client_id", [v]) => c.set_client_id(s(v)),
                    ("compression", [v]) => c.set_compression(compression_of(v)),
                    ("fetch_max_wait", [a, b]) => {
                        if let Err(e) = c.set_fetch_max_wait_time(dur(a, b)) {
                            return format!("err {}", err_str(&e));
                        }
                    }
                    ("fetch_min_bytes", [v]) => c.set_fetch_min_bytes(v.parse().unwrap()),
                    ("fetch_max_bytes", [v]) => c.set_fetch_max_bytes_per_partition(v.parse().unwrap()),
                    ("crc", [v]) => c.set_fetch_crc_validation(*v == "1"),
                    ("storage", [v]) => c.set_group_offset_storage(storage_of(v)),
                    ("retry_backoff_ms", [v]) => c.set_retry_backoff_time(Duration::from_millis(v.parse().unwrap())),
                    ("retry_max", [v]) => c.set_retry_max_attempts(v.parse().unwrap()),
                    ("idle_ms", [v]) => c.set_connection_idle_timeout(Duration::from_millis(v.parse().unwrap())),
                    _ => panic!("bad set"),
                }
                "ok".into()
            }
            [tgt, "get_config"] => fmt_config(self.target(tgt).unwrap()),
            [tgt, "topics"] => fmt_topics(self.target(tgt).unwrap()),
            [tgt, "load_metadata_all"] => res(self.target(tgt).unwrap().load_metadata_all(), |_| "ok".into()),
            [tgt, "load_metadata", ts @ ..] => {
                let ts: Vec<String> = ts.iter().map(|t| s(t)).collect();
                res(self.target(tgt).unwrap().load_metadata(&ts), |_| "ok".into())
            }
            [tgt, "reset_metadata"] => {
                self.target(tgt).unwrap().reset_metadata();
                "ok".into()
            }
            [tgt, "fetch_offsets", time, ts @ ..] => {
                let ts: Vec<String> = ts.iter().map(|t| s(t)).collect();
                res(self.target(tgt).unwrap().fetch_offsets(&ts, time_of(time.parse().unwrap())), |m| {
                    fmt_offsets(m.into_iter().map(|(t, ps)| (t, ps.into_iter().map(|p| (p.partition, p.offset)).collect())).collect())
                })
            }
            [tgt, "list_offsets", time, ts @ ..] => {
                let ts: Vec<String> = ts.iter().map(|t| s(t)).collect();
                res(self.target(tgt).unwrap().list_offsets(&ts, time_of(time.parse().unwrap())), |m| {
                    fmt_list_offsets(
                        m.into_iter().map(|(t, ps)| (t, ps.into_iter().map(|p| (p.partition, p.offset, p.time)).collect())).collect(),
                    )
                })
            }
            [tgt, "fetch_topic_offsets", time, t] => {
                let t = s(t);
                res(self.target(tgt).unwrap().fetch_topic_offsets(&t, time_of(time.parse().unwrap())), |ps| {
                    fmt_offsets(std::iter::once((t.clone(), ps.into_iter().map(|p| (p.partition, p.offset)).collect())).collect())
                })
            }
            [tgt, "fetch_keep", args @ ..] => {
                let topics: Vec<String> = args.chunks(4).map(|c| s(c[0])).collect();
                let reqs: Vec<FetchPartition<'_>> = args
                    .chunks(4)
                    .zip(topics.iter())
                    .map(|(c, t)| FetchPartition::new(t, c[1].parse().unwrap(), c[2].parse().unwrap()).with_max_bytes(c[3].parse().unwrap()))
                    .collect();
                match self.target(tgt).unwrap().fetch_messages(&reqs) {
                    Ok(rs) => {
                        let snap = fmt_fetch(&rs);
                        self.kept.push(Some(Kept { val: Box::new(KeptVal::Fetch(rs)), snapshot: snap.clone() }));
                        snap
                    }
                    Err(e) => format!("err {}", err_str(&e)),
                }
            }
            ["poll_keep"] => match self.cons.as_mut().unwrap().poll() {
                Ok(ms) => {
                    let snap = fmt_poll(&ms);
                    self.kept.push(Some(Kept { val: Box::new(KeptVal::Poll(ms)), snapshot: snap.clone() }));
                    snap
                }
                Err(e) => format!("err {}", err_str(&e)),
            },
            ["keep_check"] => {
                // re-read every view of every live result and compare with what it showed when it was new
                for (i, k) in self.kept.iter().enumerate() {
                    if let Some(k) = k {
                        let now = read_kept(&k.val);
                        if now != k.snapshot {
                            return format!("corrupt result#{} now `{}` was `{}`", i, now, k.snapshot);
                        }
                    }
                }
                "ok".into()
            }
            ["keep_move", mode] => {
                // move every live result: through a new box, into a vector and back, through another thread
                let taken: Vec<Option<Kept>> = std::mem::take(&mut self.kept);
                let moved: Vec<Option<Kept>> = match *mode {
                    "box" => taken.into_iter().map(|k| k.map(|k| Kept { val: Box::new(*k.val), snapshot: k.snapshot })).collect(),
                    "vec" => {
                        let mut v: Vec<Option<Kept>> = Vec::with_capacity(1);
                        for k in taken {
                            v.push(k); // repeated growth moves the elements
                        }
                        v.into_iter().rev().collect::<Vec<_>>().into_iter().rev().collect()
                    }
                    _ => {
                        struct SendIt(Vec<Option<Kept>>);
                        unsafe impl Send for SendIt {}
                        let h = std::thread::spawn(move || {
                            let s = SendIt(taken);
                            // read in the other thread as well
                            for k in s.0.iter().flatten() {
                                std::hint::black_box(read_kept(&k.val));
                            }
                            s
                        });
                        h.join().unwrap().0
                    }
                };
                self.kept = moved;
                "ok".into()
            }
            ["keep_drop", i] => {
                let i: usize = i.parse().unwrap();
                if i < self.kept.len() {
                    self.kept[i] = None;
                }
                "ok".into()
            }
            ["churn", n] => {
                churn(n.parse().unwrap(), 0x9E37_79B9);
                "ok".into()
            }
            [tgt, "fetch_messages", args @ ..] => {
                let topics: Vec<String> = args.chunks(4).map(|c| s(c[0])).collect();
                let reqs: Vec<FetchPartition<'_>> = args
                    .chunks(4)
                    .zip(topics.iter())
                    .map(|(c, t)| FetchPartition::new(t, c[1].parse().unwrap(), c[2].parse().unwrap()).with_max_bytes(c[3].parse().unwrap()))
                    .collect();
                res(self.target(tgt).unwrap().fetch_messages(&reqs), |rs| fmt_fetch(&rs))
            }
            [tgt, "produce", acks, secs, nanos, args @ ..] => {
                let topics: Vec<String> = args.chunks(4).map(|c| s(c[0])).collect();
                let kvs: Vec<(Option<Vec<u8>>, Option<Vec<u8>>)> = args.chunks(4).map(|c| (opt_bytes(c[2]), opt_bytes(c[3]))).collect();
                let msgs: Vec<ProduceMessage<'_, '_>> = args
                    .chunks(4)
                    .enumerate()
                    .map(|(i, c)| ProduceMessage::new(&topics[i], c[1].parse().unwrap(), kvs[i].0.as_deref(), kvs[i].1.as_deref()))
                    .collect();
                res(
                    self.target(tgt).unwrap().produce_messages(acks_of(acks.parse().unwrap()), dur(secs, nanos), &msgs),
                    fmt_confirms,
                )
            }
            [tgt, "commit_offset", g, t, p, o] => {
                let t = s(t);
                res(self.target(tgt).unwrap().commit_offset(&s(g), &t, p.parse().unwrap(), o.parse().unwrap()), |_| "ok".into())
            }
            [tgt, "fetch_for_partition", t, p, off, mb] => {
                let t = s(t);
                let fp = FetchPartition::new(&t, p.parse().unwrap(), off.parse().unwrap()).with_max_bytes(mb.parse().unwrap());
                res(self.target(tgt).unwrap().fetch_messages_for_partition(&fp), |rs| fmt_fetch(&rs))
            }
            [tgt, "commit_offsets", g, args @ ..] => {
                let topics: Vec<String> = args.chunks(3).map(|c| s(c[0])).collect();
                let offs: Vec<CommitOffset<'_>> = args
                    .chunks(3)
                    .enumerate()
                    .map(|(i, c)| CommitOffset::new(&topics[i], c[1].parse().unwrap(), c[2].parse().unwrap()))
                    .collect();
                res(self.target(tgt).unwrap().commit_offsets(&s(g), &offs), |_| "ok".into())
            }
            [tgt, "fetch_group_offsets", g, args @ ..] => {
                let topics: Vec<String> = args.chunks(2).map(|c| s(c[0])).collect();
                let ps: Vec<FetchGroupOffset<'_>> =
                    args.chunks(2).enumerate().map(|(i, c)| FetchGroupOffset::new(&topics[i], c[1].parse().unwrap())).collect();
                res(self.target(tgt).unwrap().fetch_group_offsets(&s(g), &ps), |m| {
                    fmt_offsets(m.into_iter().map(|(t, ps)| (t, ps.into_iter().map(|p| (p.partition, p.offset)).collect())).collect())
                })
            }
            [tgt, "fetch_group_topic_offset", g, t] => {
                let t = s(t);
                res(self.target(tgt).unwrap().fetch_group_topic_offset(&s(g), &t), |ps| {
                    fmt_offsets(std::iter::once((t.clone(), ps.into_iter().map(|p| (p.partition, p.offset)).collect())).collect())
                })
            }
            ["consumer_create", from, opts @ ..] => {
                let mut b = if *from == "client" {
                    Consumer::from_client(self.client.take().expect("no client"))
                } else {
                    Consumer::from_hosts(hosts_of(from.strip_prefix("hosts=").unwrap()))
                };
                for o in opts {
                    let (k, v) = o.split_once('=').unwrap();
                    b = match k {
                        "group" => b.with_group(s(v)),
                        "topic" => b.with_topic(s(v)),
                        "tp" => {
                            let (t, ps) = v.split_once(':').unwrap();
                            let ps: Vec<i32> = if ps.is_empty() { vec![] } else { ps.split(',').map(|p| p.parse().unwrap()).collect() };
                            b.with_topic_partitions(s(t), &ps)
                        }
                        "fallback" => b.with_fallback_offset(match v {
                            "earliest" => FetchOffset::Earliest,
                            "latest" => FetchOffset::Latest,
                            t => FetchOffset::ByTime(t.strip_prefix("time:").unwrap().parse().unwrap()),
                        }),
                        "maxwait" => {
                            let (a, n) = v.split_once(':').unwrap();
                            b.with_fetch_max_wait_time(dur(a, n))
                        }
                        "minbytes" => b.with_fetch_min_bytes(v.parse().unwrap()),
                        "maxbytes" => b.with_fetch_max_bytes_per_partition(v.parse().unwrap()),
                        "retrylimit" => b.with_retry_max_bytes_limit(v.parse().unwrap()),
                        "crc" => b.with_fetch_crc_validation(v == "1"),
                        "storage" => b.with_offset_storage(storage_of(v)),
                        "idle" => b.with_connection_idle_timeout(Duration::from_millis(v.parse().unwrap())),
                        "clientid" => b.with_client_id(s(v)),
                        _ => panic!("bad consumer option"),
                    };
                }
                match b.create() {
                    Ok(k) => {
                        self.cons = Some(k);
                        "ok".into()
                    }
                    Err(e) => format!("err {}", err_str(&e)),
                }
            }
            ["poll"] => res(self.cons.as_mut().unwrap().poll(), |ms| fmt_poll(&ms)),
            ["poll_mark"] => {
                // poll, then mark every delivered message set as consumed (`consume_messageset`)
                let k = self.cons.as_mut().unwrap();
                match k.poll() {
                    Err(e) => format!("err {}", err_str(&e)),
                    Ok(ms) => {
                        let mut out = fmt_poll(&ms);
                        let mut marks: Vec<(Vec<u8>, i32, String)> = Vec::new();
                        for set in ms.iter() {
                            let r = k.consume_messageset(&set);
                            marks.push((
                                set.topic().as_bytes().to_vec(),
                                set.partition(),
                                match r {
                                    Ok(()) => "ok".to_string(),
                                    Err(e) => err_str(&e),
                                },
                            ));
                        }
                        marks.sort();
                        out.push_str(" marks=");
                        out.push_str(&marks.iter().map(|m| m.2.clone()).collect::<Vec<_>>().join(","));
                        out
                    }
                }
            }
            ["seek", t, p, o] => res(self.cons.as_mut().unwrap().seek(&s(t), p.parse().unwrap(), o.parse().unwrap()), |_| "ok".into()),
            ["consume", t, p, o] => {
                res(self.cons.as_mut().unwrap().consume_message(&s(t), p.parse().unwrap(), o.parse().unwrap()), |_| "ok".into())
            }
            ["commit"] => res(self.cons.as_mut().unwrap().commit_consumed(), |_| "ok".into()),
            ["subscriptions"] => fmt_subs(self.cons.as_ref().unwrap().subscriptions()),
            ["last_consumed", t, p] => match self.cons.as_ref().unwrap().last_consumed_message(&s(t), p.parse().unwrap()) {
                Some(o) => format!("ok {}", o),
                None => "ok none".into(),
            },
            ["consumer_drop"] => {
                self.cons = None;
                "ok".into()
            }
            ["consumer_into_client"] => {
                self.client = Some(self.cons.take().unwrap().into_client());
                "ok".into()
            }
            ["producer_create", from, opts @ ..] => {
                let mut b = if *from == "client" {
                    Producer::from_client(self.client.take().expect("no client"))
                } else {
                    Producer::from_hosts(hosts_of(from.strip_prefix("hosts=").unwrap()))
                };
                for o in opts {
                    let (k, v) = o.split_once('=').unwrap();
                    b = match k {
                        "compression" => b.with_compression(compression_of(v)),
                        "acktimeout" => {
                            let (a, n) = v.split_once(':').unwrap();
                            b.with_ack_timeout(dur(a, n))
                        }
                        "idle" => b.with_connection_idle_timeout(Duration::from_millis(v.parse().unwrap())),
                        "acks" => b.with_required_acks(acks_of(v.parse().unwrap())),
                        "clientid" => b.with_client_id(s(v)),
                        "partitioner" => b.with_partitioner(DefaultPartitioner::verif_with_counter(v.parse().unwrap())),
                        _ => panic!("bad producer option"),
                    };
                }
                match b.create() {
                    Ok(p) => {
                        self.prod = Some(p);
                        "ok".into()
                    }
                    Err(e) => format!("err {}", err_str(&e)),
                }
            }
            ["send_all", args @ ..] => {
                let topics: Vec<String> = args.chunks(4).map(|c| s(c[0])).collect();
                let kvs: Vec<(Vec<u8>, Vec<u8>)> = args.chunks(4).map(|c| (unhex(c[2]), unhex(c[3]))).collect();
                let recs: Vec<Record<'_, &[u8], &[u8]>> = args
                    .chunks(4)
                    .enumerate()
                    .map(|(i, c)| Record::from_key_value(&topics[i], &kvs[i].0[..], &kvs[i].1[..]).with_partition(c[1].parse().unwrap()))
                    .collect();
                res(self.prod.as_mut().unwrap().send_all(&recs), fmt_confirms)
            }
            ["send", t, p, k, v] => {
                let (t, k, v) = (s(t), unhex(k), unhex(v));
                let rec = Record::from_key_value(&t, &k[..], &v[..]).with_partition(p.parse().unwrap());
                res(self.prod.as_mut().unwrap().send(&rec), |_| "ok".into())
            }
            ["producer_into_client"] => {
                self.client = Some(self.prod.take().unwrap().into_client());
                "ok".into()
            }
            _ => panic!("unknown op: {}", line),
        }
    }

    /// executes one scenario line: `OP …`, `H …` (harness directive) or a broker set-up command
    pub fn line(&mut self, line: &str) {
        let line = line.trim();
        if line.is_empty() || line.starts_with('#') {
            return;
        }
        if let Some(op) = line.strip_prefix("OP ") {
            self.op(op);
        } else if let Some(h) = line.strip_prefix("H ") {
            let toks: Vec<&str> = h.split(' ').collect();
            let mut w = self.world.borrow_mut();
            match toks.as_slice() {
                ["rawreply", k, bytes] => {
                    w.raw_replies.insert(k.parse().unwrap(), unhex(bytes));
                }
                ["unreachable", host] => {
                    w.faults.unreachable.insert(s(host));
                }
                ["reachable", host] => {
                    w.faults.unreachable.remove(&s(host));
                }
                ["fail_send", n] => {
                    let at = w.sends + n.parse::<usize>().unwrap();
                    w.faults.fail_send_at = Some(at);
                }
                ["timeout_send", n] => {
                    let at = w.sends + n.parse::<usize>().unwrap();
                    w.faults.timeout_send_at = Some(at);
                }
                ["fail_recv", n] => {
                    let at = w.recvs + n.parse::<usize>().unwrap();
                    w.faults.fail_recv_at = Some(at);
                }
                ["clear_faults"] => {
                    w.faults.fail_send_at = None;
                    w.faults.timeout_send_at = None;
                    w.faults.fail_recv_at = None;
                    w.faults.timeout_recv_at = None;
                    w.faults.eof_read_at = None;
                    w.faults.timeout_read_at = None;
                    w.faults.write_chunks.clear();
                    w.faults.read_chunks.clear();
                }
                ["write_chunks", cs] => {
                    w.faults.write_chunks = cs.split(',').map(|c| c.parse().unwrap()).collect();
                }
                ["read_chunks", cs] => {
                    w.faults.read_chunks = cs.split(',').map(|c| c.parse().unwrap()).collect();
                }
                ["timeout_recv", n] => {
                    let at = w.recvs + n.parse::<usize>().unwrap();
                    w.faults.timeout_recv_at = Some(at);
                }
                ["timeout_read", n] => {
                    let at = w.reads + n.parse::<usize>().unwrap();
                    w.faults.timeout_read_at = Some(at);
                }
                ["eof_read", n] => {
                    let at = w.reads + n.parse::<usize>().unwrap();
                    w.faults.eof_read_at = Some(at);
                }
                _ => panic!("bad directive {}", h),
            }
        } else {
            self.world.borrow_mut().lean.cmd(line);
        }
    }
}
