//! In-memory transport handed to the real client through the `verif_hooks` connector.
//! Complete request frames are forwarded to the Lean specification broker; its reply is queued
//! for reading.  Scripts can make connects, sends and receives fail.
use std::cell::RefCell;
use std::collections::{HashMap, HashSet, VecDeque};
use std::io::{self, Read, Write};
use std::rc::Rc;

use kafka::client::verif_hooks::{set_connector, HookStream};

use crate::lean::{hex, unhex, Lean};

#[derive(Default)]
pub struct Faults {
    /// hosts that refuse connections
    pub unreachable: HashSet<String>,
    /// fail the n-th send / recv from now (0 = next), counted over all connections
    pub fail_send_at: Option<usize>,
    /// the write call with this index times out (TimedOut / WouldBlock, alternating with the index) instead of failing hard
    pub timeout_send_at: Option<usize>,
    pub fail_recv_at: Option<usize>,
    /// hard cap on requests per operation (turns an endless retry loop into an I/O error)
    pub max_requests_per_op: usize,
    /// successive `write` calls accept at most this many bytes each (then everything)
    pub write_chunks: VecDeque<usize>,
    /// successive `read` calls return at most this many bytes each (then everything asked for)
    pub read_chunks: VecDeque<usize>,
    /// the n-th reply from now: its first read times out, the reply stays in the stream (arrives "late")
    pub timeout_recv_at: Option<usize>,
    /// the n-th read call from now (counted over all reads) hits end-of-stream
    pub eof_read_at: Option<usize>,
    /// the n-th read call from now times out; whatever has not been read yet stays in the stream (arrives "late")
    pub timeout_read_at: Option<usize>,
}

pub struct World {
    pub lean: Lean,
    pub faults: Faults,
    pub sends: usize,
    pub recvs: usize,
    pub reqs_this_op: usize,
    /// raw frames received per host during the current op
    pub frames: Vec<(String, Vec<u8>)>,
    pub aborted_ops: usize,
    pub reads: usize,
    /// (host, bytes of an incomplete frame accepted by the stream) noted when a connection is left with a partial frame
    pub partial: Vec<(String, usize)>,
    /// reply payloads served instead of asking the Lean broker (table extraction, hostile replies)
    pub canned: VecDeque<Vec<u8>>,
    /// number of request frames forwarded since the scenario started
    pub req_index: usize,
    /// raw stream bytes delivered in place of the reply to the request with this index (size prefix included - or not:
    /// the bytes are whatever the "broker" writes)
    pub raw_replies: HashMap<usize, Vec<u8>>,
}

pub type Shared = Rc<RefCell<World>>;

pub struct MemStream {
    host: String,
    world: Shared,
    wbuf: Vec<u8>,
    rbuf: VecDeque<u8>,
}

impl MemStream {
    fn pump(&mut self) -> io::Result<()> {
        // forward every complete frame
        loop {
            if self.wbuf.len() < 4 {
                return Ok(());
            }
            let n = i32::from_be_bytes([self.wbuf[0], self.wbuf[1], self.wbuf[2], self.wbuf[3]]);
            if n < 0 || self.wbuf.len() < 4 + n as usize {
                return Ok(());
            }
            let frame: Vec<u8> = self.wbuf.drain(..4 + n as usize).collect();
            let mut w = self.world.borrow_mut();
            w.reqs_this_op += 1;
            if w.faults.max_requests_per_op > 0 && w.reqs_this_op > w.faults.max_requests_per_op {
                w.aborted_ops += 1;
                let line = format!("IO {} send-fail", hex(self.host.as_bytes()));
                w.lean.log(&line);
                let n = w.reqs_this_op;
                w.lean.log(&format!("NOTE request-cap {}", n));
                return Err(io::Error::new(io::ErrorKind::Other, "watchdog: too many requests in one operation"));
            }
            w.frames.push((self.host.clone(), frame.clone()));
            if let Some(payload) = w.canned.pop_front() {
                self.rbuf.extend((payload.len() as i32).to_be_bytes());
                self.rbuf.extend(payload);
                continue;
            }
            let r = w.lean.req(&self.host, &frame);
            let idx = w.req_index;
            w.req_index += 1;
            if let Some(raw) = w.raw_replies.remove(&idx) {
                let line = format!("RAW {} {}", hex(self.host.as_bytes()), hex(&raw));
                w.lean.log(&line);
                self.rbuf.extend(raw);
                continue;
            }
            if let Some(p) = r.strip_prefix("RESP ") {
                let payload = unhex(p);
                self.rbuf.extend((payload.len() as i32).to_be_bytes());
                self.rbuf.extend(payload);
            }
        }
    }
}

impl Write for MemStream {
    fn write(&mut self, buf: &[u8]) -> io::Result<usize> {
        {
            let mut w = self.world.borrow_mut();
            let idx = w.sends;
            w.sends += 1;
            if w.faults.fail_send_at == Some(idx) {
                let line = format!("IO {} send-fail", hex(self.host.as_bytes()));
                w.lean.log(&line);
                return Err(io::Error::new(io::ErrorKind::BrokenPipe, "injected send failure"));
            }
            if w.faults.timeout_send_at == Some(idx) {
                let line = format!("IO {} send-fail", hex(self.host.as_bytes()));
                w.lean.log(&line);
                let kind = if idx % 2 == 0 { io::ErrorKind::TimedOut } else { io::ErrorKind::WouldBlock };
                return Err(io::Error::new(kind, "injected write time-out"));
            }
        }
        let accept = {
            let mut w = self.world.borrow_mut();
            match w.faults.write_chunks.pop_front() {
                Some(k) => k.max(1).min(buf.len()),
                None => buf.len(),
            }
        };
        self.wbuf.extend_from_slice(&buf[..accept]);
        self.pump()?;
        {
            let mut w = self.world.borrow_mut();
            // remember how much of an incomplete frame sits in this stream
            w.partial.retain(|(h, _)| h != &self.host);
            if !self.wbuf.is_empty() {
                w.partial.push((self.host.clone(), self.wbuf.len()));
            }
        }
        Ok(accept)
    }
    fn flush(&mut self) -> io::Result<()> {
        Ok(())
    }
}

impl Read for MemStream {
    fn read(&mut self, buf: &mut [u8]) -> io::Result<usize> {
        if buf.is_empty() {
            return Ok(0);
        }
        if self.rbuf.is_empty() {
            // nothing will ever arrive: behave like a read time-out
            let mut w = self.world.borrow_mut();
            let line = format!("IO {} recv-fail", hex(self.host.as_bytes()));
            w.lean.log(&line);
            return Err(io::Error::new(io::ErrorKind::TimedOut, "no reply"));
        }
        let limit = {
            let mut w = self.world.borrow_mut();
            let idx = w.reads;
            w.reads += 1;
            if w.faults.eof_read_at == Some(idx) {
                let line = format!("IO {} recv-fail", hex(self.host.as_bytes()));
                w.lean.log(&line);
                return Ok(0);
            }
            if w.faults.timeout_read_at == Some(idx) {
                let line = format!("IO {} recv-fail", hex(self.host.as_bytes()));
                w.lean.log(&line);
                // what was not read yet stays queued on this connection
                let line = format!("NOTE late-reply {}", hex(self.host.as_bytes()));
                w.lean.log(&line);
                return Err(io::Error::new(io::ErrorKind::TimedOut, "injected read time-out (mid-reply)"));
            }
            w.faults.read_chunks.pop_front().unwrap_or(usize::MAX).max(1)
        };
        let n = buf.len().min(self.rbuf.len()).min(limit);
        for b in buf.iter_mut().take(n) {
            *b = self.rbuf.pop_front().unwrap();
        }
        Ok(n)
    }
}

impl HookStream for MemStream {}

/// a stream whose first read of a reply fails as scripted (checked per reply, at the size prefix)
pub struct FaultyRecv {
    inner: MemStream,
}

impl Write for FaultyRecv {
    fn write(&mut self, buf: &[u8]) -> io::Result<usize> {
        self.inner.write(buf)
    }
    fn flush(&mut self) -> io::Result<()> {
        Ok(())
    }
}

impl Read for FaultyRecv {
    fn read(&mut self, buf: &mut [u8]) -> io::Result<usize> {
        // a reply starts with the 4-byte size read
        if buf.len() == 4 {
            let mut w = self.inner.world.borrow_mut();
            let idx = w.recvs;
            w.recvs += 1;
            if w.faults.timeout_recv_at == Some(idx) {
                let line = format!("IO {} recv-fail", hex(self.inner.host.as_bytes()));
                w.lean.log(&line);
                let line = format!("NOTE late-reply {}", hex(self.inner.host.as_bytes()));
                w.lean.log(&line);
                // the reply is NOT lost: it stays queued and "arrives late"
                return Err(io::Error::new(io::ErrorKind::TimedOut, "injected read time-out"));
            }
            if w.faults.fail_recv_at == Some(idx) {
                let line = format!("IO {} recv-fail", hex(self.inner.host.as_bytes()));
                w.lean.log(&line);
                // the reply is lost with the failure
                drop(w);
                self.inner.rbuf.clear();
                return Err(io::Error::new(io::ErrorKind::ConnectionReset, "injected recv failure"));
            }
        }
        self.inner.read(buf)
    }
}

impl HookStream for FaultyRecv {}

pub fn install(world: &Shared) {
    let w2 = world.clone();
    set_connector(Some(Box::new(move |host: &str| {
        let ok = !w2.borrow().faults.unreachable.contains(host);
        {
            let mut w = w2.borrow_mut();
            let line = format!("CONNECT {} {}", hex(host.as_bytes()), if ok { "ok" } else { "fail" });
            w.lean.log(&line);
        }
        if !ok {
            return Err(io::Error::new(io::ErrorKind::ConnectionRefused, "unreachable (scripted)"));
        }
        Ok(Box::new(FaultyRecv {
            inner: MemStream { host: host.to_string(), world: w2.clone(), wbuf: Vec::new(), rbuf: VecDeque::new() },
        }) as Box<dyn HookStream>)
    })));
}

pub fn new_world() -> Shared {
    let w = Rc::new(RefCell::new(World {
        lean: Lean::spawn(),
        faults: Faults { max_requests_per_op: 64, ..Default::default() },
        sends: 0,
        recvs: 0,
        reqs_this_op: 0,
        frames: Vec::new(),
        aborted_ops: 0,
        reads: 0,
        partial: Vec::new(),
        canned: VecDeque::new(),
        req_index: 0,
        raw_replies: HashMap::new(),
    }));
    install(&w);
    w
}

#[allow(dead_code)]
pub fn unused(_: HashMap<u8, u8>) {}
